"""C20 — bandit-baseline leaves the git repository as it found it.

Real throw-away git repositories (3 commits; on a branch and with a detached HEAD) under one
mkdtemp; `bandit.cli.baseline.main()` is run in-process (module re-imported per case so that its
import-time `bandit_args = sys.argv[1:]` is what a fresh `bandit-baseline` process would see) with

  * `subprocess.check_output` replaced in THIS process by a stand-in producing each outcome
    (exit 0/1/2/3, SIGKILL/SIGTERM, executable missing, KeyboardInterrupt, other exceptions) at each
    of the two steps,
  * `git.cmd.Git.execute` wrapped so that the parent / current / clean-up `git reset` can be made to
    fail (GitCommandError, no effect — what an index.lock does),
  * additionally: real fake-`bandit` executables on PATH (real CalledProcessError / negative
    return codes / FileNotFoundError), a real SIGINT sent to a `bandit-baseline` child process, a real
    `.git/index.lock`, and unpatched end-to-end runs with the real `bandit` from /venv/bin.

After every run HEAD, the symbolic ref, all refs, `git status --porcelain`, the content hash of every
file of the working tree, the private TMPDIR and the exit status are observed and
  (1) compared with the Lean model (`baseline_tool` driver op, shape = `Bandit.Gen.baselineShape`),
  (2) judged by a spec oracle written here from the property text (restored / refused / exit status).
"""
import hashlib, importlib, json, os, shutil, signal, stat, subprocess, sys, tempfile, time

import common as C

LEVEL = "proof"
GIT = "/usr/bin/git"
PRECIOUS = "precious untracked work of the user\n"
F_TRY = "C20-no-try-finally"
F_CLOB = "C20-untracked-clobbered"

RUNS_RETURNING = [["exit", 0], ["exit", 1], ["exit", 2], ["exit", 3], ["signal", 9], ["signal", 15]]
RUNS_RAISING = [["missing"], ["interrupt"], ["other", "RuntimeError"], ["other", "PermissionError"]]
ALL_RUNS = RUNS_RETURNING + RUNS_RAISING
OK_SC = {"co1": "ok", "run1": ["exit", 0], "co2": "ok", "run2": ["exit", 0], "co3": "ok"}


def returns(run):
    return run[0] in ("exit", "signal")


def rc_of(run):
    return run[1] if run[0] == "exit" else -run[1]


# ----------------------------------------------------------------------------- scratch repositories
class World:
    """All files of one check run: template repositories, per-case copies, fake executables."""

    def __init__(self):
        self.root = os.path.realpath(tempfile.mkdtemp(prefix="bverif_c20_"))
        self.k = 0
        self.home = os.path.join(self.root, "home")
        os.makedirs(self.home)
        self.genv = dict(os.environ, GIT_CONFIG_GLOBAL="/dev/null", GIT_CONFIG_SYSTEM="/dev/null", GIT_CONFIG_NOSYSTEM="1",
                         HOME=self.home, GIT_CEILING_DIRECTORIES=self.root, GIT_AUTHOR_NAME="v", GIT_AUTHOR_EMAIL="v@example.invalid",
                         GIT_COMMITTER_NAME="v", GIT_COMMITTER_EMAIL="v@example.invalid", GIT_AUTHOR_DATE="2020-01-01T00:00:00Z",
                         GIT_COMMITTER_DATE="2020-01-01T00:00:00Z", LC_ALL="C")
        for k in ("GIT_DIR", "GIT_WORK_TREE", "GIT_INDEX_FILE"):
            self.genv.pop(k, None)
        self.tmpl = {}
        self._build_templates()

    def git(self, d, *args, check=True):
        d = os.path.realpath(d)
        if not (d + os.sep).startswith(self.root + os.sep):          # never touch anything but our own repositories
            raise RuntimeError("refusing to run git outside the scratch root: " + d)
        p = subprocess.run([GIT, "-C", d] + list(args), env=self.genv, stdout=subprocess.PIPE, stderr=subprocess.PIPE, text=True)
        if check and p.returncode != 0:
            raise RuntimeError(f"git {args} failed in {d}: {p.stderr}")
        return p.stdout.rstrip("\n")

    def _w(self, d, name, text):
        p = os.path.join(d, name)
        os.makedirs(os.path.dirname(p), exist_ok=True)
        with open(p, "w") as f:
            f.write(text)

    def _build_templates(self):
        d = os.path.join(self.root, "tmpl_main")
        os.makedirs(d)
        self.git(d, "init", "-q", "-b", "main")
        self._w(d, "a.py", "import os\n")
        self._w(d, "keep.txt", "k\n")
        self._w(d, "sub/c.py", "x = 1\n")
        self.git(d, "add", "-A"); self.git(d, "commit", "-q", "-m", "root")
        self._w(d, "a.py", "import os\nprint(os.getcwd())\n")
        self._w(d, "gone.py", "tracked by the parent commit only\n")
        self.git(d, "add", "-A"); self.git(d, "commit", "-q", "-m", "parent")
        self._w(d, "a.py", "import os\nprint(os.getcwd())\nos.system('ls ' + os.getcwd())\n")
        self._w(d, "b.py", "y = 2\n")
        self.git(d, "rm", "-q", "gone.py")
        self.git(d, "add", "-A"); self.git(d, "commit", "-q", "-m", "current")
        self._w(d, "notes.txt", "an untracked file that is in nobody's way\n")
        self.ids = {"cur": self.git(d, "rev-parse", "HEAD"), "parent": self.git(d, "rev-parse", "HEAD~1"), "root": self.git(d, "rev-parse", "HEAD~2")}
        self.tmpl["branch"] = d
        dd = os.path.join(self.root, "tmpl_detached")
        shutil.copytree(d, dd, symlinks=True)
        self.git(dd, "checkout", "-q", "--detach")
        self.tmpl["detached"] = dd
        s = os.path.join(self.root, "tmpl_single")
        os.makedirs(s)
        self.git(s, "init", "-q", "-b", "main")
        self._w(s, "a.py", "import os\n")
        self._w(s, "sub/c.py", "x = 1\n")
        self.git(s, "add", "-A"); self.git(s, "commit", "-q", "-m", "only")
        self.single_id = self.git(s, "rev-parse", "HEAD")
        self.tmpl["single"] = s

    def fresh_dir(self, name):
        self.k += 1
        d = os.path.join(self.root, f"case{self.k:05d}", name)
        os.makedirs(d)
        return d

    def close(self):
        def onerr(func, path, exc):
            try:
                os.chmod(path, stat.S_IRWXU)
                func(path)
            except OSError:
                pass
        shutil.rmtree(self.root, onerror=onerr)


def sha_file(p):
    h = hashlib.sha256()
    try:
        with open(p, "rb") as f:
            h.update(f.read())
    except OSError as e:
        return "unreadable:" + type(e).__name__
    return h.hexdigest()[:16]


def snapshot(W, repo_dir, tmpdir, is_repo=True):
    """Everything the property talks about, as plain data."""
    files = {}
    for base, dirs, names in os.walk(repo_dir):
        if ".git" in dirs and base == repo_dir:
            dirs.remove(".git")
        for n in names:
            p = os.path.join(base, n)
            files[os.path.relpath(p, repo_dir)] = sha_file(p)
    s = {"files": files, "tmp": sorted(os.listdir(tmpdir))}
    if is_repo:
        s["head"] = W.git(repo_dir, "rev-parse", "HEAD")
        s["symref"] = W.git(repo_dir, "symbolic-ref", "-q", "HEAD", check=False) or None
        s["refs"] = W.git(repo_dir, "for-each-ref", "--format=%(refname) %(objectname)")
        s["status"] = sorted(W.git(repo_dir, "status", "--porcelain", "--untracked-files=all").splitlines())
    return s


# ----------------------------------------------------------------------------- fault injection
class SelfTermination(BaseException):
    """raised in place of the tool ending its own process"""


class Inject:
    """Patches installed in the harness process around one run of the tool (nothing in /repo is edited)."""

    def __init__(self, W, case, tmpdir, fakebin=None):
        self.W, self.case, self.tmpdir, self.fakebin = W, case, tmpdir, fakebin
        self.sc = case.get("sc") or OK_SC
        self.phase = "co1"
        self.bandit_calls = []       # (argv, HEAD at the time of the call)
        self.actual = {}             # what really happened at run1/run2 (recorded for exec/real mechanisms)
        self.resets = []

    # -- stand-in for `bandit` (mechanism "patch")
    def _write_o(self, argv):
        for i, a in enumerate(argv[:-1]):
            if a == "-o":
                with open(argv[i + 1], "w") as f:
                    f.write('{"results": [], "written_by": "c20 stand-in"}\n')

    def _standin(self, argv, which):
        run = self.sc[which]
        kind = run[0]
        if kind == "exit":
            if run[1] in (0, 1):
                self._write_o(argv)
            if run[1] == 0:
                return b"stand-in output\n"
            raise subprocess.CalledProcessError(run[1], argv, output=b"stand-in output\n")
        if kind == "signal":
            raise subprocess.CalledProcessError(-run[1], argv, output=b"")
        if kind == "missing":
            raise FileNotFoundError(2, "No such file or directory", "bandit")
        if kind == "interrupt":
            raise KeyboardInterrupt()
        if run[1:] == ["PermissionError"]:
            raise PermissionError(13, "Permission denied", "bandit")
        raise RuntimeError("injected failure of the bandit subprocess machinery")

    def check_output(self, cmd, *a, **kw):
        argv = list(cmd) if isinstance(cmd, (list, tuple)) else [cmd]
        if os.path.basename(str(argv[0])) != "bandit":
            return self.orig_check_output(cmd, *a, **kw)
        which = "run1" if self.phase in ("co1", "run1") else "run2"
        try:
            head = self.W.git(os.getcwd(), "rev-parse", "HEAD")
        except RuntimeError:
            head = None
        self.bandit_calls.append((argv, head))
        try:
            if self.case["mech"] == "patch":
                out = self._standin(argv, which)
            else:
                out = self.orig_check_output(cmd, *a, **kw)
            self.actual[which] = ["exit", 0]
            self.phase = "co2" if which == "run1" else "co3"
            return out
        except subprocess.CalledProcessError as e:
            self.actual[which] = ["exit", e.returncode] if e.returncode >= 0 else ["signal", -e.returncode]
            self.phase = "co2" if which == "run1" else "co3"
            raise
        except BaseException as e:
            self.actual[which] = ["missing"] if isinstance(e, FileNotFoundError) else ["interrupt"] if isinstance(e, KeyboardInterrupt) else ["other", type(e).__name__]
            self.phase = "co3"
            raise

    # -- failing checkouts
    def git_execute(self, git_self, command, *a, **kw):
        cmd = [str(c) for c in command] if isinstance(command, (list, tuple)) else [str(command)]
        if len(cmd) > 1 and cmd[1] in ("reset", "checkout", "switch", "restore"):
            point = self.phase if self.phase in ("co1", "co2", "co3") else "co3"
            self.resets.append(point)
            if self.sc.get(point) == "fail" and not self.case.get("real_lock"):
                self.phase = "co3"
                import git
                raise git.exc.GitCommandError(cmd, 128, b"fatal: Unable to create '.git/index.lock': File exists. (injected)")
            try:
                r = self.orig_execute(git_self, command, *a, **kw)
            except BaseException:
                self.phase = "co3"
                raise
            self.phase = {"co1": "run1", "co2": "run2", "co3": "done"}[point]
            return r
        return self.orig_execute(git_self, command, *a, **kw)

    def __enter__(self):
        import git, git.cmd
        self.orig_check_output = subprocess.check_output
        subprocess.check_output = self.check_output
        self.orig_execute = git.cmd.Git.execute
        inj = self
        git.cmd.Git.execute = lambda git_self, command, *a, **kw: inj.git_execute(git_self, command, *a, **kw)
        self.orig_repo = None
        if self.case["pre"]["kind"] == "git_cmd_missing":
            self.orig_repo = git.Repo

            def no_git(*a, **kw):
                raise git.exc.GitCommandNotFound("git", "injected: git executable not found")
            git.Repo = no_git
        self.old_tempdir = tempfile.tempdir
        tempfile.tempdir = self.tmpdir
        # a tool that ends its OWN process (os.kill(os.getpid(), …), os._exit, signal.raise_signal) would take this harness with it: record the attempt, let the
        # tool see an exception instead; the child-process mechanism observes what such an exit really leaves behind
        self.self_exit = None
        self.orig_kill, self.orig__exit, self.orig_raise_signal = os.kill, os._exit, signal.raise_signal
        me = os.getpid()

        def guarded_kill(pid, sig):
            if pid == me:
                inj.self_exit = "os.kill(os.getpid(), %s)" % sig
                raise SelfTermination(inj.self_exit)
            return inj.orig_kill(pid, sig)

        def guarded_exit(code=0):
            inj.self_exit = "os._exit(%s)" % code
            raise SelfTermination(inj.self_exit)

        def guarded_raise(sig):
            inj.self_exit = "signal.raise_signal(%s)" % sig
            raise SelfTermination(inj.self_exit)
        os.kill, os._exit, signal.raise_signal = guarded_kill, guarded_exit, guarded_raise
        self.saved_fd2 = None
        if self.case["mech"] == "real":          # the real bandit children log to the inherited stderr
            sys.stderr.flush()
            self.saved_fd2 = os.dup(2)
            dn = os.open(os.devnull, os.O_WRONLY)
            os.dup2(dn, 2)
            os.close(dn)
        self.old_env = {k: os.environ.get(k) for k in ("PATH", "TMPDIR", "HOME", "GIT_CONFIG_GLOBAL", "GIT_CONFIG_SYSTEM", "GIT_CONFIG_NOSYSTEM",
                                                        "GIT_CEILING_DIRECTORIES", "C20_STATE")}
        for k in ("HOME", "GIT_CONFIG_GLOBAL", "GIT_CONFIG_SYSTEM", "GIT_CONFIG_NOSYSTEM", "GIT_CEILING_DIRECTORIES"):
            os.environ[k] = self.W.genv[k]
        os.environ["TMPDIR"] = self.tmpdir
        if self.fakebin is not None:
            os.environ["PATH"] = self.fakebin + os.pathsep + "/usr/bin" + os.pathsep + "/bin"
            os.environ["C20_STATE"] = self.fakebin
        return self

    def __exit__(self, *exc):
        import git, git.cmd
        subprocess.check_output = self.orig_check_output
        git.cmd.Git.execute = self.orig_execute
        if self.orig_repo is not None:
            git.Repo = self.orig_repo
        tempfile.tempdir = self.old_tempdir
        os.kill, os._exit, signal.raise_signal = self.orig_kill, self.orig__exit, self.orig_raise_signal
        if self.saved_fd2 is not None:
            os.dup2(self.saved_fd2, 2)
            os.close(self.saved_fd2)
        for k, v in self.old_env.items():
            if v is None:
                os.environ.pop(k, None)
            else:
                os.environ[k] = v
        return False


FAKE_BANDIT = r"""#!/bin/sh
# stand-in `bandit` executable of the C20 harness: behaviour of call number n is in $C20_STATE/beh<n>
n=$(cat "$C20_STATE/count" 2>/dev/null || echo 0); n=$((n+1)); echo $n > "$C20_STATE/count"
out=""; prev=""
for a in "$@"; do if [ "$prev" = "-o" ]; then out="$a"; fi; prev="$a"; done
beh=$(cat "$C20_STATE/beh$n")
if [ -e "$C20_STATE/vanish$n" ]; then rm -f "$0"; fi
case "$beh" in
  exit:*) code=${beh#exit:}
          if [ -n "$out" ] && [ "$code" -le 1 ]; then echo '{"results": []}' > "$out"; fi
          echo "fake bandit call $n"; exit "$code";;
  signal:*) kill -${beh#signal:} $$; sleep 5;;
  sleep) : > "$C20_STATE/ready$n"; exec sleep 30;;
esac
exit 0
"""


def make_fakebin(W, sc, sleep_at=None):
    """A directory holding a fake `bandit` whose two calls behave as the scenario says.  `missing` at step 1
    = no executable at all; `missing` at step 2 = the executable removes itself during its first call."""
    d = W.fresh_dir("bin")
    runs = [sc["run1"], sc["run2"]]
    if runs[0][0] != "missing":
        p = os.path.join(d, "bandit")
        with open(p, "w") as f:
            f.write(FAKE_BANDIT)
        os.chmod(p, 0o755)
    for i, r in enumerate(runs, 1):
        beh = "sleep" if sleep_at == i else f"{r[0]}:{r[1]}" if r[0] in ("exit", "signal") else "exit:0"
        with open(os.path.join(d, f"beh{i}"), "w") as f:
            f.write(beh)
    if runs[1][0] == "missing":
        open(os.path.join(d, "vanish1"), "w").close()
    return d


# ----------------------------------------------------------------------------- one case
def module_consts():
    from bandit.cli import baseline
    return (getattr(baseline, "report_basename", "bandit_baseline_result"), getattr(baseline, "baseline_tmp_file", "_bandit_baseline_run.json_"))


def canonical_sc(sc):
    """Outcomes of points that are never reached do not matter: normalise them."""
    sc = dict(sc)
    if sc["co1"] == "fail":
        sc["run1"], sc["co2"], sc["run2"] = ["exit", 0], "ok", ["exit", 0]
    elif not returns(sc["run1"]):
        sc["co2"], sc["run2"] = "ok", ["exit", 0]
    elif sc["co2"] == "fail":
        sc["run2"] = ["exit", 0]
    return sc


def model_request(case, shape="gen"):
    pre, rp = case["pre"], case["repo"]
    sc = case.get("sc") or OK_SC
    norm = lambda r: [r[0], r[1]] if r[0] in ("exit", "signal") else [r[0]]
    return {"op": "baseline_tool", "shape": shape,
            "pre": {"usage_ok": pre["usage"] == "ok", "git_module": pre["git_module"], "kind": {"root": "root", "plain_dir": "not_repo", "subdir": "not_repo",
                                                                                                  "git_cmd_missing": "git_cmd_missing"}[pre["kind"]],
                    "fmt_file": case["fmt"] is not None, "dash_o": pre["dash_o"], "has_parent": pre["has_parent"]},
            "repo": {"on_branch": case["head_mode"] == "branch", "dirty": rp["dirty"] is not None, "precious": rp["precious"], "report": rp["report"],
                     "cwd_tmp": rp["cwd_tmp"]},
            "sc": {"co1": sc["co1"], "run1": norm(sc["run1"]), "co2": sc["co2"], "run2": norm(sc["run2"]), "co3": sc["co3"]}}


def spec_domain(case):
    """Python-side reading of the property's quantifier: is restoration demanded for this scenario?
    (every single point of failure, every pair of exit statuses; not: git failing twice in a row)"""
    sc = case.get("sc") or OK_SC
    quiet = sc["co1"] == "ok" and returns(sc["run1"]) and sc["co2"] == "ok" and returns(sc["run2"])
    return sc["co3"] == "ok" or quiet or sc["co1"] == "fail"


def must_refuse(case):
    pre, rp = case["pre"], case["repo"]
    return bool(rp["dirty"] is not None or pre["kind"] != "root" or pre["dash_o"] or (case["fmt"] is not None and rp["report"]) or rp["cwd_tmp"])


def build_repo(W, case):
    """Returns (repo_dir or None, cwd for the tool, ids)."""
    pre, rp = case["pre"], case["repo"]
    name = "single" if not pre["has_parent"] else case["head_mode"]
    if pre["kind"] == "plain_dir":
        d = W.fresh_dir("plain")
        W._w(d, "a.py", "import os\n")
        repo_dir, cwd = None, d
    else:
        d = W.fresh_dir("r")
        os.rmdir(d)
        shutil.copytree(W.tmpl[name], d, symlinks=True)
        if name == "single" and case["head_mode"] == "detached":
            W.git(d, "checkout", "-q", "--detach")
        repo_dir, cwd = d, (os.path.join(d, "sub") if pre["kind"] == "subdir" else d)
    base, tmpname = module_consts()
    if rp["dirty"] == "unstaged":
        W._w(d, "a.py", "import os\n# edited, not committed\n")
    elif rp["dirty"] == "staged":
        W._w(d, "staged_new.py", "z = 3\n")
        if repo_dir:
            W.git(d, "add", "staged_new.py")
    if rp["precious"]:
        W._w(d, "gone.py", PRECIOUS)
    report = os.path.join(cwd, f"{base}.{case['fmt'] or 'terminal'}")
    if rp["report"]:
        W._w(cwd, os.path.basename(report), "an older report\n")
    if rp["cwd_tmp"]:
        W._w(cwd, tmpname, "stale\n")
    if case.get("real_lock") and repo_dir:
        W._w(d, ".git/index.lock", "")
    return repo_dir, cwd, report


def argv_of(case):
    pre = case["pre"]
    if pre["usage"] == "no_targets":
        argv = []
    elif pre["usage"] == "bad_format":
        argv = ["-f", "xml", "a.py"]
    else:
        argv = ["a.py"]
    if case["fmt"] is not None and pre["usage"] != "bad_format":
        argv = ["-f", case["fmt"]] + argv
    if pre["dash_o"]:
        argv = argv + ["-o", "elsewhere.txt"]
    return argv


def run_tool_inprocess(argv, cwd, git_module=True):
    """A fresh `bandit-baseline <argv>` process, in-process: re-import the module under the command line."""
    from bandit.cli import baseline
    old_argv = sys.argv
    saved_git = {k: v for k, v in sys.modules.items() if k == "git" or k.startswith("git.")}
    try:
        sys.argv = ["bandit-baseline"] + list(argv)
        if not git_module:
            for k in saved_git:
                sys.modules.pop(k, None)
            sys.modules["git"] = None            # `import git` raises ImportError, as without the baseline extra
        importlib.reload(baseline)
    finally:
        sys.argv = old_argv
        if not git_module:
            sys.modules.pop("git", None)
            sys.modules.update(saved_git)
    return C.run_cli(argv, cwd=cwd, entry="baseline")


def run_tool_sigint(W, argv, cwd, tmpdir, fakebin, step):
    """A real `bandit-baseline` child process that receives SIGINT while its `bandit` subprocess is running."""
    env = dict(W.genv, PATH=fakebin + os.pathsep + "/usr/bin" + os.pathsep + "/bin", TMPDIR=tmpdir, C20_STATE=fakebin,
               PYTHONPATH=os.environ.get("PYTHONPATH", ""))
    code = ("import sys\nfrom bandit.cli import baseline\n"
            "try:\n    baseline.main()\nexcept SystemExit:\n    raise\n"
            "except BaseException as e:\n    sys.stderr.write('ESCAPED:' + type(e).__name__ + '\\n'); sys.exit(99)\n")
    # SIGINT back to its default disposition in the child: a check started in the background of a non-interactive shell (`cmd &`, nohup) inherits SIGINT
    # *ignored*, CPython then installs no KeyboardInterrupt handler, the signal is lost and the tool simply finishes (seen once as a correspondence break
    # "impl exit 0 / model KeyboardInterrupt" when the quick tier was run with `&`)
    p = subprocess.Popen(["/venv/bin/python", "-c", code] + list(argv), cwd=cwd, env=env, stdout=subprocess.PIPE, stderr=subprocess.PIPE, text=True,
                         preexec_fn=lambda: signal.signal(signal.SIGINT, signal.SIG_DFL))
    if step is not None:
        ready = os.path.join(fakebin, f"ready{step}")
        t0 = time.time()
        while not os.path.exists(ready) and p.poll() is None and time.time() - t0 < 30:
            time.sleep(0.01)
        if p.poll() is None:
            time.sleep(0.05)
            p.send_signal(signal.SIGINT)
    try:
        out, err = p.communicate(timeout=60)
    except subprocess.TimeoutExpired:
        p.kill()
        out, err = p.communicate()
    res = {"exit": p.returncode, "out": out, "err": err, "exc": None}
    for line in err.splitlines():
        if line.startswith("ESCAPED:"):
            res["exc"] = line.split(":", 1)[1]
    return res


def exc_name(n):
    return n if n in ("FileNotFoundError", "KeyboardInterrupt", "GitCommandError") else "other"


def observe(W, case, repo_dir, cwd, report, after, r):
    base, tmpname = module_consts()
    ids = W.ids if case["pre"]["has_parent"] else {"cur": W.single_id}
    rev = {v: k for k, v in ids.items()}
    o = {"tmp_dirs": len(after["tmp"]), "report": os.path.exists(report), "cwd_tmp": os.path.exists(os.path.join(cwd, tmpname)),
         "precious": (lambda p: os.path.exists(p) and open(p).read() == PRECIOUS)(os.path.join(repo_dir or cwd, "gone.py"))}
    if repo_dir is not None:
        o["head"] = rev.get(after["head"], "other")
        if after["symref"]:
            tip = W.git(repo_dir, "rev-parse", after["symref"])
            o["branch"] = rev.get(tip, "other")
        else:
            o["branch"] = None
        tracked_dirty = W.git(repo_dir, "status", "--porcelain", "--untracked-files=no") != ""
        o["dirty"] = tracked_dirty
        # `work` = the commit the index and the tracked files are based on; local modifications are the `dirty` flag
        o["work"] = o["head"]
    if r["exc"] is not None:
        o["exit"] = {"raised": exc_name(r["exc"])}
    else:
        o["exit"] = {"code": r["exit"]}
    return o


def restoration_diffs(before, after, report_rel, report_asked):
    """Spec oracle, from the property text: same HEAD, same branch pointing at it, working tree unchanged apart
    from the report it was asked to write, no leftover temporary files."""
    diffs = []
    for k in ("head", "symref", "refs"):
        if before.get(k) != after.get(k):
            diffs.append({"what": k, "before": before.get(k), "after": after.get(k)})
    fa = dict(after["files"])
    sa = list(after.get("status", []))
    if report_asked and report_rel not in before["files"]:
        fa.pop(report_rel, None)
        sa = [l for l in sa if l != "?? " + report_rel]
    if fa != before["files"]:
        ch = sorted(set(fa.items()) ^ set(before["files"].items()))
        diffs.append({"what": "working tree", "changed": sorted({p for p, _ in ch})[:8]})
    if sa != before.get("status", []):
        diffs.append({"what": "git status --porcelain", "before": before.get("status"), "after": sa})
    if after["tmp"] != before["tmp"]:
        diffs.append({"what": "leftover temporary files", "left": after["tmp"][:5]})
    return diffs


def without(snap, rel):
    """the snapshot with one path projected out"""
    s = dict(snap)
    s["files"] = {k: v for k, v in snap["files"].items() if k != rel}
    if "status" in snap:
        s["status"] = [l for l in snap["status"] if not l.endswith(" " + rel)]
    return s


def run_case(W, case, driver, res):
    """Runs one case against the real tool; compares with model and spec.  Returns a record for samples."""
    case = dict(case)
    if case.get("sc"):
        case["sc"] = canonical_sc(case["sc"])
    sc = case.get("sc") or OK_SC
    repo_dir, cwd, report = build_repo(W, case)
    tmpdir = W.fresh_dir("tmp")
    root_dir = repo_dir or cwd
    is_repo = repo_dir is not None
    before = snapshot(W, root_dir, tmpdir, is_repo)
    argv = argv_of(case)
    fakebin = None
    if case["mech"] in ("exec", "sigint", "child"):
        fakebin = make_fakebin(W, sc, sleep_at=case.get("sigint_step"))
    inj = Inject(W, case, tmpdir, fakebin)
    if case["mech"] in ("sigint", "child"):
        # "child": the tool runs as a real child process whose `bandit` is the fake executable (which may end by a signal); nothing is patched
        r = run_tool_sigint(W, argv, cwd, tmpdir, fakebin, case.get("sigint_step"))
        if r["exit"] is not None and r["exit"] < 0:
            pass
    else:
        with inj:
            r = run_tool_inprocess(argv, cwd, case["pre"]["git_module"])
    if case.get("real_lock") and repo_dir:
        os.unlink(os.path.join(repo_dir, ".git", "index.lock"))
    after = snapshot(W, root_dir, tmpdir, is_repo)
    obs = observe(W, case, repo_dir, cwd, report, after, r)
    report_rel = os.path.relpath(report, root_dir)
    rec = {"case": case, "argv": argv, "observed": obs}
    key = json.dumps(case, sort_keys=True)

    # ---- harness sanity: with real executables the outcomes that really happened must be the intended ones
    if case["mech"] == "exec":
        for which in ("run1", "run2"):
            if which in inj.actual and inj.actual[which][:2] != sc[which][:2] and not (inj.actual[which][0] == sc[which][0] == "other"):
                res.break_("harness", {"case": case, "intended": sc[which], "happened": inj.actual[which]})
    if case["mech"] == "real":
        # unpatched run: the scenario is what really happened
        sc = dict(OK_SC, **{k: v for k, v in inj.actual.items()})
        case["sc"] = sc
        rec["case"] = case

    # ---- (1) correspondence with the Lean model
    model = None
    if driver is not None:
        model = driver.ask(model_request(case))
        if "error" in model:
            res.break_("driver-error", model["error"])
            model = None
    comparable = ["tmp_dirs", "report", "cwd_tmp", "precious"] + (["exit"] if case["mech"] != "child" else []) + (["head", "branch", "work", "dirty"] if is_repo else [])
    agree = None
    if model is not None:
        mfinal = dict(model["final"], exit=model["exit"])
        mis = {k: {"impl": obs.get(k), "model": mfinal.get(k)} for k in comparable if obs.get(k) != mfinal.get(k)}
        agree = not mis
        rec["model"] = mfinal
        if mis:
            res.break_("correspondence", {"case": case, "argv": argv, "mismatch": mis})
            res.count("correspondence-mismatch")
        # where the two runs happened (the model resets to the step's commit before each run)
        if case["mech"] not in ("sigint", "child") and is_repo and case["pre"]["has_parent"]:
            heads = [h for _, h in inj.bandit_calls]
            want = [W.ids["parent"], W.ids["cur"]][:len(heads)]
            if heads != want:
                res.break_("correspondence", {"case": case, "runs_happened_at": heads, "model_expects": want})
        # the harness' reading of the quantifier must be the Lean one
        if model["spec"]["recoverable"] != spec_domain(case) or model["spec"]["must_refuse"] != must_refuse(case):
            res.break_("spec-transcription", {"case": case, "lean": model["spec"], "python": {"recoverable": spec_domain(case), "must_refuse": must_refuse(case)}})

    # ---- (2) spec oracle on the implementation's behaviour
    viol = []
    diffs = restoration_diffs(before, after, report_rel, case["fmt"] is not None)
    if report_rel in after["files"] and report_rel not in before["files"] and case["fmt"] is None:
        diffs.append({"what": "a report file nobody asked for", "file": report_rel})
    if must_refuse(case):
        if obs["exit"] != {"code": 2}:
            viol.append(("did not refuse to start (exit status 2 expected)", {"exit": obs["exit"]}))
        if inj.bandit_calls:
            viol.append(("ran bandit although it had to refuse", {"calls": len(inj.bandit_calls)}))
        if diffs:
            viol.append(("changed the repository although it had to refuse", {"diffs": diffs}))
    elif spec_domain(case):
        known = []
        if diffs:
            lost_precious = case["repo"]["precious"] and not obs["precious"]
            other = restoration_diffs(without(before, "gone.py"), without(after, "gone.py"), report_rel, case["fmt"] is not None) if lost_precious else diffs
            attributable = model is not None and agree and not model["spec"]["restored"]
            if lost_precious:
                if attributable and model["final"]["precious"] is False:
                    known.append(F_CLOB)
                else:
                    viol.append(("an untracked file of the user was destroyed", {"diffs": diffs}))
            if other:
                unprotected = model is not None and not (model["shape"]["rmtree_in_finally"] and model["shape"]["reset_in_finally"])
                if attributable and unprotected and not model["spec"]["quiet"]:
                    known.append(F_TRY)
                else:
                    viol.append(("repository not restored", {"diffs": other}))
        for k in known:
            res.known_finding(k)
        rec["known"] = known
    quiet = sc["co1"] == "ok" and returns(sc["run1"]) and sc["co2"] == "ok" and returns(sc["run2"])
    ran = (not must_refuse(case) and case["pre"]["usage"] == "ok" and case["pre"]["git_module"] and case["pre"]["has_parent"])
    if ran and quiet and sc["co3"] == "ok" and case["mech"] not in ("sigint", "child"):
        if obs["exit"] != {"code": rc_of(sc["run2"])}:
            viol.append(("exit status is not that of the comparison run", {"exit": obs["exit"], "comparison_run": sc["run2"], "first_run": sc["run1"]}))
        if case["fmt"] is not None and sc["run2"] in (["exit", 0], ["exit", 1]) and not obs["report"]:
            viol.append(("the report it was asked to write is missing", {"report": report_rel}))
    if getattr(inj, "self_exit", None):
        viol.append(("the tool tried to end its own process (%s) inside the guarded region: no clean-up code would run" % inj.self_exit, {"call": inj.self_exit}))
    if case["mech"] == "child" and r["exit"] is not None and r["exit"] < 0:
        viol.append(("the tool's own process was ended by a signal while the repository was switched to the parent commit", {"signal": -r["exit"]}))
    for what, detail in viol:
        res.violation(what, {"case": case, "argv": argv, "observed": obs, "detail": detail, "model": rec.get("model"),
                             "tool_stdout_tail": r["out"][-600:], "tool_exception": r.get("exc_msg")})
    rec["spec_diffs"] = diffs
    rec["verdict"] = "violation" if viol else ("known" if rec.get("known") else "ok")

    # ---- bookkeeping
    nontrivial = must_refuse(case) or sc != OK_SC or case["mech"] in ("real", "exec", "sigint", "child") or not ran or case["repo"]["precious"]
    res.case(key, nontrivial)
    res.count("mech:" + case["mech"])
    res.count("head:" + case["head_mode"])
    res.count("fmt:" + str(case["fmt"]))
    if must_refuse(case):
        res.count("refusal-row")
    elif ran:
        for w in ("run1", "run2"):
            if w == "run1" or (sc["co1"] == "ok" and returns(sc["run1"]) and sc["co2"] == "ok"):
                res.count(f"{w}:{sc[w][0]}" + (f":{sc[w][1]}" if len(sc[w]) > 1 else ""))
        for c in ("co1", "co2", "co3"):
            if sc[c] == "fail":
                res.count(c + ":fail")
    res.count("verdict:" + rec["verdict"])
    return rec


def _run_child(W, argv, cwd, tmpdir, fakebin, close_stdout_when=None):
    """`bandit-baseline argv` as a real child process with the fake `bandit` on PATH.  close_stdout_when: a file whose appearance tells that the tool is inside
    its first bandit run (parent commit checked out) — the harness then closes its end of the tool's stdout, like `| head -3` does."""
    env = dict(W.genv, PATH=fakebin + os.pathsep + "/usr/bin" + os.pathsep + "/bin", TMPDIR=tmpdir, C20_STATE=fakebin, PYTHONPATH=os.environ.get("PYTHONPATH", ""))
    code = "import sys\nfrom bandit.cli import baseline\nbaseline.main()\n"
    p = subprocess.Popen(["/venv/bin/python", "-c", code] + list(argv), cwd=cwd, env=env, stdout=subprocess.PIPE, stderr=subprocess.PIPE)
    if close_stdout_when:
        t0 = time.time()
        while not os.path.exists(close_stdout_when) and p.poll() is None and time.time() - t0 < 30:
            time.sleep(0.01)
        p.stdout.close()
    try:
        p.wait(timeout=90)
    except subprocess.TimeoutExpired:
        p.kill()
        p.wait()
    try:
        err = p.stderr.read().decode("utf-8", "replace")
    except Exception:
        err = ""
    return p.returncode, err


def histories_and_pipes(res, W):
    """(a) several runs of the tool in one repository, with commits in between: what an earlier run left behind (a refused one, too) must not make a later run
    move anything (seeded change C20-m14 kept a crash-recovery note that survived a refused run and hard-reset the branch on the next run);
    (b) the reader of the tool's output goes away while the parent commit is checked out (`bandit-baseline … | head -3`): the repository is still put back
    (seeded change C20-m13 reset SIGPIPE to the default action: the process died on its next write, without running the clean-up)."""
    def fake(nap_at=None):
        d = W.fresh_dir("bin")
        with open(os.path.join(d, "bandit"), "w") as f:
            f.write(FAKE_BANDIT.replace('  sleep) : > "$C20_STATE/ready$n"; exec sleep 30;;', '  sleep) : > "$C20_STATE/ready$n"; exec sleep 30;;\n  nap) : > "$C20_STATE/ready$n"; sleep 1.5; for i in 1 2 3 4 5 6 7 8; do echo "fake bandit line $i"; done; if [ -n "$out" ]; then echo \'{"results": []}\' > "$out"; fi; exit 0;;'))
        os.chmod(os.path.join(d, "bandit"), 0o755)
        for i in (1, 2, 3, 4):
            with open(os.path.join(d, f"beh{i}"), "w") as f:
                f.write("nap" if nap_at == i else "exit:0")
        return d
    # ---- (a) run histories
    d = W.fresh_dir("hist")
    W.git(d, "init", "-q", "-b", "main")
    W._w(d, "a.py", "import os\n")
    W.git(d, "add", "-A"); W.git(d, "commit", "-q", "-m", "root")
    tmpdir = W.fresh_dir("tmp")
    steps = [("run", "root-only commit: must refuse"), ("commit", "b.py"), ("run", "two commits"), ("dirty", None), ("run", "dirty tree: must refuse"), ("clean", None),
             ("commit", "c.py"), ("run", "three commits"), ("run", "again")]
    hist = []
    for op, arg in steps:
        if op == "commit":
            W._w(d, arg, "x = 1\n"); W.git(d, "add", "-A"); W.git(d, "commit", "-q", "-m", arg)
        elif op == "dirty":
            W._w(d, "a.py", "import os\nimport sys\n")
        elif op == "clean":
            W.git(d, "checkout", "-q", "--", "a.py")
        else:
            fb = fake()
            for f in os.listdir(fb):
                if f == "count":
                    os.remove(os.path.join(fb, f))
            before = snapshot(W, d, tmpdir)
            rc, err = _run_child(W, ["a.py"], d, tmpdir, fb)
            after = snapshot(W, d, tmpdir)
            hist.append([arg, rc])
            res.case(("run-history", len(hist)), True)
            res.count("run-history")
            diffs = restoration_diffs(before, after, "bandit_baseline_result.txt", False)
            if diffs:
                res.violation("a run of the tool did not leave the repository as it found it (after earlier runs in the same repository)",
                              {"history (what, exit status)": hist, "this_run": arg, "diffs": diffs, "stderr_tail": err[-400:]})
                break
    # ---- (b) the output reader goes away during the first bandit run
    for head_mode in ("branch", "detached"):
        case = base_case(head_mode=head_mode)
        repo_dir, cwd, report = build_repo(W, case)
        tmpdir = W.fresh_dir("tmp")
        fb = fake(nap_at=1)
        before = snapshot(W, repo_dir, tmpdir)
        rc, err = _run_child(W, ["a.py"], cwd, tmpdir, fb, close_stdout_when=os.path.join(fb, "ready1"))
        after = snapshot(W, repo_dir, tmpdir)
        res.case(("reader-gone", head_mode), True)
        res.count("reader-gone")
        diffs = restoration_diffs(before, after, os.path.relpath(report, repo_dir), False)
        if diffs:
            res.violation("the repository was not restored after the reader of the tool's output went away while the parent commit was checked out",
                          {"head_mode": head_mode, "tool_exit_status": rc, "diffs": diffs, "stderr_tail": err[-400:]})


# ----------------------------------------------------------------------------- enumeration
def base_case(**kw):
    c = {"mech": "patch", "head_mode": "branch", "fmt": None,
         "pre": {"usage": "ok", "git_module": True, "kind": "root", "dash_o": False, "has_parent": True},
         "repo": {"dirty": None, "precious": False, "report": False, "cwd_tmp": False}, "sc": dict(OK_SC)}
    for k, v in kw.items():
        if k in ("pre", "repo", "sc"):
            c[k] = dict(c[k], **(v or {}))
        else:
            c[k] = v
    return c


def outcome_cases(thorough):
    """2 steps x all outcome kinds (every pair), x {branch, detached} x {terminal, report file};
    plus every combination of failing checkouts against a representative set of run outcomes."""
    out = []
    seqs = [(r1, r2) for r1 in RUNS_RETURNING for r2 in ALL_RUNS] + [(r1, ["exit", 0]) for r1 in RUNS_RAISING]
    layouts = [("branch", None), ("detached", "json")] if not thorough else [("branch", None), ("branch", "txt"), ("detached", None), ("detached", "json"), ("branch", "html")]
    for hm, fmt in layouts:
        for r1, r2 in seqs:
            out.append(base_case(head_mode=hm, fmt=fmt, sc={"run1": r1, "run2": r2}))
    # the `bandit` child ended by a signal, observed on a REAL child process of the tool (nothing patched): whatever the tool does about it, the repository
    # is put back (seeded change C20-m9 re-raised the signal on itself inside the guarded region: the process ended without running the finally block)
    for hm, fmt in (("branch", None), ("detached", "json")):
        for r1, r2 in ((["signal", 9], ["exit", 0]), (["signal", 15], ["exit", 1]), (["exit", 0], ["signal", 9]), (["exit", 1], ["signal", 15]), (["signal", 15], ["signal", 9]),
                       (["signal", 2], ["exit", 0]), (["signal", 1], ["exit", 0])):
            out.append(base_case(mech="child", head_mode=hm, fmt=fmt, sc={"run1": r1, "run2": r2}))
    co_runs = [(["exit", 0], ["exit", 0]), (["exit", 1], ["exit", 1]), (["missing"], ["exit", 0]), (["exit", 0], ["interrupt"]), (["signal", 9], ["other", "RuntimeError"])]
    if thorough:
        co_runs = seqs
    for hm in ("branch", "detached"):
        for co1 in ("ok", "fail"):
            for co2 in ("ok", "fail"):
                for co3 in ("ok", "fail"):
                    if (co1, co2, co3) == ("ok", "ok", "ok"):
                        continue
                    for r1, r2 in co_runs:
                        out.append(base_case(head_mode=hm, fmt="txt" if hm == "detached" else None, sc={"co1": co1, "run1": r1, "co2": co2, "run2": r2, "co3": co3}))
    return out


def precondition_cases(thorough):
    """The precondition table: every combination of the refusal conditions (and the neighbouring exits with status 2)."""
    out = []
    sc = {"run1": ["exit", 0], "run2": ["exit", 1]}     # exit status 1 tells "ran" from "refused" (2) and from 0
    dirties = [None, "unstaged", "staged"] if thorough else [None, "unstaged"]
    fmts = [None, "txt", "json", "html"] if thorough else [None, "txt"]
    for dirty in dirties:
        for fmt in fmts:
            for report in (False, True):
                for cwd_tmp in (False, True):
                    for dash_o in (False, True):
                        for has_parent in (True, False):
                            out.append(base_case(fmt=fmt, sc=sc, pre={"dash_o": dash_o, "has_parent": has_parent},
                                                 repo={"dirty": dirty, "report": report, "cwd_tmp": cwd_tmp}))
    out.append(base_case(sc=sc, repo={"dirty": "staged"}))
    out.append(base_case(sc=sc, head_mode="detached", repo={"dirty": "unstaged"}))
    for kind in ("plain_dir", "subdir", "git_cmd_missing"):
        for fmt in (None, "txt"):
            for report in (False, True):
                for cwd_tmp in (False, True):
                    for dash_o in (False, True):
                        out.append(base_case(fmt=fmt, sc=sc, pre={"kind": kind, "dash_o": dash_o}, repo={"report": report, "cwd_tmp": cwd_tmp}))
    for usage in ("no_targets", "bad_format"):
        for dirty in (None, "unstaged"):
            out.append(base_case(sc=sc, pre={"usage": usage}, repo={"dirty": dirty}))
    for dirty in (None, "unstaged"):
        for dash_o in (False, True):
            out.append(base_case(sc=sc, pre={"git_module": False, "dash_o": dash_o}, repo={"dirty": dirty}))
    return out


def special_cases(thorough):
    out = []
    # untracked file in the way of a file of the parent commit (known finding C20-untracked-clobbered)
    for hm in ("branch", "detached"):
        for r1, r2 in [(["exit", 0], ["exit", 0]), (["exit", 1], ["exit", 1]), (["missing"], ["exit", 0]), (["exit", 0], ["interrupt"])]:
            out.append(base_case(head_mode=hm, sc={"run1": r1, "run2": r2}, repo={"precious": True}))
    out.append(base_case(sc={"co1": "fail"}, repo={"precious": True}))
    # real executables on PATH
    ex = [(["exit", 0], ["exit", 0]), (["exit", 0], ["exit", 1]), (["exit", 2], ["exit", 2]), (["exit", 1], ["signal", 9]), (["signal", 15], ["exit", 0]),
          (["signal", 9], ["signal", 15]), (["missing"], ["exit", 0]), (["exit", 0], ["missing"]), (["exit", 3], ["exit", 0])]
    for i, (r1, r2) in enumerate(ex):
        out.append(base_case(mech="exec", head_mode="branch" if i % 2 == 0 else "detached", fmt="json" if i % 3 == 0 else None, sc={"run1": r1, "run2": r2}))
    # a real interruption: SIGINT to a bandit-baseline process while bandit runs
    for step in (1, 2):
        sc = {"run1": ["interrupt"]} if step == 1 else {"run1": ["exit", 0], "run2": ["interrupt"]}
        out.append(base_case(mech="sigint", sigint_step=step, head_mode="branch" if step == 1 else "detached", sc=sc))
    # a real index.lock: every reset fails for real
    out.append(base_case(real_lock=True, sc={"co1": "fail", "co3": "fail"}))
    # unpatched end-to-end runs with the real bandit
    out.append(base_case(mech="real", head_mode="branch", fmt=None, sc=None))
    out.append(base_case(mech="real", head_mode="detached", fmt="json", sc=None))
    if thorough:
        out.append(base_case(mech="real", head_mode="branch", fmt="html", sc=None))
        for step in (1, 2):
            sc = {"run1": ["interrupt"]} if step == 1 else {"run1": ["exit", 1], "run2": ["interrupt"]}
            out.append(base_case(mech="sigint", sigint_step=step, head_mode="detached" if step == 1 else "branch", fmt="txt", sc=sc))
    return out


def run(res, ctx):
    thorough = res.tier == "thorough"
    res.rule = ("every pair of outcomes (exit 0/1/2/3, SIGKILL, SIGTERM, executable missing, KeyboardInterrupt, RuntimeError, PermissionError) of the two bandit runs "
                "x {HEAD on a branch, detached} x {terminal, report file}; every combination of failing parent/current/clean-up checkouts x 5 run pairs; the whole "
                "precondition table (dirty x format x report exists x temp file exists x -o x parent commit; not a repository / sub-directory / git missing / GitPython "
                "missing / usage errors); untracked file in the way; real fake-bandit executables; real SIGINT; real index.lock; unpatched runs with the real bandit. "
                "Each case is a fresh copy of a 3-commit git repository; distinct = distinct case description; non-trivial = a refusal row, or at least one point of the "
                "sequence with a non-success outcome, or a run through real executables")
    W = World()
    driver = None
    try:
        if ctx.get("driver_ok", True):
            try:
                driver = C.Driver()
                shape = driver.ask({"op": "baseline_shape"})
                res.extra["active_shape"] = shape
            except Exception as e:       # noqa
                res.break_("driver-error", f"{type(e).__name__}: {e}")
                driver = None
        try:
            import translate_c20
            res.extra["source_shape"] = translate_c20.read_shape()
        except Exception as e:           # noqa
            res.break_("translator", f"{type(e).__name__}: {e}")
        if ctx.get("replay"):
            rp = ctx["replay"].get("replay", ctx["replay"])
            case = rp.get("case")
            if case is None:
                res.notes.append("replay file carries no case (broken obligation): running the whole enumeration")
            else:
                rec = run_case(W, case, driver, res)
                res.samples.append(rec)
                res.extra["replayed"] = True
                return
        cases = special_cases(thorough) + outcome_cases(thorough) + precondition_cases(thorough)
        seen = set()
        rng = C.rng_for(res.seed, "C20")
        rng.shuffle(cases)                      # order must not matter: every case gets its own repository
        sampled = set()
        for case in cases:
            if case.get("sc"):
                case["sc"] = canonical_sc(case["sc"])      # outcomes of points that are never reached: one representative
            k = json.dumps(case, sort_keys=True)
            if k in seen:
                continue
            seen.add(k)
            rec = run_case(W, case, driver, res)
            tag = (rec["verdict"], case["mech"], must_refuse(case))
            if tag not in sampled and len(res.samples) < 6:
                sampled.add(tag)
                res.samples.append({k2: rec[k2] for k2 in ("case", "argv", "observed", "verdict") if k2 in rec})
        histories_and_pipes(res, W)
        res.exhaustive = True
        res.extra["cases"] = len(seen)
        res.extra["commits"] = W.ids
    finally:
        if driver is not None:
            driver.close()
        W.close()
