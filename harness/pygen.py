"""Grammar-directed generator of valid Python programs that mixes *every* statement / expression / target kind of the
language with the names, calls and strings bandit's checks key on.  Used by the crash monitor (C06) and the data-flow
fuzz (C17): a check that assumes a particular node shape ("the loop target is a Name", "the keyword value is a
constant", "the handler has a name") meets a program here where that assumption is false.

Every random choice comes from the rng passed in; programs are validated with ast.parse by the caller."""
import ast

SENS = ["password", "token", "secret", "x", "y", "cmd", "sql", "s", "data", "k"]
TRIG_CALLS = ["mark_safe({e})", "subprocess.Popen({e}, shell=True)", "os.system({e})", "cur.execute({e})", "eval({e})", "yaml.load({e})", "requests.get({e})",
              "hashlib.new({e})", "os.chmod({e}, 0o777)", "qs.extra(where=[{e}])", "RawSQL({e}, [])", "tar.extractall(members={e})", "Template({e})", "pickle.loads({e})",
              "ssl.wrap_socket(ssl_version={e})", "jinja2.Environment(autoescape={e})", "rsa.generate_private_key(65537, {e})", "c.exec_command({e})", "logging.config.listen({e})",
              "torch.load({e})", "Markup({e})", "random.random({e})", "crypt.crypt({e})", "tempfile.mktemp({e})", "importlib.import_module({e})", "__import__({e})"]
PRELUDE = ("import os, subprocess, ssl, hashlib, yaml, pickle, tarfile, jinja2, requests, random, crypt, tempfile, importlib, logging.config, torch\n"
           "from django.utils.safestring import mark_safe\nfrom django.db.models.expressions import RawSQL\nfrom markupsafe import Markup\nfrom mako.template import Template\n"
           "from cryptography.hazmat.primitives.asymmetric import rsa\n")


class Gen:
    def __init__(self, rng):
        self.r = rng

    def name(self):
        return self.r.choice(SENS)

    def target(self, depth=0):
        r = self.r
        k = r.randrange(9 if depth < 2 else 4)
        n = self.name()
        if k <= 1:
            return n
        if k == 2:
            return f"o.{n}"
        if k == 3:
            return f"d['{n}']"
        if k == 4:
            return f"{self.target(depth + 1)}, {self.target(depth + 1)}"
        if k == 5:
            return f"[{self.target(depth + 1)}, *{self.name()}]"
        if k == 6:
            return f"({self.target(depth + 1)}, ({self.name()}, o.a[0]))"
        if k == 7:
            return f"d[{self.expr(2)}]"
        return f"o.a.b[1:2]"

    def expr(self, depth=0):
        r = self.r
        n = self.name()
        atoms = [n, n, f"'{n}'", "'SELECT * FROM t WHERE a = '", "b'by'", "0", "0o777", "2.5", "None", "True", "...", "'0.0.0.0'", "'/tmp/f'", f"o.{n}", f"m.sub.{n}",
                 "ssl.PROTOCOL_SSLv3", "[]", "()", "{}", "''"]
        if depth >= 3:
            return r.choice(atoms)
        e = lambda: self.expr(depth + 1)
        k = r.randrange(34)
        if k < 6:
            return r.choice(atoms)
        forms = [
            lambda: f"{e()} + {e()}", lambda: f"{e()} % {e()}", lambda: f"{e()} % ({e()}, {e()})", lambda: f"'{{}}'.format({e()})", lambda: f"{e()}.format(*{e()}, **{e()})",
            lambda: f"f'{{{n}}} {{{e()}!r:>{{w}}}}'", lambda: f"[{e()}, *{e()}]", lambda: f"({e()}, {e()})", lambda: f"{{{e()}, {e()}}}", lambda: f"{{{e()}: {e()}, **{e()}}}",
            lambda: f"{e()}[{e()}]", lambda: f"{e()}[1:{e()}]", lambda: f"{e()}.{n}", lambda: f"{e()}({e()}, *{e()}, {n}={e()}, **{e()})", lambda: f"({n} := {e()})",
            lambda: f"(lambda {n}={e()}, *a, {self.name()}='v', **k: {e()})", lambda: f"({e()} if {e()} else {e()})", lambda: f"[{e()} for {self.target(1)} in {e()} if {e()}]",
            lambda: f"{{{e()}: {e()} for {n} in {e()}}}", lambda: f"({e()} for {n}, {self.name()} in {e()})", lambda: f"{{{e()} async for {n} in {e()}}}", lambda: f"(await {e()})",
            lambda: f"(yield {e()})", lambda: f"(yield from {e()})", lambda: f"not {e()}", lambda: f"-{e()}", lambda: f"{e()} and {e()} or {e()}", lambda: f"{e()} == {e()} != {e()}",
            lambda: f"{e()} in ({e()}, {e()})", lambda: f"{e()} is not {e()}", lambda: self.trigger(depth + 1), lambda: f"{e()}.replace({e()}, {e()})", lambda: f"'a' 'b' {e()!s}" if False else f"('a' 'b')",
            lambda: f"{e()} @ {e()} // {e()} ** 2 << 1 | 3 ^ 4 & 5",
        ]
        return r.choice(forms)()

    def trigger(self, depth=0):
        return self.r.choice(TRIG_CALLS).format(e=self.expr(depth + 1))

    def block(self, depth, ind):
        out = []
        for _ in range(self.r.randint(1, 3)):
            out.append(self.stmt(depth, ind))
        return "".join(out)

    def stmt(self, depth, ind):
        r = self.r
        e, t, n = self.expr, self.target, self.name()
        if depth >= 3 or r.random() < 0.55:
            simple = [
                lambda: f"{t()} = {e()}", lambda: f"{t()} = {t()} = {e()}", lambda: f"{n} += {e()}", lambda: f"o.{n} %= {e()}", lambda: f"d['{n}'] |= {e()}",
                lambda: f"{n}, *{self.name()} = {e()}, {e()}, {e()}", lambda: f"*{n}, {self.name()} = '{self.name()}', 'b', 'c'", lambda: f"{t()}, {t()} = '{n}', '{self.name()}'",
                lambda: f"{self.r.choice(TRIG_CALLS).split('(')[0]}(**{{'{n}': {e()}, 'shell': True, 'members': {e()}, 'verify': False}})",
                lambda: f"{n}: str = {e()}", lambda: f"o.{n}: int", lambda: f"d['{n}']: str = {e()}", lambda: f"del {t()}", lambda: f"assert {e()}, {e()}", lambda: f"assert {e()}",
                lambda: f"raise {e()} from {e()}", lambda: "raise", lambda: "pass", lambda: f"global {n}", lambda: f"import {n}.sub as {self.name()}", lambda: f"from .{n} import *",
                lambda: f"from {n}.m import a as {self.name()}, b", lambda: self.trigger(), lambda: f"{n} = {self.trigger()}", lambda: f"return_ = {e()}", lambda: f"{e()}",
                lambda: f"print({e()}, file={e()})", lambda: f"type Alias_{n} = list[{n}]", lambda: f"{n} = {e()}\n{ind}mark_safe({n})",
            ]
            return ind + r.choice(simple)() + "\n"
        b = lambda: self.block(depth + 1, ind + "    ")
        comp = [
            lambda: f"{ind}if {e()}:\n{b()}{ind}elif {e()}:\n{b()}{ind}else:\n{b()}",
            lambda: f"{ind}for {t()} in {e()}:\n{b()}", lambda: f"{ind}for {t()} in {e()}:\n{b()}{ind}else:\n{b()}", lambda: f"{ind}async for {t()} in {e()}:\n{b()}",
            lambda: f"{ind}while {e()}:\n{b()}{ind}else:\n{b()}", lambda: f"{ind}with {e()} as {t(1)}, {e()}:\n{b()}", lambda: f"{ind}with ({e()} as {n}, {e()} as o.a):\n{b()}",
            lambda: f"{ind}async with {e()} as {t(1)}:\n{b()}", lambda: f"{ind}try:\n{b()}{ind}except:\n{b()}", lambda: f"{ind}try:\n{b()}{ind}except {e()} as {n}:\n{b()}{ind}else:\n{b()}{ind}finally:\n{b()}",
            lambda: f"{ind}try:\n{b()}{ind}except ({e()}, {e()}):\n{ind}    pass\n", lambda: f"{ind}try:\n{b()}{ind}except* {e()}:\n{ind}    continue_ = 1\n",
            lambda: f"{ind}try:\n{b()}{ind}finally:\n{b()}", lambda: f"{ind}for {n} in {e()}:\n{ind}    try:\n{ind}        pass\n{ind}    except {e()}:\n{ind}        continue\n",
            lambda: f"{ind}def f_{n}({n}, {self.name()}_={e()}, /, p2={e()}, *a, {self.name()}__={e()}, kwonly, **kw) -> {e()}:\n{b()}{ind}    return {e()}\n",
            lambda: f"{ind}async def g_{n}(*, {n}={e()}):\n{b()}", lambda: f"{ind}@{e()}\n{ind}class K_{n}({e()}, metaclass={e()}):\n{ind}    {n} = {e()}\n{b()}",
            lambda: f"{ind}def gen_{n}[T]({n}: T = {e()}):\n{b()}", lambda: f"{ind}class G_{n}[T: int]:\n{b()}",
            lambda: f"{ind}match {e()}:\n{ind}    case {{'{n}': {n}, **rest}}:\n{self.block(depth + 1, ind + '        ')}{ind}    case [{n}, *_] | ({n}, 1) if {e()}:\n{self.block(depth + 1, ind + '        ')}"
                    f"{ind}    case K(a={n}, b='v') | None | 'lit' as {n}:\n{ind}        pass\n{ind}    case _:\n{self.block(depth + 1, ind + '        ')}",
            lambda: f"{ind}def v_{n}({n}):\n{ind}    nonlocal_ = 1\n{b()}{ind}    return mark_safe({n})\n",
        ]
        return r.choice(comp)()

    def program(self):
        body = "".join(self.stmt(0, "") for _ in range(self.r.randint(2, 6)))
        return PRELUDE + body


def programs(rng, n):
    g = Gen(rng)
    out, tries = [], 0
    while len(out) < n and tries < n * 6:
        tries += 1
        src = g.program()
        try:
            ast.parse(src)
        except (SyntaxError, ValueError, RecursionError):
            continue
        out.append(src)
    return out


def node_kinds(srcs):
    ks = {}
    for s in srcs:
        for nd in ast.walk(ast.parse(s)):
            k = type(nd).__name__
            ks[k] = ks.get(k, 0) + 1
    return ks


if __name__ == "__main__":
    import random
    ps = programs(random.Random(0), 300)
    ks = node_kinds(ps)
    allk = {c.__name__ for c in vars(ast).values() if isinstance(c, type) and issubclass(c, ast.AST) and c.__module__ == "ast" and hasattr(c, "_fields")}
    print(len(ps), "programs;", len(ks), "node kinds; never produced:", sorted(k for k in allk if k not in ks and not k[0].islower())[:60])
