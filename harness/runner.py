"""Check driver: translate -> build -> audit -> correspondence -> verdict/evidence."""
import benv  # noqa: F401
import argparse, fcntl, hashlib, importlib, json, os, re, subprocess, sys, time, traceback

import common as C

VERIF = benv.VERIF
LEAN_DIR = os.path.join(VERIF, "lean")
FORBIDDEN = re.compile(r"\bsorry\b|\badmit\b|^\s*axiom\s|native_decide|bv_decide|implemented_by|\bunsafe\s|maxHeartbeats\s+0")
TRUSTED_BASE = [
    "Lean 4.33.0 kernel",
    "axioms: propext, Classical.choice, Quot.sound only (audited per theorem by lean/Audit.lean on every run)",
    "harness/translate.py (prints the tables it read from /repo)",
    "harness/astser.py + correspondence harness (canonicalisation, generators)",
    "CPython 3.12 ast/tokenize/codecs/re, stdlib serialisers, os/fnmatch, git: modelled or assumed, exercised by correspondence, not verified",
]


def sh(cmd, cwd=None, timeout=3600):
    p = subprocess.run(cmd, cwd=cwd, stdout=subprocess.PIPE, stderr=subprocess.STDOUT, text=True, timeout=timeout)
    return p.returncode, p.stdout


class Lock:
    def __init__(self, path):
        self.path = path

    def __enter__(self):
        self.f = open(self.path, "w")
        fcntl.flock(self.f, fcntl.LOCK_EX)

    def __exit__(self, *a):
        fcntl.flock(self.f, fcntl.LOCK_UN)
        self.f.close()


def strip_comments(src):
    # remove /- ... -/ (nested not handled beyond one level) and -- line comments
    src = re.sub(r"/-.*?-/", "", src, flags=re.S)
    src = re.sub(r"--.*", "", src)
    return src


def lean_sources_for(mods):
    """transitive closure of project-local imports of the given modules"""
    seen, todo = {}, list(mods)
    while todo:
        m = todo.pop()
        if m in seen:
            continue
        p = os.path.join(LEAN_DIR, *m.split(".")) + ".lean"
        if not os.path.exists(p):
            continue
        src = open(p, encoding="utf-8").read()
        seen[m] = src
        for imp in re.findall(r"^import\s+([\w.]+)", src, flags=re.M):
            if imp.split(".")[0] in ("Bandit", "Props", "Spec", "Proofs"):
                todo.append(imp)
    return seen


def build_and_audit(res, pid, extra_mods=()):
    """Returns (driver_ok, props_ok)."""
    mods = ["Props." + pid] + list(extra_mods)
    os.makedirs(os.path.join(LEAN_DIR, ".lake"), exist_ok=True)
    with Lock(os.path.join(LEAN_DIR, ".lake", "verif.lock")):
        t0 = time.time()
        try:
            import translate
            st = translate.run()
            res.extra["translate"] = st
        except Exception as e:
            res.break_("translator", f"{type(e).__name__}: {e}")
            res.extra["translate_error"] = traceback.format_exc()[-2000:]
        rc_d, out_d = sh(["lake", "build", "driver"], cwd=LEAN_DIR)
        driver_ok = rc_d == 0
        if not driver_ok:
            res.break_("build:driver", out_d[-3000:])
        props_ok = True
        for m in mods:
            rc, out = sh(["lake", "build", "+" + m], cwd=LEAN_DIR)
            if rc != 0:
                props_ok = False
                errs = re.findall(r"error: ([^\n]*\n?[^\n]*)", out)
                res.break_("build:" + m, "\n".join(errs)[:3000] or out[-3000:])
        res.extra["build_s"] = round(time.time() - t0, 1)
        if props_ok:
            rc, out = sh(["lake", "env", "lean", "--run", "Audit.lean"] + mods, cwd=LEAN_DIR)
            thms = []
            for line in out.splitlines():
                line = line.strip()
                if line.startswith("{"):
                    try:
                        thms.append(json.loads(line))
                    except ValueError:
                        pass
            if rc != 0 or not thms:
                res.break_("audit", out[-2000:])
            for t in thms:
                if "thm" not in t:
                    res.break_("audit", json.dumps(t))
                    continue
                res.obligations.append(t["thm"])
                bad = [a for a in t["axioms"] if a not in C.ALLOWED_AXIOMS]
                if bad:
                    res.break_("axioms:" + t["thm"], ",".join(bad))
                else:
                    res.discharged.append(t["thm"])
            res.extra["axioms_used"] = sorted({a for t in thms for a in t.get("axioms", [])})
            if res.tier == "thorough":
                # independent re-check of the compiled .olean files of the property module (and everything it imports) by Lean's external checker
                t1 = time.time()
                rc, out = sh(["lake", "env", "leanchecker"] + mods, cwd=LEAN_DIR, timeout=3000)
                res.extra["leanchecker"] = {"cmd": "lake env leanchecker " + " ".join(mods), "exit": rc, "seconds": round(time.time() - t1, 1)}
                if rc != 0:
                    res.break_("leanchecker", out[-2000:])
            # source-level grep over the transitive project-local imports
            for m, src in lean_sources_for(mods + ["Driver"]).items():
                for ln in strip_comments(src).splitlines():
                    if FORBIDDEN.search(ln):
                        res.break_("forbidden-token:" + m, ln.strip()[:200])
    return driver_ok, props_ok


def load_known(pid):
    p = os.path.join(VERIF, "known_findings.json")
    if not os.path.exists(p):
        return {}
    data = json.load(open(p))
    return {e["id"]: e for e in data.get("findings", []) if e.get("property") == pid and e.get("status", "open") == "open"}


def write_replay(pid, what, replay):
    d = os.path.join(VERIF, "replays", pid)
    os.makedirs(d, exist_ok=True)
    body = json.dumps({"property": pid, "what": what, "replay": replay}, indent=1, sort_keys=True, default=str)
    h = hashlib.sha256(body.encode()).hexdigest()[:16]
    path = os.path.join(d, h + ".json")
    with open(path, "w") as f:
        f.write(body)
    return path


def finish(res, level_text):
    pid = res.pid
    known = load_known(pid)
    lines = []
    exit_code = 0
    for fid, n in sorted(res.known.items()):
        e = known.get(fid)
        if e is None:
            # attributed to an unlisted finding: that is a violation
            res.violation(f"unlisted finding {fid}", {"finding": fid})
        else:
            lines.append(f"KNOWN-FINDING: property={pid} {e['what']} [{fid}; reproduced {n}x this run]")
    for fid, e in sorted(known.items()):
        if fid not in res.known:
            lines.append(f"NOTE: known finding {fid} of {pid} was not reproduced in this run")
    seen = set()
    for what, replay in res.violations[:20]:
        path = write_replay(pid, what, replay)
        if path in seen:
            continue
        seen.add(path)
        lines.append(f"VIOLATION property={pid} replay={path}")
        exit_code = 1
    if res.broken and not res.violations:
        # obligations / tie broken and the search found no failing input
        path = write_replay(pid, "proof obligation or correspondence no longer checks", {"broken": res.broken})
        lines.append(f"VIOLATION property={pid} replay={path} no-failing-input-found")
        exit_code = 1
    wall = round(time.time() - res.t0, 2)
    cov = {
        "obligations": len(res.obligations),
        "discharged": len(res.discharged),
        "checker_cmd": f"cd lean && lake build +Props.{pid} && lake env lean --run Audit.lean Props.{pid}",
        "trusted_base": TRUSTED_BASE,
        "theorems": res.obligations,
        "evaluations": res.evaluations,
        "distinct_nontrivial": len(res.nontrivial),
        "rule": res.rule,
        "samples": res.samples[:6] or [{"note": "no correspondence cases were run"}],
        "traces_validated_against_impl": res.evaluations,
        "exhaustive": bool(res.exhaustive),
        "histogram": res.hist,
        "known_findings_reproduced": sorted(res.known),
        "broken": res.broken[:10],
        "notes": res.notes[:40],
    }
    if not res.obligations:
        # build/audit did not run or broke: fall back to the exploration-style keys only
        del cov["obligations"], cov["discharged"]
        cov["explanation"] = "no theorem was checked in this run (build broken or --no-build); see 'broken'"
    cov.update(res.extra)
    ev = {"property_id": pid, "tier": res.tier, "seed": int(res.seed), "level": "proof", "coverage": cov,
          "assumptions": res.assumptions or TRUSTED_BASE, "wall_s": wall, "violations": len(res.violations) + (1 if res.broken and not res.violations else 0)}
    os.makedirs(os.path.join(VERIF, "evidence"), exist_ok=True)
    with open(os.path.join(VERIF, "evidence", pid + ".json"), "w") as f:
        json.dump(ev, f, indent=1, default=str)
    for l in lines:
        print(l)
    print(f"{pid} tier={res.tier} seed={res.seed} theorems={len(res.discharged)}/{len(res.obligations)} cases={res.evaluations} "
          f"nontrivial={len(res.nontrivial)} violations={len(res.violations)} broken={len(res.broken)} wall={wall}s")
    return exit_code


def main(argv):
    ap = argparse.ArgumentParser()
    ap.add_argument("pid")
    ap.add_argument("--tier", default=os.environ.get("VERIF_TIER", "quick"))
    ap.add_argument("--replay")
    ap.add_argument("--no-build", action="store_true")
    a = ap.parse_args(argv)
    pid = a.pid.upper()
    tier = a.tier if a.tier in ("quick", "thorough") else "quick"
    try:
        seed = int(os.environ.get("VERIF_SEED", "0"))
    except ValueError:
        seed = 0
    res = C.Result(pid, tier, seed)
    try:
        mod = importlib.import_module("props." + pid.lower())
    except ImportError as e:
        print(f"no check for {pid}: {e}", file=sys.stderr)
        return 2
    try:
        C.setup_logging()
        driver_ok, props_ok = (True, True)
        if not a.no_build:
            driver_ok, props_ok = build_and_audit(res, pid, getattr(mod, "EXTRA_MODULES", ()))
            import logging
            logging.disable(logging.NOTSET)
            C.setup_logging()
        ctx = {"driver_ok": driver_ok, "props_ok": props_ok, "replay": None}
        if a.replay:
            ctx["replay"] = json.load(open(a.replay))
        mod.run(res, ctx)
        return finish(res, getattr(mod, "LEVEL", ""))
    except Exception:
        traceback.print_exc()
        return 2
