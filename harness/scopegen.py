"""Placement generator: where a binding statement and a later use sit relative to scopes and to the statements between them.

bandit's name resolution is one flat alias table filled in source order by the visitor: whatever scope a binding import sits in, and
whatever is defined between it and the use (classes, functions, handlers, same-named methods), the use resolves through the last binding
above it in the source.  The template contexts of the property harnesses put one binding at module level directly above one use; the
seeded changes that slipped through (C01-m7 scoped aliases that a nested class reset, C14-m7 a method named like a from-import) needed a
binding *inside* a scope, a compound statement *between*, and a use *after* it.  This module enumerates exactly that space:

    outer wrappers (0..2)  {  BIND ; FILLER ; inner wrappers (0..2) { USE }  }      and      { BIND } ; FILLER ; { USE }   (sibling scopes)

`place(rng, bind, use_stmt, names)` returns (source, line of the use statement, labels).  `bind` is a block of statements without
indentation, `use_stmt` a single-line statement containing the use; `names` are identifiers the fillers may re-use as method / nested
def / class / parameter names (they never re-bind the name at module level: a method, a nested def, a nested class, a lambda parameter
or an attribute target does not touch the alias table and does not shadow a module-level name for code outside it)."""

WRAPPERS = [
    ("def", ["def w{i}_():"], []),
    ("async_def", ["async def w{i}_():"], []),
    ("class", ["class W{i}_:"], []),
    ("method", ["class W{i}_:", "    def m{i}_(self):"], []),
    ("if", ["if cond{i}_:"], []),
    ("else", ["if cond{i}_:", "    pass", "else:"], []),
    ("try", ["try:"], ["except Exception:", "    raise"]),
    ("except", ["try:", "    pass", "except ValueError:"], []),
    ("finally", ["try:", "    pass", "finally:"], []),
    ("with", ["with ctx{i}_() as c{i}_:"], []),
    ("for", ["for i{i}_ in seq{i}_:"], []),
    ("while_else", ["while cond{i}_:", "    pass", "else:"], []),
    ("match_case", ["match subj{i}_:", "    case 1:"], []),
]

FILLERS = [
    ("none", []),
    ("class_pass", ["class Between_:", "    pass"]),
    ("class_method", ["class Between_:", "    def run(self, v):", "        return v"]),
    ("class_method_same_name", ["class Between_:", "    def {n}(self, v):", "        return v"]),
    ("class_attr_same_name", ["class Between_:", "    {n} = None"]),
    ("nested_def", ["def between_(v):", "    return v"]),
    ("nested_def_same_name_param", ["def between_({n}=None):", "    return {n}"]),
    ("nested_async_def", ["async def between_(v):", "    return v"]),
    ("nested_class_in_def", ["def between_():", "    class Inner_:", "        pass", "    return Inner_"]),
    ("lambda_same_name_param", ["between_ = lambda {n}: {n}"]),
    ("try_except_pass_stmt", ["try:", "    between_()", "except KeyError:", "    between_ = None"]),
    ("with_block", ["with open_() as fh_:", "    fh_.read()"]),
    ("comprehension_same_name", ["between_ = [{n} for {n} in range(3)]"]),
    ("other_import", ["import harmless_mod_"]),
    ("other_import_as", ["import harmless_mod_ as hm_"]),
    ("from_import_other", ["from harmless_pkg_ import thing_"]),
    ("decorated_class", ["@decorate_", "class Between_:", "    x = 1"]),
    ("global_stmt_in_def", ["def between_():", "    global {n}", "    return 1"]),
    # calls that "harden" or configure something at run time: what a later expression denotes does not depend on them (seeded change C01-m14 stopped
    # reporting XML rules once a defusedxml.defuse_stdlib() call had been VISITED, even inside a helper that is never called)
    ("hardening_call", ["import defusedxml", "defusedxml.defuse_stdlib()"]),
    ("hardening_call_in_helper", ["def harden_():", "    from defusedxml import defuse_stdlib as harden", "    harden()"]),
    ("guarded_hardening", ["try:", "    import defusedxml", "except ImportError:", "    defusedxml = None", "if defusedxml is not None:", "    defusedxml.defuse_stdlib()"]),
    ("config_calls", ["import warnings, logging, random", "warnings.simplefilter('ignore')", "logging.disable(50)", "random.seed(0)", "sys_.setrecursionlimit(50)"]),
]


def _wrap(lines, ws, base):
    """Indent `lines` under the wrappers `ws` (outermost first)."""
    head, tail = [], []
    ind = ""
    for i, (name, open_, close_) in enumerate(ws):
        head += [ind + l.format(i=base + i) for l in open_]
        # indentation of the innermost header of this wrapper + 4
        last = open_[-1]
        inner = ind + " " * (len(last) - len(last.lstrip())) + "    "
        tail = [ind + l.format(i=base + i) for l in close_] + tail
        ind = inner
    return head, [ind + l for l in lines], tail, ind


LATER = [
    "def later_{k}_():\n    from elsewhere_ import thing_ as {n}\n    return {n}",
    "def later_{k}_():\n    import other_pkg_.mod_ as {n}\n    return {n}",
    "class Later_{k}_:\n    from compat_ import shim_ as {n}",
    "def later_{k}_({n}):\n    return {n}.loads(b'')",
]


def place(rng, bind, use_stmt, names=("helper_",), shape=None, later=None):
    """-> (source, line number of the use statement, {"outer": [...], "filler": ..., "inner": [...], "shape": ...})"""
    shape = shape or rng.choice(["nested", "nested", "sibling"])
    outer = [rng.choice(WRAPPERS) for _ in range(rng.choice([0, 1, 1, 2]))]
    inner = [rng.choice(WRAPPERS) for _ in range(rng.choice([0, 0, 1, 2]))]
    fname, flines = rng.choice(FILLERS)
    n = rng.choice(list(names))
    flines = [l.format(n=n) for l in flines]
    bind_lines = [l for l in bind.split("\n") if l] or ["pass"]
    if shape == "nested":
        ih, ib, it, _ = _wrap([use_stmt], inner, 10)
        body = bind_lines + flines + ih + ib + it
        oh, ob, ot, _ = _wrap(body, outer, 0)
        lines = oh + ob + ot
        use_idx = len(oh) + len(bind_lines) + len(flines) + len(ih)
    else:
        # binding in one scope, use in a sibling scope further down the file
        outer = outer or [rng.choice(WRAPPERS)]
        inner = inner or [rng.choice(WRAPPERS[:4])]
        oh, ob, ot, _ = _wrap(bind_lines, outer, 0)
        ih, ib, it, _ = _wrap([use_stmt], inner, 10)
        lines = oh + ob + ot + flines + ih + ib + it
        use_idx = len(oh) + len(ob) + len(ot) + len(flines) + len(ih)
    lab_later = None
    if later is None:
        later = rng.random() < 0.35
    if later:
        # something further DOWN the file binds the same name again, inside another scope (a function-local import, a parameter): the alias table is filled
        # in source order, so the use above is not affected (seeded change C01-m12 pre-seeded the table from the whole file)
        k = rng.randrange(len(LATER))
        lines = lines + ["", ""] + LATER[k].format(k=k, n=n).split("\n")
        lab_later = k
    src = "\n".join(lines) + "\n"
    assert lines[use_idx].strip() == use_stmt.strip(), (lines, use_idx)
    return src, use_idx + 1, {"outer": [w[0] for w in outer], "filler": fname, "inner": [w[0] for w in inner], "shape": shape, "later": lab_later}


SCOPES = {"def": "function", "async_def": "function", "method": "function", "class": "class"}


def visible(lab):
    """Can the use see the binding under Python's scoping rules?  (Only then does the use *denote* what the binding bound; elsewhere the
    harness compares model and implementation but states no expectation.)"""
    outer_scopes = [SCOPES[w] for w in lab["outer"] if w in SCOPES]
    inner_scopes = [SCOPES[w] for w in lab["inner"] if w in SCOPES]
    if lab["shape"] == "sibling":
        return not outer_scopes            # bound at module level (inside if/try/with/... only): visible everywhere below
    if not outer_scopes:
        return True
    if outer_scopes[-1] == "function":
        return True                        # locals of a function are visible in everything nested in it (closures, class bodies in it)
    return not inner_scopes                # bound in a class body: visible in that body only, not in methods or nested classes


def all_labels():
    return [w[0] for w in WRAPPERS], [f[0] for f in FILLERS]


if __name__ == "__main__":
    import ast, random
    r = random.Random(1)
    for k in range(3000):
        s, ln, lab = place(r, "import pickle as al\n", "x = al.loads(b)", names=("al", "loads"))
        try:
            t = ast.parse(s)
        except SyntaxError as e:
            print(s); raise
        assert s.split("\n")[ln - 1].strip() == "x = al.loads(b)"
    print("ok"); print(s)
