"""Smoke: model vs real bandit on every parsable .py file of /repo (modelled IDs only)."""
import common as C, glob, sys, json
C.setup_logging()
d = C.Driver()
files = sorted(glob.glob('/repo/examples/*.py')) + sorted(glob.glob('/repo/bandit/**/*.py', recursive=True)) + sorted(glob.glob('/repo/tests/**/*.py', recursive=True))
bad = tot = nf = 0
ids = {}
for ign in (False, True):
    for f in files:
        data = open(f, 'rb').read()
        try:
            req = C.scan_request(data, fname=f, ignore_nosec=ign)
        except SyntaxError:
            continue
        resp = d.ask(req)
        if "error" in resp:
            print("driver error", f, resp); bad += 1; continue
        modelled = set(resp["modelled"])
        r = C.real_scan(f, ignore_nosec=ign)
        # blacklist ids count as modelled via B001
        from bandit.core import extension_loader as el
        blids = set(el.MANAGER.blacklist_by_id)
        rf = [x for x in r["findings"] if x[0] in modelled or (x[0] in blids and "B001" in modelled)]
        mf = [tuple(x) for x in C.model_findings(resp)]
        rf = [tuple([x[0], x[1], x[2], x[3], tuple(x[4]), x[5]]) for x in rf]
        mf = [tuple([x[0], x[1], x[2], x[3], tuple(x[4]), x[5]]) for x in mf]
        tot += 1; nf += len(rf)
        for x in rf: ids[x[0]] = ids.get(x[0], 0) + 1
        if sorted(mf) != sorted(rf) or sorted(resp["crashes"]) != [t for t in C.crashed_tests(r["errors"]) ]:
            bad += 1
            if bad < 8:
                print("MISMATCH", f, ign)
                print("  model-only", sorted(set(mf) - set(rf))[:5]); print("  real-only ", sorted(set(rf) - set(mf))[:5])
                print("  crashes", resp["crashes"], C.crashed_tests(r["errors"]))
print("files", tot, "findings", nf, "mismatching", bad)
print(" ".join(f"{k}:{v}" for k, v in sorted(ids.items())))
