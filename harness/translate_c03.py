"""Translator part for C03: the data of bandit/cli/main.py main() -> lean/Bandit/Gen/Cli.lean.

Copies literals out of the *current* source AST of main(): the `--severity-level` /
`--confidence-level` if-chains, the `choices=` and `default=` of the four threshold options, the
constant subtracted in `constants.RANKING[args.severity - k]`; and evaluates the formatter
registry (names, which accept a baseline).  No bandit logic here; a shape it does not recognise
is a TranslateError (reported as a broken tie)."""
import ast, os

import translate as T


def _is_args_attr(node, attr=None):
    return (isinstance(node, ast.Attribute) and isinstance(node.value, ast.Name) and node.value.id == "args"
            and (attr is None or node.attr == attr))


def _find_main(tree):
    for n in tree.body:
        if isinstance(n, ast.FunctionDef) and n.name == "main":
            return n
    raise T.TranslateError("cli/main.py: no function main()")


def _option_calls(fn):
    """{option string: add_argument Call} for every add_argument call in main()"""
    out = {}
    for n in ast.walk(fn):
        if isinstance(n, ast.Call) and isinstance(n.func, ast.Attribute) and n.func.attr == "add_argument":
            for a in n.args:
                if isinstance(a, ast.Constant) and isinstance(a.value, str):
                    out[a.value] = n
    return out


def _kw(call, name):
    for k in call.keywords:
        if k.arg == name:
            try:
                return ast.literal_eval(k.value)
            except ValueError:
                raise T.TranslateError(f"add_argument(... {name}=<non-literal>)")
    return None


def _chain(fn, string_dest, dest):
    """[(name, int)] for every `if args.<string_dest> == "<name>": args.<dest> = <int>` in source order"""
    found = []
    for n in ast.walk(fn):
        if not isinstance(n, ast.If):
            continue
        t = n.test
        if (isinstance(t, ast.Compare) and len(t.ops) == 1 and isinstance(t.ops[0], ast.Eq)
                and _is_args_attr(t.left, string_dest) and isinstance(t.comparators[0], ast.Constant)
                and isinstance(t.comparators[0].value, str)):
            if (len(n.body) == 1 and isinstance(n.body[0], ast.Assign) and len(n.body[0].targets) == 1
                    and _is_args_attr(n.body[0].targets[0], dest) and isinstance(n.body[0].value, ast.Constant)
                    and isinstance(n.body[0].value.value, int) and n.body[0].value.value >= 0):
                found.append((n.lineno, t.comparators[0].value, n.body[0].value.value))
            else:
                raise T.TranslateError(f"main(): branch for {string_dest} == {t.comparators[0].value!r} is not a single `args.{dest} = <int>`")
    if not found:
        # the same table written as a dict literal indexed by the option value
        for n in ast.walk(fn):
            if (isinstance(n, ast.Assign) and len(n.targets) == 1 and _is_args_attr(n.targets[0], dest)
                    and isinstance(n.value, ast.Subscript) and isinstance(n.value.value, ast.Dict)
                    and _is_args_attr(n.value.slice, string_dest)):
                try:
                    d = ast.literal_eval(n.value.value)
                except ValueError:
                    break
                if all(isinstance(k, str) and isinstance(v, int) and v >= 0 for k, v in d.items()):
                    return list(d.items())
    if not found:
        raise T.TranslateError(f"main(): no `if args.{string_dest} == ...` chain (or dict literal) found")
    found.sort()
    return [(a, b) for _, a, b in found]


def _offset(fn, var, dest):
    """k of `<var> = constants.RANKING[args.<dest> - k]`"""
    for n in ast.walk(fn):
        if (isinstance(n, ast.Assign) and len(n.targets) == 1 and isinstance(n.targets[0], ast.Name)
                and n.targets[0].id == var and isinstance(n.value, ast.Subscript)):
            v = n.value
            if not (isinstance(v.value, ast.Attribute) and v.value.attr == "RANKING"):
                break
            s = v.slice
            if _is_args_attr(s, dest):
                return 0
            if (isinstance(s, ast.BinOp) and isinstance(s.op, ast.Sub) and _is_args_attr(s.left, dest)
                    and isinstance(s.right, ast.Constant) and isinstance(s.right.value, int) and s.right.value >= 0):
                return s.right.value
            break
    raise T.TranslateError(f"main(): `{var} = constants.RANKING[args.{dest} - k]` not found in that shape")


def _ini_as_int(fn, dest, key):
    """shape of the ini_val argument in `args.<dest> = _log_option_source(default, args.<dest>, <ini_val>, name)`:
    False for `ini_options.get("<key>")`, True for `int(ini_options.get("<key>") or 0) or None`"""
    def is_get(n):
        return (isinstance(n, ast.Call) and isinstance(n.func, ast.Attribute) and n.func.attr == "get"
                and isinstance(n.func.value, ast.Name) and n.func.value.id == "ini_options" and len(n.args) == 1
                and isinstance(n.args[0], ast.Constant) and n.args[0].value == key and not n.keywords)
    for n in ast.walk(fn):
        if (isinstance(n, ast.Assign) and len(n.targets) == 1 and _is_args_attr(n.targets[0], dest)
                and isinstance(n.value, ast.Call) and isinstance(n.value.func, ast.Name)
                and n.value.func.id == "_log_option_source" and len(n.value.args) == 4 and _is_args_attr(n.value.args[1], dest)):
            v = n.value.args[2]
            if is_get(v):
                return False
            if (isinstance(v, ast.BoolOp) and isinstance(v.op, ast.Or) and len(v.values) == 2
                    and isinstance(v.values[1], ast.Constant) and v.values[1].value is None
                    and isinstance(v.values[0], ast.Call) and isinstance(v.values[0].func, ast.Name) and v.values[0].func.id == "int"
                    and len(v.values[0].args) == 1 and isinstance(v.values[0].args[0], ast.BoolOp)
                    and isinstance(v.values[0].args[0].op, ast.Or) and len(v.values[0].args[0].values) == 2
                    and is_get(v.values[0].args[0].values[0]) and isinstance(v.values[0].args[0].values[1], ast.Constant)
                    and v.values[0].args[0].values[1].value == 0):
                return True
            raise T.TranslateError(f"main(): INI value for args.{dest} is passed in a shape the model does not know")
    raise T.TranslateError(f"main(): no `args.{dest} = _log_option_source(...)` found")


def gen(mgr):
    path = os.path.join(T.REPO, "bandit", "cli", "main.py")
    with open(path, encoding="utf-8") as f:
        tree = ast.parse(f.read())
    fn = _find_main(tree)
    opts = _option_calls(fn)
    need = {"sev_count": "-l", "sev_name": "--severity-level", "conf_count": "-i", "conf_name": "--confidence-level"}
    for k, o in need.items():
        if o not in opts:
            raise T.TranslateError(f"main(): option {o} not declared")
    sev_dest = _kw(opts["-l"], "dest")
    conf_dest = _kw(opts["-i"], "dest")
    sevs_dest = _kw(opts["--severity-level"], "dest")
    confs_dest = _kw(opts["--confidence-level"], "dest")
    if _kw(opts["-l"], "action") != "count" or _kw(opts["-i"], "action") != "count":
        raise T.TranslateError("main(): -l/-i are no longer counting options")
    sev_default = _kw(opts["-l"], "default")
    conf_default = _kw(opts["-i"], "default")
    if not isinstance(sev_default, int) or not isinstance(conf_default, int) or sev_default < 0 or conf_default < 0:
        raise T.TranslateError("main(): default of -l/-i is not a natural number")
    sev_choices = _kw(opts["--severity-level"], "choices") or []
    conf_choices = _kw(opts["--confidence-level"], "choices") or []
    sev_chain = _chain(fn, sevs_dest, sev_dest)
    conf_chain = _chain(fn, confs_dest, conf_dest)
    sev_off = _offset(fn, "sev_level", sev_dest)
    conf_off = _offset(fn, "conf_level", conf_dest)
    ini_int = _ini_as_int(fn, sev_dest, "level")
    if _ini_as_int(fn, conf_dest, "confidence") != ini_int:
        raise T.TranslateError("main(): INI level and confidence are converted differently")
    formats = sorted(mgr.formatter_names)
    baseline_formats = [f.name for f in mgr.formatters if hasattr(f.plugin, "_accepts_baseline")]

    def pairs(xs):
        return "[" + ", ".join(f"({T.lstrl(a)}, {int(b)})" for a, b in xs) + "]"

    def strs(xs):
        return "[" + ", ".join(T.lstrl(x) for x in xs) + "]"

    L = [T.HEADER, "import Bandit.Cli", "import Bandit.Gen.Constants", "namespace Bandit.Gen", ""]
    L.append("/-- data of `bandit/cli/main.py main()` (if-chains, choices, defaults, index offset) and the formatter registry -/")
    L.append("def cliTables : Cli.Tables :=")
    L.append("  { ranking := ranking,")
    L.append(f"    sevChain := {pairs(sev_chain)},")
    L.append(f"    confChain := {pairs(conf_chain)},")
    L.append(f"    sevChoices := {strs(sev_choices)},")
    L.append(f"    confChoices := {strs(conf_choices)},")
    L.append(f"    sevDefault := {sev_default}, confDefault := {conf_default},")
    L.append(f"    sevOffset := {sev_off}, confOffset := {conf_off},")
    L.append(f"    formats := {strs(formats)},")
    L.append(f"    baselineFormats := {strs(baseline_formats)},")
    L.append(f"    iniAsInt := {'true' if ini_int else 'false'} }}")
    L.append("")
    L.append("end Bandit.Gen")
    return {"Cli": "\n".join(L) + "\n"}
