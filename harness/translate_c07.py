"""C07 tables: the field/key lists that live inside function bodies of bandit/core/issue.py and the
set of baseline-capable formatters.  Extracted from the source AST by name (no bandit logic here)."""
import ast, os

import benv
from translate import HEADER, TranslateError, lstrl


def _method(tree, cls, name):
    for n in tree.body:
        if isinstance(n, ast.ClassDef) and n.name == cls:
            for m in n.body:
                if isinstance(m, ast.FunctionDef) and m.name == name:
                    return m
    raise TranslateError(f"bandit/core/issue.py: {cls}.{name} not found")


def _str_list(node, what):
    if not isinstance(node, (ast.List, ast.Tuple)) or not all(isinstance(e, ast.Constant) and isinstance(e.value, str) for e in node.elts):
        raise TranslateError(f"{what}: not a literal list of strings")
    return [e.value for e in node.elts]


def _dict_literals(fn):
    """string keys of every dict literal in a function, in source order"""
    out = []
    for n in ast.walk(fn):
        if isinstance(n, ast.Dict):
            for k in n.keys:
                if isinstance(k, ast.Constant) and isinstance(k.value, str) and k.value not in out:
                    out.append(k.value)
    return out


def gen(mgr):
    path = os.path.join(benv.REPO, "bandit", "core", "issue.py")
    with open(path, encoding="utf-8") as f:
        tree = ast.parse(f.read())
    # Issue.__eq__: match_types = [...]
    eq = _method(tree, "Issue", "__eq__")
    match_types = None
    for n in ast.walk(eq):
        if isinstance(n, ast.Assign) and any(isinstance(t, ast.Name) and t.id == "match_types" for t in n.targets):
            match_types = _str_list(n.value, "Issue.__eq__ match_types")
    if match_types is None:
        raise TranslateError("Issue.__eq__: no `match_types = [...]` assignment")
    # Issue.as_dict: keys of the dict literal + out["k"] = ... stores
    asd = _method(tree, "Issue", "as_dict")
    as_keys = _dict_literals(asd)
    for n in ast.walk(asd):
        if isinstance(n, ast.Subscript) and isinstance(n.ctx, ast.Store) and isinstance(n.slice, ast.Constant) and isinstance(n.slice.value, str):
            if n.slice.value not in as_keys:
                as_keys.append(n.slice.value)
    # (key, attr) pairs of the dict literal: "k": <expr mentioning self.attr first>
    as_stores = []
    for n in ast.walk(asd):
        if isinstance(n, ast.Dict):
            for k, v in zip(n.keys, n.values):
                if isinstance(k, ast.Constant) and isinstance(k.value, str):
                    attrs = [a.attr for a in ast.walk(v) if isinstance(a, ast.Attribute) and isinstance(a.value, ast.Name) and a.value.id == "self"]
                    if len(attrs) == 1:
                        as_stores.append((k.value, attrs[0]))
    # Issue.from_dict: data["k"] loads (required) and data.get("k", d) (optional), in source order
    frd = _method(tree, "Issue", "from_dict")
    required, optional = [], []
    for st in frd.body:
        for n in ast.walk(st):
            if isinstance(n, ast.Subscript) and isinstance(n.ctx, ast.Load) and isinstance(n.slice, ast.Constant) and isinstance(n.slice.value, str):
                required.append(n.slice.value)
            if isinstance(n, ast.Call) and isinstance(n.func, ast.Attribute) and n.func.attr == "get" and n.args and isinstance(n.args[0], ast.Constant) and isinstance(n.args[0].value, str):
                optional.append(n.args[0].value)
    # which attribute each required key is stored to:  self.<attr> = data["k"]  /  = f(data["k"])
    stores = []
    for st in frd.body:
        if isinstance(st, ast.Assign) and len(st.targets) == 1 and isinstance(st.targets[0], ast.Attribute):
            keys = [n.slice.value for n in ast.walk(st.value) if isinstance(n, ast.Subscript) and isinstance(n.slice, ast.Constant) and isinstance(n.slice.value, str)]
            keys += [n.args[0].value for n in ast.walk(st.value) if isinstance(n, ast.Call) and isinstance(n.func, ast.Attribute) and n.func.attr == "get" and n.args and isinstance(n.args[0], ast.Constant)]
            if len(keys) == 1:
                stores.append((st.targets[0].attr, keys[0]))
    cwe_keys = _dict_literals(_method(tree, "Cwe", "as_dict"))
    fmts = sorted(f.name for f in mgr.formatters if hasattr(f.plugin, "_accepts_baseline"))
    all_fmts = sorted(f.name for f in mgr.formatters)

    def sl(xs):
        return "[" + ", ".join(lstrl(x) for x in xs) + "]"

    L = [HEADER, "import Bandit.Basic", "namespace Bandit.Gen", ""]
    L.append("/-- `match_types` of `Issue.__eq__` (bandit/core/issue.py), in source order -/")
    L.append(f"def issueMatchTypes : List Str := {sl(match_types)}")
    L.append("/-- keys written by `Issue.as_dict(with_code=True)` -/")
    L.append(f"def issueAsDictKeys : List Str := {sl(as_keys)}")
    L.append("/-- `\"<key>\": …self.<attr>…` pairs of the dict literal in `Issue.as_dict` -/")
    L.append("def issueAsDictStores : List (Str × Str) := [" + ", ".join(f"({lstrl(k)}, {lstrl(a)})" for k, a in as_stores) + "]")
    L.append("/-- keys `Issue.from_dict` reads with `data[k]` (KeyError when absent), in source order -/")
    L.append(f"def issueFromDictRequired : List Str := {sl(required)}")
    L.append("/-- keys `Issue.from_dict` reads with `data.get(k, default)` -/")
    L.append(f"def issueFromDictOptional : List Str := {sl(optional)}")
    L.append("/-- `self.<attr> = …data[<key>]…` pairs of `Issue.from_dict` -/")
    L.append("def issueFromDictStores : List (Str × Str) := [" + ", ".join(f"({lstrl(a)}, {lstrl(k)})" for a, k in stores) + "]")
    L.append("/-- keys of `Cwe.as_dict()` for a set id -/")
    L.append(f"def cweAsDictKeys : List Str := {sl(cwe_keys)}")
    L.append("/-- formatters carrying `_accepts_baseline` (what `-b` accepts) / all registered formatters -/")
    L.append(f"def baselineFormatters : List Str := {sl(fmts)}")
    L.append(f"def allFormatters : List Str := {sl(all_fmts)}")
    L.append("")
    L.append("end Bandit.Gen")
    return {"IssueFields": "\n".join(L) + "\n"}
