"""C09 translator part: the literal HTML templates of bandit/formatters/html.py -> Gen/HtmlTemplates.lean.

Dumb on purpose: copies the string constants assigned to `issue_block`, `code_block`, `skipped_block`
inside `report()` and turns the skipped-line f-string into a `{name}` template (only the literal
pieces and the *names* of the interpolated variables are taken; whether a value is passed through
`html_escape` is logic and lives in the hand model `Bandit.Format.HtmlCfg`)."""
import ast, os
import translate as T


def _templates(repo):
    path = os.path.join(repo, "bandit", "formatters", "html.py")
    tree = ast.parse(open(path, encoding="utf-8").read())
    rep = [n for n in ast.walk(tree) if isinstance(n, ast.FunctionDef) and n.name == "report"]
    if not rep:
        raise T.TranslateError("html.py: no report()")
    consts, fstr = {}, None
    for n in ast.walk(rep[0]):
        if isinstance(n, ast.Assign) and len(n.targets) == 1 and isinstance(n.targets[0], ast.Name) \
                and isinstance(n.value, ast.Constant) and isinstance(n.value.value, str):
            consts[n.targets[0].id] = n.value.value
        if isinstance(n, ast.JoinedStr) and fstr is None:
            names = []
            parts = []
            for v in n.values:
                if isinstance(v, ast.Constant):
                    parts.append(v.value.replace("{", "{{").replace("}", "}}"))
                else:
                    e = v.value
                    while isinstance(e, ast.Call) and len(e.args) == 1:   # html_escape(x) -> x
                        e = e.args[0]
                    if not isinstance(e, ast.Name):
                        raise T.TranslateError("html.py: unexpected expression in the skipped-line f-string")
                    parts.append("{" + e.id + "}")
                    names.append(e.id)
            if sorted(names) == ["fname", "reason"]:
                fstr = "".join(parts)
    for k in ("issue_block", "code_block", "skipped_block"):
        if k not in consts:
            raise T.TranslateError("html.py: template %s not found" % k)
    if fstr is None:
        raise T.TranslateError("html.py: skipped-line f-string not found")
    return consts, fstr


def gen(mgr):
    consts, fstr = _templates(T.REPO)
    L = [T.HEADER, "import Bandit.Format", "namespace Bandit.Gen\n",
         "def htmlTemplates : Format.HtmlTemplates :=",
         "  { issueBlock := %s," % T.lstrl(consts["issue_block"]),
         "    codeBlock := %s," % T.lstrl(consts["code_block"]),
         "    skippedBlock := %s," % T.lstrl(consts["skipped_block"]),
         "    skippedLine := %s }" % T.lstrl(fstr),
         "\nend Bandit.Gen\n"]
    return {"HtmlTemplates": "\n".join(L)}
