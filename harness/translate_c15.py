"""Translator step for literal tables that live inside plugin modules / function bodies.

`gen(mgr)` is called by translate.run() on every check run and returns {ModuleName: lean_source}.
Like translate.py it is deliberately dumb: it locates an assignment by (file, enclosing function,
target name), evaluates the literal on its right-hand side and prints it.  A table that cannot be
found or is not of the expected literal shape raises TranslateError (reported as a broken tie).

Each property adds its own section (a function returning a list of Lean declaration strings) to
SECTIONS; the emitted module `Bandit.Gen.LocalTables` imports only `Bandit.Basic`.
"""
import ast, os

import translate as T

PLUGINS = os.path.join(T.REPO, "bandit", "plugins")


def _parse(fname):
    path = os.path.join(PLUGINS, fname)
    try:
        with open(path, encoding="utf-8") as f:
            return ast.parse(f.read())
    except (OSError, SyntaxError) as e:
        raise T.TranslateError(f"cannot read {path}: {e}")


def _find_func(tree, func):
    if func is None:
        return tree
    for n in ast.walk(tree):
        if isinstance(n, (ast.FunctionDef, ast.AsyncFunctionDef)) and n.name == func:
            return n
    return None


def local_value(fname, func, name, env=None):
    """Value of the (unique) assignment `name = <expr>` inside function `func` of plugins/<fname>
    (`func=None`: module level).  The expression may only consist of literals, set/tuple/list/dict
    displays, `|` between them, the constructors set/frozenset/tuple/list/dict applied to such values
    and names given in `env` (tables defined just above it)."""
    tree = _parse(fname)
    scope = _find_func(tree, func)
    if scope is None:
        raise T.TranslateError(f"{fname}: function {func} not found")
    nodes = ast.walk(scope) if func is not None else iter(scope.body)
    hits = [n for n in nodes if isinstance(n, ast.Assign) and len(n.targets) == 1
            and isinstance(n.targets[0], ast.Name) and n.targets[0].id == name]
    if len(hits) != 1:
        raise T.TranslateError(f"{fname}:{func}: expected exactly one assignment to {name}, found {len(hits)}")
    expr = hits[0].value
    ctors = {"frozenset": frozenset, "set": set, "tuple": tuple, "list": list, "dict": dict}
    for n in ast.walk(expr):
        ok = isinstance(n, (ast.Constant, ast.Set, ast.Tuple, ast.List, ast.Dict, ast.BinOp, ast.BitOr, ast.Load)) \
            or (isinstance(n, ast.Name) and ((env is not None and n.id in env) or n.id in ctors)) \
            or (isinstance(n, ast.Call) and isinstance(n.func, ast.Name) and n.func.id in ctors and not n.keywords)
        if not ok:
            raise T.TranslateError(f"{fname}:{func}:{name}: unsupported expression node {type(n).__name__}")
    try:
        return eval(compile(ast.Expression(expr), fname, "eval"), {"__builtins__": {}}, dict(ctors, **(env or {})))
    except Exception as e:  # noqa
        raise T.TranslateError(f"{fname}:{func}:{name}: {type(e).__name__}: {e}")


def _strs(v, what):
    if not isinstance(v, (set, frozenset, tuple, list)) or not all(isinstance(x, str) for x in v):
        raise T.TranslateError(f"{what}: expected a collection of strings, got {v!r}")
    # sets have no order and only membership is used: sort for a stable file
    return sorted(v) if isinstance(v, (set, frozenset)) else list(v)


def _str_list(name, v, doc):
    return f"/-- {doc} -/\ndef {name} : List Str := " + T.llist([T.lstrl(x) for x in _strs(v, name)], per_line=6)


def _str_map(name, v, doc, val):
    if not isinstance(v, dict) or not all(isinstance(k, str) for k in v):
        raise T.TranslateError(f"{name}: expected a dict with string keys, got {v!r}")
    return f"/-- {doc} -/\ndef {name} : List (Str × {val[0]}) := " + T.llist([f"({T.lstrl(k)}, {val[1](name, x)})" for k, x in v.items()], per_line=2)


def _int(name, x):
    if isinstance(x, bool) or not isinstance(x, int):
        raise T.TranslateError(f"{name}: expected int values, got {x!r}")
    return str(x) if x >= 0 else f"({x})"


def _nat(name, x):
    if isinstance(x, bool) or not isinstance(x, int) or x < 0:
        raise T.TranslateError(f"{name}: expected non-negative int values, got {x!r}")
    return str(x)


def _str(name, x):
    if not isinstance(x, str):
        raise T.TranslateError(f"{name}: expected str values, got {x!r}")
    return T.lstrl(x)


def section_c15():
    """Tables of the weak-crypto / transport checks (C15)."""
    out = []
    f = "hashlib_insecure_functions.py"
    out.append(_str_list("weakHashes", local_value(f, None, "WEAK_HASHES"), "`hashlib_insecure_functions.WEAK_HASHES`"))
    out.append(_str_list("weakCryptHashes", local_value(f, None, "WEAK_CRYPT_HASHES"), "`hashlib_insecure_functions.WEAK_CRYPT_HASHES`"))
    for pref, fname, func in (("b501", "crypto_request_no_cert_validation.py", "request_with_no_cert_validation"),
                              ("b113", "request_without_timeout.py", "request_without_timeout")):
        verbs = local_value(fname, func, "HTTP_VERBS")
        httpx = local_value(fname, func, "HTTPX_ATTRS", env={"HTTP_VERBS": verbs})
        out.append(_str_list(pref + "HttpVerbs", verbs, f"`HTTP_VERBS` inside `{func}` (a set: sorted)"))
        out.append(_str_list(pref + "HttpxAttrs", httpx, f"`HTTPX_ATTRS` inside `{func}` (a set: sorted)"))
    f = "weak_cryptographic_key.py"
    cio = "_weak_crypto_key_size_cryptography_io"
    out.append(_str_map("cioFuncKeyType", local_value(f, cio, "func_key_type"), f"`func_key_type` inside `{cio}`", ("Str", _str)))
    out.append(_str_map("cioArgPosition", local_value(f, cio, "arg_position"), f"`arg_position` inside `{cio}`", ("Nat", _nat)))
    out.append(_str_map("curveKeySizes", local_value(f, cio, "curve_key_sizes"), f"`curve_key_sizes` inside `{cio}`", ("Int", _int)))
    pyc = "_weak_crypto_key_size_pycrypto"
    out.append(_str_map("pycFuncKeyType", local_value(f, pyc, "func_key_type"), f"`func_key_type` inside `{pyc}`", ("Str", _str)))
    return out


SECTIONS = [section_c15]


def gen(mgr):
    L = [T.HEADER, "import Bandit.Basic", "namespace Bandit.Gen", ""]
    for s in SECTIONS:
        L.append(f"/-! ### {s.__doc__.strip()} -/")
        for d in s():
            L.append(d)
            L.append("")
    L.append("end Bandit.Gen")
    return {"LocalTables": "\n".join(L) + "\n"}
