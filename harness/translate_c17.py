"""C17 translator part (picked up by harness/translate_local.py): literal tables that live *inside* the plugin
functions (extracted from the source AST by name) and interpreter-derived character facts
-> lean/Bandit/Gen/LocalTablesInject.lean
"""
import ast, os, re

import translate as T

REPO = T.REPO


def _func(tree, name):
    for n in ast.walk(tree):
        if isinstance(n, ast.FunctionDef) and n.name == name:
            return n
    raise T.TranslateError(f"function {name} not found")


def _parse(rel):
    path = os.path.join(REPO, rel)
    try:
        return ast.parse(open(path, encoding="utf-8").read())
    except OSError as e:
        raise T.TranslateError(f"cannot read {rel}: {e}")


def _strs(node, what):
    if not isinstance(node, (ast.List, ast.Tuple)) or not all(isinstance(e, ast.Constant) and isinstance(e.value, str) for e in node.elts):
        raise T.TranslateError(f"{what}: not a literal list/tuple of strings")
    return [e.value for e in node.elts]


def local_assign(rel, func, var):
    """value of `var = [..]` inside function `func` of file `rel`"""
    f = _func(_parse(rel), func)
    for n in ast.walk(f):
        if isinstance(n, ast.Assign) and len(n.targets) == 1 and isinstance(n.targets[0], ast.Name) and n.targets[0].id == var:
            return _strs(n.value, f"{rel}:{func}:{var}")
    raise T.TranslateError(f"{rel}: {func}: no assignment to {var}")


def local_membership(rel, func, index=0):
    """the literal tuple/list on the right of the index-th `x in (...)` / `x not in (...)` inside `func`"""
    f = _func(_parse(rel), func)
    found = []
    for n in ast.walk(f):
        if isinstance(n, ast.Compare) and len(n.ops) == 1 and isinstance(n.ops[0], (ast.In, ast.NotIn)):
            c = n.comparators[0]
            if isinstance(c, (ast.Tuple, ast.List)) and c.elts and all(isinstance(e, ast.Constant) and isinstance(e.value, str) for e in c.elts):
                found.append((n.lineno, n.col_offset, [e.value for e in c.elts]))
    found.sort()
    if index >= len(found):
        raise T.TranslateError(f"{rel}: {func}: membership test #{index} not found")
    return found[index][2]


def local_for_iter(rel, func, index=0):
    """the literal list iterated by the index-th `for x in [..]` inside `func`"""
    f = _func(_parse(rel), func)
    found = []
    for n in ast.walk(f):
        if isinstance(n, ast.For) and isinstance(n.iter, (ast.List, ast.Tuple)) and n.iter.elts and \
                all(isinstance(e, ast.Constant) and isinstance(e.value, str) for e in n.iter.elts):
            found.append((n.lineno, [e.value for e in n.iter.elts]))
    found.sort()
    if index >= len(found):
        raise T.TranslateError(f"{rel}: {func}: for-loop over a literal list #{index} not found")
    return found[index][1]


def ignorecase_extra():
    """(code point, ascii lower-case letter) for every non-ASCII code point that an ASCII letter matches
    under re.IGNORECASE (str pattern) in the running interpreter"""
    out = []
    anyletter = re.compile("[a-z]", re.IGNORECASE)
    cands = [c for c in range(128, 0x110000) if not (0xD800 <= c <= 0xDFFF) and anyletter.fullmatch(chr(c))]
    for letter in "abcdefghijklmnopqrstuvwxyz":
        rx = re.compile(letter, re.IGNORECASE)
        for c in cands:
            if rx.fullmatch(chr(c)):
                out.append((c, ord(letter)))
    # a letter-by-letter probe of everything the class missed would cost 26 full sweeps; the class
    # `[a-z]` and the single letters share CPython's case tables, and the SQL matcher built on this
    # table is differential-tested against `re` on every run (harness/props/c17.py)
    return sorted(out)


def gen_inject(mgr):
    sl = lambda xs: "[" + ", ".join(T.lstrl(x) for x in xs) + "]"
    L = [T.HEADER, "import Bandit.Basic", "namespace Bandit.Gen", ""]
    L.append("/-- `names` in injection_sql._evaluate_ast: wrapper call names that raise the confidence -/")
    L.append("def sqlExecNames : List Str := " + sl(local_assign("bandit/plugins/injection_sql.py", "_evaluate_ast", "names")))
    L.append("/-- the attribute names of `\"...\".format / .replace` in injection_sql._evaluate_ast -/")
    L.append("def sqlStrMethods : List Str := " + sl(local_membership("bandit/plugins/injection_sql.py", "_evaluate_ast")))
    L.append("/-- `affected_functions` in django_xss.django_mark_safe -/")
    L.append("def djangoAffected : List Str := " + sl(local_assign("bandit/plugins/django_xss.py", "django_mark_safe", "affected_functions")))
    L.append("/-- the built-in Markup names of markupsafe_markup_xss -/")
    L.append("def markupNames : List Str := " + sl(local_membership("bandit/plugins/markupsafe_markup_xss.py", "markupsafe_markup_xss")))
    L.append("/-- the list-valued keys examined by django_extra_used -/")
    L.append("def extraListKeys : List Str := " + sl(local_for_iter("bandit/plugins/django_sql_injection.py", "django_extra_used")))
    ex = ignorecase_extra()
    L.append("/-- non-ASCII code points matched by an ASCII letter under re.IGNORECASE: (code point, letter) -/")
    L.append("def ignoreCaseExtra : List (Nat × Nat) := [" + ", ".join(f"({a}, {b})" for a, b in ex) + "]")
    L.append("")
    L.append("end Bandit.Gen")
    return {"LocalTablesInject": "\n".join(L) + "\n"}


def gen(mgr):
    return gen_inject(mgr)
