"""Per-property translator parts: every `harness/translate_cNN.py` exporting `gen(mgr) -> {Module: lean_source}`."""
import glob, importlib, os


def gen(mgr):
    out = {}
    here = os.path.dirname(os.path.abspath(__file__))
    for p in sorted(glob.glob(os.path.join(here, "translate_c[0-9][0-9].py"))):
        out.update(importlib.import_module(os.path.basename(p)[:-3]).gen(mgr))
    return out
