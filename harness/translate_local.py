"""Per-property translator parts: every `harness/translate_cNN.py` (and `translate_registry.py`) exporting
`gen(mgr) -> {Module: lean_source}`."""
import glob, importlib, os


def gen(mgr):
    out = {}
    here = os.path.dirname(os.path.abspath(__file__))
    mods = sorted(os.path.basename(p)[:-3] for p in glob.glob(os.path.join(here, "translate_c[0-9][0-9].py")))
    mods.append("translate_registry")
    for m in mods:
        out.update(importlib.import_module(m).gen(mgr))
    return out
