"""Translator part for C18: the registry tables (`lean/Bandit/Gen/RegTables.lean`) and the frozen
published tables (`published/*.json` -> `lean/Bandit/Published.lean`).

Like translate.py this is deliberately dumb: it reads values from the running registry / copies
literals out of the source AST / lists directories, and prints Lean literals.  `real_tables()` is also
what the C18 harness sends to the Lean driver, so that the *same* JSON shape is used for the
generated instance and for the registry observed at run time.
"""
import benv  # noqa: F401
import ast, glob, json, os, re

REPO = benv.REPO
VERIF = benv.VERIF


# ----------------------------------------------------------------------------- source-tree extraction
def _plugin_sources(repo=None):
    repo = repo or REPO
    for path in sorted(glob.glob(os.path.join(repo, "bandit", "plugins", "*.py"))):
        base = os.path.basename(path)[:-3]
        if base == "__init__":
            continue
        try:
            with open(path, encoding="utf-8") as f:
                tree = ast.parse(f.read())
        except (OSError, SyntaxError):
            continue
        yield "bandit.plugins." + base, tree


def _rank_names():
    from bandit.core import constants
    return {r: getattr(constants, r) for r in constants.RANKING if hasattr(constants, r)}


def _resolve(expr, fn, kind, depth=0):
    """Possible literal values of a rank (`kind='rank'`) or CWE (`kind='cwe'`) expression.
    Returns a list whose members are values or None (= not a literal)."""
    from bandit.core import issue as b_issue
    if depth > 4:
        return [None]
    if isinstance(expr, ast.Constant) and isinstance(expr.value, (str, int)) and not isinstance(expr.value, bool):
        return [expr.value]
    if isinstance(expr, ast.IfExp):
        return _resolve(expr.body, fn, kind, depth + 1) + _resolve(expr.orelse, fn, kind, depth + 1)
    if kind == "rank":
        ranks = _rank_names()
        if isinstance(expr, ast.Attribute) and expr.attr in ranks:
            return [ranks[expr.attr]]
        if isinstance(expr, ast.Name) and expr.id in ranks:
            return [ranks[expr.id]]
    if kind == "cwe" and isinstance(expr, ast.Attribute):
        owner = expr.value
        if (isinstance(owner, ast.Attribute) and owner.attr == "Cwe") or (isinstance(owner, ast.Name) and owner.id == "Cwe"):
            v = getattr(b_issue.Cwe, expr.attr, None)
            return [v if isinstance(v, int) else None]
    if isinstance(expr, ast.Name) and fn is not None:
        vals, direct = [], set()
        for n in ast.walk(fn):
            tgts, value = [], None
            if isinstance(n, ast.Assign):
                tgts, value = n.targets, n.value
            elif isinstance(n, ast.AnnAssign) and n.value is not None:
                tgts, value = [n.target], n.value
            for t in tgts:
                if isinstance(t, ast.Name) and t.id == expr.id:
                    direct.add(id(t))
                    vals += _resolve(value, fn, kind, depth + 1)
        # any other binding of the name (loop target, unpacking, with-as, parameter, walrus): unknown
        stores = [n for n in ast.walk(fn) if isinstance(n, ast.Name) and n.id == expr.id and isinstance(n.ctx, ast.Store)]
        params = [a.arg for f in ast.walk(fn) if isinstance(f, (ast.FunctionDef, ast.AsyncFunctionDef, ast.Lambda))
                  for a in f.args.posonlyargs + f.args.args + f.args.kwonlyargs + [x for x in (f.args.vararg, f.args.kwarg) if x]]
        if not direct or any(id(n) not in direct for n in stores) or expr.id in params:
            vals.append(None)
        return vals
    return [None]


def issue_sites(repo=None):
    """Every `Issue(...)` construction in bandit/plugins/*.py."""
    from bandit.core import constants
    out = []
    for mod, tree in _plugin_sources(repo):
        for top in tree.body:
            if not isinstance(top, (ast.FunctionDef, ast.AsyncFunctionDef, ast.ClassDef)):
                continue
            for n in ast.walk(top):
                if not isinstance(n, ast.Call):
                    continue
                f = n.func
                fname = f.attr if isinstance(f, ast.Attribute) else f.id if isinstance(f, ast.Name) else None
                if fname != "Issue":
                    continue
                kw = {k.arg: k.value for k in n.keywords if k.arg}
                pos = dict(zip(["severity", "cwe", "confidence"], n.args))
                arg = lambda name: kw.get(name, pos.get(name))  # noqa: E731
                sev, conf, cwe = arg("severity"), arg("confidence"), arg("cwe")
                sevs = _resolve(sev, top, "rank") if sev is not None else []
                confs = _resolve(conf, top, "rank") if conf is not None else [constants.CONFIDENCE_DEFAULT]
                cwes = _resolve(cwe, top, "cwe") if cwe is not None else []
                cwev = None
                if cwes and all(isinstance(c, int) for c in cwes):
                    cwev = min(cwes)          # a literal 0 among the alternatives is what matters
                out.append({"module": mod, "func": top.name,
                            "sevs": [v if isinstance(v, str) else None for v in sevs],
                            "confs": [v if isinstance(v, str) else None for v in confs],
                            "cwe_present": cwe is not None, "cwe": cwev})
    return out


def defined_checks(repo=None):
    """Functions decorated with `test_id("Bxxx")` in bandit/plugins/*.py: [module, function, id]."""
    out = []
    for mod, tree in _plugin_sources(repo):
        for top in tree.body:
            if not isinstance(top, (ast.FunctionDef, ast.AsyncFunctionDef)):
                continue
            for d in top.decorator_list:
                if not isinstance(d, ast.Call):
                    continue
                f = d.func
                fname = f.attr if isinstance(f, ast.Attribute) else f.id if isinstance(f, ast.Name) else None
                if fname == "test_id":
                    tid = d.args[0].value if d.args and isinstance(d.args[0], ast.Constant) else ""
                    out.append([mod, top.name, str(tid)])
    return out


def _files(repo, sub):
    """Modules of bandit/<sub>/ that *are* a plugin / formatter / blacklist module (helper modules such as
    utils.py are not): a plugin module has a top-level function decorated with `checks`/`test_id`, a
    formatter module defines a top-level `report`, a blacklist module a top-level `gen_blacklist`."""
    out = []
    for path in sorted(glob.glob(os.path.join(repo, "bandit", sub, "*.py"))):
        base = os.path.basename(path)[:-3]
        if base == "__init__":
            continue
        try:
            tree = ast.parse(open(path, encoding="utf-8").read())
        except (OSError, SyntaxError):
            out.append(base)          # cannot tell: keep it, so that it must be declared
            continue
        funcs = [n for n in tree.body if isinstance(n, (ast.FunctionDef, ast.AsyncFunctionDef))]
        if sub == "plugins":
            def deco_names(f):
                for d in f.decorator_list:
                    g = d.func if isinstance(d, ast.Call) else d
                    yield g.attr if isinstance(g, ast.Attribute) else getattr(g, "id", None)
            ok = any(n in ("checks", "test_id") for f in funcs for n in deco_names(f))
        else:
            ok = any(f.name == ("report" if sub == "formatters" else "gen_blacklist") for f in funcs)
        if ok:
            out.append(base)
    return out


def _pages(repo, sub):
    return sorted(os.path.basename(x)[:-4] for x in glob.glob(os.path.join(repo, "doc", "source", sub, "*.rst")))


def make_id(title):
    """docutils' `nodes.make_id` for ASCII titles (section anchor of a heading)."""
    s = re.sub(r"[^a-z0-9]+", "-", title.lower())
    return re.sub(r"^[-0-9]+|-+$", "", s)


_UNDERLINE = re.compile(r"^([-=~^\"'`#*+:.])\1{2,}\s*$")


def blacklist_doc_anchors(repo=None):
    """Section anchors of each doc/source/blacklists/*.rst page.  The pages only `automodule` a
    blacklist module, so the sections are the headings of that module's docstring."""
    repo = repo or REPO
    out = []
    for page in _pages(repo, "blacklists"):
        try:
            rst = open(os.path.join(repo, "doc", "source", "blacklists", page + ".rst"), encoding="utf-8").read()
        except OSError:
            continue
        texts = [rst]
        for m in re.finditer(r"^\.\. automodule:: ([\w.]+)\s*$", rst, re.M):
            path = os.path.join(repo, *m.group(1).split(".")) + ".py"
            try:
                doc = ast.get_docstring(ast.parse(open(path, encoding="utf-8").read()))
            except (OSError, SyntaxError):
                doc = None
            if doc:
                texts.append(doc)
        for text in texts:
            lines = text.splitlines()
            for i in range(len(lines) - 1):
                title = lines[i].rstrip()
                if not title.strip() or _UNDERLINE.match(title) or title.lstrip()[0] in "+|":
                    continue
                if _UNDERLINE.match(lines[i + 1]) and len(lines[i + 1].rstrip()) >= len(title):
                    a = make_id(title.strip())
                    if a and [page, a] not in out:
                        out.append([page, a])
    return out


# ----------------------------------------------------------------------------- the tables
def snapshot_names(mgr):
    return {k: v["name"] for k, v in mgr.blacklist_by_id.items()}


def restore_names(mgr, snap):
    for k, n in snap.items():
        if k in mgr.blacklist_by_id:
            mgr.blacklist_by_id[k]["name"] = n


def real_tables(mgr=None, repo=None):
    """The registry as the running implementation has it + what the source tree / docs contain."""
    from bandit.core import constants, docs_utils, extension_loader
    mgr = mgr or extension_loader.MANAGER
    repo = repo or REPO
    snap = snapshot_names(mgr)
    try:
        plugins = []
        for p in mgr.plugins:
            fn = p.plugin
            plugins.append({"id": str(fn._test_id), "name": p.name, "func": getattr(fn, "__name__", ""),
                            "module": getattr(fn, "__module__", ""), "url": None})
        bl, seen = [], {}
        for kind, rows in mgr.blacklist.items():
            for r in rows:
                if id(r) in seen:
                    seen[id(r)]["kinds"].append(kind)
                    continue
                cwe = r.get("cwe", 0)
                cwe = getattr(cwe, "id", cwe)
                e = {"id": str(r.get("id", "LEGACY")), "name": str(r.get("name", "")), "level": str(r.get("level", "MEDIUM")),
                     "cwe": cwe if isinstance(cwe, int) and cwe >= 0 else 0, "qualnames": [str(q) for q in r.get("qualnames", [])],
                     "kinds": [kind], "url": None}
                seen[id(r)] = e
                bl.append(e)
        for e in plugins + bl:
            try:
                e["url"] = docs_utils.get_url(e["id"])
            except Exception as ex:        # a registered check without a documentation URL: a fact about /repo (C18 judges it), not a translator failure
                e["url"] = ""
                e["url_error"] = "%s: %s" % (type(ex).__name__, ex)
            restore_names(mgr, snap)
        try:
            base = docs_utils.get_url("no such id")
        except Exception:
            base = ""
    finally:
        restore_names(mgr, snap)
    eps = benv.entry_points_from_setup_cfg(repo)
    declared = [[g, n, t] for g in ("bandit.plugins", "bandit.formatters", "bandit.blacklists") for n, t in eps.get(g, [])]
    return {
        "plugins": plugins, "blacklist": bl, "builtin": list(mgr.builtin), "ranking": list(constants.RANKING),
        "declared": declared,
        "loadedFormatters": sorted(f.name for f in mgr.formatters),
        "loadedBlacklists": sorted(b.name for b in mgr.blacklists_mgr),
        "definedChecks": defined_checks(repo),
        "pluginFiles": _files(repo, "plugins"), "formatterFiles": _files(repo, "formatters"), "blacklistFiles": _files(repo, "blacklists"),
        "pluginDocPages": _pages(repo, "plugins"), "blacklistDocPages": _pages(repo, "blacklists"),
        "blacklistDocAnchors": blacklist_doc_anchors(repo),
        "issueSites": issue_sites(repo),
        "docBase": base,
    }


# ----------------------------------------------------------------------------- Lean printing
def _T():
    import translate as T
    return T


def chars(x):
    """A Lean `List Char` literal spelled character by character.  (`"...".toList` is correct too, but
    the kernel then has to run the UTF-8 decoder of `String.toList` for every access, which makes
    `decide +kernel` over these tables ~100x slower.)"""
    out = []
    for ch in x:
        o = ord(ch)
        if 32 <= o < 127 and ch not in "'\\":
            out.append("'%s'" % ch)
        elif 0xD800 <= o <= 0xDFFF:
            out.append("Char.ofNat 65533")
        else:
            out.append("Char.ofNat %d" % o)
    return "[" + ",".join(out) + "]"


def lean_tables(tb):
    T = _T()
    s, sl = chars, lambda xs, n=4: T.llist([chars(x) for x in xs], per_line=n)
    L = [T.HEADER.replace("translate.py", "translate_registry.py"), "import Bandit.RegistrySpec", "namespace Bandit.Gen", ""]
    pl = ["{ id := %s, name := %s, func := %s,\n      module := %s,\n      url := %s }" %
          (s(p["id"]), s(p["name"]), s(p["func"]), s(p["module"]), s(p["url"])) for p in tb["plugins"]]
    bl = ["{ id := %s, name := %s, level := %s, cwe := %d, kinds := [%s],\n      url := %s,\n      qualnames := %s }" %
          (s(b["id"]), s(b["name"]), s(b["level"]), b["cwe"], ", ".join(s(k) for k in b["kinds"]), s(b["url"]),
           T.llist([s(q) for q in b["qualnames"]], per_line=3, indent="        ")) for b in tb["blacklist"]]
    def opt(v):
        return "none" if v is None else "some " + s(v)
    sites = ["{ module := %s, func := %s, sevs := [%s], confs := [%s], cwe := %s }" %
             (s(x["module"]), s(x["func"]), ", ".join(opt(v) for v in x["sevs"]), ", ".join(opt(v) for v in x["confs"]),
              "none" if not x["cwe_present"] else ("some none" if x["cwe"] is None else "some (some %d)" % x["cwe"]))
             for x in tb["issueSites"]]
    tri = lambda rows: T.llist(["(%s, %s, %s)" % (s(a), s(b), s(c)) for a, b, c in rows], per_line=1)  # noqa: E731
    fields = [
        ("plugins", "List PluginRow", T.llist(pl, per_line=1, indent="    ")),
        ("blacklist", "List BlRow", T.llist(bl, per_line=1, indent="    ")),
        ("builtin", "List Str", "[" + ", ".join(s(b) for b in tb["builtin"]) + "]"),
        ("ranking", "List Str", "[" + ", ".join(s(b) for b in tb["ranking"]) + "]"),
        ("declared", "List (Str × Str × Str)", tri(tb["declared"])),
        ("loadedFormatters", "List Str", sl(tb["loadedFormatters"], 6)),
        ("loadedBlacklists", "List Str", sl(tb["loadedBlacklists"], 6)),
        ("definedChecks", "List (Str × Str × Str)", tri(tb["definedChecks"])),
        ("pluginFiles", "List Str", sl(tb["pluginFiles"])),
        ("formatterFiles", "List Str", sl(tb["formatterFiles"], 6)),
        ("blacklistFiles", "List Str", sl(tb["blacklistFiles"], 6)),
        ("pluginDocPages", "List Str", sl(tb["pluginDocPages"])),
        ("blacklistDocPages", "List Str", sl(tb["blacklistDocPages"])),
        ("blacklistDocAnchors", "List (Str × Str)", T.llist(["(%s, %s)" % (s(a), s(b)) for a, b in tb["blacklistDocAnchors"]], per_line=2)),
        ("issueSites", "List IssueSite", T.llist(sites, per_line=1, indent="    ")),
        ("docBase", "Str", s(tb["docBase"])),
    ]
    L.append("set_option maxRecDepth 20000\n")
    for name, ty, body in fields:
        L.append(f"def t_{name} : {ty} := {body}\n")
    L.append("/-- the registry tables of the current working tree (setup.cfg -> loaded entry points, source AST, doc/) -/")
    L.append("def tables : RegTables :=\n  { " + ",\n    ".join(f"{name} := t_{name}" for name, _, _ in fields) + " }\n")
    L.append("end Bandit.Gen")
    return "\n".join(L) + "\n"


def load_published():
    with open(os.path.join(VERIF, "published", "blacklist.json")) as f:
        bl = json.load(f)
    with open(os.path.join(VERIF, "published", "plugins.json")) as f:
        pl = json.load(f)
    return bl, pl


def lean_published():
    T = _T()
    bl, pl = load_published()
    s = chars
    L = ["-- GENERATED by harness/translate_registry.py from published/*.json (frozen at commit %s). Do not edit.\n" % bl.get("source_commit", "?"),
         "import Bandit.Blacklist", "namespace Bandit.Published", ""]
    def rule(r):
        return "{ id := %s, name := %s, level := %s, cwe := %d,\n      qualnames := %s }" % (
            s(r["id"]), s(r["name"]), T.rank(r["level"]), r["cwe"], T.llist([s(q) for q in r["qualnames"]], per_line=3, indent="        "))
    L.append("/-- every distinct published blacklist rule -/")
    L.append("def rules : List Rule := " + T.llist([rule(r) for r in bl["rules"]], per_line=1, indent="    ") + "\n")
    for kind in ("Call", "Import", "ImportFrom"):
        ids = [r["id"] for r in bl["rules"] if kind in r["kinds"]]
        L.append(f"/-- the published `{kind}` table (table order) -/")
        L.append(f"def rules{kind} : List Rule := rules.filter fun r => [" + ", ".join(s(i) for i in ids) + "].contains r.id\n")
    L.append("/-- published plugin (id, name) pairs -/")
    L.append("def plugins : List (Str × Str) := " + T.llist(["(%s, %s)" % (s(p["id"]), s(p["name"])) for p in pl["plugins"]], per_line=2) + "\n")
    L.append("end Bandit.Published")
    return "\n".join(L) + "\n"


def gen(mgr):
    """Called by translate.run() through translate_local.gen: returns Gen modules; Published.lean is
    written as a side effect (it lives outside Gen/ because it is generated from frozen data)."""
    T = _T()
    T.write_if_changed(os.path.join(VERIF, "lean", "Bandit", "Published.lean"), lean_published())
    return {"RegTables": lean_tables(real_tables(mgr))}


if __name__ == "__main__":
    print(json.dumps(real_tables(), indent=1)[:3000])
