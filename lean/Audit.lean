import Lean
/-!
# Axiom audit

`lake env lean --run Audit.lean Props.C01 Props.C02 …` prints one JSON line per theorem
*declared in* each listed module (compiler-generated auxiliary lemmas are skipped) with the
axioms it depends on.
-/
open Lean

def auditModule (env : Environment) (mod : Name) : IO Unit := do
  let some idx := env.getModuleIdx? mod | IO.println s!"\{\"module\":\"{mod}\",\"error\":\"not found\"}"
  let mut names : Array Name := #[]
  for (n, ci) in env.constants.toList do
    if env.getModuleIdxFor? n == some idx then
      if let .thmInfo _ := ci then
        -- skip compiler-generated equation lemmas of definitions and the projections of Prop-valued structures
        let last := match n with | .str _ s => s | _ => ""
        let isEqn := last == "eq_def" || (last.startsWith "eq_" && (last.drop 3).all Char.isDigit)
        if !n.isInternalDetail && (n.toString.splitOn "._").length == 1 && !isEqn && !(env.isProjectionFn n) then
          names := names.push n
  let sorted := names.qsort (fun a b => a.toString < b.toString)
  for n in sorted do
    let (axs, _) ← ((collectAxioms n : CoreM _).toIO
      { fileName := "<audit>", fileMap := default } { env := env })
    let axl := axs.toList.map (fun a => s!"\"{a}\"")
    IO.println s!"\{\"module\":\"{mod}\",\"thm\":\"{n}\",\"axioms\":[{", ".intercalate axl}]}"

def main (args : List String) : IO Unit := do
  initSearchPath (← findSysroot)
  let mods := args.map String.toName
  let env ← importModules (mods.map (fun m => ({ module := m } : Import))).toArray {}
  for m in mods do
    auditModule env m
