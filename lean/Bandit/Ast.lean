import Bandit.Basic
/-!
# Generic rose-tree model of CPython's `ast`

One generic tree, not a 100-constructor datatype: the serializer on the Python side
(`harness/astser.py`) knows nothing about node kinds, so new syntax cannot silently fall
outside the model.  `kids` lists the AST-valued fields in `ast.iter_fields` order, each
tagged list / non-list; every other field is an `Atom` in `attrs`.
-/
namespace Bandit

inductive Atom where
  | str (s : Str)
  | int (i : Int)
  | rat (num : Int) (den : Nat)      -- finite float literal, exact
  | flt (repr : Str)                 -- inf / nan
  | cplx (isZero : Bool)
  | bytes (b : List Nat)
  | bool (b : Bool)
  | none
  | ellipsis
  | other
deriving DecidableEq, Repr, Inhabited

structure Pos where
  line : Nat
  endLine : Nat
  col : Nat
  endCol : Nat
deriving DecidableEq, Repr, Inhabited

inductive Node where
  | mk (kind : Str) (pos : Option Pos) (attrs : List (Str × Atom))
       (kids : List (Str × Bool × List Node))
deriving Inhabited

namespace Node
def kind : Node → Str | mk k _ _ _ => k
def pos : Node → Option Pos | mk _ p _ _ => p
def attrs : Node → List (Str × Atom) | mk _ _ a _ => a
def kids : Node → List (Str × Bool × List Node) | mk _ _ _ ks => ks

/-- pseudo-nodes standing for non-AST items of a list field (`Dict.keys` `None`, `Global.names`) -/
def isAtomNode (n : Node) : Bool := n.kind == "#atom".toList

def line? (n : Node) : Option Nat := n.pos.map (·.line)
def endLine? (n : Node) : Option Nat := n.pos.map (·.endLine)
def col? (n : Node) : Option Nat := n.pos.map (·.col)

def isKind (n : Node) (k : String) : Bool := n.kind == k.toList

/-- attribute lookup -/
def attr (n : Node) (f : String) : Option Atom := (n.attrs.find? (·.1 == f.toList)).map (·.2)
def strAttr (n : Node) (f : String) : Option Str :=
  match n.attr f with | some (.str s) => some s | _ => none

/-- children in a *list* field (empty list if the field is absent) -/
def kidList (n : Node) (f : String) : List Node :=
  match n.kids.find? (·.1 == f.toList) with
  | some (_, _, ns) => ns
  | none => []
/-- child in a *non-list* field (`none` when the field is `None`/absent) -/
def kid? (n : Node) (f : String) : Option Node :=
  match n.kids.find? (·.1 == f.toList) with
  | some (_, _, ns) => ns.head?
  | none => none
def hasField (n : Node) (f : String) : Bool := (n.kids.any (·.1 == f.toList)) || (n.attrs.any (·.1 == f.toList))

/-- all children, in `ast.iter_child_nodes` order, pseudo-nodes dropped -/
def children (n : Node) : List Node :=
  (n.kids.flatMap (fun s => s.2.2)).filter (fun c => !c.isAtomNode)
end Node

/-- `n` with every position removed (what a check's *decision* may depend on) -/
def Node.erase : Node → Node
  | .mk k _ a ks => .mk k none a (eraseSlots ks)
where
  eraseSlots : List (Str × Bool × List Node) → List (Str × Bool × List Node)
    | [] => []
    | (f, l, ns) :: rest => (f, l, eraseList ns) :: eraseSlots rest
  eraseList : List Node → List Node
    | [] => []
    | n :: ns => Node.erase n :: eraseList ns

@[simp] theorem Node.erase_kind (n : Node) : n.erase.kind = n.kind := by
  cases n; rfl
@[simp] theorem Node.erase_attrs (n : Node) : n.erase.attrs = n.attrs := by
  cases n; rfl
@[simp] theorem Node.erase_isKind (n : Node) (k : String) : n.erase.isKind k = n.isKind k := by
  simp [Node.isKind]

/-- One step of bandit's traversal: a node together with its ancestor chain (nearest first)
and its `_bandit_sibling`. -/
structure Visit where
  anc : List Node
  node : Node
  sib : Option Node
deriving Inhabited

namespace Visit
def erase (v : Visit) : Visit := ⟨v.anc.map Node.erase, v.node.erase, v.sib.map Node.erase⟩
def parent? (v : Visit) : Option Node := v.anc.head?
def grandparent? (v : Visit) : Option Node := v.anc[1]?
end Visit

/-! `generic_visit`: pre-order over the AST-valued fields; the root itself is never visited. -/
mutual
  def visitsBelow (anc : List Node) : Node → List Visit
    | .mk k p a ks => visitsSlots (Node.mk k p a ks :: anc) ks
  def visitsSlots (anc : List Node) : List (Str × Bool × List Node) → List Visit
    | [] => []
    | (_, isList, ns) :: rest => visitsList anc isList ns ++ visitsSlots anc rest
  def visitsList (anc : List Node) (isList : Bool) : List Node → List Visit
    | [] => []
    | n :: ns =>
      (if n.isAtomNode then [] else
        (⟨anc, n, if isList then ns.head? else none⟩ :: visitsBelow anc n))
      ++ visitsList anc isList ns
end

def visits (root : Node) : List Visit := visitsBelow [] root

/-- `m` occurs strictly below `n`, reached through real (non-pseudo) nodes. -/
inductive Below : Node → Node → Prop
  | child {k p a ks f l ns m} : (f, l, ns) ∈ ks → m ∈ ns → m.isAtomNode = false → Below (.mk k p a ks) m
  | deeper {k p a ks f l ns c m} : (f, l, ns) ∈ ks → c ∈ ns → c.isAtomNode = false → Below c m → Below (.mk k p a ks) m

theorem mem_visitsList_self {anc l ns m} (h : m ∈ ns) (hm : m.isAtomNode = false) :
    ∃ v ∈ visitsList anc l ns, v.node = m ∧ v.anc = anc := by
  induction ns with
  | nil => cases h
  | cons n ns ih =>
    simp only [visitsList]
    cases h with
    | head => exact ⟨⟨anc, m, if l then ns.head? else none⟩, by simp [hm], rfl, rfl⟩
    | tail _ h => obtain ⟨v, hv, e⟩ := ih h; exact ⟨v, by simp [hv], e⟩

theorem visitsList_sub {anc l ns c v} (h : c ∈ ns) (hc : c.isAtomNode = false)
    (hv : v ∈ visitsBelow anc c) : v ∈ visitsList anc l ns := by
  induction ns with
  | nil => cases h
  | cons n ns ih =>
    simp only [visitsList]
    cases h with
    | head => simp [hc, hv]
    | tail _ h => simp [ih h]

theorem visitsSlots_sub {anc ks f l ns v} (h : (f, l, ns) ∈ ks) (hv : v ∈ visitsList anc l ns) :
    v ∈ visitsSlots anc ks := by
  induction ks with
  | nil => cases h
  | cons s ks ih =>
    obtain ⟨f', l', ns'⟩ := s
    simp only [visitsSlots]
    cases h with
    | head => simp [hv]
    | tail _ h => simp [ih h]

/-- Every node below the root, at any depth and in any field, is visited. -/
theorem below_visited {n m} (h : Below n m) : ∀ anc, ∃ v ∈ visitsBelow anc n, v.node = m := by
  induction h with
  | child hk hm hr =>
    intro anc
    simp only [visitsBelow]
    obtain ⟨v, hv, e, _⟩ := mem_visitsList_self (anc := _ :: anc) hm hr
    exact ⟨v, visitsSlots_sub hk hv, e⟩
  | deeper hk hc hr _ ih =>
    intro anc
    simp only [visitsBelow]
    obtain ⟨v, hv, e⟩ := ih (_ :: anc)
    exact ⟨v, visitsSlots_sub hk (visitsList_sub hc hr hv), e⟩

end Bandit
