import Bandit.Value
/-!
# Baseline filtering (`bandit -b report.json`)

Model of
* `core/issue.py`: `Issue.__eq__` (7 fields, CWE by id), `Cwe.as_dict/from_dict`, `Issue.as_dict`,
  `Issue.from_dict`, `issue_from_dict`, `Issue.filter`;
* `core/manager.py`: `populate_baseline`, `filter_results`, `_compare_baseline_results`,
  `_find_candidate_matches`, `results_count`; and the exit decision of `cli/main.py`.

`Str = List Char`: a Lean `Char` is a Unicode scalar value, so a text with a lone surrogate — on which
`as_dict`'s `text.encode("utf-8")` raises — is not representable; on everything representable
`encode("utf-8").decode("utf-8")` is the identity and is not modelled further.

The JSON *text* layer (`json.dumps` in the formatter, `json.loads` in `populate_baseline`) is not
modelled: a report is a list of `IssueDict` records (the JSON objects seen through the keys
`from_dict` reads).  Theorems about the round trip take the serializer as an explicit parameter
with the hypothesis `JsonFaithful`.

`Spec` (bottom of the file) states what property C07 demands, with multiset semantics.
-/
namespace Bandit.Baseline

/-- decidable equality of outcomes-or-crashes (used by the kernel-evaluated witnesses) -/
scoped instance instDecEqExcept {ε α : Type} [DecidableEq ε] [DecidableEq α] : DecidableEq (Except ε α)
  | .ok a, .ok b => if h : a = b then isTrue (by rw [h]) else isFalse (fun e => h (by cases e; rfl))
  | .error a, .error b => if h : a = b then isTrue (by rw [h]) else isFalse (fun e => h (by cases e; rfl))
  | .ok _, .error _ => isFalse (fun e => by cases e)
  | .error _, .ok _ => isFalse (fun e => by cases e)

/-! ## Issues and their identity -/

/-- A finding as the manager holds it.  `cwe` is `Cwe.id`.  `code` stands for the excerpt that
`get_code` reads through `linecache` (opaque, environment-dependent, never compared). -/
structure Issue where
  text : Str
  severity : Str
  cwe : Nat
  confidence : Str
  fname : Str
  test : Str
  testId : Str
  lineno : Int := 0
  linerange : List Nat := []
  col : Int := 0
  endCol : Int := 0
  code : Str := []
deriving DecidableEq, Repr, Inhabited

/-- The identity the property talks about: (file, test name + id, message, severity, confidence, CWE). -/
structure Ident where
  text : Str
  severity : Str
  cwe : Nat
  confidence : Str
  fname : Str
  test : Str
  testId : Str
deriving DecidableEq, Repr, Inhabited

def Issue.ident (i : Issue) : Ident :=
  ⟨i.text, i.severity, i.cwe, i.confidence, i.fname, i.test, i.testId⟩

/-- `match_types` of `Issue.__eq__`, in source order (compared with the generated list). -/
def matchTypes : List Str :=
  ["text".toList, "severity".toList, "cwe".toList, "confidence".toList, "fname".toList,
   "test".toList, "test_id".toList]

/-- `Issue.__eq__`: `all(getattr(self, f) == getattr(other, f) for f in match_types)`;
`cwe` compares by `Cwe.__eq__`, i.e. by id. -/
def Issue.eqv (a b : Issue) : Bool :=
  a.text == b.text && a.severity == b.severity && a.cwe == b.cwe && a.confidence == b.confidence
    && a.fname == b.fname && a.test == b.test && a.testId == b.testId

/-! ## Dict round trip -/

/-- `Cwe.as_dict()`: `{}` when the id is `NOTSET` (0), else `{"id": …, "link": …}`. -/
structure CweDict where
  id? : Option Nat := none
  link? : Option Str := none
deriving DecidableEq, Repr, Inhabited

def mitreUrl (id : Nat) : Str :=
  "https://cwe.mitre.org/data/definitions/".toList ++ (toString id).toList ++ ".html".toList

def cweAsDict (id : Nat) : CweDict :=
  if id ≠ 0 then { id? := some id, link? := some (mitreUrl id) } else {}

/-- `Cwe.from_dict`: `int(data["id"]) if "id" in data else NOTSET` -/
def cweFromDict (d : CweDict) : Nat :=
  match d.id? with
  | some n => n
  | none => 0

/-- One entry of `"results"` in a JSON report, seen through the keys `from_dict` reads
(`none` = key absent).  `more_info`/`candidates` and any other keys are ignored by the loader. -/
structure IssueDict where
  filename? : Option Str := none
  test_name? : Option Str := none
  test_id? : Option Str := none
  issue_severity? : Option Str := none
  issue_cwe? : Option CweDict := none
  issue_confidence? : Option Str := none
  issue_text? : Option Str := none
  line_number? : Option Int := none
  line_range? : Option (List Nat) := none
  col_offset? : Option Int := none
  end_col_offset? : Option Int := none
  code? : Option Str := none
deriving DecidableEq, Repr, Inhabited

/-- `Issue.as_dict(with_code)`; the json formatter always passes `with_code=True`. -/
def Issue.asDict (i : Issue) (withCode : Bool := true) : IssueDict :=
  { filename? := some i.fname
    test_name? := some i.test
    test_id? := some i.testId
    issue_severity? := some i.severity
    issue_cwe? := some (cweAsDict i.cwe)
    issue_confidence? := some i.confidence
    issue_text? := some i.text
    line_number? := some i.lineno
    line_range? := some i.linerange
    col_offset? := some i.col
    end_col_offset? := some i.endCol
    code? := if withCode then some i.code else none }

/-- `data[key]` -/
def req {α} (o : Option α) : M α :=
  match o with
  | some a => .ok a
  | none => .error .keyError

/-- `issue_from_dict(data)` = `Issue(severity=data["issue_severity"]).from_dict(data)` -/
def fromDict (d : IssueDict) : M Issue := do
  let _ ← req d.issue_severity?
  let code ← req d.code?
  let fname ← req d.filename?
  let severity ← req d.issue_severity?
  let cwe ← req d.issue_cwe?
  let confidence ← req d.issue_confidence?
  let text ← req d.issue_text?
  let test ← req d.test_name?
  let testId ← req d.test_id?
  let lineno ← req d.line_number?
  let linerange ← req d.line_range?
  pure { text, severity, cwe := cweFromDict cwe, confidence, fname, test, testId, lineno, linerange,
         col := d.col_offset?.getD 0, endCol := d.end_col_offset?.getD 0, code }

/-- keys read with `data[k]` by `Issue.from_dict`, in source order (compared with the generated list) -/
def loaderRequired : List Str :=
  ["code".toList, "filename".toList, "issue_severity".toList, "issue_cwe".toList,
   "issue_confidence".toList, "issue_text".toList, "test_name".toList, "test_id".toList,
   "line_number".toList, "line_range".toList]

/-- keys read with `data.get(k, 0)` -/
def loaderOptional : List Str := ["col_offset".toList, "end_col_offset".toList]

/-- `populate_baseline(data)`: `none` = the text is not JSON or has no `"results"` list; any
exception while loading leaves the baseline empty (a warning is logged). -/
def populateBaseline (report : Option (List IssueDict)) : List Issue :=
  match report with
  | none => []
  | some ds =>
    match ds.mapM fromDict with
    | .ok l => l
    | .error _ => []

/-! ## Threshold filter (`Issue.filter`) -/

/-- `rank.index(s)` (raises `ValueError` when absent) -/
def rankIndex (ranking : List Str) (s : Str) : M Nat :=
  if ranking.contains s then .ok (ranking.idxOf s) else .error .other

/-- `Issue.filter(severity, confidence)`; Python's `and` short-circuits. -/
def passes (ranking : List Str) (sevT confT : Str) (i : Issue) : M Bool := do
  let a ← rankIndex ranking i.severity
  let b ← rankIndex ranking sevT
  if a ≥ b then
    let c ← rankIndex ranking i.confidence
    let d ← rankIndex ranking confT
    pure (decide (c ≥ d))
  else pure false

def thresholdFilter (ranking : List Str) (sevT confT : Str) : List Issue → M (List Issue)
  | [] => pure []
  | i :: is => do
    let k ← passes ranking sevT confT i
    let rest ← thresholdFilter ranking sevT confT is
    pure (if k then i :: rest else rest)

/-! ## Comparing with the baseline -/

/-- Two readings of `_compare_baseline_results`:
* `membership` — the code as it is: `[a for a in results if a not in baseline]`;
* `counting` — the proposed repair (`proposed_fixes/C07-baseline-multiplicity.diff`):
  `[a for a in results if results.count(a) > baseline.count(a)]`. -/
inductive Variant where
  | membership | counting
deriving DecidableEq, Repr, Inhabited

/-- which reading the unchanged tree implements (flip when the repair is applied) -/
def currentVariant : Variant := .counting

/-- `a in l` for a list of issues: some element `x` with `x == a` -/
def memEq (a : Issue) (l : List Issue) : Bool := l.any (fun x => x.eqv a)

/-- `l.count(a)` -/
def countEq (a : Issue) (l : List Issue) : Nat := l.countP (fun x => x.eqv a)

/-- `_compare_baseline_results(baseline, results)` -/
def compareBaseline : Variant → List Issue → List Issue → List Issue
  | .membership, baseline, results => results.filter (fun a => !memEq a baseline)
  | .counting, baseline, results => results.filter (fun a => decide (countEq a results > countEq a baseline))

/-- `_find_candidate_matches(unmatched, results)`: an ordered dict keyed by the issue *object*
(`__hash__` is `id(self)`), so every unmatched issue keeps its own entry. -/
def findCandidates (unmatched results : List Issue) : List (Issue × List Issue) :=
  unmatched.map fun u => (u, results.filter (fun i => u.eqv i))

/-- What `get_issue_list` returns: a plain list without baseline, else the candidates dict. -/
inductive Outcome where
  | plain (l : List Issue)
  | cands (d : List (Issue × List Issue))
deriving DecidableEq, Repr, Inhabited

/-- the findings a formatter iterates over (list items / dict keys) -/
def Outcome.reported : Outcome → List Issue
  | .plain l => l
  | .cands d => d.map (·.1)

/-- the outcome with every issue replaced by its identity (what is left when line numbers, columns
and excerpts are disregarded); the flag tells the two shapes apart -/
def Outcome.idents : Outcome → Bool × List (Ident × List Ident)
  | .plain l => (false, l.map fun i => (i.ident, []))
  | .cands d => (true, d.map fun e => (e.1.ident, e.2.map Issue.ident))

/-- `results_count` = `len(get_issue_list(...))` -/
def Outcome.count (o : Outcome) : Nat := o.reported.length

/-- `filter_results` after the threshold filter (`if not self.baseline: return results`) -/
def filterCore (v : Variant) (baseline results : List Issue) : Outcome :=
  if baseline.isEmpty then .plain results
  else .cands (findCandidates (compareBaseline v baseline results) results)

/-- `BanditManager.filter_results(sev_filter, conf_filter)` -/
def filterResults (v : Variant) (ranking : List Str) (baseline results : List Issue) (sevT confT : Str) :
    M Outcome := do
  let rs ← thresholdFilter ranking sevT confT results
  pure (filterCore v baseline rs)

/-- `sys.exit(1)` iff `results_count(...) > 0 and not args.exit_zero` -/
def exitCode (o : Outcome) (exitZero : Bool) : Nat :=
  if o.count > 0 && !exitZero then 1 else 0

/-! ## Specification (property C07), multiset semantics -/
namespace Spec

/-- number of occurrences of an identity -/
def cnt (id : Ident) (l : List Issue) : Nat := l.countP (fun i => decide (i.ident = id))

/-- an identity must be reported iff it occurs more often now than the baseline accounts for -/
def MustReport (baseline results : List Issue) (id : Ident) : Prop := cnt id results > cnt id baseline

instance (b r : List Issue) (id : Ident) : Decidable (MustReport b r id) := by
  unfold MustReport; infer_instance

/-- all current occurrences of an identity -/
def occurrences (id : Ident) (results : List Issue) : List Issue :=
  results.filter (fun i => decide (i.ident = id))

/-- The report the property demands (results already threshold-filtered): every current finding
whose identity must be reported, each with all current occurrences of its identity as candidates. -/
def expected (baseline results : List Issue) : List (Issue × List Issue) :=
  (results.filter fun r => decide (MustReport baseline results r.ident)).map
    fun r => (r, occurrences r.ident results)

/-- Region of the known defect of the unchanged tree: the identity is in the baseline and occurs
more often now.  (`multiplicity_partial` holds outside it.) -/
def InDefectRegion (baseline results : List Issue) (id : Ident) : Prop :=
  ¬ (cnt id baseline = 0 ∨ cnt id results ≤ cnt id baseline)

instance (b r : List Issue) (id : Ident) : Decidable (InDefectRegion b r id) := by
  unfold InDefectRegion; infer_instance

/-- the serializer between `as_dict` and `from_dict` (formatter + `json.dumps` + file + `json.loads`)
keeps every key the loader reads -/
structure JsonFaithful (ser : IssueDict → IssueDict) : Prop where
  filename : ∀ d, (ser d).filename? = d.filename?
  test_name : ∀ d, (ser d).test_name? = d.test_name?
  test_id : ∀ d, (ser d).test_id? = d.test_id?
  issue_severity : ∀ d, (ser d).issue_severity? = d.issue_severity?
  issue_cwe : ∀ d, (ser d).issue_cwe? = d.issue_cwe?
  issue_confidence : ∀ d, (ser d).issue_confidence? = d.issue_confidence?
  issue_text : ∀ d, (ser d).issue_text? = d.issue_text?
  line_number : ∀ d, (ser d).line_number? = d.line_number?
  line_range : ∀ d, (ser d).line_range? = d.line_range?
  code : ∀ d, (ser d).code? = d.code?

end Spec

end Bandit.Baseline
