/-!
# `bandit-baseline` (bandit/cli/baseline.py) as a state machine over the user's git repository

The model follows the code that exists:

* `initialize()` — the precondition decision table (a `valid` flag that is cleared by each failing
  check, `return (None, None, None)` at once when the `git` module is missing);
* `main()` — `sys.exit(2)` when `initialize` refused or when HEAD has no parent, then
  `with baseline_setup() as t:` around the two steps
  `repo.head.reset(commit, working_tree=True)` (= `git reset --hard`, which moves the *branch* when
  HEAD is symbolic) + `subprocess.check_output(["bandit", …])`, where only
  `subprocess.CalledProcessError` is caught;
* `baseline_setup()` — a `@contextlib.contextmanager` generator: `mkdtemp(); yield; rmtree; reset`.
  An exception raised in the `with` body is thrown into the generator at the `yield`; statements
  after the `yield` run on that path **only** if they sit in a `finally` clause around it.  Which of
  the two clean-up statements are protected that way is the `Shape` parameter, which the translator
  reads off `/repo/bandit/cli/baseline.py`'s AST on every run (`Bandit.Gen.BaselineShape`).
  `Shape.current` is the code as pinned (no `try/finally`), `Shape.fixed` the minimally repaired
  code (both statements in `finally`).

Python exceptions are values (`Exc`); the repository state survives an exception, so every function
returns the state together with the result.
-/
namespace Bandit.BaselineTool

abbrev Commit := Nat

/-- what the tool can observe and change in the user's repository and its surroundings -/
structure Repo where
  /-- commit HEAD resolves to -/
  head : Commit
  /-- `none`: detached HEAD; `some c`: HEAD is a symbolic ref to a branch whose tip is `c` -/
  branchTip : Option Commit
  /-- commit whose content the tracked files of the working tree and the index show -/
  work : Commit
  /-- tracked files or index differ from `work` (GitPython `is_dirty()`, untracked files ignored) -/
  dirty : Bool
  /-- an *untracked* file with user content sits at a path that the parent commit tracks and the
  current commit does not (`is_dirty()` does not look at untracked files) -/
  precious : Bool
  /-- directories created by `tempfile.mkdtemp()` and not removed -/
  tmpDirs : Nat
  /-- `bandit_baseline_result.<format>` exists in the working directory -/
  report : Bool
  /-- `_bandit_baseline_run.json_` exists in the working directory -/
  cwdTmpFile : Bool
deriving DecidableEq, Repr

/-- the invariants git itself maintains for a repository nobody is in the middle of changing -/
def Repo.WF (r : Repo) : Prop := r.work = r.head ∧ (∀ c, r.branchTip = some c → c = r.head)

instance (r : Repo) : Decidable r.WF := by
  unfold Repo.WF
  cases h : r.branchTip with
  | none => exact decidable_of_iff (r.work = r.head) (by simp)
  | some c => exact decidable_of_iff (r.work = r.head ∧ c = r.head) (by simp)

inductive RepoKind
  | root            -- cwd is the root of a git work tree
  | notRepo         -- `git.Repo(os.getcwd())` raises InvalidGitRepositoryError (also: a sub-directory)
  | gitCmdMissing   -- `git.Repo(...)` raises GitCommandNotFound
deriving DecidableEq, Repr

inductive Fmt
  | terminal        -- no `-f`: the comparison run prints to stdout
  | file            -- `-f txt|html|json`: the comparison run gets `-o bandit_baseline_result.<fmt>`
deriving DecidableEq, Repr

/-- everything `initialize()`/`main()` look at before the first reset, except the repository state -/
structure Pre where
  /-- argparse accepts the command line (at least one target, `-f` among the valid formats) -/
  usageOk : Bool
  /-- `import git` worked -/
  gitModule : Bool
  kind : RepoKind
  fmt : Fmt
  /-- the literal token `-o` occurs among the arguments -/
  dashO : Bool
  /-- first parent of the commit HEAD resolves to -/
  parent : Option Commit
deriving DecidableEq, Repr

/-- outcome of one `subprocess.check_output(["bandit", …])` -/
inductive Run
  | exit (code : Nat)   -- the program ran and exited with `code` (0 no findings, 1 findings, ≥ 2 error)
  | signal (n : Nat)    -- killed by signal `n`: CalledProcessError with returncode `-n`
  | missing             -- no `bandit` on PATH: FileNotFoundError (an OSError)
  | interrupt           -- KeyboardInterrupt while waiting
  | otherExc            -- any other exception (PermissionError, MemoryError, UnicodeDecodeError, …)
deriving DecidableEq, Repr

/-- outcome of one `git reset --hard <commit>`; a failing reset (index.lock, I/O error) raises
GitCommandError and is modelled as having had no effect -/
inductive Git
  | ok
  | fail
deriving DecidableEq, Repr

/-- one assignment of outcomes to the five points of the sequence
(parent checkout, first run, current checkout, second run, clean-up checkout) -/
structure Scenario where
  co1 : Git
  run1 : Run
  co2 : Git
  run2 : Run
  co3 : Git
deriving DecidableEq, Repr

inductive Exc
  | fileNotFound
  | keyboardInterrupt
  | other
  | gitCommandError
deriving DecidableEq, Repr

/-- how the process ends: `sys.exit(code)` or an exception that escapes `main()` -/
inductive Exit
  | code (c : Int)
  | raised (e : Exc)
deriving DecidableEq, Repr

/-- which clean-up statements of `baseline_setup` sit in a `finally` clause around the `yield` -/
structure Shape where
  rmtreeInFinally : Bool
  resetInFinally : Bool
deriving DecidableEq, Repr

/-- the pinned code: `d = mkdtemp(); yield d; rmtree(d, True); if repo: repo.head.reset(...)` -/
def Shape.current : Shape := ⟨false, false⟩
/-- the repaired code: `d = mkdtemp(); try: yield d  finally: rmtree(d, True); if repo: reset(...)` -/
def Shape.fixed : Shape := ⟨true, true⟩

/-! ### `initialize()` -/

/-- the `valid` flag `initialize()` ends with (`true`: it returns `(output_format, repo, report_fname)`;
`false`: `(None, None, None)`).  Mirrors the statement order of the function. -/
def initializeOk (pre : Pre) (r : Repo) : Bool :=
  if !pre.gitModule then false          -- `if git is None: … return (None, None, None)`
  else
    let valid := true
    let valid := match pre.kind with
      | .notRepo => false               -- except git.exc.InvalidGitRepositoryError
      | .gitCmdMissing => false         -- except git.exc.GitCommandNotFound
      | .root => if r.dirty then false else valid      -- else: if repo.is_dirty()
    let valid := if pre.fmt != .terminal && r.report then false else valid
    let valid := if r.cwdTmpFile then false else valid
    let valid := if pre.dashO then false else valid
    valid

/-! ### the two steps -/

/-- `repo.head.reset(commit=c, working_tree=True)`: `git reset --hard c`.  HEAD moves; when HEAD is a
symbolic ref it is the *branch* that moves; index and tracked files become `c`'s; an untracked file in
the way of a file `c` tracks is overwritten (the clash path is tracked by `parent` only). -/
def Repo.resetHard (r : Repo) (parent c : Commit) : Repo :=
  { r with head := c, branchTip := r.branchTip.map (fun _ => c), work := c, dirty := false,
           precious := r.precious && c != parent }

/-- `try: output = check_output(cmd)  except CalledProcessError as e: return_code = e.returncode
else: return_code = 0` — every other exception propagates -/
def Run.result : Run → Except Exc Int
  | .exit c => .ok c
  | .signal n => .ok (-(n : Int))
  | .missing => .error .fileNotFound
  | .interrupt => .error .keyboardInterrupt
  | .otherExc => .error .other

/-- bandit writes the file named by `-o` when it gets as far as reporting (exit status 0 or 1) -/
def Run.reports : Run → Bool
  | .exit 0 => true
  | .exit 1 => true
  | _ => false

/-- one entry of `steps`: the commit to check out, the outcomes of the reset and of the run, and
whether this run was given `-o <report>` -/
structure Step where
  commit : Commit
  co : Git
  run : Run
  writesReport : Bool

/-- `for step in steps:` with `return_code` carried along (initially `None`) -/
def runSteps (parent : Commit) : List Step → Repo → Option Int → Repo × Except Exc (Option Int)
  | [], r, rc => (r, .ok rc)
  | s :: rest, r, _ =>
    match s.co with
    | .fail => (r, .error .gitCommandError)
    | .ok =>
      let r := r.resetHard parent s.commit
      -- the subprocess runs (and may write its report) before its outcome is known to the tool
      let r := { r with report := r.report || (s.writesReport && s.run.reports) }
      match s.run.result with
      | .error e => (r, .error e)
      | .ok rc => runSteps parent rest r (some rc)

def steps (cur parent : Commit) (fmt : Fmt) (sc : Scenario) : List Step :=
  [ { commit := parent, co := sc.co1, run := sc.run1, writesReport := false },
    { commit := cur, co := sc.co2, run := sc.run2, writesReport := fmt == .file } ]

/-! ### `baseline_setup()` -/

/-- `shutil.rmtree(d, True)` (never raises) -/
def Repo.rmtree (r : Repo) : Repo := { r with tmpDirs := r.tmpDirs - 1 }

/-- `if repo: repo.head.reset(commit=current_commit, working_tree=True)` (`repo` is truthy here) -/
def cleanupReset (cur parent : Commit) (g : Git) (r : Repo) : Repo × Option Exc :=
  match g with
  | .ok => (r.resetHard parent cur, none)
  | .fail => (r, some .gitCommandError)

/-- `with baseline_setup() as t: <body>` -/
def withSetup (sh : Shape) (cur parent : Commit) (fmt : Fmt) (sc : Scenario) (r : Repo) :
    Repo × Except Exc (Option Int) :=
  let r := { r with tmpDirs := r.tmpDirs + 1 }            -- d = tempfile.mkdtemp()
  match runSteps parent (steps cur parent fmt sc) r none with
  | (r, .ok rc) =>
    -- the generator is resumed: everything after the `yield` runs, in a `finally` or not
    let r := r.rmtree
    match cleanupReset cur parent sc.co3 r with
    | (r, none) => (r, .ok rc)
    | (r, some e) => (r, .error e)
  | (r, .error e) =>
    -- the exception is thrown into the generator at the `yield`
    let r := if sh.rmtreeInFinally then r.rmtree else r
    if sh.resetInFinally then
      match cleanupReset cur parent sc.co3 r with
      | (r, none) => (r, .error e)
      | (r, some e') => (r, .error e')     -- an exception in `finally` replaces the original
    else (r, .error e)

/-! ### `main()` -/

def main (sh : Shape) (pre : Pre) (sc : Scenario) (r : Repo) : Repo × Exit :=
  if !pre.usageOk then (r, .code 2)                        -- argparse: parser.error → SystemExit(2)
  else if !initializeOk pre r then (r, .code 2)              -- `if not repo: sys.exit(2)`
  else match pre.parent with
    | none => (r, .code 2)                                 -- IndexError: "Parent commit not available"
    | some p =>
      match withSetup sh r.head p pre.fmt sc r with
      | (r, .ok (some rc)) => (r, .code rc)                -- sys.exit(return_code)
      | (r, .ok none) => (r, .code 0)                      -- unreachable with two steps (sys.exit(None))
      | (r, .error e) => (r, .raised e)

/-! ## What the property demands (written from the property text, not from the code) -/
namespace Spec

/-- "same HEAD commit, same branch pointing at it, working tree unchanged apart from the report
file it was asked to write, no leftover temporary files" -/
def Restored (fmt : Fmt) (r0 r1 : Repo) : Prop :=
  r1.head = r0.head ∧ r1.branchTip = r0.branchTip ∧ r1.work = r0.work ∧ r1.dirty = r0.dirty ∧
  r1.precious = r0.precious ∧ r1.tmpDirs = r0.tmpDirs ∧ r1.cwdTmpFile = r0.cwdTmpFile ∧
  (r1.report = r0.report ∨ (fmt = .file ∧ r1.report = true))

instance (fmt : Fmt) (r0 r1 : Repo) : Decidable (Restored fmt r0 r1) := by
  unfold Restored; exact inferInstance

/-- "refuses to start on a dirty tree, outside a repository, with -o, or when its output or temporary
file already exists" -/
def MustRefuse (pre : Pre) (r : Repo) : Prop :=
  r.dirty = true ∨ pre.kind ≠ .root ∨ pre.dashO = true ∨ (pre.fmt = .file ∧ r.report = true) ∨
  r.cwdTmpFile = true

instance (pre : Pre) (r : Repo) : Decidable (MustRefuse pre r) := by
  unfold MustRefuse; exact inferInstance

/-- the run returned to the tool (normally or as CalledProcessError) -/
def Returns (o : Run) : Prop := o.result.isOk = true

instance (o : Run) : Decidable (Returns o) := by unfold Returns; exact inferInstance

/-- nothing but CalledProcessError is raised inside the `with` body: both runs return and both
checkouts of the loop succeed (the clean-up checkout is unconstrained) -/
def Quiet (sc : Scenario) : Prop :=
  sc.co1 = .ok ∧ Returns sc.run1 ∧ sc.co2 = .ok ∧ Returns sc.run2

instance (sc : Scenario) : Decidable (Quiet sc) := by unfold Quiet; exact inferInstance

/-- scenarios after which *any* code can still restore the repository: the clean-up checkout works, or
there is nothing left for it to repair.  Contains every scenario with a single point of failure. -/
def Recoverable (sc : Scenario) : Prop := sc.co3 = .ok ∨ Quiet sc ∨ sc.co1 = .fail

instance (sc : Scenario) : Decidable (Recoverable sc) := by unfold Recoverable; exact inferInstance

/-- the tool gets to the comparison run and that run has exit status `c` -/
def ComparisonStatus (sc : Scenario) (c : Int) : Prop :=
  sc.co1 = .ok ∧ Returns sc.run1 ∧ sc.co2 = .ok ∧ sc.run2.result = .ok c

instance (sc : Scenario) (c : Int) : Decidable (ComparisonStatus sc c) := by
  unfold ComparisonStatus
  cases sc.run2.result with
  | error e => exact isFalse (by simp)
  | ok a => exact decidable_of_iff (sc.co1 = .ok ∧ Returns sc.run1 ∧ sc.co2 = .ok ∧ a = c) (by simp)

/-- number of points at which an exception is raised inside the tool (runs that never start because
an earlier point already failed do not count) -/
def faults (sc : Scenario) : Nat :=
  if sc.co1 = .fail then 1 + (if sc.co3 = .fail then 1 else 0)
  else if ¬ Returns sc.run1 then 1 + (if sc.co3 = .fail then 1 else 0)
  else if sc.co2 = .fail then 1 + (if sc.co3 = .fail then 1 else 0)
  else if ¬ Returns sc.run2 then 1 + (if sc.co3 = .fail then 1 else 0)
  else (if sc.co3 = .fail then 1 else 0)

end Spec

end Bandit.BaselineTool
