/-!
# Basic string utilities (strings are `List Char`)

bandit's name logic is string-level (`startswith`, `in`, `split(".")[-1]`), so names are
modelled as character lists, not as component lists.
-/
namespace Bandit

abbrev Str := List Char

instance : Coe String Str := ⟨String.toList⟩

namespace Str

/-- `s.startswith(p)` -/
def startsWith (s p : Str) : Bool := p.isPrefixOf s

/-- `s.endswith(p)` -/
def endsWith (s p : Str) : Bool := p.isSuffixOf s

/-- `p in s` for strings (substring test). -/
def isInfix (p : Str) : Str → Bool
  | [] => p.isEmpty
  | c :: cs => p.isPrefixOf (c :: cs) || isInfix p cs

/-- split on a single character, Python `s.split(c)` (never returns `[]`). -/
def splitOn (c : Char) : Str → List Str
  | [] => [[]]
  | x :: xs =>
    match splitOn c xs with
    | [] => [[x]]            -- unreachable
    | hd :: tl => if x = c then [] :: hd :: tl else (x :: hd) :: tl

/-- `c.join(parts)` -/
def joinWith (c : Char) : List Str → Str
  | [] => []
  | [p] => p
  | p :: ps => p ++ c :: joinWith c ps

/-- `s.split(".")[-1]` -/
def lastDot (s : Str) : Str := ((splitOn '.' s).getLast?).getD []

/-- `s.split(".")[0]` -/
def firstDot (s : Str) : Str := ((splitOn '.' s).head?).getD []

/-- ASCII lower-casing of one char (Python `str.lower` restricted to ASCII; non-ASCII left alone) -/
def lowerChar (c : Char) : Char := if 'A' ≤ c ∧ c ≤ 'Z' then Char.ofNat (c.toNat + 32) else c
def lower (s : Str) : Str := s.map lowerChar

theorem splitOn_ne_nil (c : Char) (s : Str) : splitOn c s ≠ [] := by
  induction s with
  | nil => simp [splitOn]
  | cons x xs ih =>
    simp only [splitOn]
    split
    · simp
    · split <;> simp

theorem isInfix_iff (p s : Str) : isInfix p s = true ↔ ∃ u v, s = u ++ p ++ v := by
  induction s with
  | nil =>
    simp only [isInfix, List.isEmpty_iff]
    constructor
    · intro h; exact ⟨[], [], by simp [h]⟩
    · rintro ⟨u, v, h⟩
      have : (u ++ p ++ v).length = 0 := by rw [← h]; rfl
      simp only [List.length_append] at this
      exact List.eq_nil_of_length_eq_zero (by omega)
  | cons c cs ih =>
    simp only [isInfix, Bool.or_eq_true, List.isPrefixOf_iff_prefix, ih]
    constructor
    · rintro (⟨t, ht⟩ | ⟨u, v, h⟩)
      · exact ⟨[], t, by simp [ht]⟩
      · exact ⟨c :: u, v, by simp [h]⟩
    · rintro ⟨u, v, h⟩
      cases u with
      | nil => left; exact ⟨v, by simpa using h.symm⟩
      | cons a u =>
        right
        simp only [List.cons_append, List.cons.injEq] at h
        exact ⟨u, v, h.2⟩

end Str
end Bandit
