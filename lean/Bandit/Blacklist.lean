import Bandit.Tester
/-!
# The blacklist check `B001` (`bandit/core/blacklisting.py`)
-/
namespace Bandit

structure Rule where
  id : Str
  name : Str
  level : Rank
  cwe : Nat
  qualnames : List Str
deriving DecidableEq, Repr, Inhabited

/-- `extman.blacklist`: node kind ↦ rules, in table order -/
abbrev BlTables := List (Str × List Rule)

def BlTables.rulesFor (t : BlTables) (kind : Str) : List Rule :=
  ((t.find? (·.1 == kind)).map (·.2)).getD []

/-- per-ID filtering of the blacklist data (`_load_builtins`) -/
def BlTables.restrict (t : BlTables) (keep : Str → Bool) : BlTables :=
  (t.map fun (k, rs) => (k, rs.filter (fun r => keep r.id))).filter (fun (_, rs) => !rs.isEmpty)

/-- first rule (table order, then qualname order) having `name` among its qualnames -/
def firstCallRule (rules : List Rule) (name : Str) : Option Rule :=
  rules.find? (fun r => r.qualnames.any (· == name))

/-- first rule (rule, then alias, then qualname) such that `prefix+alias` starts with a qualname -/
def firstImportRule (rules : List Rule) (names : List Str) : Option Rule :=
  rules.find? (fun r => names.any (fun nm => r.qualnames.any (fun qn => Str.startsWith nm qn)))

/-- the names an import statement is judged by: `prefix + alias.name` -/
def importFullNames (n : Node) : List Str :=
  let pfx : Str := if n.isKind "ImportFrom" then
      match importModule? n with | some m => m ++ ['.'] | none => []
    else []
  (importNames n).map fun x => pfx ++ x.1

/-- The name the Call branch looks up; `none` is Python's `None` (never matches). -/
def blacklistCallName (e : Env) (c : CallView) : M (Option Str) :=
  if c.func.nameId? == some "__import__".toList then
    match c.args with
    | [] => pure (some [])
    | a :: _ => pure (some ((a.strConst?).getD "UNKNOWN".toList))
  else
    let q := e.qual
    if q == "importlib.import_module".toList || q == "importlib.__import__".toList then do
      if c.args.length > 0 then
        let args ← c.callArgs
        match args with
        | v :: _ => pure v.str?      -- non-strings never equal a qualname
        | [] => throw .indexError
      else
        let kws ← c.callKeywords
        match CallView.lookupKw kws "name" with
        | some v => pure v.str?
        | none => pure none                 -- `call_keywords.get("name")`: `None` never matches
    else pure (some q)

def blacklistRun (t : BlTables) (e : Env) : M (Option PRaw) :=
  let n := e.node
  if n.isKind "Call" then
    match n.asCall? with
    | none => throw .attributeError
    | some c => do
      let name ← blacklistCallName e c
      match name.bind (firstCallRule (t.rulesFor n.kind)) with
      | some r => pure (some { id := r.id, sev := r.level, conf := .high })
      | none => pure none
  else if n.isKind "Import" || n.isKind "ImportFrom" then
    match firstImportRule (t.rulesFor n.kind) (importFullNames n) with
    | some r => pure (some { id := r.id, sev := r.level, conf := .high })
    | none => pure none
  else pure none

/-- the wrapper plugin built by `_load_builtins`; `none` when no data survives the filter -/
def blacklistCheck (t : BlTables) : Option Check :=
  if t.isEmpty then none
  else some { id := "B001".toList, name := "blacklist".toList, kinds := t.map (·.1), run := blacklistRun t }

end Bandit
