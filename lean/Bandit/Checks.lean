import Bandit.Blacklist
import Bandit.Plugins.Shell
import Bandit.Plugins.Misc
import Bandit.Plugins.CryptoGen
import Bandit.Plugins.Trojan
import Bandit.Plugins.DjangoXss
import Bandit.Gen.Bidi
/-!
# Assembling the test set (`BanditTestSet`)
-/
namespace Bandit
open Plugins

/-- All modelled plugin checks for given per-plugin settings. -/
def pluginChecks (pc : PluginCfg) (fileName : Str) : List Check :=
  miscChecks pc fileName ++ shellChecks (ShellCfg.ofCfg (pc.get "shell_injection"))
    ++ cryptoChecks genCryptoTables pc
    ++ trojanChecks Gen.bidiCharacters ++ injectChecks pc

/-- The test set for a filter `keep` on test IDs: plugins whose ID passes, plus the blacklist
wrapper over the per-ID filtered tables (absent when nothing survives). -/
def testSet (pc : PluginCfg) (fileName : Str) (t : BlTables) (keep : Str → Bool) : List Check :=
  (pluginChecks pc fileName).filter (fun c => keep c.id) ++ (blacklistCheck (t.restrict keep)).toList

end Bandit
