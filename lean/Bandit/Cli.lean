import Bandit.Tester
/-!
# The command line driver: threshold spellings, `Issue.filter`, exit status, error exits

Model of `bandit/cli/main.py main()` (argument post-processing, the `.bandit` INI override of
`level`/`confidence` via `_log_option_source`, the ladder of error exits, the final exit
decision), `bandit/core/issue.py Issue.filter`, and `bandit/core/manager.py filter_results /
get_issue_list / results_count`.

Data that lives in the source (RANKING, the `--severity-level` if-chain, `choices=`, the `default=`
of the counting options, the `- 1` in `RANKING[args.severity - 1]`, formatter names) is *not* typed
in here: it is a `Tables` value generated from `/repo` on every run (`Bandit/Gen/Cli.lean`).

What the runtime decides (could the config be read? …) enters as the Booleans of `World`.
-/
namespace Bandit.Cli

/-- one result of a run, as far as thresholds and the exit status are concerned -/
structure Issue where
  file : Str
  id : Str
  sev : Rank
  conf : Rank
  line : Nat
deriving DecidableEq, Repr, Inhabited

/-! ## Python list primitives (exceptions are values) -/

/-- `xs[i]` with Python's negative indices; out of range ⇒ `IndexError` -/
def pyGet {α} (xs : List α) (i : Int) : M α :=
  let j : Int := if i < 0 then i + (xs.length : Int) else i
  if j < 0 then .error .indexError
  else match xs[j.toNat]? with
    | some x => .ok x
    | none => .error .indexError

/-- `xs.index(s)`; absent ⇒ `ValueError` (`Crash.other`) -/
def pyIndex : List Str → Str → M Nat
  | [], _ => .error .other
  | x :: xs, s => if x = s then .ok 0 else (pyIndex xs s).map (· + 1)

/-! ## `Issue.filter` and `BanditManager.filter_results` -/

/-- `Issue.filter(severity, confidence)` on rank *names*:
`rank.index(self.severity) >= rank.index(severity) and rank.index(self.confidence) >= rank.index(confidence)`
(left to right, `and` short-circuits). -/
def passesStr (rk : List Str) (sevT confT sev conf : Str) : M Bool := do
  let a ← pyIndex rk sev
  let b ← pyIndex rk sevT
  if a < b then return false
  let c ← pyIndex rk conf
  let d ← pyIndex rk confT
  return decide (d ≤ c)

def passes (rk : List Str) (sevT confT : Str) (i : Issue) : M Bool :=
  passesStr rk sevT confT i.sev.name.toList i.conf.name.toList

/-- the list comprehension of `filter_results` -/
def filterIssues (rk : List Str) (sevT confT : Str) : List Issue → M (List Issue)
  | [] => .ok []
  | i :: is => do
    let b ← passes rk sevT confT i
    let rest ← filterIssues rk sevT confT is
    return if b then i :: rest else rest

/-- `filter_results` / `get_issue_list`: threshold filter, then (only when a non-empty baseline was
loaded) the baseline comparison, which C07 models; here it is an arbitrary function. -/
def filterResults (rk : List Str) (baseline : Option (List Issue → List Issue))
    (sevT confT : Str) (results : List Issue) : M (List Issue) := do
  let r ← filterIssues rk sevT confT results
  match baseline with
  | none => return r
  | some bf => return bf r

/-! ## Generated tables -/

structure Tables where
  /-- `constants.RANKING` -/
  ranking : List Str
  /-- the `if args.severity_string == …: args.severity = …` chain of `main()`, in source order -/
  sevChain : List (Str × Nat)
  confChain : List (Str × Nat)
  /-- `choices=` of `--severity-level` / `--confidence-level` -/
  sevChoices : List Str
  confChoices : List Str
  /-- `default=` of the counting options `-l` / `-i` -/
  sevDefault : Nat
  confDefault : Nat
  /-- the `k` of `constants.RANKING[args.severity - k]` -/
  sevOffset : Nat
  confOffset : Nat
  /-- `sorted(extension_mgr.formatter_names)` (the `choices=` of `-f`) -/
  formats : List Str
  /-- formatters carrying `_accepts_baseline` -/
  baselineFormats : List Str
  /-- how `main()` hands the INI `level`/`confidence` value to `_log_option_source`:
  `false`: the raw string `ini_options.get("level")`; `true`: `int(ini_options.get("level") or 0) or None` -/
  iniAsInt : Bool
deriving Repr

/-! ## Thresholds -/

/-- `args.severity` after the INI merge: an `int` from argparse, or the raw INI *string* -/
inductive Level where
  | int (n : Nat)
  | str (s : Str)
deriving DecidableEq, Repr

/-- first matching branch of the if/elif chain; no branch ⇒ the value is left alone -/
def chainLookup (chain : List (Str × Nat)) (name : Str) : Option Nat :=
  (chain.find? (·.1 = name)).map (·.2)

/-- `args.severity` after argparse and the `--severity-level` if-chain:
the count action starts from `default` and adds one per occurrence. -/
def levelArg (chain : List (Str × Nat)) (dflt flags : Nat) (name : Option Str) : Nat :=
  match name with
  | none => dflt + flags
  | some n => (chainLookup chain n).getD (dflt + flags)

/-- `int(s)` for a non-empty string (surrounding blanks, sign and `_` are not modelled: anything but
ASCII digits ⇒ `ValueError`) -/
def pyInt (s : Str) : M Nat :=
  if s.all Char.isDigit then .ok (s.foldl (fun n c => 10 * n + (c.toNat - 48)) 0) else .error .other

/-- the `ini_val` argument of `_log_option_source` -/
inductive IniVal where
  | absent            -- `None`, `""`, or `0` after conversion: falsy
  | str (s : Str)     -- the raw INI string
  | int (n : Nat)
deriving DecidableEq, Repr

/-- evaluation of that argument: `ini_options.get(k)` resp. `int(ini_options.get(k) or 0) or None` -/
def iniVal (asInt : Bool) : Option Str → M IniVal
  | none => .ok .absent
  | some s =>
    if s.isEmpty then .ok .absent
    else if asInt then (pyInt s).map (fun n => if n = 0 then .absent else .int n)
    else .ok (.str s)

/-- `_log_option_source(default, arg, ini, _)` for an option whose default is not `None`:
"no value passed to command line" is *decided by* `default == arg`; then a truthy INI value wins. -/
def logOptionSource (dflt arg : Nat) (ini : IniVal) : Level :=
  if dflt = arg then
    match ini with
    | .absent => .int arg
    | .str s => .str s
    | .int n => .int n
  else .int arg

/-- `constants.RANKING[args.severity - k]`; a string minus an int ⇒ `TypeError` -/
def thresholdOf (rk : List Str) (off : Nat) : Level → M Str
  | .str _ => .error .typeError
  | .int n => pyGet rk ((n : Int) - (off : Int))

/-- the count spelling: `-l` × `flags` -/
def thresholdOfCount (T : Tables) (flags : Nat) : M Str :=
  thresholdOf T.ranking T.sevOffset (.int (levelArg T.sevChain T.sevDefault flags none))

/-- the name spelling: `--severity-level name` -/
def thresholdOfName (T : Tables) (name : Str) : M Str :=
  thresholdOf T.ranking T.sevOffset (.int (levelArg T.sevChain T.sevDefault 0 (some name)))

def confThresholdOfCount (T : Tables) (flags : Nat) : M Str :=
  thresholdOf T.ranking T.confOffset (.int (levelArg T.confChain T.confDefault flags none))

def confThresholdOfName (T : Tables) (name : Str) : M Str :=
  thresholdOf T.ranking T.confOffset (.int (levelArg T.confChain T.confDefault 0 (some name)))

/-! ## `main()` -/

/-- what `--msg-template` holds, as far as `formatters/custom.py` cares -/
inductive Template where
  | ok          -- parses and names at least one tag
  | malformed   -- `string.Formatter().parse` raises ValueError
  | noTags      -- parses, no `{tag}`
deriving DecidableEq, Repr

structure Args where
  /-- number of `-l` / `--level` occurrences -/
  sevFlags : Nat := 0
  /-- `--severity-level X` -/
  sevName : Option Str := none
  confFlags : Nat := 0
  confName : Option Str := none
  format : Str := "txt".toList
  msgTemplate : Option Template := none
  quiet : Bool := false
  verbose : Bool := false
  exitZero : Bool := false
  /-- at least one target, from the command line or the INI file -/
  targets : Bool := true
  /-- `-p NAME` given -/
  profile : Bool := false
  /-- `-b FILE` given -/
  baseline : Bool := false
  /-- anything else argparse rejects: unknown option, bad `-n`/`-a` value, unwritable `-o` … -/
  otherUsageError : Bool := false
  /-- more than one `.bandit` file below the targets -/
  multipleIni : Bool := false
  /-- `level` / `confidence` of the effective INI file (`none`: no INI file, or key absent) -/
  iniLevel : Option Str := none
  iniConfidence : Option Str := none
deriving DecidableEq, Repr

/-- outcomes of the steps that belong to the runtime or to other layers -/
structure World where
  /-- `BanditConfig(config_file)` did not raise `ConfigError` (readable, parsable, a mapping) -/
  configOk : Bool := true
  /-- the profile named by `-p` exists in the config -/
  profileFound : Bool := true
  /-- `validate_profile`: include ∩ exclude = ∅ -/
  profileValid : Bool := true
  /-- `open(args.baseline)` succeeded -/
  baselineReadable : Bool := true
  /-- the test set is non-empty -/
  hasTests : Bool := true
  /-- `b_mgr.results` after `run_tests()`: the unfiltered findings -/
  findings : List Issue := []
  /-- `some bf` when a non-empty baseline was loaded -/
  baselineFilter : Option (List Issue → List Issue) := none

inductive Diag where
  | usage | multipleIni | config | noTargets | profile | baselineUnreadable | baselineFormat
  | noTests | template
deriving DecidableEq, Repr

inductive Outcome where
  /-- the report was written (containing `report`) and the process exited with `code` -/
  | exit (code : Nat) (report : List Issue)
  /-- a diagnostic was printed and the process exited with status 2 -/
  | error (d : Diag)
  /-- an exception other than `SystemExit` left `main()` -/
  | traceback (c : Crash)
deriving DecidableEq, Repr

/-- the process exit status (an uncaught exception makes CPython exit with 1) -/
def Outcome.status : Outcome → Nat
  | .exit c _ => c
  | .error _ => 2
  | .traceback _ => 1

def custom : Str := "custom".toList

/-- rejections by argparse and by the `--msg-template` check right after `parse_args()` -/
def usageError (T : Tables) (a : Args) : Bool :=
  a.otherUsageError
  || (decide (0 < a.sevFlags) && a.sevName.isSome)       -- mutually exclusive group
  || (decide (0 < a.confFlags) && a.confName.isSome)
  || (match a.sevName with | some n => !T.sevChoices.contains n | none => false)
  || (match a.confName with | some n => !T.confChoices.contains n | none => false)
  || !T.formats.contains a.format
  || (a.quiet && a.verbose)
  || (a.format != custom && a.msgTemplate.isSome)

def sevArg (T : Tables) (a : Args) : Nat := levelArg T.sevChain T.sevDefault a.sevFlags a.sevName
def confArg (T : Tables) (a : Args) : Nat := levelArg T.confChain T.confDefault a.confFlags a.confName

/-- the error exits that precede the INI merge -/
def parseError (T : Tables) (a : Args) : Option Diag :=
  if usageError T a then some .usage
  else if a.multipleIni then some .multipleIni
  else none

/-- the error exits between the INI merge and the scan, in the order `main()` tests them -/
def setupError (T : Tables) (a : Args) (w : World) : Option Diag :=
  if !w.configOk then some .config
  else if !a.targets then some .noTargets
  else if a.profile && !w.profileFound then some .profile
  else if !w.profileValid then some .profile
  else if a.baseline && !w.baselineReadable then some .baselineUnreadable
  else if a.baseline && !T.baselineFormats.contains a.format then some .baselineFormat
  else if !w.hasTests then some .noTests
  else none

/-- the custom formatter validates the template after it fetched the issue list -/
def templateError (a : Args) : Bool :=
  a.format == custom && (a.msgTemplate == some .malformed || a.msgTemplate == some .noTags)

/-- the part of `main()` after the INI merge, given `args.severity` / `args.confidence` -/
def run (T : Tables) (a : Args) (w : World) (sev conf : Level) : Outcome :=
  match setupError T a w with
  | some d => .error d
  | none =>
    -- sev_level = RANKING[args.severity - 1]; conf_level = RANKING[args.confidence - 1]
    match thresholdOf T.ranking T.sevOffset sev with
    | .error c => .traceback c
    | .ok sevT =>
    match thresholdOf T.ranking T.confOffset conf with
    | .error c => .traceback c
    | .ok confT =>
    -- output_results: the formatter calls get_issue_list(sev_level, conf_level)
    match filterResults T.ranking w.baselineFilter sevT confT w.findings with
    | .error c => .traceback c          -- wrapped into RuntimeError, still a traceback
    | .ok report =>
    if templateError a then .error .template
    else
    -- results_count(sev_filter, conf_filter): a second, independent call
    match filterResults T.ranking w.baselineFilter sevT confT w.findings with
    | .error c => .traceback c
    | .ok counted =>
      if 0 < counted.length && !a.exitZero then .exit 1 report else .exit 0 report

def main (T : Tables) (a : Args) (w : World) : Outcome :=
  match parseError T a with
  | some d => .error d
  | none =>
    -- the INI merge: the `ini_val` arguments are evaluated first (severity, then confidence)
    match iniVal T.iniAsInt a.iniLevel with
    | .error c => .traceback c
    | .ok il =>
    match iniVal T.iniAsInt a.iniConfidence with
    | .error c => .traceback c
    | .ok ic =>
      run T a w (logOptionSource T.sevDefault (sevArg T a) il) (logOptionSource T.confDefault (confArg T a) ic)

/-! ## What the property demands (written from the property text and `--help`, not from the code) -/
namespace Spec

/-- `-l` LOW, `-ll` MEDIUM, `-lll` HIGH; no flag: everything.  More than three: the property
does not say (`none`). -/
def ofCount : Nat → Option Rank
  | 0 => some .undefined
  | 1 => some .low
  | 2 => some .medium
  | 3 => some .high
  | _ => none

/-- `--severity-level all|low|medium|high` -/
def ofName (s : Str) : Option Rank :=
  if s = "all".toList then some .undefined
  else if s = "low".toList then some .low
  else if s = "medium".toList then some .medium
  else if s = "high".toList then some .high
  else none

/-- the name that spells the same threshold as `k` flags -/
def nameOf : Nat → Str
  | 0 => "all".toList
  | 1 => "low".toList
  | 2 => "medium".toList
  | _ => "high".toList

/-- the rank one option pair denotes; both spellings at once is a usage error (`none`) -/
def threshold (flags : Nat) (name : Option Str) : Option Rank :=
  match name with
  | none => ofCount flags
  | some n => if flags = 0 then ofName n else none

/-- a finding meets both thresholds -/
def meets (tS tC : Rank) (i : Issue) : Bool := decide (tS ≤ i.sev) && decide (tC ≤ i.conf)

/-- the findings the report must contain -/
def reported (tS tC : Rank) (unfiltered : List Issue) : List Issue := unfiltered.filter (meets tS tC)

/-- the exit status of a run without usage/configuration error -/
def exitStatus (exitZero : Bool) (reported : List Issue) : Nat :=
  if reported ≠ [] ∧ exitZero = false then 1 else 0

/-- the usage and configuration errors of the property, as conditions on the invocation -/
def isError (T : Tables) (a : Args) (w : World) : Bool :=
  usageError T a || a.multipleIni || !w.configOk || !a.targets || (a.profile && !w.profileFound)
  || !w.profileValid || (a.baseline && !w.baselineReadable)
  || (a.baseline && !T.baselineFormats.contains a.format) || !w.hasTests

/-- the INI file says nothing about thresholds, or what it says does not change `args.severity` /
`args.confidence` (and converting it raises nothing) -/
def iniInert (T : Tables) (a : Args) : Bool :=
  match iniVal T.iniAsInt a.iniLevel, iniVal T.iniAsInt a.iniConfidence with
  | .ok il, .ok ic =>
    logOptionSource T.sevDefault (sevArg T a) il == .int (sevArg T a)
    && logOptionSource T.confDefault (confArg T a) ic == .int (confArg T a)
  | _, _ => false

/-- region of the known finding: a raw INI `level`/`confidence` string takes effect -/
def iniRawEffective (T : Tables) (a : Args) : Bool :=
  !T.iniAsInt && !iniInert T a

end Spec

end Bandit.Cli
