import Bandit.Basic
/-!
# Abstract configuration values (what YAML / TOML / generated defaults parse to)
-/
namespace Bandit

inductive CfgVal where
  | null
  | bool (b : Bool)
  | int (i : Int)
  | str (s : Str)
  | list (xs : List CfgVal)
  | map (kvs : List (Str × CfgVal))
deriving Inhabited, Repr

namespace CfgVal
/-- `d[key]` / `d.get(key)` on a mapping (first binding; parsers reject or dedupe duplicates) -/
def get? : CfgVal → String → Option CfgVal
  | .map kvs, k => (kvs.find? (·.1 == k.toList)).map (·.2)
  | _, _ => none
def strs : CfgVal → List Str
  | .list xs => xs.filterMap fun | .str s => some s | _ => none
  | _ => []
def strList? (c : CfgVal) (k : String) : Option (List Str) := (c.get? k).map strs
def int? : CfgVal → Option Int | .int i => some i | _ => none
def bool? : CfgVal → Option Bool | .bool b => some b | _ => none
/-- Python truthiness of a config value (`if config and ...`) -/
def truthy : CfgVal → Bool
  | .null => false | .bool b => b | .int i => i != 0 | .str s => !s.isEmpty
  | .list xs => !xs.isEmpty | .map kvs => !kvs.isEmpty
end CfgVal

/-- Plugin settings by `_takes_config` name. -/
abbrev PluginCfg := List (Str × CfgVal)
def PluginCfg.get (c : PluginCfg) (name : String) : CfgVal :=
  ((c.find? (·.1 == name.toList)).map (·.2)).getD .null

end Bandit
