import Bandit.Config
import Bandit.Nosec
import Bandit.Glob
import Bandit.Value
/-!
# Configuration loading and the CLI's option plumbing

Model of `core/config.py` (`BanditConfig.__init__`, `validate`, `get_option`, legacy profile
conversion), `cli/main.py` (`_log_option_source`, INI merge, `_get_profile`, `-t` and `-s` merging, the
error exits), `extension_loader.validate_profile`, `test_set._get_filter` / `_load_tests` (plugin
settings lookup) and `cli/config_generator.get_config_settings`.

The parsers themselves (`yaml.safe_load`, `tomllib.load`, `configparser`, `argparse`) are *inputs*:
the model starts from what they return (`FileOutcome`, `IniOutcome`, `Cli`).

The model follows /repo *after* the fixes d27fc84 (isinstance(dict) test before `validate`; a TOML
`tool` entry that is not a table counts as a non-mapping), 259b80f (UnicodeDecodeError from tomllib
is a parse error) and da9ae97 (INI `level`/`confidence` go through `int(.. or 0) or None`).

Limits (stated once): mapping keys are strings; a float/date/bytes document is `FileOutcome.parsedOther`;
the conversion of legacy blacklist *data* (`blacklist_calls` / `blacklist_imports` sections) is not
modelled — such runs are flagged `ScanSetup.legacy` and only their outcome kind is claimed; of the INI
options only `configfile, exclude, skips, tests, targets, profile, level, confidence` are modelled
(`number`, `recursive`, `aggregate`, `format`, … are outside C13); the multiple-`.bandit`-files exit is
`main()`'s own and not modelled.
-/
namespace Bandit.ConfigLoad
open Bandit

/-! ## Outcomes -/

/-- why bandit stops with a diagnostic and exit status 2 -/
inductive Reject where
  | unreadable        -- "Could not read config file."
  | unparsable        -- "Error parsing file." after a YAMLError / TOMLDecodeError
  | notMapping        -- "Error parsing file." from the isinstance(dict) test
  | legacyNoData      -- validate(): legacy test named without configuration data
  | noTargets         -- usage + exit 2
  | unknownProfile    -- ProfileNotFound
  | contradictory     -- validate_profile: include ∩ exclude ≠ ∅
  | noTests           -- "No tests would be run"
deriving DecidableEq, Repr, Inhabited

/-- result of a stage of `main()`: a value, a diagnostic + `sys.exit(2)`, or an escaping exception -/
inductive Outcome (α : Type) where
  | ok (a : α)
  | reject (r : Reject)
  | crash (c : Crash)
deriving Repr, Inhabited

namespace Outcome
def bind {α β} : Outcome α → (α → Outcome β) → Outcome β
  | ok a, f => f a
  | reject r, _ => reject r
  | crash c, _ => crash c
instance : Monad Outcome where
  pure := ok
  bind := bind
/-- a Python expression that may raise -/
def ofM {α} : M α → Outcome α
  | .ok a => ok a
  | .error c => crash c
/-- the process exit status as far as configuration handling decides it: `some 2` for a rejection,
`none` for a traceback (no orderly exit) and for a scan (0/1 by findings) -/
def exit2 {α} : Outcome α → Bool | reject _ => true | _ => false
def isCrash {α} : Outcome α → Bool | crash _ => true | _ => false
def isOk {α} : Outcome α → Bool | ok _ => true | _ => false

def crashOf {α} : Outcome α → Option Crash | crash c => some c | _ => none
def rejectOf {α} : Outcome α → Option Reject | reject r => some r | _ => none

@[simp] theorem bind_ok {α β} (a : α) (f : α → Outcome β) : (ok a >>= f) = f a := rfl
@[simp] theorem bind_reject {α β} (r : Reject) (f : α → Outcome β) : (reject r >>= f) = reject r := rfl
@[simp] theorem bind_crash {α β} (c : Crash) (f : α → Outcome β) : (crash c >>= f) = crash c := rfl
@[simp] theorem pure_eq {α} (a : α) : (pure a : Outcome α) = ok a := rfl
@[simp] theorem ofM_ok {α} (a : α) : ofM (Except.ok a : M α) = ok a := rfl
@[simp] theorem ofM_error {α} (c : Crash) : ofM (Except.error c : M α) = crash c := rfl
end Outcome

/-! ## Python operators on parsed values -/

def lookupKV (kvs : List (Str × CfgVal)) (k : Str) : Option CfgVal := (kvs.find? (·.1 == k)).map (·.2)

/-- `key in x` for a `str` key: dict ⇒ key membership, list ⇒ element equality, str ⇒ substring,
`None`/bool/int ⇒ `TypeError: argument of type … is not iterable` -/
def pyIn (key : Str) : CfgVal → M Bool
  | .map kvs => pure (kvs.any (·.1 == key))
  | .list xs => pure (xs.any fun | .str s => s == key | _ => false)
  | .str s => pure (Str.isInfix key s)
  | .null => throw .typeError
  | .bool _ => throw .typeError
  | .int _ => throw .typeError

/-- `x[key]` for a `str` key -/
def pyGetItem (x : CfgVal) (key : Str) : M CfgVal :=
  match x with
  | .map kvs => match lookupKV kvs key with | some v => pure v | none => throw .keyError
  | _ => throw .typeError

/-- `x.get(key)`: only dicts have `.get`; absent ⇒ `None` -/
def pyDotGet (x : CfgVal) (key : Str) : M CfgVal :=
  match x with
  | .map kvs => pure ((lookupKV kvs key).getD .null)
  | _ => throw .attributeError

/-- `x.items()` -/
def pyItems : CfgVal → M (List (Str × CfgVal))
  | .map kvs => pure kvs
  | _ => throw .attributeError

/-- `for i in x` / `set(x)` -/
def pyIter : CfgVal → M (List CfgVal)
  | .list xs => pure xs
  | .str s => pure (s.map fun c => .str [c])
  | .map kvs => pure (kvs.map fun kv => .str kv.1)
  | _ => throw .typeError

def hashable : CfgVal → Bool
  | .list _ => false
  | .map _ => false
  | _ => true

/-- `set(x or [])`: elements must be hashable -/
def pySetOf (x : CfgVal) : M (List CfgVal) :=
  if x.truthy then do
    let xs ← pyIter x
    if xs.all hashable then pure xs else throw .typeError
  else pure []

def asStr? : CfgVal → Option Str | .str s => some s | _ => none

/-- `",".join(ids)`: every element must be a `str` -/
def pyStrs (xs : List CfgVal) : M (List Str) :=
  if xs.all (fun x => (asStr? x).isSome) then pure (xs.filterMap asStr?) else throw .typeError

/-! ## `BanditConfig.get_option` -/

def getOptionLevels : CfgVal → List Str → M CfgVal
  | cur, [] => pure cur
  | cur, l :: ls =>
    if cur.truthy then do
      if ← pyIn l cur then do
        let nxt ← pyGetItem cur l
        getOptionLevels nxt ls
      else pure .null
    else pure .null

/-- `get_option(option_string)`; `.null` is Python's `None` ("can't be found") -/
def getOption (cfg : CfgVal) (opt : Str) : M CfgVal := getOptionLevels cfg (Str.splitOn '.' opt)

/-! ## Loading: `BanditConfig.__init__` -/

/-- what opening + parsing the `-c` file gives -/
inductive FileOutcome where
  | unreadable                 -- `open()` raised OSError (missing, a directory, no permission)
  | syntaxError                -- yaml.YAMLError / tomllib.TOMLDecodeError
  | undecodable                -- not UTF-8: yaml ⇒ ReaderError (a YAMLError); tomllib ⇒ UnicodeDecodeError
  | parsed (doc : CfgVal)      -- the parsed document
  | parsedOther                -- the document (TOML: `tool.bandit`) is a scalar outside `CfgVal` (float, date, …)
deriving Repr, Inhabited

/-- `tool = tomllib.load(f).get("tool", {})`; `tool.get("bandit", {}) if isinstance(tool, dict) else tool` -/
def tomlExtract (doc : CfgVal) : M CfgVal :=
  match doc with
  | .map kvs =>
    (match lookupKV kvs "tool".toList with
     | none => pure (.map [])
     | some (.map t) => pure ((lookupKV t "bandit".toList).getD (.map []))
     | some t => pure t)
  | _ => throw .attributeError      -- unreachable: a TOML document is a table

/-- `x or set()` then `key in …` -/
def inOrEmpty (key : Str) (x : CfgVal) : M Bool := if x.truthy then pyIn key x else pure false

/-- `_test(key, block, exclude, include)` inside `validate` -/
def legacyTest (cfg : CfgVal) (key block : String) (a b : CfgVal) : Outcome Unit := do
  let hit ← Outcome.ofM (do if ← inOrEmpty key.toList a then pure true else inOrEmpty key.toList b)
  if hit then
    let blk ← Outcome.ofM (pyDotGet cfg block.toList)
    match blk with
    | .null => .reject .legacyNoData
    | _ => pure ()
  else pure ()

def validateProfile (cfg p : CfgVal) : Outcome Unit := do
  let inc ← Outcome.ofM (pyDotGet p "include".toList)
  let exc ← Outcome.ofM (pyDotGet p "exclude".toList)
  legacyTest cfg "blacklist_imports" "blacklist_imports" inc exc
  legacyTest cfg "blacklist_import_func" "blacklist_imports" inc exc
  legacyTest cfg "blacklist_calls" "blacklist_calls" inc exc

def validateProfiles (cfg : CfgVal) : List (Str × CfgVal) → Outcome Unit
  | [] => pure ()
  | (_, p) :: rest => do validateProfile cfg p; validateProfiles cfg rest

/-- `BanditConfig.validate` — applied to the raw parser result -/
def validate (cfg : CfgVal) : Outcome Unit := do
  if ← Outcome.ofM (pyIn "profiles".toList cfg) then
    let profs ← Outcome.ofM (pyGetItem cfg "profiles".toList)
    let items ← Outcome.ofM (pyItems profs)
    validateProfiles cfg items
  else pure ()

/-- a converted legacy profile (`convert_names_to_ids` + `convert_legacy_blacklist_tests`) -/
structure Prof where
  inc : List CfgVal
  exc : List CfgVal
  /-- `profile["blacklist"]` is non-empty: the blacklist tables are overridden by legacy data (not modelled further) -/
  legacyBlacklist : Bool
deriving Repr, Inhabited

def isStrLit (s : String) (x : CfgVal) : Bool := match x with | .str t => t == s.toList | _ => false

/-- `_clean_set(name, data)` -/
def cleanSet (name : String) (xs : List CfgVal) : List CfgVal :=
  if xs.any (isStrLit name) then xs.filter (fun x => !isStrLit name x) ++ [.str "B001".toList] else xs

/-- `extman.get_test_id(i) or i` -/
def nameToId (reg : Registry) (x : CfgVal) : CfgVal :=
  match x with
  | .str s => (match reg.getTestId s with | some i => if i.isEmpty then x else .str i | none => x)
  | _ => x

def convertProfile (reg : Registry) (p : CfgVal) : M Prof := do
  let inc0 ← pySetOf (← pyDotGet p "include".toList)
  let exc0 ← pySetOf (← pyDotGet p "exclude".toList)
  let inc1 := inc0.map (nameToId reg)
  let exc1 := exc0.map (nameToId reg)
  let has (n : String) (xs : List CfgVal) := xs.any (isStrLit n)
  let bl := (has "blacklist_calls" inc1 && !has "blacklist_calls" exc1) ||
            (has "blacklist_imports" inc1 && !has "blacklist_imports" exc1)
  let clean (xs : List CfgVal) := cleanSet "blacklist_import_func" (cleanSet "blacklist_imports" (cleanSet "blacklist_calls" xs))
  let inc2 := clean inc1
  let exc2 := clean exc1
  let exc3 := if has "B001" inc2 && has "B001" exc2 then exc2.filter (fun x => !isStrLit "B001" x) else exc2
  pure { inc := inc2, exc := exc3, legacyBlacklist := bl }

def convertProfiles (reg : Registry) : List (Str × CfgVal) → M (List (Str × Prof))
  | [] => pure []
  | (n, p) :: rest => do
    let q ← convertProfile reg p
    let qs ← convertProfiles reg rest
    pure ((n, q) :: qs)

/-- a successfully constructed `BanditConfig` -/
structure Loaded where
  cfg : CfgVal
  profiles : List (Str × Prof)
  /-- legacy `blacklist_calls` / `blacklist_imports` data present (its conversion is not modelled) -/
  legacyData : Bool
deriving Repr, Inhabited

/-- `BanditConfig(None)`: the built-in defaults -/
def noConfig : Loaded :=
  { cfg := .map [("plugin_name_pattern".toList, .str "*.py".toList),
                 ("include".toList, .list [.str "*.py".toList, .str "*.pyw".toList])],
    profiles := [], legacyData := false }

/-- `convert_legacy_config` (the profile part) -/
def convertLegacy (reg : Registry) (cfg : CfgVal) : Outcome Loaded := do
  let profs ← Outcome.ofM (getOption cfg "profiles".toList)
  let items ← if profs.truthy then Outcome.ofM (pyItems profs) else pure []
  let ps ← Outcome.ofM (convertProfiles reg items)
  let bc ← Outcome.ofM (getOption cfg "blacklist_calls".toList)
  let bi ← Outcome.ofM (getOption cfg "blacklist_imports".toList)
  pure { cfg := cfg, profiles := ps, legacyData := bc.truthy || bi.truthy }

/-- the value bound to `self._config` by the parser branch -/
def extractDoc (isToml : Bool) (doc : CfgVal) : Outcome CfgVal :=
  if isToml then Outcome.ofM (tomlExtract doc) else .ok doc

/-- `BanditConfig(config_file)` for a non-empty path: parse, then the `isinstance(dict)` test, then
`validate`, then the legacy conversion. -/
def loadConfig (reg : Registry) (isToml : Bool) : FileOutcome → Outcome Loaded
  | .unreadable => .reject .unreadable
  | .syntaxError => .reject .unparsable
  | .undecodable => .reject .unparsable
  | .parsedOther => .reject .notMapping
  | .parsed doc => do
    let v ← extractDoc isToml doc
    match v with
    | .map _ => do validate v; convertLegacy reg v
    | _ => .reject .notMapping

/-! ## INI file and `_log_option_source` -/

/-- what `utils.parse_ini_file` returns -/
inductive IniOutcome where
  | absent                               -- no INI file in play
  | unusable                             -- warning + `None` (unreadable, unparsable, no `[bandit]` section)
  | opts (kvs : List (Str × Str))        -- the `[bandit]` section
  | undecodable                          -- UnicodeDecodeError escapes `parse_ini_file`
deriving Repr, Inhabited

/-- the parsed command line (the options this property is about) -/
structure Cli where
  configFile : Option Str := none
  profile : Option Str := none
  tests : Option Str := none
  skips : Option Str := none
  excluded : Str
  severity : Nat := 1
  confidence : Nat := 1
  targets : List Str := []
deriving DecidableEq, Repr, Inhabited

/-- the options after the INI merge -/
structure Args where
  configFile : Option Str
  profile : Option Str
  tests : Option Str
  skips : Option Str
  excluded : Str
  severity : Int
  confidence : Int
  targets : List Str
deriving DecidableEq, Repr, Inhabited

def truthyOpt : Option Str → Bool | some s => !s.isEmpty | none => false

/-- `_log_option_source(None, arg, ini, _)` -/
def srcNone (arg ini : Option Str) : Option Str :=
  if truthyOpt arg then arg else if truthyOpt ini then ini else none

/-- `_log_option_source(default, arg, ini, _)` for a string-valued option with a non-`None` default -/
def srcDefaultStr (dflt arg : Str) (ini : Option Str) : Str :=
  if dflt = arg then (match ini with | some s => if s.isEmpty then arg else s | none => arg) else arg

/-- `int(s)` for an optionally signed ASCII decimal string (anything else: `ValueError`; Python's
`int` also accepts `_` separators and non-ASCII digits, which are outside the model) -/
def parseInt? (s : Str) : Option Int :=
  let digits (d : Str) : Option Nat :=
    if d.isEmpty || !d.all Char.isDigit then none
    else some (d.foldl (fun n ch => 10 * n + (ch.toNat - '0'.toNat)) 0)
  match s with
  | '-' :: d => (digits d).map fun n => -(n : Int)
  | '+' :: d => (digits d).map fun n => (n : Int)
  | d => (digits d).map fun n => (n : Int)

/-- `_log_option_source(1, arg, int(ini or 0) or None, _)` for the counted options `-l` / `-i` -/
def srcDefaultNum (dflt arg : Nat) (ini : Option Str) : M Int :=
  match ini with
  | none => pure arg
  | some s =>
    if s.isEmpty then pure arg else
    match parseInt? s with
    | none => throw .other                       -- ValueError from `int()`
    | some n => pure (if dflt = arg then (if n = 0 then (arg : Int) else n) else arg)

def iniGet (kvs : List (Str × Str)) (k : String) : Option Str := (kvs.find? (·.1 == k.toList)).map (·.2)

def Cli.toArgs (c : Cli) : Args :=
  { configFile := c.configFile, profile := c.profile, tests := c.tests, skips := c.skips, excluded := c.excluded,
    severity := c.severity, confidence := c.confidence, targets := c.targets }

/-- the `if ini_options:` block of `main()` without the two counted options; `dx` is the argparse default of `-x` -/
def mergeIni (dx : Str) (c : Cli) (kvs : List (Str × Str)) : Args :=
  { configFile := srcNone c.configFile (iniGet kvs "configfile"),
    excluded := srcDefaultStr dx c.excluded (iniGet kvs "exclude"),
    skips := srcNone c.skips (iniGet kvs "skips"),
    tests := srcNone c.tests (iniGet kvs "tests"),
    targets := if !c.targets.isEmpty then c.targets
               else (match iniGet kvs "targets" with
                     | some s => if s.isEmpty then [] else Str.splitOn ',' s
                     | none => []),
    profile := srcNone c.profile (iniGet kvs "profile"),
    severity := c.severity, confidence := c.confidence }

def resolveArgs (dx : Str) (c : Cli) : IniOutcome → Outcome Args
  | .absent => pure c.toArgs
  | .unusable => pure c.toArgs
  | .undecodable => .crash .other
  | .opts kvs =>
    if kvs.isEmpty then pure c.toArgs else do
      let sev ← Outcome.ofM (srcDefaultNum 1 c.severity (iniGet kvs "level"))
      let conf ← Outcome.ofM (srcDefaultNum 1 c.confidence (iniGet kvs "confidence"))
      pure { mergeIni dx c kvs with severity := sev, confidence := conf }

/-! ## Selection: `_get_profile`, `-t` and `-s`, `validate_profile`, `_get_filter` -/

/-- `"a,b".split(",") if s else []` -/
def splitIds (s : Option Str) : List Str :=
  match s with
  | some t => if t.isEmpty then [] else Str.splitOn ',' t
  | none => []

/-- `_get_profile`: (include, exclude, legacy-blacklist flag) -/
def getProfile (ld : Loaded) (name : Option Str) : Outcome (List CfgVal × List CfgVal × Bool) :=
  if truthyOpt name then
    match ld.profiles.find? (fun p => some p.1 == name) with
    | some (_, p) => pure (p.inc, p.exc, p.legacyBlacklist)
    | none => .reject .unknownProfile
  else do
    let t ← Outcome.ofM (getOption ld.cfg "tests".toList)
    let inc ← Outcome.ofM (pySetOf t)
    let s ← Outcome.ofM (getOption ld.cfg "skips".toList)
    let exc ← Outcome.ofM (pySetOf s)
    pure (inc, exc, false)

/-- set union as an insertion-ordered duplicate-free list -/
def union (a b : List Str) : List Str := (a ++ b).eraseDups

/-- `BanditTestSet._get_filter`'s handling of the legacy ID `B001` -/
def expandB001 (blIds : List Str) (xs : List Str) : List Str :=
  if xs.contains "B001".toList then
    (if xs.any (blIds.contains ·) then xs else union xs blIds).filter (· != "B001".toList)
  else xs

/-- `_get_filter`: is test `i` kept? -/
def keep (reg : Registry) (inc exc : List Str) (i : Str) : Bool :=
  let blIds := reg.blacklist.map (·.1)
  let inc' := expandB001 blIds inc
  let exc' := expandB001 blIds exc
  (if inc'.isEmpty then reg.allIds.contains i else inc'.contains i) && !exc'.contains i

/-- IDs for which a check exists (plugins and blacklist rules; not the wrapper ID B001) -/
def runnableIds (reg : Registry) : List Str := reg.plugins.map (·.1) ++ reg.blacklist.map (·.1)

/-! ## Plugin settings: `_load_tests` -/

/-- the settings plugin key `name` runs with: the config's value if there is one, else the generated
default — never a merge of the two -/
def pluginSetting (cfg : CfgVal) (dflt : CfgVal) (name : Str) : CfgVal :=
  match getOption cfg name with
  | .ok .null => dflt
  | .ok v => v
  | .error _ => dflt       -- unreachable for a dict `cfg` and a dot-free name (see `getOption_top`)

def effective (cfg : CfgVal) (defaults : PluginCfg) : PluginCfg :=
  defaults.map fun kv => (kv.1, pluginSetting cfg kv.2 kv.1)

/-! ## File exclusion patterns: `discover_files` (the config/CLI part) -/

/-- the `-x` / INI `exclude` string as patterns: split on commas, an existing directory `d` becomes `d/*` -/
def cliGlobs (isDir : Str → Bool) (excluded : Str) : List Str :=
  if excluded.isEmpty then [] else
    (Str.splitOn ',' excluded).map fun p => if isDir p then p ++ "/*".toList else p

def excludeGlobs (isDir : Str → Bool) (cfg : CfgVal) (excluded : Str) : M (List Str) := do
  let e ← getOption cfg "exclude_dirs".toList
  let cliParts := cliGlobs isDir excluded
  if e.truthy then
    match e with
    | .list xs =>
      let ss ← pyStrs xs     -- a non-str pattern makes `fnmatch` raise on the first file
      pure (ss ++ cliParts)
    -- `list(exclude_dirs or [])` (a copy since /repo 35c448a): a string is copied as its characters, a mapping as its keys, anything else
    -- that is truthy (a number, `true`) is not iterable
    | .str s => pure (s.map (fun c => [c]) ++ cliParts)
    | .map kvs => pure (kvs.map (·.1) ++ cliParts)
    | _ => throw .typeError
  else pure cliParts

/-- `_is_file_included(..)`'s exclusion half -/
def isExcluded (globs : List Str) (path : Str) : Bool :=
  globs.any (fun g => Glob.fnmatch path g) || globs.any (fun g => Str.isInfix g path)

/-! ## `main()` -/

structure World where
  reg : Registry
  /-- `gen_config` of every config-taking plugin, keyed by `_takes_config` name -/
  defaults : PluginCfg
  /-- argparse default of `-x` -/
  dx : Str
  /-- what opening/parsing each path gives; an unlisted path is unreadable -/
  files : List (Str × FileOutcome)
  isDir : Str → Bool := fun _ => false

def World.file (w : World) (p : Str) : FileOutcome :=
  match w.files.find? (·.1 == p) with | some (_, f) => f | none => .unreadable

/-- everything that decides what a scan finds -/
structure ScanSetup where
  inc : List Str
  exc : List Str
  settings : PluginCfg
  globs : List Str
  severity : Nat
  confidence : Nat
  targets : List Str
  legacy : Bool         -- legacy blacklist data in play: findings not modelled
deriving Repr, Inhabited

/-- `constants.RANKING[args.severity - 1]` for the 4-element RANKING, as the 1-based position it
selects; Python accepts the negative indices -4 … -1 -/
def rankIndex (n : Int) : M Nat :=
  if 1 ≤ n ∧ n ≤ 4 then pure n.toNat
  else if -3 ≤ n ∧ n ≤ 0 then pure (n + 4).toNat
  else throw .indexError

def stageLoad (w : World) (a : Args) : Outcome Loaded :=
  match a.configFile with
  | some p => if p.isEmpty then pure noConfig else loadConfig w.reg (Str.endsWith p ".toml".toList) (w.file p)
  | none => pure noConfig

def stageSelect (ld : Loaded) (a : Args) : Outcome (List Str × List Str × Bool) := do
  let (inc0, exc0, lb) ← getProfile ld a.profile
  -- `_log_info` joins the IDs with ","
  let incS ← Outcome.ofM (pyStrs inc0)
  let excS ← Outcome.ofM (pyStrs exc0)
  let inc := union incS (splitIds a.tests)
  let exc := union excS (splitIds a.skips)
  if inc.any (exc.contains ·) then .reject .contradictory else pure (inc, exc, lb)

def stageScan (w : World) (ld : Loaded) (a : Args) (sel : List Str × List Str × Bool) : Outcome ScanSetup := do
  let (inc, exc, lb) := sel
  let globs ← Outcome.ofM (excludeGlobs w.isDir ld.cfg a.excluded)
  if !lb && !(runnableIds w.reg).any (keep w.reg inc exc) then .reject .noTests else do
    let sev ← Outcome.ofM (rankIndex a.severity)
    let conf ← Outcome.ofM (rankIndex a.confidence)
    pure { inc := inc, exc := exc, settings := effective ld.cfg w.defaults, globs := globs,
           severity := sev, confidence := conf, targets := a.targets, legacy := lb || ld.legacyData }

/-- the configuration-dependent part of `bandit.cli.main.main()` -/
def run (w : World) (c : Cli) (ini : IniOutcome) : Outcome ScanSetup := do
  let a ← resolveArgs w.dx c ini
  let ld ← stageLoad w a
  if a.targets.isEmpty then .reject .noTargets else do
    let sel ← stageSelect ld a
    stageScan w ld a sel

/-! ## The generator: `config_generator.get_config_settings` + template -/

/-- one entry per config-taking plugin, keyed by the plugin's **name** (not its `_takes_config` key),
holding `gen_config(_takes_config)` -/
def generatorSettings (plugins : List (Str × Option Str)) (defaults : PluginCfg) : List (Str × CfgVal) :=
  plugins.filterMap fun p =>
    match p.2 with
    | some tc => (match defaults.find? (·.1 == tc) with | some (_, v) => some (p.1, v) | none => none)
    | none => none

def idList (s : Option Str) : CfgVal :=
  match splitIds s with
  | [] => .null                     -- `tests:` with nothing after it
  | xs => .list (xs.map .str)

/-- the document `bandit-config-generator -o f [-t …] [-s …]` writes, as YAML parses it back -/
def generatorOutput (plugins : List (Str × Option Str)) (defaults : PluginCfg) (tests skips : Option Str) : CfgVal :=
  .map ([("tests".toList, idList tests), ("skips".toList, idList skips)] ++ generatorSettings plugins defaults)

/-! ## Spec side: what the property demands of a load -/
namespace Spec

/-- what the abstract selection `(tests, skips)` with default settings must lead to, whatever carrier
expressed it: contradiction ⇒ rejected; nothing left to run ⇒ rejected; else a scan with exactly
these sets, every plugin at its default, the default exclusions and thresholds -/
def selectionOutcome (w : World) (targets ts ss : List Str) : Outcome ScanSetup :=
  if ts.eraseDups.any (ss.eraseDups.contains ·) then .reject .contradictory
  else if !(runnableIds w.reg).any (keep w.reg ts.eraseDups ss.eraseDups) then .reject .noTests
  else .ok { inc := ts.eraseDups, exc := ss.eraseDups, settings := w.defaults, globs := cliGlobs w.isDir w.dx,
             severity := 1, confidence := 1, targets := targets, legacy := false }

/-- the file named by `-c` is *bad* in the property's sense: unreadable, unparsable, or parsed to
something that is not a mapping -/
def BadFile (isToml : Bool) : FileOutcome → Bool
  | .unreadable => true
  | .syntaxError => true
  | .undecodable => true
  | .parsedOther => true
  | .parsed doc =>
    if isToml then
      (match doc with
       | .map kvs =>
         (match lookupKV kvs "tool".toList with
          | none => false
          | some (.map t) => (match lookupKV t "bandit".toList with | none => false | some (.map _) => false | some _ => true)
          | some _ => true)
       | _ => false)        -- a TOML document is always a table: nothing is claimed about other shapes
    else (match doc with | .map _ => false | _ => true)

/-- the config with plugin key `k`'s block set to `v` (any previous block for `k` removed) -/
def withBlock : CfgVal → Str → CfgVal → CfgVal
  | .map kvs, k, v => .map ((k, v) :: kvs.filter (fun kv => !(kv.1 == k)))
  | c, _, _ => c

/-- a well-typed list of test IDs: absent/`null` or a list of strings -/
def idsOf : CfgVal → Option (List Str)
  | .null => some []
  | .list xs => if xs.all (fun x => (asStr? x).isSome) then some (xs.filterMap asStr?) else none
  | _ => none

/-- canonical spelling of a test ID: non-empty, no comma (so it survives `",".join` / `.split(",")`) -/
def CanonId (i : Str) : Prop := i ≠ [] ∧ ',' ∉ i

/-- the abstract selection `(tests, skips)` as a YAML document -/
def selCfg (ts ss : List Str) : CfgVal :=
  .map [("tests".toList, .list (ts.map .str)), ("skips".toList, .list (ss.map .str))]

/-- … the same inside a `pyproject.toml` -/
def tomlDoc (v : CfgVal) : CfgVal :=
  .map [("project".toList, .map [("name".toList, .str "demo".toList)]), ("tool".toList, .map [("bandit".toList, v)])]

/-- … as the value of `-t` / `-s` or of the INI options: absent when empty, else comma-joined -/
def optJoin (ids : List Str) : Option Str := if ids.isEmpty then none else some (Str.joinWith ',' ids)

/-- … as the `[bandit]` section of an INI file -/
def iniSel (ts ss : List Str) : List (Str × Str) :=
  (if ts.isEmpty then [] else [("tests".toList, Str.joinWith ',' ts)]) ++
  (if ss.isEmpty then [] else [("skips".toList, Str.joinWith ',' ss)])

/-- keys that must not be plugin-setting names for the carriers to be comparable: the names the
core itself reads.  (`Gen.pluginDefaults` satisfies this, see `Props.C13.gen_defaults_plain`.) -/
def reservedKeys : List Str :=
  ["tests".toList, "skips".toList, "exclude_dirs".toList, "profiles".toList, "include".toList,
   "plugin_name_pattern".toList, "blacklist_calls".toList, "blacklist_imports".toList, "project".toList, "tool".toList]

/-- an option the user actually gave: present and non-empty -/
def given (o : Option Str) : Option Str :=
  match o with
  | some s => if s.isEmpty then none else some s
  | none => none

/-- the command line that says what the `[bandit]` section `kvs` says (numeric options aside) -/
def cliOfIni (dx : Str) (kvs : List (Str × Str)) (targets : List Str) : Cli :=
  { configFile := given (iniGet kvs "configfile"), profile := given (iniGet kvs "profile"),
    tests := given (iniGet kvs "tests"), skips := given (iniGet kvs "skips"),
    excluded := (given (iniGet kvs "exclude")).getD dx, targets := targets }

def PlainDefaults (d : PluginCfg) : Prop := ∀ kv ∈ d, '.' ∉ kv.1 ∧ kv.1 ∉ reservedKeys

instance (d : PluginCfg) : Decidable (PlainDefaults d) := by unfold PlainDefaults; infer_instance

end Spec

end Bandit.ConfigLoad
