import Bandit.ConfigLoad
/-!
# Model variant for the code with `proposed_fixes/C13-*.diff` applied

* `BanditConfig.__init__`: the `isinstance(dict)` test runs **before** `validate`; a TOML `tool`
  entry that is not a table is treated like any other non-mapping; `UnicodeDecodeError` from
  `tomllib.load` is handled like `TOMLDecodeError`.
* `main()`: the INI options `level` / `confidence` are converted with `int(.. or 0) or None`, like
  `number` already is.
-/
namespace Bandit.ConfigLoad.Fixed
open Bandit Bandit.ConfigLoad

/-- `tool = data.get("tool", {})`; `tool.get("bandit", {}) if isinstance(tool, dict) else tool` -/
def tomlExtract (doc : CfgVal) : M CfgVal :=
  match doc with
  | .map kvs =>
    (match lookupKV kvs "tool".toList with
     | none => pure (.map [])
     | some (.map t) => pure ((lookupKV t "bandit".toList).getD (.map []))
     | some t => pure t)
  | _ => throw .attributeError      -- unreachable: a TOML document is a table

def loadConfig (reg : Registry) (isToml : Bool) : FileOutcome → Outcome Loaded
  | .unreadable => .reject .unreadable
  | .syntaxError => .reject .unparsable
  | .undecodable => .reject .unparsable
  | .parsedOther => .reject .notMapping
  | .parsed doc => do
    let v ← (if isToml then Outcome.ofM (tomlExtract doc) else Outcome.ok doc)
    match v with
    | .map _ => do validate v; convertLegacy reg v
    | _ => .reject .notMapping

/-- `int(s)` for a plain ASCII decimal string (anything else: `ValueError`) -/
def parseNat? (s : Str) : Option Nat :=
  if s.isEmpty || !s.all Char.isDigit then none
  else some (s.foldl (fun n ch => 10 * n + (ch.toNat - '0'.toNat)) 0)

/-- `_log_option_source(1, arg, int(ini or 0) or None, _)` -/
def srcDefaultNum (dflt arg : Nat) (ini : Option Str) : M NumOpt :=
  match ini with
  | none => pure (.int arg)
  | some s =>
    if s.isEmpty then pure (.int arg) else
    match parseNat? s with
    | none => throw .other                       -- ValueError from `int()`
    | some n => pure (if dflt = arg then (if n = 0 then .int arg else .int n) else .int arg)

def resolveArgs (dx : Str) (c : Cli) : IniOutcome → Outcome Args
  | .absent => pure c.toArgs
  | .unusable => pure c.toArgs
  | .undecodable => .crash .other
  | .opts kvs =>
    if kvs.isEmpty then pure c.toArgs else do
      let a := mergeIni dx c kvs
      let sev ← Outcome.ofM (srcDefaultNum 1 c.severity (iniGet kvs "level"))
      let conf ← Outcome.ofM (srcDefaultNum 1 c.confidence (iniGet kvs "confidence"))
      pure { a with severity := sev, confidence := conf }

def stageLoad (w : World) (a : Args) : Outcome Loaded :=
  match a.configFile with
  | some p => if p.isEmpty then pure noConfig else loadConfig w.reg (Str.endsWith p ".toml".toList) (w.file p)
  | none => pure noConfig

def run (w : World) (c : Cli) (ini : IniOutcome) : Outcome ScanSetup := do
  let a ← resolveArgs w.dx c ini
  let ld ← stageLoad w a
  if a.targets.isEmpty then .reject .noTargets else do
    let sel ← stageSelect ld a
    stageScan w ld a sel

end Bandit.ConfigLoad.Fixed
