import Bandit.Glob
/-!
# File discovery (`bandit/core/manager.py`: `discover_files`, `_get_files_from_dir`,
# `_is_file_included`, `_matches_glob_list`)

The filesystem is an explicit value: a tree of directories, non-directories and symlinks that
resolve to a directory, plus the working directory.  `os.path.isdir`, `os.path.join` and
`os.walk(top)` (`followlinks=False`, errors ignored) are functions of that value.

What is modelled of the OS (checked against real temporary trees by `harness/props/c11.py`):
* `FsNode.file` stands for everything `os.walk` puts in `filenames` and `os.path.isdir` rejects:
  regular files, symlinks to files, dangling symlinks.
* `FsNode.dir true es` is a symlink that resolves to a directory with entries `es`: `isdir` is true,
  `os.walk` of a *parent* lists it among the directory names and does not descend, `os.walk(top)`
  with the link itself as `top` lists the target's entries.
* path resolution: components `""` and `"."` stay, `".."` goes to the lexical parent (exact unless
  the path goes *up through* a symlinked directory; the harness does not generate that).
* not modelled: permissions (unreadable directories are silently skipped by `os.walk`), mount points,
  names that are not valid text.
-/
namespace Bandit.Discovery
open Bandit

/-! ## The filesystem value -/

inductive FsNode where
  | file
  | dir (isLink : Bool) (entries : List (Str × FsNode))
deriving Repr, Inhabited

structure Fs where
  root : FsNode
  /-- components of the absolute working directory below `root` -/
  cwd : List Str
deriving Repr, Inhabited

def FsNode.isDir : FsNode → Bool
  | .file => false
  | .dir _ _ => true

/-- walked into by `os.walk` of the parent: a real directory, not a symlink -/
def FsNode.isRealDir : FsNode → Bool
  | .dir false _ => true
  | _ => false

def lookupEntry (name : Str) : List (Str × FsNode) → Option FsNode
  | [] => none
  | (n, x) :: rest => if n = name then some x else lookupEntry name rest

/-! ## `os.path` -/

/-- `posixpath.join(a, b)` -/
def join (a b : Str) : Str :=
  if b.head? = some '/' then b
  else if a = [] ∨ a.getLast? = some '/' then a ++ b
  else a ++ '/' :: b

/-- one step of path resolution; the stack holds the current node and its ancestors (root last) -/
def stepComp (stack : List FsNode) (c : Str) : Option (List FsNode) :=
  match stack with
  | [] => none
  | .file :: _ => none                                   -- ENOTDIR
  | .dir l es :: up =>
    if c = [] ∨ c = ['.'] then some (.dir l es :: up)
    else if c = ['.', '.'] then (if up.isEmpty then some (.dir l es :: up) else some up)
    else match lookupEntry c es with
      | some n => some (n :: .dir l es :: up)
      | none => none                                     -- ENOENT

def resolveComps : List FsNode → List Str → Option (List FsNode)
  | st, [] => some st
  | st, c :: cs => match stepComp st c with
    | some st' => resolveComps st' cs
    | none => none

/-- the node a path denotes (following symlinks), `none` = `stat` fails -/
def resolve (fs : Fs) (p : Str) : Option FsNode :=
  if p = [] then none                                    -- stat("") is ENOENT
  else
    let start : Option (List FsNode) :=
      if p.head? = some '/' then some [fs.root] else resolveComps [fs.root] fs.cwd
    match start with
    | none => none
    | some st => match resolveComps st (Str.splitOn '/' p) with
      | some (n :: _) => some n
      | _ => none

/-- `os.path.isdir(p)` evaluated in `fs.cwd` -/
def isDir (fs : Fs) (p : Str) : Bool :=
  match resolve fs p with
  | some n => n.isDir
  | none => false

/-! ## `os.walk(top)` (top-down, `followlinks=False`, `onerror=None`) -/

def dirNames (es : List (Str × FsNode)) : List Str :=
  es.filterMap fun e => if e.2.isDir then some e.1 else none

def fileNames (es : List (Str × FsNode)) : List Str :=
  es.filterMap fun e => if e.2.isDir then none else some e.1

mutual
/-- the `(dirpath, dirnames, filenames)` triples of `os.walk(top)` where `top` denotes node `n` -/
def walk (top : Str) : FsNode → List (Str × List Str × List Str)
  | .file => []                                          -- scandir fails, error ignored
  | .dir _ es => (top, dirNames es, fileNames es) :: walkSubs top es
/-- the walks of the sub-directories that are not symlinks -/
def walkSubs (top : Str) : List (Str × FsNode) → List (Str × List Str × List Str)
  | [] => []
  | (n, x) :: rest =>
    (match x with
     | .dir false es => walk (join top n) (.dir false es)
     | _ => []) ++ walkSubs top rest
end

/-- `os.path.join(root, filename)` for every `filename` of every triple of `os.walk(top)` -/
def walkedPaths (fs : Fs) (top : Str) : List Str :=
  match resolve fs top with
  | some n => (walk top n).flatMap fun t => t.2.2.map (join t.1)
  | none => []

/-! ## The include/exclude predicate -/

/-- `_is_file_included(path, included_globs, excluded_path_strings, enforce_glob)` -/
def isFileIncluded (path : Str) (inc exc : List Str) (enforceGlob : Bool) : Bool :=
  if Glob.matchesGlobList path inc || !enforceGlob then
    !Glob.matchesGlobList path exc && !exc.any (fun x => Str.isInfix x path)
  else false

/-- `_get_files_from_dir(files_dir, included_globs, excluded_path_strings)` (as lists; the caller
only uses them as sets) -/
def getFilesFromDir (fs : Fs) (top : Str) (inc exc : List Str) : List Str × List Str :=
  ((walkedPaths fs top).filter fun p => isFileIncluded p inc exc true,
   (walkedPaths fs top).filter fun p => !isFileIncluded p inc exc true)

/-! ## `sorted(set(...))` -/

/-- Python `<` on `str`: lexicographic by code point -/
def strLt : Str → Str → Bool
  | [], [] => false
  | [], _ :: _ => true
  | _ :: _, [] => false
  | a :: as, b :: bs => a.toNat < b.toNat || (a == b && strLt as bs)

def insertU (x : Str) : List Str → List Str
  | [] => [x]
  | y :: ys => if x = y then y :: ys else if strLt x y then x :: y :: ys else y :: insertU x ys

/-- `sorted(set(l))` -/
def sortedSet (l : List Str) : List Str := l.foldr insertU []

/-! ## `discover_files` -/

/-- the two config options `discover_files` reads -/
structure Config where
  /-- `get_option("exclude_dirs") or []` -/
  excludeDirs : List Str := []
  /-- `get_option("include")` (`include` is a Lean keyword); `[]` also stands for "absent" (`or ["*.py"]`) -/
  includes : List Str := []
deriving Repr, Inhabited

/-- `BanditConfig()` without a config file -/
def Config.noFile : Config := { excludeDirs := [], includes := ["*.py".toList, "*.pyw".toList] }

def includedGlobs (cfg : Config) : List Str :=
  if cfg.includes.isEmpty then ["*.py".toList] else cfg.includes

/-- one `-x` entry: `if os.path.isdir(path): path = os.path.join(path, "*")` -/
def prepareEntry (fs : Fs) (p : Str) : Str := if isDir fs p then join p ['*'] else p

/-- the `-x` entries (`excluded_paths.split(",")`, nothing when the string is empty) -/
def cliEntries (excludedPaths : Str) : List Str :=
  if excludedPaths = [] then [] else Str.splitOn ',' excludedPaths

/-- `excluded_path_globs`: config `exclude_dirs` as given, then the prepared `-x` entries -/
def prepareExcludes (fs : Fs) (cfg : Config) (excludedPaths : Str) : List Str :=
  cfg.excludeDirs ++ (cliEntries excludedPaths).map (prepareEntry fs)

/-- how an explicitly named file is spelled in `files_list` -/
def explicitSpelling (t : Str) : Str := if t = ['-'] then t else join ['.'] t

/-- contribution of one target to `files_list` -/
def targetFiles (fs : Fs) (inc exc : List Str) (recursive : Bool) (t : Str) : List Str :=
  if isDir fs t then (if recursive then (getFilesFromDir fs t inc exc).1 else [])
  else if isFileIncluded t inc exc false then [explicitSpelling t] else []

/-- contribution of one target to `excluded_files` -/
def targetExcluded (fs : Fs) (inc exc : List Str) (recursive : Bool) (t : Str) : List Str :=
  if isDir fs t then (if recursive then (getFilesFromDir fs t inc exc).2 else [])
  else if isFileIncluded t inc exc false then [] else [t]

structure Result where
  files : List Str
  excluded : List Str
deriving Repr, DecidableEq

/-- `BanditManager.discover_files(targets, recursive, excluded_paths)` →
`(files_list, excluded_files)` -/
def discoverFiles (fs : Fs) (cfg : Config) (targets : List Str) (recursive : Bool)
    (excludedPaths : Str) : Result :=
  let exc := prepareExcludes fs cfg excludedPaths
  let inc := includedGlobs cfg
  { files := sortedSet (targets.flatMap (targetFiles fs inc exc recursive)),
    excluded := sortedSet (targets.flatMap (targetExcluded fs inc exc recursive)) }

/-! ## What the property demands (written from the property text, not from the code) -/
namespace Spec

/-- the name of a file: what follows the last `/` (`posixpath.basename`) -/
def nameOf : Str → Str
  | [] => []
  | c :: cs => if c = '/' then nameOf cs else if cs.contains '/' then nameOf cs else c :: cs

/-- helper: `d` occurs in `s` starting at a component boundary (`atStart`) and ending at one -/
def alignedFrom (d : Str) : Bool → Str → Bool
  | atStart, [] => atStart && d.isEmpty
  | atStart, c :: cs =>
    (atStart && d.isPrefixOf (c :: cs) &&
      (((c :: cs).drop d.length).isEmpty || ((c :: cs).drop d.length).head? == some '/'))
    || alignedFrom d (c == '/') cs

/-- "`path` is under the directory (or is the path) that `d` names": `d` is non-empty and occupies
whole consecutive components of `path`. -/
def underPath (d path : Str) : Bool := !d.isEmpty && alignedFrom d true path

/-- the default VCS/cache directories the property names (frozen copy of the published list) -/
def defaultExcludes : List Str :=
  [".svn".toList, "CVS".toList, ".bzr".toList, ".hg".toList, ".git".toList,
   "__pycache__".toList, ".tox".toList, ".eggs".toList, "*.egg".toList]

inductive Verdict where
  | mustScan | mustExclude | either
deriving Repr, DecidableEq

/-- the file must be listed as excluded: no include pattern matches it (neither its name nor, in the
looser reading, its path), or it is under an excluded directory / is an excluded relative path, or it
matches an exclude glob -/
def mustExclude (inc exc : List Str) (path : Str) : Bool :=
  (!Glob.matchesGlobList (nameOf path) inc && !Glob.matchesGlobList path inc)
  || exc.any (fun d => underPath d path)
  || Glob.matchesGlobList path exc

/-- the file must be scanned: an include pattern matches its name (under both readings of "name"),
and no exclude pattern touches it under any reading (component-wise, glob, or occurrence as text) -/
def mustScan (inc exc : List Str) (path : Str) : Bool :=
  Glob.matchesGlobList (nameOf path) inc && Glob.matchesGlobList path inc
  && !Glob.matchesGlobList path exc && !exc.any (fun d => Str.isInfix d path)

/-- verdict for a walked file; `exc` are the exclude patterns **as the user gave them**; `may` are
patterns that are allowed but not required to exclude (the default VCS/cache names when the user
replaced the default of `-x`: the property lists them without saying whether they still apply) -/
def verdict (inc exc : List Str) (path : Str) (may : List Str := []) : Verdict :=
  if mustExclude inc exc path then .mustExclude
  else if mustScan inc (exc ++ may) path then .mustScan else .either

/-- an explicitly named file must be scanned (whatever its extension) when no exclude pattern touches it -/
def explicitMustScan (exc : List Str) (t : Str) : Bool :=
  !Glob.matchesGlobList t exc && !exc.any (fun d => Str.isInfix d t)

/-- an explicitly named file must be listed as excluded -/
def explicitMustExclude (exc : List Str) (t : Str) : Bool :=
  exc.any (fun d => underPath d t) || Glob.matchesGlobList t exc

/-- the exclude patterns as given by the user: config `exclude_dirs` and the `-x` entries -/
def userExcludes (cfg : Config) (excludedPaths : Str) : List Str :=
  cfg.excludeDirs ++ cliEntries excludedPaths

end Spec

/-- the guard of the partial theorems: no `-x` entry names an existing directory relative to cwd -/
def NoEntryIsDir (fs : Fs) (excludedPaths : Str) : Bool :=
  (cliEntries excludedPaths).all fun p => !isDir fs p

/-- the narrow region of the known finding: the walked path is excluded by the patterns as given
but included after the `isdir ⇒ p/*` rewrite -/
def lostByRewrite (fs : Fs) (cfg : Config) (excludedPaths : Str) (enforce : Bool) (path : Str) : Bool :=
  isFileIncluded path (includedGlobs cfg) (prepareExcludes fs cfg excludedPaths) enforce
  && !isFileIncluded path (includedGlobs cfg) (Spec.userExcludes cfg excludedPaths) enforce

/-! ## Variant: the code after the proposed repair `proposed_fixes/C11-exclude-dir-in-cwd.diff`

NOT the code as it is.  Kept here so that the driver can answer for either variant (`"variant":
"fixed"`) and the harness can switch when the repair is adopted; theorems in
`Bandit/Proofs/C11Fixed.lean`. -/
namespace Fixed

def prepareEntries (fs : Fs) (p : Str) : List Str := if isDir fs p then [p, join p ['*']] else [p]

def prepareExcludes (fs : Fs) (cfg : Config) (excludedPaths : Str) : List Str :=
  cfg.excludeDirs ++ (cliEntries excludedPaths).flatMap (prepareEntries fs)

def discoverFiles (fs : Fs) (cfg : Config) (targets : List Str) (recursive : Bool)
    (excludedPaths : Str) : Result :=
  let exc := prepareExcludes fs cfg excludedPaths
  let inc := includedGlobs cfg
  { files := sortedSet (targets.flatMap (targetFiles fs inc exc recursive)),
    excluded := sortedSet (targets.flatMap (targetExcluded fs inc exc recursive)) }

end Fixed

end Bandit.Discovery
