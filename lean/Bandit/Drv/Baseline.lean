import Bandit.Drv.Core
import Bandit.Baseline
/-!
# Driver ops for the baseline filter (C07)

`baseline_filter`: current findings × a list of baseline reports × a list of thresholds →
for every (report, threshold): the outcome of `filterResults` under both readings of
`_compare_baseline_results`, the report `Spec.expected` demands, and the findings in the region of
the known multiplicity defect.  Findings are returned as indices into the request's `results`
(the driver stores the index in the opaque `code` field, which no model function inspects).

Strings may be sent as JSON strings or as arrays of code points (astral characters survive).
-/
open Lean Bandit Bandit.Baseline

namespace Drv.Baseline

def strAny (j : Json) : Except String Str :=
  match j with
  | .str s => .ok s.toList
  | .arr a => a.toList.mapM fun c => do
      let n ← c.getNat?
      pure (Char.ofNat n)
  | _ => .error "string or code-point array expected"

def fieldStr (j : Json) (k : String) : Except String Str := do strAny (← j.getObjVal? k)

def optField {α} (j : Json) (k : String) (f : Json → Except String α) : Except String (Option α) :=
  match j.getObjVal? k with
  | .ok v => do pure (some (← f v))
  | .error _ => pure none

def natList (j : Json) : Except String (List Nat) := do
  let a ← j.getArr?
  a.toList.mapM (·.getNat?)

def parseIssue (idx : Nat) (j : Json) : Except String Issue := do
  pure { text := ← fieldStr j "text", severity := ← fieldStr j "severity", cwe := ← (← j.getObjVal? "cwe").getNat?,
         confidence := ← fieldStr j "confidence", fname := ← fieldStr j "fname", test := ← fieldStr j "test",
         testId := ← fieldStr j "test_id", lineno := ← (← j.getObjVal? "lineno").getInt?,
         linerange := ← natList (← j.getObjVal? "linerange"), col := ← (← j.getObjVal? "col").getInt?,
         endCol := ← (← j.getObjVal? "end_col").getInt?, code := (toString idx).toList }

def parseCwe (j : Json) : Except String CweDict := do
  let id? ← optField j "id" fun v => match v with
    | .str s => match s.toNat? with | some n => .ok n | none => .error "cwe id: int() of a non-numeric string is not modelled"
    | v => v.getNat?
  let link? ← optField j "link" strAny
  pure { id?, link? }

def parseDict (j : Json) : Except String IssueDict := do
  pure { filename? := ← optField j "filename" strAny
         test_name? := ← optField j "test_name" strAny
         test_id? := ← optField j "test_id" strAny
         issue_severity? := ← optField j "issue_severity" strAny
         issue_cwe? := ← optField j "issue_cwe" parseCwe
         issue_confidence? := ← optField j "issue_confidence" strAny
         issue_text? := ← optField j "issue_text" strAny
         line_number? := ← optField j "line_number" (·.getInt?)
         line_range? := ← optField j "line_range" natList
         col_offset? := ← optField j "col_offset" (·.getInt?)
         end_col_offset? := ← optField j "end_col_offset" (·.getInt?)
         code? := ← optField j "code" strAny }

def idxOf (i : Issue) : Json :=
  match (String.ofList i.code).toNat? with
  | some n => Json.num n
  | none => Json.null

def entriesJson (d : List (Issue × List Issue)) : Json :=
  Json.arr (d.map fun e => Json.arr #[idxOf e.1, Json.arr (e.2.map idxOf).toArray]).toArray

def outcomeJson (r : M Outcome) (ez : Bool) : Json :=
  match r with
  | .error _ => Json.mkObj [("kind", "crash")]
  | .ok (.plain l) => Json.mkObj [("kind", "plain"), ("entries", entriesJson (l.map fun i => (i, []))),
                                  ("exit", Json.num (exitCode (.plain l) ez))]
  | .ok (.cands d) => Json.mkObj [("kind", "cands"), ("entries", entriesJson d),
                                  ("exit", Json.num (exitCode (.cands d) ez))]

def opBaselineFilter (j : Json) : Except String Json := do
  let rsJ ← (← j.getObjVal? "results").getArr?
  let results ← (rsJ.toList.zipIdx).mapM fun (x, i) => parseIssue i x
  let blJ ← (← j.getObjVal? "baselines").getArr?
  let thrJ ← (← j.getObjVal? "thresholds").getArr?
  let thr ← thrJ.toList.mapM fun t => do
    let a ← t.getArr?
    let s ← strAny (a[0]?.getD Json.null)
    let c ← strAny (a[1]?.getD Json.null)
    pure (s, c)
  let ez := (j.getObjValAs? Bool "exit_zero").toOption.getD false
  let ranking := Gen.ranking
  let outs ← blJ.toList.mapM fun bj => do
    let report : Option (List IssueDict) ← match bj with
      | .null => pure none
      | .arr a => do pure (some (← a.toList.mapM parseDict))
      | _ => throw "baseline: null or array expected"
    let baseline := populateBaseline report
    let perThr := thr.map fun (s, c) =>
      let frs := thresholdFilter ranking s c results
      let (spec, region) : Json × Json := match frs with
        | .ok rs => (entriesJson (Spec.expected baseline rs),
                     Json.arr ((rs.filter fun r => decide (Spec.InDefectRegion baseline rs r.ident)).map idxOf).toArray)
        | .error _ => (Json.null, Json.null)
      Json.mkObj [
        ("membership", outcomeJson (filterResults .membership ranking baseline results s c) ez),
        ("counting", outcomeJson (filterResults .counting ranking baseline results s c) ez),
        ("spec", spec), ("region", region)]
    pure (Json.mkObj [("loaded", Json.num baseline.length), ("thr", Json.arr perThr.toArray)])
  return Json.mkObj [("current_variant", Json.str (match currentVariant with | .membership => "membership" | .counting => "counting")),
                     ("out", Json.arr outs.toArray)]

/-- dict round trip at record level: `issue_from_dict(as_dict(i))` for every result -/
def opRoundtrip (j : Json) : Except String Json := do
  let rsJ ← (← j.getObjVal? "results").getArr?
  let results ← (rsJ.toList.zipIdx).mapM fun (x, i) => parseIssue i x
  let ok := results.all fun i => match fromDict (i.asDict true) with
    | .ok k => decide (k.ident = i.ident)
    | .error _ => false
  return Json.mkObj [("identity_preserved", Json.bool ok)]

def ops : List Drv.Op := [("baseline_filter", opBaselineFilter), ("baseline_roundtrip", opRoundtrip)]

end Drv.Baseline
