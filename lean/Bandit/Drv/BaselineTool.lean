import Bandit.Drv.Core
import Bandit.BaselineTool
import Bandit.Gen.BaselineShape
/-!
# Driver ops for C20: run the `bandit-baseline` state machine on one scenario

Request  `{"op":"baseline_tool","shape":"gen"|"current"|"fixed",
           "pre":{"usage_ok","git_module","kind":"root"|"not_repo"|"git_cmd_missing","fmt_file","dash_o","has_parent"},
           "repo":{"on_branch","dirty","precious","report","cwd_tmp"},
           "sc":{"co1":"ok"|"fail","run1":["exit",n]|["signal",n]|["missing"]|["interrupt"]|["other"],"co2","run2","co3"}}`
The current commit is `1`, its parent `0`; they are reported back as `"cur"` / `"parent"`.
-/
open Lean Bandit Bandit.BaselineTool

namespace Drv.BaselineTool

def getBool (j : Json) (k : String) (dflt : Bool) : Bool := (j.getObjValAs? Bool k).toOption.getD dflt

def parseGit (j : Json) (k : String) : Except String Git := do
  match (j.getObjValAs? String k).toOption.getD "ok" with
  | "ok" => return .ok
  | "fail" => return .fail
  | s => throw s!"bad checkout outcome {s}"

def parseRun (j : Json) (k : String) : Except String Run := do
  let a ← (← j.getObjVal? k).getArr?
  let tag ← (a[0]?.getD Json.null).getStr?
  let n : Nat := ((a[1]?.getD (Json.num 0)).getNat?).toOption.getD 0
  match tag with
  | "exit" => return .exit n
  | "signal" => return .signal n
  | "missing" => return .missing
  | "interrupt" => return .interrupt
  | "other" => return .otherExc
  | s => throw s!"bad run outcome {s}"

def commitJson (c : Commit) : Json := Json.str (if c == 1 then "cur" else if c == 0 then "parent" else "other")

def excName : Exc → String
  | .fileNotFound => "FileNotFoundError"
  | .keyboardInterrupt => "KeyboardInterrupt"
  | .other => "other"
  | .gitCommandError => "GitCommandError"

def shapeJson (sh : Shape) : Json :=
  Json.mkObj [("rmtree_in_finally", Json.bool sh.rmtreeInFinally), ("reset_in_finally", Json.bool sh.resetInFinally),
    ("name", Json.str (if sh = Shape.current then "current" else if sh = Shape.fixed then "fixed" else "other"))]

def opShape (_ : Json) : Except String Json := return shapeJson Gen.baselineShape

def opTool (j : Json) : Except String Json := do
  let sh : Shape := match (j.getObjValAs? String "shape").toOption.getD "gen" with
    | "current" => Shape.current
    | "fixed" => Shape.fixed
    | _ => Gen.baselineShape
  let pj ← j.getObjVal? "pre"
  let kind : RepoKind ← match (pj.getObjValAs? String "kind").toOption.getD "root" with
    | "root" => pure RepoKind.root
    | "not_repo" => pure RepoKind.notRepo
    | "git_cmd_missing" => pure RepoKind.gitCmdMissing
    | s => throw s!"bad kind {s}"
  let pre : Pre :=
    { usageOk := getBool pj "usage_ok" true, gitModule := getBool pj "git_module" true, kind := kind,
      fmt := if getBool pj "fmt_file" false then .file else .terminal, dashO := getBool pj "dash_o" false,
      parent := if getBool pj "has_parent" true then some 0 else none }
  let rj ← j.getObjVal? "repo"
  let r : Repo :=
    { head := 1, branchTip := if getBool rj "on_branch" true then some 1 else none, work := 1,
      dirty := getBool rj "dirty" false, precious := getBool rj "precious" false, tmpDirs := 0,
      report := getBool rj "report" false, cwdTmpFile := getBool rj "cwd_tmp" false }
  let sj ← j.getObjVal? "sc"
  let sc : Scenario :=
    { co1 := ← parseGit sj "co1", run1 := ← parseRun sj "run1", co2 := ← parseGit sj "co2",
      run2 := ← parseRun sj "run2", co3 := ← parseGit sj "co3" }
  let (r', ex) := main sh pre sc r
  let exitJ : Json := match ex with
    | .code c => Json.mkObj [("code", Json.num (JsonNumber.fromInt c))]
    | .raised e => Json.mkObj [("raised", Json.str (excName e))]
  let status : Json := match sc.run2.result with
    | .ok c => if decide (Spec.ComparisonStatus sc c) then Json.num (JsonNumber.fromInt c) else Json.null
    | .error _ => Json.null
  return Json.mkObj [
    ("shape", shapeJson sh),
    ("final", Json.mkObj [
      ("head", commitJson r'.head),
      ("branch", match r'.branchTip with | some c => commitJson c | none => Json.null),
      ("work", commitJson r'.work), ("dirty", Json.bool r'.dirty), ("precious", Json.bool r'.precious),
      ("tmp_dirs", Json.num r'.tmpDirs), ("report", Json.bool r'.report), ("cwd_tmp", Json.bool r'.cwdTmpFile)]),
    ("exit", exitJ),
    ("spec", Json.mkObj [
      ("restored", Json.bool (decide (Spec.Restored pre.fmt r r'))),
      ("must_refuse", Json.bool (decide (Spec.MustRefuse pre r))),
      ("quiet", Json.bool (decide (Spec.Quiet sc))),
      ("recoverable", Json.bool (decide (Spec.Recoverable sc))),
      ("faults", Json.num (Spec.faults sc)),
      ("comparison_status", status),
      ("wf", Json.bool (decide r.WF))])]

def ops : List Drv.Op := [("baseline_tool", opTool), ("baseline_shape", opShape)]

end Drv.BaselineTool
