import Bandit.Drv.Core
import Bandit.Cli
import Bandit.Gen.Cli
/-!
# Driver ops for the command line layer (C03)

`{"op":"cli","args":{…},"world":{…}}` → the model's outcome of `main()` over the generated tables,
plus what `Cli.Spec` demands for that invocation.
-/
open Lean Bandit Bandit.Cli

namespace Drv.CliOps

def optStr (j : Json) (k : String) : Option Str :=
  match j.getObjVal? k with
  | .ok (.str s) => some s.toList
  | _ => none

def getBoolD (j : Json) (k : String) (d : Bool) : Bool := (j.getObjValAs? Bool k).toOption.getD d
def getNatD (j : Json) (k : String) (d : Nat) : Nat := (j.getObjValAs? Nat k).toOption.getD d

def parseTemplate (j : Json) : Except String (Option Template) :=
  match j.getObjVal? "msg_template" with
  | .ok (.str "ok") => pure (some .ok)
  | .ok (.str "malformed") => pure (some .malformed)
  | .ok (.str "notags") => pure (some .noTags)
  | .ok (.str s) => throw s!"bad msg_template {s}"
  | _ => pure none

def parseArgs (j : Json) : Except String Args := do
  let d : Args := {}
  return { sevFlags := getNatD j "sev_flags" 0, sevName := optStr j "sev_name",
           confFlags := getNatD j "conf_flags" 0, confName := optStr j "conf_name",
           format := (optStr j "format").getD d.format, msgTemplate := ← parseTemplate j,
           quiet := getBoolD j "quiet" false, verbose := getBoolD j "verbose" false,
           exitZero := getBoolD j "exit_zero" false, targets := getBoolD j "targets" true,
           profile := getBoolD j "profile" false, baseline := getBoolD j "baseline" false,
           otherUsageError := getBoolD j "usage_error" false, multipleIni := getBoolD j "multiple_ini" false,
           iniLevel := optStr j "ini_level", iniConfidence := optStr j "ini_confidence" }

def parseIssue (j : Json) : Except String Issue := do
  let a ← j.getArr?
  let s (i : Nat) : Except String String := (a[i]?.getD Json.null).getStr?
  let rk (i : Nat) : Except String Rank := do
    let t ← s i
    match Rank.ofStr? t.toList with
    | some r => pure r
    | none => throw s!"bad rank {t}"
  return { file := (← s 0).toList, id := (← s 1).toList, sev := ← rk 2, conf := ← rk 3,
           line := ← (a[4]?.getD Json.null).getNat? }

def parseWorld (j : Json) : Except String World := do
  let fs ← match j.getObjVal? "findings" with
    | .ok (.arr a) => a.toList.mapM parseIssue
    | _ => pure []
  return { configOk := getBoolD j "config_ok" true, profileFound := getBoolD j "profile_found" true,
           profileValid := getBoolD j "profile_valid" true, baselineReadable := getBoolD j "baseline_readable" true,
           hasTests := getBoolD j "has_tests" true, findings := fs }

def issueJson (i : Issue) : Json :=
  Json.arr #[Json.str (strOf i.file), Json.str (strOf i.id), rankJson i.sev, rankJson i.conf, Json.num i.line]

def crashName : Crash → String
  | .keyError => "KeyError" | .indexError => "IndexError" | .typeError => "TypeError"
  | .attributeError => "AttributeError" | .osError => "OSError" | .other => "ValueError"

def diagName : Diag → String
  | .usage => "usage" | .multipleIni => "multiple_ini" | .config => "config" | .noTargets => "no_targets"
  | .profile => "profile" | .baselineUnreadable => "baseline_unreadable" | .baselineFormat => "baseline_format"
  | .noTests => "no_tests" | .template => "template"

def outcomeJson : Outcome → List (String × Json)
  | .exit c rep => [("kind", "exit"), ("status", Json.num c), ("reported", Json.arr (rep.map issueJson).toArray)]
  | .error d => [("kind", "error"), ("status", Json.num 2), ("diag", Json.str (diagName d))]
  | .traceback c => [("kind", "traceback"), ("status", Json.num 1), ("exc", Json.str (crashName c))]

/-- what `Cli.Spec` says about the invocation -/
def specJson (T : Tables) (a : Args) (w : World) : Json :=
  let err := Spec.isError T a w
  let tS := Spec.threshold a.sevFlags a.sevName
  let tC := Spec.threshold a.confFlags a.confName
  let base : List (String × Json) :=
    [("is_error", Json.bool err), ("template_error", Json.bool (templateError a)),
     ("ini_inert", Json.bool (Spec.iniInert T a)),
     ("ini_raw_effective", Json.bool (Spec.iniRawEffective T a))]
  match tS, tC with
  | some s, some c =>
    let rep := Spec.reported s c w.findings
    Json.mkObj (base ++ [("thresholds", Json.arr #[rankJson s, rankJson c]),
      ("reported", Json.arr (rep.map issueJson).toArray),
      ("status", Json.num (Spec.exitStatus a.exitZero rep))])
  | _, _ => Json.mkObj (base ++ [("thresholds", Json.null)])

def opCli (j : Json) : Except String Json := do
  let a ← parseArgs ((j.getObjVal? "args").toOption.getD (Json.mkObj []))
  let w ← parseWorld ((j.getObjVal? "world").toOption.getD (Json.mkObj []))
  let T := Gen.cliTables
  return Json.mkObj (outcomeJson (main T a w) ++ [("spec", specJson T a w)])

/-- the generated tables, for the harness to cross-check against the running code -/
def opCliTables (_ : Json) : Except String Json := do
  let T := Gen.cliTables
  let strs (xs : List Str) : Json := Json.arr (xs.map (fun s => Json.str (strOf s))).toArray
  let pairs (xs : List (Str × Nat)) : Json := Json.arr (xs.map (fun p => Json.arr #[Json.str (strOf p.1), Json.num p.2])).toArray
  return Json.mkObj [("ranking", strs T.ranking), ("sev_chain", pairs T.sevChain), ("conf_chain", pairs T.confChain),
    ("sev_choices", strs T.sevChoices), ("conf_choices", strs T.confChoices),
    ("sev_default", Json.num T.sevDefault), ("conf_default", Json.num T.confDefault),
    ("sev_offset", Json.num T.sevOffset), ("conf_offset", Json.num T.confOffset),
    ("formats", strs T.formats), ("baseline_formats", strs T.baselineFormats), ("ini_as_int", Json.bool T.iniAsInt)]

def ops : List Op := [("cli", opCli), ("cli_tables", opCliTables)]

end Drv.CliOps
