import Bandit.Drv.Core
import Bandit.ConfigLoad
/-!
# Driver ops for configuration loading (C13): `cfgrun`, `cfggen`
-/
open Lean Bandit Bandit.ConfigLoad

namespace Drv.ConfigLoad

partial def parseCfg (j : Json) : CfgVal :=
  match j with
  | .null => .null
  | .bool b => .bool b
  | .num n => .int n.mantissa           -- the harness sends integers only (floats are classified as "other")
  | .str s => .str s.toList
  | .arr a => .list (a.toList.map parseCfg)
  | .obj kvs => .map (kvs.toList.map fun (k, v) => (k.toList, parseCfg v))

partial def cfgJson : CfgVal → Json
  | .null => .null
  | .bool b => .bool b
  | .int i => .num (JsonNumber.fromInt i)
  | .str s => .str (String.ofList s)
  | .list xs => .arr (xs.map cfgJson).toArray
  | .map kvs => Json.mkObj (kvs.map fun (k, v) => (String.ofList k, cfgJson v))

def optStr (j : Json) (k : String) : Option Str :=
  match j.getObjVal? k with
  | .ok (.str s) => some s.toList
  | _ => none

def natOr (j : Json) (k : String) (d : Nat) : Nat :=
  match j.getObjValAs? Nat k with | .ok n => n | _ => d

def strList (j : Json) (k : String) : List Str :=
  match j.getObjVal? k with
  | .ok (.arr a) => a.toList.filterMap fun x => x.getStr?.toOption.map String.toList
  | _ => []

def parseFile (j : Json) : FileOutcome :=
  match j with
  | .str "unreadable" => .unreadable
  | .str "syntax" => .syntaxError
  | .str "undecodable" => .undecodable
  | .str "other" => .parsedOther
  | .obj _ => (match j.getObjVal? "parsed" with | .ok d => .parsed (parseCfg d) | _ => .unreadable)
  | _ => .unreadable

def parseIni (j : Json) : IniOutcome :=
  match j with
  | .str "unusable" => .unusable
  | .str "undecodable" => .undecodable
  | .obj kvs => .opts (kvs.toList.filterMap fun (k, v) => v.getStr?.toOption.map fun s => (k.toList, s.toList))
  | _ => .absent

def strsJson (xs : List Str) : Json := Json.arr (xs.map (fun s => Json.str (String.ofList s))).toArray

def rejectName : Reject → String
  | .unreadable => "unreadable" | .unparsable => "unparsable" | .notMapping => "not-mapping"
  | .legacyNoData => "legacy-no-data" | .noTargets => "no-targets" | .unknownProfile => "unknown-profile"
  | .contradictory => "contradictory" | .noTests => "no-tests"

def crashName : Crash → String
  | .keyError => "KeyError" | .indexError => "IndexError" | .typeError => "TypeError"
  | .attributeError => "AttributeError" | .osError => "OSError" | .other => "other"

def defaultExcludeStr : Str := Str.joinWith ',' Gen.defaultExclude

def mkWorld (j : Json) : World :=
  let files : List (Str × FileOutcome) := match j.getObjVal? "files" with
    | .ok (.obj kvs) => kvs.toList.map fun (k, v) => (k.toList, parseFile v)
    | _ => []
  let dirs := strList j "dirs"
  { reg := Gen.registry, defaults := Gen.pluginDefaults, dx := defaultExcludeStr, files := files,
    isDir := fun p => dirs.contains p }

def mkCli (j : Json) : Cli :=
  { configFile := optStr j "config", profile := optStr j "profile", tests := optStr j "tests",
    skips := optStr j "skips",
    excluded := (optStr j "excluded").getD defaultExcludeStr,
    severity := natOr j "severity" 1, confidence := natOr j "confidence" 1, targets := strList j "targets" }

def opCfgRun (j : Json) : Except String Json := do
  let w := mkWorld j
  let c := mkCli (← j.getObjVal? "cli")
  let ini := match j.getObjVal? "ini" with | .ok v => parseIni v | _ => .absent
  let out := run w c ini
  let regions := Json.arr #[]      -- no open known finding for this property
  let paths := strList j "paths"
  match out with
  | .reject r => return Json.mkObj [("kind", "reject"), ("why", rejectName r), ("regions", regions)]
  | .crash cr => return Json.mkObj [("kind", "crash"), ("exc", crashName cr), ("regions", regions)]
  | .ok s =>
    return Json.mkObj [
      ("kind", "scan"), ("inc", strsJson s.inc), ("exc", strsJson s.exc),
      ("keep", strsJson ((Gen.registry.allIds).filter (keep Gen.registry s.inc s.exc))),
      ("settings", Json.mkObj (s.settings.map fun (k, v) => (String.ofList k, cfgJson v))),
      ("globs", strsJson s.globs), ("severity", Json.num (s.severity : Nat)), ("confidence", Json.num (s.confidence : Nat)),
      ("targets", strsJson s.targets), ("legacy", Json.bool s.legacy),
      ("excluded_paths", strsJson (paths.filter (isExcluded s.globs))),
      ("regions", regions)]

def genPlugins : List (Str × Option Str) := Gen.plugins.map fun p => (p.name, p.takesConfig)

def opCfgGen (j : Json) : Except String Json := do
  let v := generatorOutput genPlugins Gen.pluginDefaults (optStr j "tests") (optStr j "skips")
  return Json.mkObj [("doc", cfgJson v)]

def ops : List Op := [("cfgrun", opCfgRun), ("cfggen", opCfgGen)]

end Drv.ConfigLoad
