import Lean.Data.Json
import Bandit.TestSet
import Bandit.Gen.Chars
import Bandit.Gen.Blacklists
import Bandit.Gen.Registry
import Bandit.Gen.Constants
import Bandit.Gen.Defaults
import Bandit.Proofs.Total2
import Bandit.Proofs.Loc
import Bandit.Fast
import Bandit.Lines
/-!
# Driver core: JSON helpers and the `scan` family of ops.

Every area adds a module `Bandit/Drv/<Area>.lean` exporting `ops : List (String × (Json → Except String Json))`
and registers it in `Driver.lean`.
-/
open Lean Bandit

namespace Drv

def strOf (s : Str) : String := String.ofList s

def getStr (j : Json) (k : String) : Except String String := j.getObjValAs? String k

def parseAtom (j : Json) : Except String Atom := do
  let arr ← j.getArr?
  let tag ← (arr[0]?.getD Json.null).getStr?
  match tag with
  | "str" => return .str ((← (arr[1]?.getD Json.null).getStr?).toList)
  | "int" =>
    let s ← (arr[1]?.getD Json.null).getStr?
    match s.toInt? with | some i => return .int i | none => throw s!"bad int {s}"
  | "rat" =>
    let a ← (arr[1]?.getD Json.null).getStr?
    let b ← (arr[2]?.getD Json.null).getStr?
    match a.toInt?, b.toNat? with
    | some x, some y => return .rat x y
    | _, _ => throw "bad rat"
  | "flt" => return .flt ((← (arr[1]?.getD Json.null).getStr?).toList)
  | "cplx" => return .cplx (← (arr[1]?.getD Json.null).getBool?)
  | "bytes" =>
    let bs ← (arr[1]?.getD Json.null).getArr?
    return .bytes (← bs.toList.mapM fun b => b.getNat?)
  | "bool" => return .bool (← (arr[1]?.getD Json.null).getBool?)
  | "none" => return .none
  | "ellipsis" => return .ellipsis
  | _ => return .other

partial def parseNode (j : Json) : Except String Node := do
  let k ← getStr j "k"
  let pj ← j.getObjVal? "p"
  let pos ← match pj with
    | .null => pure none
    | _ => do
      let a ← pj.getArr?
      let g (i : Nat) : Except String Nat := (a[i]?.getD Json.null).getNat?
      pure (some (⟨← g 0, ← g 1, ← g 2, ← g 3⟩ : Pos))
  let aj ← j.getObjVal? "a"
  let attrs ← match aj with
    | .obj kvs => kvs.toList.mapM fun (key, v) => do
        let a ← parseAtom v
        pure (key.toList, a)
    | _ => throw "attrs"
  let cj ← (← j.getObjVal? "c").getArr?
  let kids ← cj.toList.mapM fun slot => do
    let sa ← slot.getArr?
    let f ← (sa[0]?.getD Json.null).getStr?
    let isl ← (sa[1]?.getD Json.null).getBool?
    let ns ← (sa[2]?.getD Json.null).getArr?
    let ns' ← ns.toList.mapM parseNode
    pure (f.toList, isl, ns')
  return Node.mk k.toList pos attrs kids

partial def parseCfgVal (j : Json) : CfgVal :=
  match j with
  | .null => .null
  | .bool b => .bool b
  | .num n => .int n.mantissa   -- harness sends integers only
  | .str s => .str s.toList
  | .arr a => .list (a.toList.map parseCfgVal)
  | .obj kvs => .map (kvs.toList.map fun (k, v) => (k.toList, parseCfgVal v))

def rankJson (r : Rank) : Json := Json.str r.name

def findingJson (f : Finding) : Json :=
  Json.arr #[Json.str (strOf f.id), rankJson f.sev, rankJson f.conf, Json.num f.line,
             Json.arr (f.range.map (fun n => Json.num (n : Nat))).toArray, Json.num f.col]

/-- plugin settings: generated defaults overridden wholesale per `_takes_config` name -/
def effectiveCfg (over : List (Str × CfgVal)) : PluginCfg :=
  Gen.pluginDefaults.map fun (k, v) =>
    match over.find? (·.1 == k) with
    | some (_, v') => (k, v')
    | none => (k, v)

def opScan (j : Json) : Except String Json := do
  let tree ← parseNode (← j.getObjVal? "tree")
  let commentsJ ← (← j.getObjVal? "comments").getArr?
  let comments ← commentsJ.toList.mapM fun c => do
    let a ← c.getArr?
    let ln ← (a[0]?.getD Json.null).getNat?
    let t ← (a[1]?.getD Json.null).getStr?
    pure (ln, t.toList)
  let ignoreNosec := (j.getObjValAs? Bool "ignore_nosec").toOption.getD false
  let fname := ((j.getObjValAs? String "fname").toOption.getD "x.py").toList
  let over : List (Str × CfgVal) := match j.getObjVal? "plugin_cfg" with
    | .ok (.obj kvs) => kvs.toList.map fun (k, v) => (k.toList, parseCfgVal v)
    | _ => []
  let sel : Option (List Str) := match j.getObjVal? "select" with
    | .ok (.arr a) => some (a.toList.filterMap fun x => x.getStr?.toOption.map String.toList)
    | _ => none
  -- `text` = the decoded text with its line ends as they are in the file: the model splits it itself (`uniLines`, Bandit/Lines.lean);
  -- `lines` (already split by the caller) is still accepted
  let lines : List Str := match j.getObjVal? "text" with
    | .ok (.str t) => uniLines t.toList
    | _ => match j.getObjVal? "lines" with
      | .ok (.arr a) => a.toList.filterMap fun x => x.getStr?.toOption.map String.toList
      | _ => []
  let nm : NosecMap := if ignoreNosec then [] else
    -- `nosec_lines[lineno] = …` is a dict assignment: a later comment token on the same line replaces an earlier one
    -- (two comment tokens on one line happen when `tokenize` does not end the line at a lone CR); `NosecMap.get` takes the first entry
    comments.reverse.map fun (ln, t) => (ln, Nosec.parse Gen.charClasses Gen.registry t)
  let strs (j : Json) (k : String) : List Str := match j.getObjVal? k with
    | .ok (.arr a) => a.toList.filterMap fun x => x.getStr?.toOption.map String.toList
    | _ => []
  let univ : IdUniverse :=
    { plugins := Gen.registry.plugins.map (·.1), builtin := Gen.registry.builtin,
      blacklist := (Gen.registry.blacklist.map (·.1)).eraseDups }
  let keep : Str → Bool := match j.getObjVal? "profile" with
    | .ok pj => keepOf univ { incl := strs pj "include", excl := strs pj "exclude" }
    | _ => match sel with
      | some s => fun i => s.contains i
      | none => fun _ => true
  let checks := testSet (effectiveCfg over) fname Gen.blTables keep
  -- `scanFileFast = scanFile` (Bandit/Fast.lean, Props.C06.driver_scan_is_model): positions are erased once per file, not once per check per node
  let es := scanFileFast checks { root := tree, nosec := nm, lines := lines }
  return Json.mkObj [
    ("findings", Json.arr ((findingsOf es).map findingJson).toArray),
    ("nosec", Json.num (nosecCount es)),
    ("skipped_tests", Json.num (skippedCount es)),
    ("crashes", Json.arr ((crashesOf es).map (fun s => Json.str (strOf s))).toArray),
    ("modelled", Json.arr ((checks.map (fun c => Json.str (strOf c.id))).toArray)),
    ("visits", Json.num (visits tree).length),
    -- the hypotheses of `Props.C06.scan_no_crash`, evaluated on this very input: the harness treats a `false` on a
    -- tree CPython produced (or on bandit's generated default settings) as a broken tie
    ("shape_ok", Json.bool (treeShapeOK tree)),
    ("config_ok", Json.bool (configOK (effectiveCfg over)))]

def opNosec (j : Json) : Except String Json := do
  let t ← getStr j "text"
  match Nosec.parse Gen.charClasses Gen.registry t.toList with
  | none => return Json.null
  | some ids => return Json.arr (ids.map (fun s => Json.str (strOf s))).toArray

def opFnmatch (j : Json) : Except String Json := do
  let n ← getStr j "name"
  let p ← getStr j "pat"
  return Json.bool (Glob.fnmatch n.toList p.toList)

def opCandidate (j : Json) : Except String Json := do
  let n ← getStr j "s"
  return Json.bool (Plugins.isCandidate n.toList)

/-- `{"op":"unilines","text":…}` → the lines a text-mode file yields for that decoded text -/
def opUniLines (j : Json) : Except String Json := do
  let t ← getStr j "text"
  return Json.arr ((uniLines t.toList).map (fun l => Json.str (strOf l))).toArray

abbrev Op := String × (Json → Except String Json)

def coreOps : List Op :=
  [("scan", opScan), ("nosec", opNosec), ("fnmatch", opFnmatch), ("candidate", opCandidate), ("unilines", opUniLines)]

end Drv
