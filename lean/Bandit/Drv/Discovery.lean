import Bandit.Drv.Core
import Bandit.Discovery
/-!
# Driver ops for file discovery (C11)

`discover`: `{"tree": T, "cwd": [comp…], "targets": [str…], "recursive": bool, "excluded_paths": str,
"exclude_dirs": [str…], "include": [str…]}` where `T` is `0` (non-directory) or
`{"l": bool, "e": [[name, T]…]}` (directory / symlink resolving to a directory).
Answers the model's `files_list`/`excluded_files`, the spec verdict of every walked path and explicit
target, the guard of the partial theorems and the known-finding region per path.

`fnmatch_many`: `{"pairs": [[name, pat]…]}` → `{"r": [bool…]}`.
-/
open Lean Bandit Bandit.Discovery

namespace Drv.Discovery

partial def parseFs (j : Json) : Except String FsNode :=
  match j with
  | .num _ => pure .file
  | .obj _ => do
    let l ← j.getObjValAs? Bool "l"
    let es ← (← j.getObjVal? "e").getArr?
    let es' ← es.toList.mapM fun e => do
      let a ← e.getArr?
      let n ← (a[0]?.getD Json.null).getStr?
      let x ← parseFs (a[1]?.getD Json.null)
      pure (n.toList, x)
    pure (.dir l es')
  | _ => throw "bad tree node"

def strList (j : Json) (k : String) : Except String (List Str) := do
  match j.getObjVal? k with
  | .ok (.arr a) => a.toList.mapM fun x => do pure (← x.getStr?).toList
  | .ok .null => pure []
  | .ok _ => throw s!"{k}: expected a list of strings"
  | .error _ => pure []

def jStr (s : Str) : Json := Json.str (strOf s)
def jStrs (l : List Str) : Json := Json.arr (l.map jStr).toArray

def verdictJson : Spec.Verdict → Json
  | .mustScan => "scan"
  | .mustExclude => "exclude"
  | .either => "either"

def opDiscover (j : Json) : Except String Json := do
  let root ← parseFs (← j.getObjVal? "tree")
  let cwd ← strList j "cwd"
  let targets ← strList j "targets"
  let recursive := (j.getObjValAs? Bool "recursive").toOption.getD false
  let xp := ((j.getObjValAs? String "excluded_paths").toOption.getD "").toList
  let cfg : Config := { excludeDirs := ← strList j "exclude_dirs", includes := ← strList j "include" }
  let fs : Fs := { root := root, cwd := cwd }
  let fixed := (j.getObjValAs? String "variant").toOption == some "fixed"
  let r := if fixed then Fixed.discoverFiles fs cfg targets recursive xp
           else discoverFiles fs cfg targets recursive xp
  let inc := includedGlobs cfg
  -- the patterns "as the user gave them" for the spec: by default the `-x` string itself; the harness
  -- passes the frozen published defaults when `-x` was not given
  let specX := match j.getObjValAs? String "spec_x" with
    | .ok s => s.toList
    | .error _ => xp
  let user := Spec.userExcludes cfg specX
  let may ← strList j "spec_may"
  let dirTargets := targets.filter (isDir fs)
  let walked := if recursive then sortedSet (dirTargets.flatMap (walkedPaths fs)) else []
  let explicit := targets.filter (fun t => !isDir fs t)
  return Json.mkObj [
    ("files", jStrs r.files),
    ("excluded", jStrs r.excluded),
    ("guard", Json.bool (NoEntryIsDir fs xp)),
    ("entries", Json.arr ((cliEntries xp).map fun p => Json.arr #[jStr p, Json.bool (isDir fs p)]).toArray),
    ("prepared", jStrs (if fixed then Fixed.prepareExcludes fs cfg xp else prepareExcludes fs cfg xp)),
    ("target_isdir", Json.arr (targets.map fun t => Json.bool (isDir fs t)).toArray),
    ("walked", Json.arr (walked.map fun p =>
        Json.arr #[jStr p, verdictJson (Spec.verdict inc user p may),
                   Json.bool (!fixed && lostByRewrite fs cfg xp true p)]).toArray),
    ("explicit", Json.arr (explicit.map fun t =>
        Json.arr #[jStr t, jStr (explicitSpelling t), Json.bool (Spec.explicitMustScan (user ++ may) t),
                   Json.bool (Spec.explicitMustExclude user t),
                   Json.bool (!fixed && lostByRewrite fs cfg xp false t)]).toArray)]

def opFnmatchMany (j : Json) : Except String Json := do
  let ps ← (← j.getObjVal? "pairs").getArr?
  let rs ← ps.toList.mapM fun p => do
    let a ← p.getArr?
    let n ← (a[0]?.getD Json.null).getStr?
    let g ← (a[1]?.getD Json.null).getStr?
    pure (Json.bool (Glob.fnmatch n.toList g.toList))
  return Json.mkObj [("r", Json.arr rs.toArray)]

def ops : List Op := [("discover", opDiscover), ("fnmatch_many", opFnmatchMany)]

end Drv.Discovery
