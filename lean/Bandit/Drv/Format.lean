import Bandit.Drv.Core
import Bandit.Format
import Bandit.Gen.HtmlTemplates
/-!
# Driver ops for the report formatters (C09)
-/
open Lean Bandit Bandit.Format

namespace Drv.Fmt

def jstr (s : Str) : Json := Json.str (String.ofList s)

def getS (j : Json) (k : String) : Except String Str := do
  let s ← j.getObjValAs? String k
  pure s.toList

def getN (j : Json) (k : String) : Except String Nat := j.getObjValAs? Nat k
def getI (j : Json) (k : String) : Except String Int := j.getObjValAs? Int k

def getStrList (j : Json) (k : String) : Except String (List Str) := do
  let a ← (← j.getObjVal? k).getArr?
  a.toList.mapM fun x => do pure (← x.getStr?).toList

def parseIssue (j : Json) : Except String Issue := do
  let rangeJ ← (← j.getObjVal? "range").getArr?
  let range ← rangeJ.toList.mapM fun x => x.getNat?
  pure { testId := ← getS j "test_id", testName := ← getS j "test_name", fname := ← getS j "fname",
         sev := ← getS j "sev", conf := ← getS j "conf", text := ← getS j "text",
         lineno := ← getN j "lineno", range := range, col := ← getI j "col", endCol := ← getI j "end_col",
         cweId := ← getN j "cwe_id", cweLink := ← getS j "cwe_link", url := ← getS j "url",
         abspath := ← getS j "abspath", relpath := ← getS j "relpath", file := ← getStrList j "file" }

def parseIssues (j : Json) : Except String (List Issue) := do
  let a ← (← j.getObjVal? "issues").getArr?
  a.toList.mapM parseIssue

def parseSkips (j : Json) : Except String (List (Str × Str)) := do
  match j.getObjVal? "skips" with
  | .ok (.arr a) => a.toList.mapM fun x => do
      let p ← x.getArr?
      pure ((← (p[0]?.getD Json.null).getStr?).toList, (← (p[1]?.getD Json.null).getStr?).toList)
  | _ => pure []

def errName : PyErr → String
  | .indexError => "IndexError" | .valueError => "ValueError" | .exit2 => "exit2" | .unsupported => "unsupported"

def parseCfg (j : Json) : HtmlCfg :=
  match j.getObjValAs? String "html_cfg" with
  | .ok "fixed" => HtmlCfg.fixed
  | _ => HtmlCfg.current

def parseAgg (j : Json) : Agg :=
  match j.getObjValAs? String "agg" with
  | .ok "vuln" => .vuln
  | _ => .file

def opHtmlEscape (j : Json) : Except String Json := do
  let s ← getS j "s"
  let e := htmlEscape s
  return Json.mkObj [("esc", jstr e), ("roundtrip", Json.bool (htmlUnescape e = s)), ("unesc", jstr (htmlUnescape s))]

def opGetCode (j : Json) : Except String Json := do
  let file ← getStrList j "file"
  let tabbed := (j.getObjValAs? Bool "tabbed").toOption.getD false
  return jstr (getCode file (← getN j "lineno") (← getN j "range_len") (← getI j "n") tabbed)

def regionJson (l : SarifLoc) : Json :=
  Json.mkObj [
    ("startLine", Json.num l.region.startLine), ("endLine", Json.num l.region.endLine),
    ("startColumn", Json.num l.region.startCol), ("endColumn", Json.num l.region.endCol),
    ("snippet", match l.region.snippet with | some s => jstr s | none => Json.null),
    ("context", match l.ctx with
      | some c => Json.mkObj [("startLine", Json.num c.startLine), ("endLine", Json.num c.endLine), ("text", jstr c.text)]
      | none => Json.null)]

/-- SARIF region for each issue (the formatter's `as_dict()` default of 3 context lines) -/
def opSarifRegions (j : Json) : Except String Json := do
  let is ← parseIssues j
  return Json.arr (is.map fun i =>
    match addRegion i.range i.col i.endCol (i.code 3) with
    | .ok l => Json.mkObj [("ok", regionJson l),
        ("index", Json.num ((i.range.headD 0 : Int) - (lmin i.lineno 3 : Int)))]
    | .error e => Json.mkObj [("err", Json.str (errName e)),
        ("index", Json.num ((i.range.headD 0 : Int) - (lmin i.lineno 3 : Int)))]).toArray

def opCustom (j : Json) : Except String Json := do
  let t ← getS j "template"
  let is ← parseIssues j
  match customReport t is with
  | .ok s => return Json.mkObj [("ok", jstr s)]
  | .error e => return Json.mkObj [("err", Json.str (errName e))]

def originName : Origin → String
  | .testId => "test_id" | .file => "file" | .line => "line" | .sev => "sev" | .conf => "conf" | .text => "text"
  | .code => "code" | .skipName => "skip_name" | .skipReason => "skip_reason" | .other => "other"

def encName : Enc → String
  | .raw => "raw" | .escaped => "escaped" | .viaSerializer => "ser"

def recordJson (r : Record) : Json :=
  Json.arr (r.map fun l => Json.arr #[Json.str (originName l.origin), Json.str (encName l.enc), jstr l.val]).toArray

def parseFmt (s : String) : Option Fmt :=
  match s with
  | "json" => some .json | "yaml" => some .yaml | "csv" => some .csv | "xml" => some .xml
  | "sarif" => some .sarif | "html" => some .html | _ => none

/-- the abstract document of one format -/
def opDoc (j : Json) : Except String Json := do
  let fs ← j.getObjValAs? String "fmt"
  let is ← parseIssues j
  let sk ← parseSkips j
  let n ← getI j "n"
  if fs == "custom" then
    let t ← getS j "template"
    match parseTemplate t with
    | .ok toks => return Json.mkObj [("records", Json.arr (is.map fun i => recordJson (customRecord toks i)).toArray), ("skipped", Json.null)]
    | .error e => return Json.mkObj [("err", Json.str (errName e))]
  let some fmt := parseFmt fs | throw s!"unknown format {fs}"
  match render (parseCfg j) fmt (parseAgg j) n is sk with
  | .ok d => return Json.mkObj [
      ("records", Json.arr (d.records.map recordJson).toArray),
      ("skipped", match d.skipped with | some s => Json.arr (s.map recordJson).toArray | none => Json.null)]
  | .error e => return Json.mkObj [("err", Json.str (errName e))]

/-- concrete `results_str` and `skipped_text` of the HTML report -/
def opHtml (j : Json) : Except String Json := do
  let is ← parseIssues j
  let sk ← parseSkips j
  let n ← getI j "n"
  let cfg := parseCfg j
  let r := htmlResults Gen.htmlTemplates cfg n is
  let s := htmlSkipped Gen.htmlTemplates cfg sk
  return Json.mkObj [
    ("results", match r with | some x => jstr x | none => Json.null),
    ("skipped", match s with | some x => jstr x | none => Json.null)]

def ops : List Drv.Op :=
  [("fmt_html_escape", opHtmlEscape), ("fmt_get_code", opGetCode), ("fmt_sarif_regions", opSarifRegions),
   ("fmt_custom", opCustom), ("fmt_doc", opDoc), ("fmt_html", opHtml)]

end Drv.Fmt
