import Bandit.Drv.Core
import Bandit.Plugins.DjangoXss
/-!
# Driver ops for C17: the hand-written `SIMPLE_SQL_RE` matcher on a bare string
-/
open Lean Bandit

namespace Drv.InjectOps

/-- `{"op":"sqlre","s":…}` → `SIMPLE_SQL_RE.search(s) is not None` as the model computes it -/
def opSqlRe (j : Json) : Except String Json := do
  let s ← getStr j "s"
  return Json.bool (Plugins.sqlSearch Gen.injTables s.toList)

def ops : List Op := [("sqlre", opSqlRe)]

end Drv.InjectOps
