import Lean.Data.Json
import Bandit.Manager
import Bandit.Drv.Core
/-!
# Driver ops for the multi-file run (C04)

* `manager_run`  — files + one outcome per file ⇒ what `Bandit.Manager.run` reports
* `manager_spec` — files + a report observed on the IMPLEMENTATION ⇒ verdicts of the `Spec` predicates
  (the same definitions the theorems of `Props/C04.lean` mention)
-/
open Lean Bandit Bandit.Manager

namespace Drv.Manager

def parseExc (j : Json) : Except String (Option Exc) :=
  match j with
  | .null => pure none
  | .str "token" => pure (some .tokenError)
  | .str "syntax" => pure (some .syntaxError)
  | .str "kbd" => pure (some .keyboardInterrupt)
  | .str "other" => pure (some .otherException)
  | .str "base" => pure (some .baseException)
  | .arr a =>
    match a[0]?, a[1]? with
    | some (Json.str "os"), some (Json.str s) => pure (some (.osError (some s.toList)))
    | some (Json.str "os"), _ => pure (some (.osError none))
    | some (Json.str "exit"), some n => do pure (some (.systemExit (← n.getNat?)))
    | _, _ => throw "bad exception"
  | _ => throw "bad exception"

def excJson : Exc → Json
  | .osError (some s) => Json.arr #[Json.str "os", Json.str (Drv.strOf s)]
  | .osError none => Json.arr #[Json.str "os", Json.null]
  | .tokenError => Json.str "token"
  | .syntaxError => Json.str "syntax"
  | .keyboardInterrupt => Json.str "kbd"
  | .systemExit n => Json.arr #[Json.str "exit", Json.num n]
  | .otherException => Json.str "other"
  | .baseException => Json.str "base"

def parseVisit (j : Json) : Except String VisitOut :=
  match j with
  | .null => pure .ok
  | .str "ok" => pure .ok
  | .arr a =>
    match a[0]?, a[1]? with
    | some (Json.str "check"), some e => do
      match ← parseExc e with
      | some x => pure (.checkRaised x)
      | none => throw "check needs an exception"
    | some (Json.str "raise"), some e => do
      match ← parseExc e with
      | some x => pure (.raised x)
      | none => throw "raise needs an exception"
    | _, _ => throw "bad visit"
  | _ => throw "bad visit"

def field (j : Json) (k : String) : Json := (j.getObjVal? k).toOption.getD Json.null

def parseOutcome (j : Json) : Except String Outcome := do
  return { open_ := ← parseExc (field j "open"), read := ← parseExc (field j "read"),
           tok := ← parseExc (field j "tok"), parse := ← parseExc (field j "parse"),
           visit := ← parseVisit (field j "visit") }

def strs (j : Json) : Except String (List Str) := do
  let a ← j.getArr?
  a.toList.mapM fun x => do pure (← x.getStr?).toList

def strsJson (l : List Str) : Json := Json.arr (l.map (fun s => Json.str (Drv.strOf s))).toArray

def optStrJson : Option Str → Json
  | some s => Json.str (Drv.strOf s)
  | none => Json.null

def skippedJson (l : List (Str × Option Str)) : Json :=
  Json.arr (l.map fun (n, r) => Json.arr #[Json.str (Drv.strOf n), optStrJson r]).toArray

/-- findings are tagged `(discovered name, degraded?)`: the harness substitutes the real findings -/
def tagEnv : Env (Str × Bool) := ⟨fun f => [(f, false)], fun f => [(f, true)]⟩

def opRun (j : Json) : Except String Json := do
  let files ← strs (← j.getObjVal? "files")
  let outsJ ← (← j.getObjVal? "outcomes").getArr?
  let outs ← outsJ.toList.mapM parseOutcome
  if outs.length ≠ files.length then throw "outcomes/files length mismatch"
  let table := files.zip outs
  let out : Str → Outcome := fun f => ((table.find? (·.1 == f)).map (·.2)).getD {}
  let cfg : Cfg := { ignoreNosec := (j.getObjValAs? Bool "ignore_nosec").toOption.getD false,
                     debug := (j.getObjValAs? Bool "debug").toOption.getD false }
  let r := run cfg tagEnv out files
  return Json.mkObj [
    ("files_list", strsJson r.filesList),
    ("skipped", skippedJson r.skipped),
    ("results", Json.arr (r.results.map fun (n, (o, d)) =>
        Json.arr #[Json.str (Drv.strOf n), Json.str (Drv.strOf o), Json.bool d]).toArray),
    ("scores", strsJson r.scores),
    ("metrics_begun", strsJson r.metricsBegun),
    ("metrics_counted", strsJson r.metricsCounted),
    ("aggregated", Json.bool r.aggregated),
    ("escaped", match r.escaped with | some e => excJson e | none => Json.null),
    ("ordinary", Json.arr (outs.map fun o => Json.bool (Spec.ordinary o)).toArray),
    ("hyp", Json.bool (decide (files.Nodup ∧ stdinName ∉ files)))]

def opSpec (j : Json) : Except String Json := do
  let files ← strs (← j.getObjVal? "files")
  let filesList ← strs (← j.getObjVal? "files_list")
  let skJ ← (← j.getObjVal? "skipped").getArr?
  let skipped ← skJ.toList.mapM fun e => do
    let a ← e.getArr?
    let n ← (a[0]?.getD Json.null).getStr?
    let r : Option Str := match a[1]? with | some (Json.str s) => some s.toList | _ => none
    pure (n.toList, r)
  let r : Report Unit := { filesList := filesList, skipped := skipped, results := [], scores := [],
                           metricsBegun := [], metricsCounted := [], aggregated := true, escaped := none }
  return Json.mkObj [
    ("accounted", Json.bool (decide (Spec.Accounted files r))),
    ("once", Json.bool (decide (Spec.AccountedOnce r))),
    ("reasoned", Json.bool (decide (Spec.Reasoned r)))]

/-- issues (fname, lineno, len(linerange), per-line utf8 flags) ⇒ does `output_results` survive the excerpt step -/
def opReport (j : Json) : Except String Json := do
  let maxLines ← (← j.getObjVal? "max_lines").getNat?
  let arr ← (← j.getObjVal? "issues").getArr?
  let issues ← arr.toList.mapM fun e => do
    let a ← e.getArr?
    let fname ← (a[0]?.getD Json.null).getStr?
    let lineno ← (a[1]?.getD Json.null).getNat?
    let rl ← (a[2]?.getD Json.null).getNat?
    let flags ← (a[3]?.getD Json.null).getArr?
    let utf8 ← flags.toList.mapM fun b => b.getBool?
    pure ({ fname := fname.toList, lineno := lineno, rangeLen := rl, utf8 := utf8 } : IssueLoc)
  return Json.mkObj [
    ("produced", Json.bool (reportProduced currentStrictDecode maxLines issues)),
    ("raising", Json.arr ((issues.filter (excerptRaises currentStrictDecode maxLines)).map fun i => Json.num i.lineno).toArray)]

def ops : List Drv.Op := [("manager_run", opRun), ("manager_spec", opSpec), ("manager_report", opReport)]

end Drv.Manager
