import Bandit.Drv.Core
import Bandit.Metrics
/-!
# Driver ops for metrics (C12)
-/
open Lean Bandit

namespace Drv.MetricsOps

def hexVal (c : Char) : Nat :=
  if '0' ≤ c ∧ c ≤ '9' then c.toNat - 48 else if 'a' ≤ c ∧ c ≤ 'f' then c.toNat - 87 else 0

def unhex : List Char → List Nat
  | a :: b :: rest => (hexVal a * 16 + hexVal b) :: unhex rest
  | _ => []

def genWeight (r : Rank) : Nat := ((Gen.rankingValues.find? (·.1 == r.name.toList)).map (·.2)).getD 0

def ranks : List Rank := [.undefined, .low, .medium, .high]

/-- `{"op":"metrics","raw_hex":…, + scan fields}` → loc, nosec, skipped_tests, SEVERITY.*/CONFIDENCE.* counts -/
def opMetrics (j : Json) : Except String Json := do
  let hex ← Drv.getStr j "raw_hex"
  let bytes := unhex hex.toList
  let lines := Metrics.splitLines bytes
  let scan ← Drv.opScan j
  let fs ← (← scan.getObjVal? "findings").getArr?
  -- rebuild findings' ranks from the scan answer
  let toRank (s : String) : Rank := (Rank.ofStr? s.toList).getD .undefined
  let findings : List Finding := fs.toList.filterMap fun f =>
    match f.getArr? with
    | .ok a => some { id := [], sev := toRank ((a[1]?.getD Json.null).getStr?.toOption.getD ""),
                      conf := toRank ((a[2]?.getD Json.null).getStr?.toOption.getD ""), line := 0, range := [], col := 0 }
    | _ => none
  let counts : List (String × Json) := (ranks.flatMap fun r =>
    [ (s!"SEVERITY.{r.name}", Json.num (Metrics.issueCount genWeight findings .severity r)),
      (s!"CONFIDENCE.{r.name}", Json.num (Metrics.issueCount genWeight findings .confidence r)) ])
  return Json.mkObj ([("loc", Json.num (Metrics.countLocs lines)),
    ("nosec", (scan.getObjVal? "nosec").toOption.getD Json.null),
    ("skipped_tests", (scan.getObjVal? "skipped_tests").toOption.getD Json.null),
    ("findings", Json.arr fs), ("modelled", (scan.getObjVal? "modelled").toOption.getD Json.null),
    ("crashes", (scan.getObjVal? "crashes").toOption.getD Json.null)] ++ counts)

def opLoc (j : Json) : Except String Json := do
  let hex ← Drv.getStr j "raw_hex"
  return Json.num (Metrics.countLocs (Metrics.splitLines (unhex hex.toList)))

def ops : List Drv.Op := [("metrics", opMetrics), ("loc", opLoc)]

end Drv.MetricsOps
