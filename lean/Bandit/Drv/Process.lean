import Bandit.Drv.Core
import Bandit.Process
/-!
# Driver op for the process-state model (C08)
`{"op":"process_exec","history":[["c",i],["r",i],…]}` → for every run: [tests, settings, blData] indices
-/
open Lean Bandit Bandit.Process

namespace Drv.ProcessOps

def opExec (j : Json) : Except String Json := do
  let hist ← (← j.getObjVal? "history").getArr?
  let ops ← hist.toList.mapM fun h => do
    let a ← h.getArr?
    let k ← (a[0]?.getD Json.null).getStr?
    let i ← (a[1]?.getD Json.null).getNat?
    let m : Mgr Nat Nat Nat := ⟨i, i, i⟩
    if k == "c" then pure (Op.construct m) else pure (Op.run m)
  let scan : Scan Nat Nat Nat (Nat × Nat × Nat) := fun t s b => (t, s, b)
  let outs := exec scan {} ops
  return Json.arr (outs.map fun o => match o with
    | some (t, s, b) => Json.arr #[Json.num t, Json.num s, Json.num b]
    | none => Json.null).toArray

def ops : List Drv.Op := [("process_exec", opExec)]

end Drv.ProcessOps
