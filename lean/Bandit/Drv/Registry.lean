import Bandit.Drv.Core
import Bandit.RegistrySpec
import Bandit.Published
/-!
# Driver ops for C18: the registry tables, the lookups, `_get_filter`, `get_url`, and the `Spec`
# verdicts evaluated by the very definitions the theorems of `Props/C18.lean` mention.

Every op takes a `"tables"` object: the registry as the harness observed it in the running
implementation.  The generated instance `Gen.tables` (what the theorems were checked against) is
printed in the same JSON shape by `lean/DumpC18.lean` (`lake env lean --run DumpC18.lean`), which is
interpreted from the `.olean` — compiling the big generated literal to C for the driver executable
would cost ~25 s after every registry change.
-/
open Lean Bandit

namespace Drv.Registry

def jstr (s : Str) : Json := Json.str (String.ofList s)
def jstrs (l : List Str) : Json := Json.arr (l.map jstr).toArray
def jopt (o : Option Str) : Json := match o with | some s => jstr s | none => Json.null

def getS (j : Json) (k : String) : Except String Str := do
  return (← j.getObjValAs? String k).toList

def getL (j : Json) (k : String) : Except String (List Json) := do
  return (← (← j.getObjVal? k).getArr?).toList

def asS (j : Json) : Except String Str := do return (← j.getStr?).toList

def getSL (j : Json) (k : String) : Except String (List Str) := do (← getL j k).mapM asS

def optS (j : Json) : Except String (Option Str) :=
  match j with
  | .null => pure none
  | _ => do return some (← asS j)

def parsePlugin (j : Json) : Except String PluginRow := do
  return { id := ← getS j "id", name := ← getS j "name", func := ← getS j "func", module := ← getS j "module", url := ← getS j "url" }

def parseBl (j : Json) : Except String BlRow := do
  return { id := ← getS j "id", name := ← getS j "name", level := ← getS j "level", cwe := ← j.getObjValAs? Nat "cwe",
           qualnames := ← getSL j "qualnames", kinds := ← getSL j "kinds", url := ← getS j "url" }

def parseSite (j : Json) : Except String IssueSite := do
  let present ← j.getObjValAs? Bool "cwe_present"
  let cwe : Option (Option Nat) ←
    if !present then pure none
    else match j.getObjVal? "cwe" with
      | .ok (.null) => pure (some none)
      | .ok v => do pure (some (some (← v.getNat?)))
      | .error _ => pure (some none)
  return { module := ← getS j "module", func := ← getS j "func",
           sevs := ← (← getL j "sevs").mapM optS, confs := ← (← getL j "confs").mapM optS, cwe := cwe }

def parseTriple (j : Json) : Except String (Str × Str × Str) := do
  let a ← j.getArr?
  return (← asS (a[0]?.getD .null), ← asS (a[1]?.getD .null), ← asS (a[2]?.getD .null))

def parsePair (j : Json) : Except String (Str × Str) := do
  let a ← j.getArr?
  return (← asS (a[0]?.getD .null), ← asS (a[1]?.getD .null))

def parseTables (j : Json) : Except String RegTables := do
  return {
    plugins := ← (← getL j "plugins").mapM parsePlugin,
    blacklist := ← (← getL j "blacklist").mapM parseBl,
    builtin := ← getSL j "builtin", ranking := ← getSL j "ranking",
    declared := ← (← getL j "declared").mapM parseTriple,
    loadedFormatters := ← getSL j "loadedFormatters", loadedBlacklists := ← getSL j "loadedBlacklists",
    definedChecks := ← (← getL j "definedChecks").mapM parseTriple,
    pluginFiles := ← getSL j "pluginFiles", formatterFiles := ← getSL j "formatterFiles", blacklistFiles := ← getSL j "blacklistFiles",
    pluginDocPages := ← getSL j "pluginDocPages", blacklistDocPages := ← getSL j "blacklistDocPages",
    blacklistDocAnchors := ← (← getL j "blacklistDocAnchors").mapM parsePair,
    issueSites := ← (← getL j "issueSites").mapM parseSite,
    docBase := ← getS j "docBase" }

def tablesOf (j : Json) : Except String RegTables := do
  parseTables (← j.getObjVal? "tables")

def siteJson (s : IssueSite) : Json :=
  Json.mkObj [("module", jstr s.module), ("func", jstr s.func),
    ("sevs", Json.arr (s.sevs.map jopt).toArray), ("confs", Json.arr (s.confs.map jopt).toArray),
    ("cwe_present", Json.bool s.cwe.isSome),
    ("cwe", match s.cwe with | some (some n) => Json.num n | _ => Json.null)]

def tablesJson (t : RegTables) : Json :=
  let tri (l : List (Str × Str × Str)) := Json.arr (l.map fun (a, b, c) => Json.arr #[jstr a, jstr b, jstr c]).toArray
  Json.mkObj [
    ("plugins", Json.arr (t.plugins.map fun p => Json.mkObj [("id", jstr p.id), ("name", jstr p.name), ("func", jstr p.func), ("module", jstr p.module), ("url", jstr p.url)]).toArray),
    ("blacklist", Json.arr (t.blacklist.map fun b => Json.mkObj [("id", jstr b.id), ("name", jstr b.name), ("level", jstr b.level), ("cwe", Json.num b.cwe),
        ("qualnames", jstrs b.qualnames), ("kinds", jstrs b.kinds), ("url", jstr b.url)]).toArray),
    ("builtin", jstrs t.builtin), ("ranking", jstrs t.ranking), ("declared", tri t.declared),
    ("loadedFormatters", jstrs t.loadedFormatters), ("loadedBlacklists", jstrs t.loadedBlacklists),
    ("definedChecks", tri t.definedChecks),
    ("pluginFiles", jstrs t.pluginFiles), ("formatterFiles", jstrs t.formatterFiles), ("blacklistFiles", jstrs t.blacklistFiles),
    ("pluginDocPages", jstrs t.pluginDocPages), ("blacklistDocPages", jstrs t.blacklistDocPages),
    ("blacklistDocAnchors", Json.arr (t.blacklistDocAnchors.map fun (a, b) => Json.arr #[jstr a, jstr b]).toArray),
    ("issueSites", Json.arr (t.issueSites.map siteJson).toArray),
    ("docBase", jstr t.docBase)]

/-- parse and print back (round-trip check of the JSON codec used for the tables) -/
def opTables (j : Json) : Except String Json := do return tablesJson (← tablesOf j)

def ruleJson (r : Rule) : Json :=
  Json.mkObj [("id", jstr r.id), ("name", jstr r.name), ("level", Json.str r.level.name), ("cwe", Json.num r.cwe), ("qualnames", jstrs r.qualnames)]

/-- the frozen published tables -/
def opPublished (_ : Json) : Except String Json := pure <| Json.mkObj [
  ("Call", Json.arr (Published.rulesCall.map ruleJson).toArray),
  ("Import", Json.arr (Published.rulesImport.map ruleJson).toArray),
  ("ImportFrom", Json.arr (Published.rulesImportFrom.map ruleJson).toArray),
  ("plugins", Json.arr (Published.plugins.map fun (a, b) => Json.arr #[jstr a, jstr b]).toArray)]

/-- verdict of every `Spec` clause on the given tables, with the offending entries where the clause
is a per-entry statement -/
def opSpec (j : Json) : Except String Json := do
  let t ← tablesOf j
  let r := t.registry
  let b (p : Prop) [Decidable p] : Json := Json.bool (decide p)
  let pub (k : String) (p : List Rule) : Json := b (Spec.PublishedEnforced p (t.rules k.toList))
  return Json.mkObj [
    ("ids_wellformed", b (Spec.IdsWellformed t)),
    ("ids_unique", b (Spec.IdsUnique t)),
    ("names_unique", b (Spec.NamesUnique t)),
    ("names_are_not_ids", b (Spec.NamesAreNotIds t)),
    ("id_name_bijection", b (Spec.Bijection r)),
    ("name_id_interchangeable", b (Spec.Interchangeable r)),
    ("profile_name_id_interchangeable", b (Spec.ProfileInterchangeable r)),
    ("ranks_valid", b (Spec.RanksValid t)),
    ("cwe_set", b (Spec.CweSet t)),
    ("declared_loaded", b (Spec.DeclaredLoaded t)),
    ("present_declared", b (Spec.PresentDeclared t)),
    ("published_call", pub "Call" Published.rulesCall),
    ("published_import", pub "Import" Published.rulesImport),
    ("published_importfrom", pub "ImportFrom" Published.rulesImportFrom),
    ("doc_page_missing", jstrs ((t.plugins.filter fun p => !decide (Spec.PluginDocPageExists t p)).map (·.id))),
    ("blacklist_doc_page_missing", jstrs ((t.blacklist.filter fun x => !decide (Spec.BlacklistDocPageExists t x)).map (·.id))),
    ("blacklist_doc_anchor_missing", jstrs ((t.blacklist.filter fun x => !decide (Spec.BlacklistDocAnchorExists t x)).map (·.id))),
    ("url_model", Json.arr ((t.plugins.map (·.id) ++ t.blacklist.map (·.id)).map fun i =>
        Json.arr #[jstr i, jstr (docUrl t.docBase t.plugins t.blacklist i)]).toArray),
    ("blacklist_levels_not_ranks", jstrs ((t.blacklist.filter fun x => x.toRule?.isNone).map (·.id)))]

/-- the lookups for a list of tokens -/
def opResolve (j : Json) : Except String Json := do
  let t ← tablesOf j
  let r := t.registry
  let toks ← getSL j "tokens"
  return Json.arr (toks.map fun k => Json.mkObj [
    ("token", jstr k), ("resolve", jopt (r.resolve k)), ("get_test_id", jopt (r.getTestId k)),
    ("check_id", Json.bool (r.checkId k)), ("name_of", jopt (r.nameOf k)),
    ("convert", jstrs (r.convertNames [k]))]).toArray

/-- `_get_filter` (and the proposed repaired variant) for include/exclude token lists -/
def opFilter (j : Json) : Except String Json := do
  let t ← tablesOf j
  let r := t.registry
  let inc ← getSL j "inc"
  let exc ← getSL j "exc"
  return Json.mkObj [("filter", jstrs (r.getFilter inc exc)), ("filter_fixed", jstrs (r.getFilterFixed inc exc)),
                     ("converted", Json.arr #[jstrs (r.convertNames inc), jstrs (r.convertNames exc)])]

/-- the blacklist rows after a sequence of `get_url(id)` calls, unchanged and repaired code -/
def opGetUrlState (j : Json) : Except String Json := do
  let t ← tablesOf j
  let ids ← getSL j "ids"
  let s0 := BlState.load t.registry.blacklist
  let s := ids.foldl (fun s i => if t.plugins.any (·.id == i) then s else s.getUrlStep i) s0
  return Json.mkObj [
    ("names", Json.arr (s.rows.map fun (i, n) => Json.arr #[jstr i, jstr n]).toArray),
    ("roundtrips", Json.bool (decide s.RoundTrips)),
    ("roundtrip_failures", jstrs ((s.rows.filter fun r => (s.nameOf r.1).bind s.idOfName != some r.1).map (·.1))),
    ("roundtrips_fixed", Json.bool (decide (ids.foldl BlState.getUrlStepFixed s0).RoundTrips))]

def ops : List Drv.Op :=
  [("c18_tables", opTables), ("c18_published", opPublished), ("c18_spec", opSpec), ("c18_resolve", opResolve),
   ("c18_filter", opFilter), ("c18_geturl_state", opGetUrlState)]

end Drv.Registry
