import Bandit.Tester
/-!
# A scan that erases positions once (what the driver executes) and its refinement theorem

`runCheck` hands every position-blind check `env.blind`, whose visit is `v.erase`: the node, its sibling **and the whole
ancestor chain** with positions erased.  Executed literally this erases the module once per check per visited node — quadratic in
the size of the file (27 s for bandit's own `examples/long_set.py`).  `scanFileFast` computes the erased visits once, as the visits of
the erased tree (`visits_erase`), and pairs them with the positioned visits.  `scanFileFast_eq` shows it is the same function, so every
theorem about `scanFile` is a theorem about what the driver runs.
-/
namespace Bandit

/-! ## the traversal commutes with erasure -/

theorem eraseList_eq_map (ns : List Node) : Node.erase.eraseList ns = ns.map Node.erase := by
  induction ns with
  | nil => rfl
  | cons n ns ih => simp [Node.erase.eraseList, ih]

@[simp] theorem Node.erase_isAtomNode (n : Node) : n.erase.isAtomNode = n.isAtomNode := by
  cases n; rfl

theorem visitsBelow_erase : ∀ (n : Node) (anc : List Node),
    visitsBelow (anc.map Node.erase) n.erase = (visitsBelow anc n).map Visit.erase := by
  intro n
  refine Node.rec
    (motive_1 := fun n => ∀ anc, visitsBelow (anc.map Node.erase) n.erase = (visitsBelow anc n).map Visit.erase)
    (motive_2 := fun ks => ∀ anc, visitsSlots (anc.map Node.erase) (Node.erase.eraseSlots ks) = (visitsSlots anc ks).map Visit.erase)
    (motive_3 := fun s => ∀ anc l, visitsList (anc.map Node.erase) l (Node.erase.eraseList s.2.2) = (visitsList anc l s.2.2).map Visit.erase)
    (motive_4 := fun s => ∀ anc l, visitsList (anc.map Node.erase) l (Node.erase.eraseList s.2) = (visitsList anc l s.2).map Visit.erase)
    (motive_5 := fun ns => ∀ anc l, visitsList (anc.map Node.erase) l (Node.erase.eraseList ns) = (visitsList anc l ns).map Visit.erase)
    ?_ ?_ ?_ ?_ ?_ ?_ ?_ n
  · intro k p a ks ih anc
    simp only [Node.erase, visitsBelow]
    have := ih (Node.mk k p a ks :: anc)
    simpa [Node.erase] using this
  · intro anc; rfl
  · intro head tail ih1 ih2 anc
    obtain ⟨f, l, ns⟩ := head
    simp only [Node.erase.eraseSlots, visitsSlots, List.map_append]
    rw [ih1 anc l, ih2 anc]
  · intro f snd ih; exact ih
  · intro l ns ih; exact ih
  · intro anc l; rfl
  · intro head tail ih1 ih2 anc l
    simp only [Node.erase.eraseList, visitsList, List.map_append, Node.erase_isAtomNode]
    rw [ih2 anc l]
    congr 1
    by_cases ha : head.isAtomNode = true
    · simp [ha]
    · simp only [ha, Bool.false_eq_true, if_false, List.map_cons]
      rw [ih1 anc]
      congr 1
      simp only [Visit.erase, Visit.mk.injEq, true_and]
      cases l
      · simp
      · simp only [if_true]
        rw [eraseList_eq_map]
        cases tail <;> simp

theorem visits_erase (root : Node) : visits root.erase = (visits root).map Visit.erase := by
  simpa [visits] using visitsBelow_erase root []

/-! ## the same tester with the erased visit supplied instead of recomputed -/

def Env.forCheckWith (env : Env) (ev : Visit) (c : Check) : Env :=
  if c.usesPos then env else { env with v := ev, ctx := Ctx.blank }

theorem Env.forCheckWith_erase (env : Env) (c : Check) : env.forCheckWith env.v.erase c = env.forCheck c := by
  unfold Env.forCheckWith Env.forCheck Env.blind; rfl

def runCheckWith (nm : NosecMap) (env : Env) (ev : Visit) (c : Check) : List Event :=
  match c.run (env.forCheckWith ev c) with
  | .error _ => [.crash c.name]
  | .ok none => []
  | .ok (some praw) =>
    match emit nm env.ctx (fillId c (praw.resolve env.v)) with
    | .ok e => [e]
    | .error _ => [.crash c.name]

theorem runCheckWith_erase (nm : NosecMap) (env : Env) (c : Check) : runCheckWith nm env env.v.erase c = runCheck nm env c := by
  unfold runCheckWith runCheck; rw [Env.forCheckWith_erase]; rfl

def runVisitWith (checks : List Check) (nm : NosecMap) (s : VState) (v ev : Visit) : List Event :=
  match dispatch v with
  | none => []
  | some (kind, ctx) => (checksFor checks kind).flatMap (runCheckWith nm { v := v, st := s, ctx := ctx } ev)

theorem runVisitWith_erase (checks : List Check) (nm : NosecMap) (lines : List Str) (s : VState) (v : Visit) :
    runVisitWith checks nm s v v.erase = runVisit checks nm lines s v := by
  unfold runVisitWith runVisit
  cases dispatch v with
  | none => rfl
  | some kc =>
    obtain ⟨kind, ctx⟩ := kc
    have h : runCheckWith nm { v := v, st := s, ctx := ctx } v.erase = runCheck nm { v := v, st := s, ctx := ctx } :=
      funext (runCheckWith_erase nm { v := v, st := s, ctx := ctx })
    simp only [h]

def scanVisitsWith (checks : List Check) (nm : NosecMap) : VState → List (Visit × Visit) → List Event
  | _, [] => []
  | s, (v, ev) :: vs =>
    let s' := s.update v.node
    runVisitWith checks nm s' v ev ++ scanVisitsWith checks nm s' vs

theorem scanVisitsWith_erase (checks : List Check) (nm : NosecMap) (lines : List Str) (s : VState) (vs : List Visit) :
    scanVisitsWith checks nm s (vs.map fun v => (v, v.erase)) = scanVisits checks nm lines s vs := by
  induction vs generalizing s with
  | nil => rfl
  | cons v vs ih =>
    simp only [List.map_cons, scanVisitsWith, scanVisits]
    rw [runVisitWith_erase checks nm lines, ih]

theorem zip_map_self {α β : Type} (f : α → β) (l : List α) : l.zip (l.map f) = l.map fun a => (a, f a) := by
  induction l with
  | nil => rfl
  | cons a l ih => simp [ih]

/-- what the driver runs: positions are erased once for the whole tree -/
def scanFileFast (checks : List Check) (inp : FileInput) : List Event :=
  let vs := visits inp.root
  let evs := visits inp.root.erase
  scanVisitsWith checks inp.nosec {} (vs.zip evs) ++
    (checksFor checks "File".toList).flatMap
      (runCheck inp.nosec { v := ⟨[], fileNode, none⟩, st := stateAfter {} vs, ctx := fileCtx,
                             lines := inp.lines })

/-- the optimised scan is the modelled scan -/
theorem scanFileFast_eq (checks : List Check) (inp : FileInput) : scanFileFast checks inp = scanFile checks inp := by
  unfold scanFileFast scanFile
  simp only [visits_erase, zip_map_self, scanVisitsWith_erase checks inp.nosec inp.lines]

end Bandit
