import Bandit.Basic
/-!
# Report formatters (`bandit/formatters/*.py`, `Issue.get_code`, `Issue.as_dict`)

What is modelled is the logic that is **bandit's own**:

* `html.escape(quote=True)` as the five sequential `str.replace` calls (Python's order) and the
  inverse for exactly those five entities;
* *where* the HTML formatter calls `html_escape` (only on the code excerpt) and where it does not
  (issue text, file path, skipped-file names and reasons);
* `Issue.get_code`: window arithmetic and the `"%i %s"` / `"%i\t%s"` rendering;
* the SARIF formatter's `parse_code` (which undoes that rendering) and the index arithmetic of
  `add_region_and_context_region` (Python list indexing incl. negative indices / `IndexError`);
* the custom formatter's template handling (parse → re-compose with doubled braces → `str.format`);
* JSON/YAML grouping (`sorted(..., key=itemgetter(...))`, stable, code-point order);
* each formatter as `List Issue → Doc`, a list of records whose leaves say *how* the value reaches
  the output: `raw` (written verbatim by bandit), `escaped` (through `html_escape`),
  `viaSerializer` (handed as a value to `json`/`yaml`/`csv`/`ElementTree`/`sarif_om`).

The stdlib serialisers themselves are not modelled (trusted base; the harness parses every produced
report back with an independent parser).
-/
namespace Bandit.Format
open Bandit

/-- Python exceptions that the formatter code can raise, as values. `exit2` is `sys.exit(2)` of the
custom formatter's template validation; `unsupported` marks inputs outside the modelled fragment. -/
inductive PyErr where
  | indexError | valueError | exit2 | unsupported
deriving DecidableEq, Repr, Inhabited

abbrev M := Except PyErr

/-- decidable equality of results (named, so that it cannot clash with another area's instance) -/
instance decEqResult {ε α} [DecidableEq ε] [DecidableEq α] : DecidableEq (Except ε α)
  | .ok a, .ok b => if h : a = b then isTrue (by rw [h]) else isFalse (fun e => h (Except.ok.inj e))
  | .error a, .error b => if h : a = b then isTrue (by rw [h]) else isFalse (fun e => h (Except.error.inj e))
  | .ok _, .error _ => isFalse (fun e => by cases e)
  | .error _, .ok _ => isFalse (fun e => by cases e)

/-! ## 1. `html.escape(s, quote=True)` -/

/-- `s.replace(c, r)` for a one-character pattern -/
def replaceChar (c : Char) (r : Str) (s : Str) : Str :=
  s.flatMap fun x => if x = c then r else [x]

/-- `html.escape(s, quote=True)`: `&` first, then `<`, `>`, `"`, `'` -/
def htmlEscape (s : Str) : Str :=
  replaceChar '\'' "&#x27;".toList <|
  replaceChar '"' "&quot;".toList <|
  replaceChar '>' "&gt;".toList <|
  replaceChar '<' "&lt;".toList <|
  replaceChar '&' "&amp;".toList s

/-- the five entities `html.escape` can produce -/
def entities : List (Str × Char) :=
  [("&amp;".toList, '&'), ("&lt;".toList, '<'), ("&gt;".toList, '>'),
   ("&quot;".toList, '"'), ("&#x27;".toList, '\'')]

/-- if `s` starts with one of the five entities: the character it denotes and the rest -/
def matchEntity (s : Str) : Option (Char × Str) :=
  entities.findSome? fun (e, c) => if e.isPrefixOf s then some (c, s.drop e.length) else none

def unescapeFuel : Nat → Str → Str
  | 0, _ => []
  | _ + 1, [] => []
  | n + 1, c :: r =>
    match matchEntity (c :: r) with
    | some (x, rest) => x :: unescapeFuel n rest
    | none => c :: unescapeFuel n r

/-- decoder for the five entities (what a conforming HTML parser does to text produced by `htmlEscape`) -/
def htmlUnescape (s : Str) : Str := unescapeFuel s.length s

/-! ## 2. Decimal numbers (`"%i"`, `str(int)`, `int(str)`) -/

def digitChar (d : Nat) : Char := Char.ofNat (48 + d)

def natDigits : Nat → Nat → Str
  | 0, _ => []
  | fuel + 1, n => if n < 10 then [digitChar n] else natDigits fuel (n / 10) ++ [digitChar (n % 10)]

/-- `"%i" % n` / `str(n)` for a natural number -/
def natStr (n : Nat) : Str := natDigits (n + 1) n

/-- `str(i)` for an int -/
def intStr : Int → Str
  | .ofNat n => natStr n
  | .negSucc n => '-' :: natStr (n + 1)

def isAsciiDigit (c : Char) : Bool := 48 ≤ c.toNat && c.toNat ≤ 57

/-- value of a string of ASCII digits -/
def digitsVal (s : Str) : Nat := s.foldl (fun acc c => acc * 10 + (c.toNat - 48)) 0

/-- `int(s)` on the strings `get_code` can produce (non-empty ASCII digit strings); anything else is
reported as `ValueError` (Python accepts a few more spellings — sign, underscores, surrounding
whitespace, non-ASCII digits — which `"%i"` never produces) -/
def pyInt (s : Str) : M Nat :=
  if s ≠ [] ∧ s.all isAsciiDigit then .ok (digitsVal s) else .error .valueError

/-- `str(list_of_ints)` -/
def pyListStr (l : List Nat) : Str :=
  '[' :: (", ".toList).intercalate (l.map natStr) ++ [']']

/-! ## 3. `Issue.get_code` -/

/-- `linecache.getline(fname, i)`: `''` outside the file -/
def getLine (file : List Str) (i : Nat) : Str :=
  if i = 0 then [] else (file[i - 1]?).getD []

/-- `max_lines = max(max_lines, 1)` -/
def effLines (maxLines : Int) : Nat := (max maxLines 1).toNat

/-- `lmin = max(1, lineno - max_lines // 2)` -/
def lmin (lineno : Nat) (maxLines : Int) : Nat := max 1 (lineno - effLines maxLines / 2)

/-- `lmax = lmin + len(linerange) + max_lines - 1` (exclusive bound of `range(lmin, lmax)`) -/
def lmax (lineno rangeLen : Nat) (maxLines : Int) : Nat :=
  lmin lineno maxLines + rangeLen + effLines maxLines - 1

/-- the loop `for line in range(l, l + k)`: stop at the first empty `getline` -/
def codeLines (file : List Str) (sep : Char) : Nat → Nat → List Str
  | _, 0 => []
  | l, k + 1 =>
    let t := getLine file l
    if t.isEmpty then [] else (natStr l ++ sep :: t) :: codeLines file sep (l + 1) k

def getCodeLines (file : List Str) (lineno rangeLen : Nat) (maxLines : Int) (tabbed : Bool) : List Str :=
  codeLines file (if tabbed then '\t' else ' ') (lmin lineno maxLines)
    (lmax lineno rangeLen maxLines - lmin lineno maxLines)

/-- `issue.get_code(max_lines, tabbed)` -/
def getCode (file : List Str) (lineno rangeLen : Nat) (maxLines : Int) (tabbed : Bool) : Str :=
  (getCodeLines file lineno rangeLen maxLines tabbed).flatten

/-- `.strip("\n").lstrip(" ")` as used by the HTML formatter on the excerpt -/
def stripCode (s : Str) : Str :=
  let a := s.dropWhile (· = '\n')
  let b := (a.reverse.dropWhile (· = '\n')).reverse
  b.dropWhile (· = ' ')

/-! ## 4. SARIF: `parse_code`, `add_region_and_context_region` -/

/-- `s.split(" ", 1)`: text before the first space, and (if there is a space) the text after it -/
def split1 : Str → Str × Option Str
  | [] => ([], none)
  | c :: r => if c = ' ' then ([], some r) else
    let (a, b) := split1 r
    (c :: a, b)

/-- the non-first iterations of `parse_code`'s loop: `code_line.split(" ", 1)[1] + "\n"` -/
def snippetLines : List Str → M (List Str)
  | [] => .ok []
  | l :: ls =>
    match (split1 l).2 with
    | none => .error .indexError
    | some b => do
      let rest ← snippetLines ls
      pure ((b ++ ['\n']) :: rest)

/-- drop the final `"\n"` of the last element (`last_line[: len(last_line) - 1]`) -/
def chopLast : List Str → List Str
  | [] => []
  | [x] => [x.dropLast]
  | x :: xs => x :: chopLast xs

/-- `parse_code(code)` → `(first_line_number, snippet_lines)` -/
def parseCode (code : Str) : M (Nat × List Str) :=
  let ls := Str.splitOn '\n' code
  let endsNl := (ls.getLast?.getD []).isEmpty
  let ls := if endsNl then ls.dropLast else ls
  match ls with
  | [] => .ok (0, [])
  | l :: rest => do
    let first ← pyInt (split1 l).1            -- `int(number_and_snippet_line[0])` is evaluated first
    let all ← snippetLines (l :: rest)
    pure (first, if endsNl then all else chopLast all)

/-- Python `lst[i]` with negative indices and `IndexError` -/
def pyIndex {α} (l : List α) (i : Int) : M α :=
  let j : Int := if i < 0 then i + l.length else i
  if j < 0 then .error .indexError else
    match l[j.toNat]? with
    | some x => .ok x
    | none => .error .indexError

structure Region where
  startLine : Nat
  endLine : Nat
  startCol : Int
  endCol : Int
  snippet : Option Str
deriving DecidableEq, Repr

structure CtxRegion where
  startLine : Nat
  endLine : Int
  text : Str
deriving DecidableEq, Repr

structure SarifLoc where
  region : Region
  ctx : Option CtxRegion
deriving DecidableEq, Repr

/-- `snippet_lines[index] if 0 <= index < len(snippet_lines) else None` (since /repo fix "SARIF snippet
index"): the excerpt is centred on the reported line, so the first line of a long range may lie above it -/
def snippetAt (lines : List Str) (i : Int) : Option Str :=
  if 0 ≤ i then lines[i.toNat]? else none

/-- the `if code:` block: `(first_line_number, snippet_lines, snippet_line)` -/
def parseSnippet (range : List Nat) (code : Str) : M (Option (Nat × List Str × Option Str)) :=
  if code.isEmpty then pure none else do
    let (first, lines) ← parseCode code
    let r0 ← pyIndex range 0
    pure (some (first, lines, snippetAt lines ((r0 : Int) - first)))

/-- building `region` and `context_region` from the parsed excerpt -/
def regionOf (range : List Nat) (col endCol : Int) (parsed : Option (Nat × List Str × Option Str)) : M SarifLoc := do
  let r0 ← pyIndex range 0
  let r1 ← if range.length > 1 then pyIndex range 1 else pure r0   -- `line_range[1]`: the SECOND line, not the last
  let region : Region := ⟨r0, r1, col + 1, endCol + 1, parsed.bind (·.2.2)⟩
  pure ⟨region, parsed.map fun (first, lines, _) =>
    ⟨first, (first : Int) + lines.length - 1, lines.flatten⟩⟩

/-- `add_region_and_context_region(physical_location, line_range, col_offset, end_col_offset, code)` -/
def addRegion (range : List Nat) (col endCol : Int) (code : Str) : M SarifLoc := do
  let parsed ← parseSnippet range code
  regionOf range col endCol parsed

/-- `level_from_severity` -/
def sarifLevel (sev : Str) : Str :=
  if sev = "HIGH".toList then "error".toList
  else if sev = "MEDIUM".toList then "warning".toList
  else if sev = "LOW".toList then "note".toList
  else "warning".toList

/-! ## 5. Issues -/

structure Issue where
  testId : Str
  testName : Str
  fname : Str
  sev : Str
  conf : Str
  text : Str
  lineno : Nat
  range : List Nat
  col : Int
  endCol : Int
  cweId : Nat
  cweLink : Str          -- `Cwe.link()`
  url : Str              -- `docs_utils.get_url(test_id)` (environment)
  abspath : Str          -- `os.path.abspath(fname)` (environment)
  relpath : Str          -- `os.path.relpath(fname)` (environment)
  file : List Str        -- `linecache` content of `fname`
deriving Repr

/-- `str(issue.cwe)` -/
def Issue.cweStr (i : Issue) : Str :=
  if i.cweId = 0 then [] else "CWE-".toList ++ natStr i.cweId ++ " (".toList ++ i.cweLink ++ [')']

/-- the code field of `as_dict(max_lines=n)` -/
def Issue.code (i : Issue) (n : Int) : Str := getCode i.file i.lineno i.range.length n false

/-! ## 6. Grouping (`sorted(collector, key=itemgetter(k))`) -/

/-- Python `a <= b` on `str` (lexicographic by code point) -/
def strLe : Str → Str → Bool
  | [], _ => true
  | _ :: _, [] => false
  | a :: as, b :: bs => if a.toNat < b.toNat then true else if b.toNat < a.toNat then false else strLe as bs

inductive Agg | file | vuln
deriving DecidableEq, Repr

def Agg.key : Agg → Issue → Str
  | .file, i => i.fname
  | .vuln, i => i.testName

/-- Python's `sorted` is a stable sort; so is `List.mergeSort` -/
def groupIssues (agg : Agg) (l : List Issue) : List Issue :=
  l.mergeSort fun a b => strLe (agg.key a) (agg.key b)

/-! ## 7. Custom template (`bandit/formatters/custom.py`)

Modelled fragment: literal text, `{{`, `}}`, and plain fields `{name}` whose name contains none of
`{ } ! : [ ] .` (so no conversion, format spec, attribute or index access).  Templates with other
field syntax yield `unsupported`; malformed brace structure yields `exit2` (the `ValueError` branch). -/

inductive Tok where
  | ch (c : Char)        -- one literal character
  | tag (name : Str)     -- a replacement field
deriving DecidableEq, Repr

def Tok.isTag : Tok → Bool
  | .tag _ => true
  | _ => false

inductive PSt where
  | lit                  -- in literal text
  | opened               -- just read one `{`
  | closed               -- just read one `}`
  | fld (name : Str)     -- inside `{name`
deriving DecidableEq, Repr

def fieldSpecial (c : Char) : Bool := c = '!' || c = ':' || c = '[' || c = ']' || c = '.'

/-- one step of `string.Formatter().parse` (CPython's `MarkupIterator`), on the modelled fragment -/
def pstep (st : PSt × List Tok) (c : Char) : M (PSt × List Tok) :=
  match st with
  | (.lit, out) =>
    if c = '{' then .ok (.opened, out) else if c = '}' then .ok (.closed, out) else .ok (.lit, out ++ [.ch c])
  | (.opened, out) =>
    if c = '{' then .ok (.lit, out ++ [.ch '{'])
    else if c = '}' then .ok (.lit, out ++ [.tag []])           -- `{}`: empty field name
    else if fieldSpecial c then .error .unsupported
    else .ok (.fld [c], out)
  | (.closed, out) =>
    if c = '}' then .ok (.lit, out ++ [.ch '}']) else .error .exit2   -- "Single '}' encountered"
  | (.fld n, out) =>
    if c = '}' then .ok (.lit, out ++ [.tag n])
    else if c = '{' then .error .exit2                                 -- "unexpected '{' in field name"
    else if fieldSpecial c then .error .unsupported
    else .ok (.fld (n ++ [c]), out)

def pfinish : PSt × List Tok → M (List Tok)
  | (.lit, out) => .ok out
  | _ => .error .exit2          -- "Single '{'" / "Single '}'" / "expected '}' before end of string"

def parseTemplate (t : Str) : M (List Tok) := t.foldlM pstep (.lit, []) >>= pfinish

/-- the keys of `tag_mapper` -/
def knownTags : List Str :=
  ["abspath", "relpath", "line", "col", "end_col", "test_id", "severity", "msg", "confidence", "range", "cwe"].map String.toList

/-- `tag_mapper`, each lambda applied to the issue and rendered with `str()` -/
def tagTable (i : Issue) : List (Str × Str) :=
  [("abspath".toList, i.abspath), ("relpath".toList, i.relpath), ("line".toList, natStr i.lineno),
   ("col".toList, intStr i.col), ("end_col".toList, intStr i.endCol), ("test_id".toList, i.testId),
   ("severity".toList, i.sev), ("msg".toList, i.text), ("confidence".toList, i.conf),
   ("range".toList, pyListStr i.range), ("cwe".toList, i.cweStr)]

/-- `str(tag_mapper[tag](issue))` -/
def tagValue (i : Issue) (tag : Str) : Option Str := (tagTable i).lookup tag

/-- "Compose the message template back with the valid values only": literal braces are doubled, known
tags are re-wrapped in braces, unknown tags are appended as their **bare name** (a Python string is
appended where a list of pieces is expected, so its characters become literal text) -/
def recomposeTok : Tok → Str
  | .ch c => if c = '{' then ['{', '{'] else if c = '}' then ['}', '}'] else [c]
  | .tag n => if knownTags.contains n then '{' :: n ++ ['}'] else n

def recompose (toks : List Tok) : Str := toks.flatMap recomposeTok ++ ['\n']

/-- `str.format` substitution for one token (`SafeMapper.__missing__` leaves an unknown `{tag}` as is,
but no unknown tag survives `recompose`) -/
def fmtTok (i : Issue) : Tok → Str
  | .ch c => [c]
  | .tag n => (tagValue i n).getD ('{' :: n ++ ['}'])

/-- `msg_parsed_template.format(**SafeMapper(...))` for one issue: parse again, substitute -/
def formatWith (i : Issue) (tpl : Str) : M Str := do
  let toks ← parseTemplate tpl
  pure (toks.flatMap (fmtTok i))

/-- the whole custom report: validation (`exit2` on malformed template or no tag), then one expansion per issue.
`{}` (empty field name) makes `vformat` raise `IndexError` during validation. -/
def customReport (tpl : Str) (issues : List Issue) : M Str := do
  let toks ← parseTemplate tpl
  if toks.any (· == .tag []) then throw .indexError
  if ¬ toks.any Tok.isTag then throw .exit2
  let tpl' := recompose toks
  let outs ← issues.mapM fun i => formatWith i tpl'
  pure outs.flatten

/-! ## 8. The formatters as abstract documents -/

/-- how a value reaches the output -/
inductive Enc where
  | raw              -- written verbatim by bandit's own string formatting
  | escaped          -- through `html_escape`
  | viaSerializer    -- handed as a value to a stdlib / third-party serialiser
deriving DecidableEq, Repr

/-- which datum of the finding (or of a skipped file) a leaf carries -/
inductive Origin where
  | testId | file | line | sev | conf | text      -- the six fields the property names
  | code | skipName | skipReason                   -- other text taken from the scanned tree
  | other                                          -- constants, URLs, test name, CWE, columns, …
deriving DecidableEq, Repr

structure Leaf where
  origin : Origin
  enc : Enc
  val : Str            -- the value before encoding
deriving DecidableEq, Repr

abbrev Record := List Leaf

structure Doc where
  records : List Record
  skipped : Option (List Record)     -- `none`: the format has no section for skipped files
deriving Repr

/-- the six fields as the property wants to find them in every record -/
def fieldVal (i : Issue) : Origin → Str
  | .testId => i.testId
  | .file => i.fname
  | .line => natStr i.lineno
  | .sev => i.sev
  | .conf => i.conf
  | .text => i.text
  | _ => []

def sixFields : List Origin := [.testId, .file, .line, .sev, .conf, .text]

/-- text that comes from the scanned tree (literal text, file names, source excerpts, skip reasons) -/
def Origin.fromSource : Origin → Bool
  | .text | .file | .code | .skipName | .skipReason => true
  | _ => false

def ser (o : Origin) (v : Str) : Leaf := ⟨o, .viaSerializer, v⟩

/-- `Issue.as_dict(max_lines=n)` + `more_info`, as the JSON formatter emits it -/
def jsonRecord (n : Int) (i : Issue) : Record :=
  [ser .file i.fname, ser .other i.testName, ser .testId i.testId, ser .sev i.sev,
   ser .other (natStr i.cweId), ser .other i.cweLink, ser .conf i.conf, ser .text i.text,
   ser .line (natStr i.lineno), ser .other (pyListStr i.range), ser .other (intStr i.col),
   ser .other (intStr i.endCol), ser .code (i.code n), ser .other i.url]

/-- the YAML formatter additionally rewrites `"\n"` to `"\\n"` inside `code` -/
def yamlRecord (n : Int) (i : Issue) : Record :=
  (jsonRecord n i).map fun l =>
    if l.origin = .code then { l with val := replaceChar '\n' ['\\', 'n'] l.val } else l

def csvRecord (i : Issue) : Record :=
  [ser .file i.fname, ser .other i.testName, ser .testId i.testId, ser .sev i.sev, ser .conf i.conf,
   ser .other i.cweLink, ser .text i.text, ser .line (natStr i.lineno), ser .other (intStr i.col),
   ser .other (intStr i.endCol), ser .other (pyListStr i.range), ser .other i.url]

/-- XML: attributes `classname`, `name`, `more_info`, `type`, `message`, and the element text
`"Test ID: %s Severity: %s Confidence: %s\nCWE: %s\n%s\nLocation %s:%s"` piece by piece -/
def xmlRecord (i : Issue) : Record :=
  [ser .file i.fname, ser .other i.testName, ser .other i.url, ser .sev i.sev, ser .text i.text,
   ser .other "Test ID: ".toList, ser .testId i.testId, ser .other " Severity: ".toList, ser .sev i.sev,
   ser .other " Confidence: ".toList, ser .conf i.conf, ser .other "\nCWE: ".toList, ser .other i.cweStr,
   ser .other "\n".toList, ser .text i.text, ser .other "\nLocation ".toList, ser .file i.fname,
   ser .other ":".toList, ser .line (natStr i.lineno)]

/-- SARIF result.  The formatter calls `issue.as_dict()` with the default `max_lines=3` whatever
`lines` the user chose, and reports `line_range[0]` (never `line_number`) as `startLine`. -/
def sarifRecord (i : Issue) : M Record := do
  let loc ← addRegion i.range i.col i.endCol (i.code 3)
  pure ([ser .testId i.testId, ser .text i.text, ser .other (sarifLevel i.sev), ser .file i.fname,
    ser .line (natStr loc.region.startLine), ser .other (natStr loc.region.endLine),
    ser .other (intStr loc.region.startCol), ser .other (intStr loc.region.endCol)]
    ++ (match loc.region.snippet with | some s => [ser .code s] | none => [])
    ++ (match loc.ctx with | some c => [ser .code c.text] | none => [])
    ++ [ser .conf i.conf, ser .sev i.sev])

/-- which HTML fields go through `html_escape`.  The code under study escapes the excerpt only. -/
structure HtmlCfg where
  escText : Bool
  escPath : Bool
  escSkipped : Bool
deriving DecidableEq, Repr

/-- `bandit/formatters/html.py` as it is -/
def HtmlCfg.current : HtmlCfg := ⟨false, false, false⟩
/-- after `proposed_fixes/C09-html-unescaped.diff` -/
def HtmlCfg.fixed : HtmlCfg := ⟨true, true, true⟩

def encIf (b : Bool) : Enc := if b then .escaped else .raw

def htmlRecord (cfg : HtmlCfg) (n : Int) (i : Issue) : Record :=
  [⟨.other, .raw, i.testName⟩, ⟨.text, encIf cfg.escText, i.text⟩, ⟨.testId, .raw, i.testId⟩,
   ⟨.sev, .raw, i.sev⟩, ⟨.conf, .raw, i.conf⟩, ⟨.other, .raw, i.cweLink⟩, ⟨.other, .raw, natStr i.cweId⟩,
   ⟨.file, encIf cfg.escPath, i.fname⟩, ⟨.file, encIf cfg.escPath, i.fname⟩, ⟨.line, .raw, natStr i.lineno⟩,
   ⟨.other, .raw, i.url⟩, ⟨.other, .raw, i.url⟩,
   ⟨.code, .escaped, stripCode (getCode i.file i.lineno i.range.length n true)⟩]

def skipRecord (enc : Enc) (s : Str × Str) : Record := [⟨.skipName, enc, s.1⟩, ⟨.skipReason, enc, s.2⟩]

/-- custom: every known tag is written verbatim (there is no target syntax to escape for) -/
def customRecord (toks : List Tok) (i : Issue) : Record :=
  toks.filterMap fun
    | .ch _ => none
    | .tag n =>
      let o : Origin :=
        if n = "abspath".toList ∨ n = "relpath".toList then .file
        else if n = "line".toList then .line
        else if n = "test_id".toList then .testId
        else if n = "severity".toList then .sev
        else if n = "msg".toList then .text
        else if n = "confidence".toList then .conf
        else .other
      (tagValue i n).map fun v => (⟨o, .raw, v⟩ : Leaf)

inductive Fmt where
  | json | yaml | csv | xml | sarif | html
deriving DecidableEq, Repr

def Fmt.all : List Fmt := [.json, .yaml, .csv, .xml, .sarif, .html]

/-- the report of each format for the (already threshold-filtered) issue list, the skipped files,
the aggregation mode, the context-line setting and the HTML escaping configuration -/
def render (cfg : HtmlCfg) (fmt : Fmt) (agg : Agg) (n : Int) (issues : List Issue) (skips : List (Str × Str)) : M Doc :=
  match fmt with
  | .json => .ok ⟨(groupIssues agg issues).map (jsonRecord n), some (skips.map (skipRecord .viaSerializer))⟩
  | .yaml => .ok ⟨(groupIssues agg issues).map (yamlRecord n), some (skips.map (skipRecord .viaSerializer))⟩
  | .csv => .ok ⟨issues.map csvRecord, none⟩
  | .xml => .ok ⟨issues.map xmlRecord, none⟩
  | .sarif => do
    let rs ← issues.mapM sarifRecord
    pure ⟨rs, some (skips.map (skipRecord .viaSerializer))⟩
  | .html => .ok ⟨issues.map (htmlRecord cfg n), some (skips.map (skipRecord (encIf cfg.escSkipped)))⟩

/-- JSON and YAML sort their records; the other formats keep the manager's order -/
def Fmt.grouped : Fmt → Bool
  | .json | .yaml => true
  | _ => false

/-- the order in which a format lists the findings -/
def reportOrder (fmt : Fmt) (agg : Agg) (issues : List Issue) : List Issue :=
  if fmt.grouped then groupIssues agg issues else issues

/-- the record a format writes for one finding -/
def recordOf (cfg : HtmlCfg) (n : Int) : Fmt → Issue → M Record
  | .json, i => .ok (jsonRecord n i)
  | .yaml, i => .ok (yamlRecord n i)
  | .csv, i => .ok (csvRecord i)
  | .xml, i => .ok (xmlRecord i)
  | .sarif, i => sarifRecord i
  | .html, i => .ok (htmlRecord cfg n i)

/-! ## 9. Concrete HTML rendering (templates are generated from `html.py`, see `Gen/HtmlTemplates.lean`) -/

/-- `tpl.format(**kw)` for templates whose fields are plain `{key}` (keys may contain dots, e.g.
`cwe.id`, which the caller supplies pre-evaluated); `{{`/`}}` are literal braces; an unknown key is `KeyError` -/
def formatNamed (tpl : Str) (kw : List (Str × Str)) : Option Str :=
  go tpl.length tpl
where
  go : Nat → Str → Option Str
  | 0, [] => some []
  | 0, _ => none
  | _ + 1, [] => some []
  | n + 1, '{' :: '{' :: r => (go n r).map ('{' :: ·)
  | n + 1, '}' :: '}' :: r => (go n r).map ('}' :: ·)
  | n + 1, '{' :: r =>
    let key := r.takeWhile (· ≠ '}')
    let rest := (r.dropWhile (· ≠ '}')).drop 1
    match kw.find? (·.1 == key) with
    | some (_, v) => (go n rest).map (v ++ ·)
    | none => none
  | n + 1, c :: r => (go n r).map (c :: ·)

structure HtmlTemplates where
  issueBlock : Str
  codeBlock : Str
  skippedBlock : Str
  skippedLine : Str

def escIf (b : Bool) (s : Str) : Str := if b then htmlEscape s else s

/-- one `issue_block.format(...)` of the non-baseline path -/
def htmlIssue (t : HtmlTemplates) (cfg : HtmlCfg) (n : Int) (index : Nat) (i : Issue) : Option Str := do
  let safeCode := htmlEscape (stripCode (getCode i.file i.lineno i.range.length n true))
  let code ← formatNamed t.codeBlock [("code".toList, safeCode)]
  formatNamed t.issueBlock
    [("issue_no".toList, natStr index),
     ("issue_class".toList, "issue-sev-".toList ++ Str.lower i.sev),
     ("test_name".toList, i.testName), ("test_id".toList, i.testId),
     ("test_text".toList, escIf cfg.escText i.text),
     ("severity".toList, i.sev), ("confidence".toList, i.conf),
     ("cwe.id".toList, natStr i.cweId), ("cwe_link".toList, i.cweLink),
     ("path".toList, escIf cfg.escPath i.fname),
     ("code".toList, code), ("candidates".toList, []),
     ("url".toList, i.url), ("line_number".toList, natStr i.lineno)]

def enumFrom {α} : Nat → List α → List (Nat × α)
  | _, [] => []
  | k, x :: xs => (k, x) :: enumFrom (k + 1) xs

/-- `results_str` -/
def htmlResults (t : HtmlTemplates) (cfg : HtmlCfg) (n : Int) (issues : List Issue) : Option Str :=
  ((enumFrom 0 issues).mapM fun (k, i) => htmlIssue t cfg n k i).map List.flatten

/-- `skipped_text` -/
def htmlSkipped (t : HtmlTemplates) (cfg : HtmlCfg) (skips : List (Str × Str)) : Option Str := do
  let ls ← skips.mapM fun (f, r) =>
    formatNamed t.skippedLine [("fname".toList, escIf cfg.escSkipped f), ("reason".toList, escIf cfg.escSkipped r)]
  if ls.flatten.isEmpty then some [] else formatNamed t.skippedBlock [("files_list".toList, ls.flatten)]

end Bandit.Format
