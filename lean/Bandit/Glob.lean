import Bandit.Basic
/-!
# `fnmatch.fnmatch` on POSIX (no case folding), transcribed from CPython 3.12 `fnmatch.translate`
-/
namespace Bandit.Glob
open Bandit

inductive Tok where
  | star
  | any
  | lit (c : Char)
  | cls (neg : Bool) (singles : List Char) (ranges : List (Char × Char))
  | never          -- `(?!)`: empty range
deriving Repr, DecidableEq, Inhabited

/-- split the inside of `[...]` into chunks at range hyphens (see `translate`): a hyphen splits only
when `cooldown = 0`; after a split the next two characters cannot split. -/
def chunks (cooldown : Nat) (cur : Str) : Str → List Str
  | [] => [cur.reverse]
  | c :: cs =>
    if c = '-' ∧ cooldown = 0 then cur.reverse :: chunks 2 [] cs
    else chunks (cooldown - 1) (c :: cur) cs

/-- `if chunk: chunks.append(chunk) else: chunks[-1] += '-'` -/
def fixLast (cs : List Str) : List Str :=
  match cs.reverse with
  | [] :: prev :: rest => (((prev ++ ['-']) :: rest).reverse)
  | _ => cs

/-- remove empty ranges, scanning from the right: if `last(a) > first(b)` merge them dropping both ends -/
def dropEmptyRanges : List Str → List Str
  | [] => []
  | [a] => [a]
  | a :: rest =>
    match dropEmptyRanges rest with
    | [] => [a]
    | b :: more =>
      match a.getLast?, b.head? with
      | some x, some y => if x > y then (a.dropLast ++ b.tail) :: more else a :: b :: more
      | _, _ => a :: b :: more

/-- singles and ranges denoted by the joined chunks (`'-'.join(chunks)` read as a regex class);
`dropFirst`: the first character of the head chunk was already used as a range end. -/
def classItemsAux (dropFirst : Bool) : List Str → List Char × List (Char × Char)
  | [] => ([], [])
  | [a] => (if dropFirst then a.tail else a, [])
  | a :: b :: rest =>
    let a' := if dropFirst then a.tail else a
    match a'.getLast?, b.head? with
    | some x, some y =>
      let (s, r) := classItemsAux true (b :: rest)
      (a'.dropLast ++ s, (x, y) :: r)
    | _, _ =>
      -- nothing left to start a range: the joining hyphen is a literal
      let (s, r) := classItemsAux false (b :: rest)
      (a' ++ '-' :: s, r)

def classItems (cs : List Str) : List Char × List (Char × Char) := classItemsAux false cs

def classTok (stuff : Str) : Tok :=
  if !stuff.contains '-' then
    match stuff with
    | [] => .never
    | ['!'] => .any
    | '!' :: rest => .cls true rest []
    | _ => .cls false stuff []
  else
    let start := if stuff.head? = some '!' then 2 else 1
    let cs := dropEmptyRanges (fixLast (chunks start [] stuff))
    -- after joining, a leading '!' negates
    match cs with
    | [] => .never
    | first :: rest =>
      if cs = [[]] then .never
      else if cs = [['!']] then .any
      else if first.head? = some '!' then
        let (s, r) := classItems (first.tail :: rest)
        .cls true s r
      else
        let (s, r) := classItems cs
        .cls false s r

/-- position of the closing `]` for a class opened just before `s`; `none` = no closing bracket -/
def closeIdx (s : Str) : Option Nat :=
  let j0 := if s.head? = some '!' then 1 else 0
  let j1 := if (s.drop j0).head? = some ']' then j0 + 1 else j0
  match (s.drop j1).idxOf? ']' with
  | some k => some (j1 + k)
  | none => none

def parse (fuel : Nat) : Str → List Tok
  | [] => []
  | c :: rest =>
    match fuel with
    | 0 => []
    | fuel + 1 =>
      if c = '*' then
        -- consecutive stars compress
        .star :: parse fuel (rest.dropWhile (· = '*'))
      else if c = '?' then .any :: parse fuel rest
      else if c = '[' then
        match closeIdx rest with
        | none => .lit '[' :: parse fuel rest
        | some j => classTok (rest.take j) :: parse fuel (rest.drop (j + 1))
      else .lit c :: parse fuel rest

def clsMatch (neg : Bool) (singles : List Char) (ranges : List (Char × Char)) (c : Char) : Bool :=
  let m := singles.contains c || ranges.any (fun r => r.1 ≤ c && c ≤ r.2)
  if neg then !m else m

/-- does some suffix of `s` satisfy `k`? -/
def anySuffix (k : Str → Bool) : Str → Bool
  | [] => k []
  | c :: cs => k (c :: cs) || anySuffix k cs

def matchToks : List Tok → Str → Bool
  | [], s => s.isEmpty
  | .star :: ts, s => anySuffix (matchToks ts) s
  | .any :: ts, s => match s with | _ :: cs => matchToks ts cs | [] => false
  | .lit c :: ts, s => match s with | d :: cs => c == d && matchToks ts cs | [] => false
  | .cls n si r :: ts, s => match s with | d :: cs => clsMatch n si r d && matchToks ts cs | [] => false
  | .never :: _, _ => false

/-- `fnmatch.fnmatch(name, pat)` -/
def fnmatch (name pat : Str) : Bool := matchToks (parse (pat.length + 1) pat) name

/-- `_matches_glob_list` -/
def matchesGlobList (name : Str) (globs : List Str) : Bool := globs.any (fnmatch name)

end Bandit.Glob
