/-!
# Text lines as a text-mode file yields them (universal newlines)

`trojansource` re-reads the scanned bytes through `io.TextIOWrapper(..., encoding=<detected>)` and iterates `readlines()`.  With the default
`newline=None` the wrapper's `IncrementalNewlineDecoder` translates `\r\n` and a lone `\r` to `\n`, and lines end after each `\n`
(and nowhere else: `\f`, `\v`, U+0085, U+2028 are *not* line ends for a text file, unlike `str.splitlines`).

`translate` is that decoder (a one-flag state machine), `splitKeep` the split that keeps the terminator, `uniLines` their composition.  The decoding
of bytes to text (codec, BOM, PEP 263 cookie) is CPython's and is not modelled: the harness hands the decoded text to the driver.
-/
namespace Bandit
abbrev LStr := List Char

/-- `IncrementalNewlineDecoder(translate=True)`: `afterCR` = the previous character was a `\r` that has already produced its `\n` -/
def translateGo : Bool → LStr → LStr
  | _, [] => []
  | afterCR, c :: r =>
    if c = '\n' then (if afterCR then translateGo false r else '\n' :: translateGo false r)
    else if c = '\r' then '\n' :: translateGo true r
    else c :: translateGo false r

def translate (s : LStr) : LStr := translateGo false s

/-- split after every `\n`, keeping it; a last unterminated piece is a line too; the empty text has no lines -/
def splitKeepGo (cur : LStr) : LStr → List LStr
  | [] => if cur.isEmpty then [] else [cur.reverse]
  | c :: r => if c = '\n' then (c :: cur).reverse :: splitKeepGo [] r else splitKeepGo (c :: cur) r

def splitKeep (s : LStr) : List LStr := splitKeepGo [] s

/-- `TextIOWrapper(newline=None).readlines()` of the decoded text -/
def uniLines (s : LStr) : List LStr := splitKeep (translate s)

/-- rewrite every `\n` as `\r\n` (an LF file saved with DOS line ends) -/
def toCRLF (s : LStr) : LStr := s.flatMap fun c => if c = '\n' then ['\r', '\n'] else [c]
/-- rewrite every `\n` as a lone `\r` (classic Mac line ends) -/
def toCR (s : LStr) : LStr := s.map fun c => if c = '\n' then '\r' else c

/-! ## the decoder -/

theorem translateGo_noCR (s : LStr) (h : '\r' ∉ s) : translateGo false s = s := by
  induction s with
  | nil => rfl
  | cons c r ih =>
    have hc : c ≠ '\r' := fun e => h (by simp [e])
    have hr : '\r' ∉ r := fun e => h (by simp [e])
    simp only [translateGo]
    by_cases hn : c = '\n'
    · simp [hn, ih hr]
    · simp [hn, hc, ih hr]

theorem translate_toCRLF (s : LStr) (h : '\r' ∉ s) : translate (toCRLF s) = s := by
  unfold translate
  induction s with
  | nil => rfl
  | cons c r ih =>
    have hc : c ≠ '\r' := fun e => h (by simp [e])
    have hr : '\r' ∉ r := fun e => h (by simp [e])
    have ih := ih hr
    by_cases hn : c = '\n'
    · subst hn
      have : toCRLF ('\n' :: r) = '\r' :: '\n' :: toCRLF r := by simp [toCRLF]
      rw [this]
      simp only [translateGo]
      simp [ih]
    · have : toCRLF (c :: r) = c :: toCRLF r := by simp [toCRLF, hn]
      rw [this]
      simp only [translateGo]
      simp [hn, hc, ih]

theorem translateGo_toCR (s : LStr) (h : '\r' ∉ s) (b : Bool) : translateGo b (toCR s) = s := by
  induction s generalizing b with
  | nil => rfl
  | cons c r ih =>
    have hc : c ≠ '\r' := fun e => h (by simp [e])
    have hr : '\r' ∉ r := fun e => h (by simp [e])
    by_cases hn : c = '\n'
    · subst hn
      have : toCR ('\n' :: r) = '\r' :: toCR r := by simp [toCR]
      rw [this]
      simp only [translateGo]
      simp [ih hr]
    · have : toCR (c :: r) = c :: toCR r := by simp [toCR, hn]
      rw [this]
      simp only [translateGo]
      simp [hn, hc, ih hr]

theorem mem_translateGo (s : LStr) (b : Bool) (ch : Char) (h : ch ∈ s) (h1 : ch ≠ '\r') (h2 : ch ≠ '\n') : ch ∈ translateGo b s := by
  induction s generalizing b with
  | nil => cases h
  | cons c r ih =>
    simp only [translateGo]
    rcases List.mem_cons.1 h with rfl | hr
    · simp [h1, h2]
    · by_cases hn : c = '\n'
      · simp only [hn, if_true]
        cases b <;> simp [ih _ hr]
      · by_cases hc : c = '\r'
        · simp [hn, hc, ih _ hr]
        · simp [hn, hc, ih _ hr]

/-- translation invents no character other than `\n` -/
theorem mem_translateGo_orig (s : LStr) (b : Bool) (ch : Char) (h : ch ∈ translateGo b s) (hn : ch ≠ '\n') : ch ∈ s := by
  induction s generalizing b with
  | nil => simp [translateGo] at h
  | cons c r ih =>
    simp only [translateGo] at h
    by_cases hc : c = '\n'
    · simp only [hc, if_true] at h
      cases b
      · simp only [Bool.false_eq_true, if_false, List.mem_cons] at h
        rcases h with h | h
        · exact absurd h hn
        · exact List.mem_cons_of_mem _ (ih _ h)
      · simp only [if_true] at h
        exact List.mem_cons_of_mem _ (ih _ h)
    · by_cases hr : c = '\r'
      · rw [if_neg hc, if_pos hr] at h
        rcases List.mem_cons.1 h with h' | h'
        · exact absurd h' hn
        · exact List.mem_cons_of_mem _ (ih _ h')
      · rw [if_neg hc, if_neg hr] at h
        rcases List.mem_cons.1 h with h' | h'
        · simp [h']
        · exact List.mem_cons_of_mem _ (ih _ h')

theorem mem_translate_orig (s : LStr) (ch : Char) (h : ch ∈ translate s) (hn : ch ≠ '\n') (hs : ch ∉ s) : False :=
  hs (mem_translateGo_orig s false ch h hn)

theorem translateGo_noCR_out (s : LStr) (b : Bool) : '\r' ∉ translateGo b s := by
  induction s generalizing b with
  | nil => simp [translateGo]
  | cons c r ih =>
    simp only [translateGo]
    by_cases hn : c = '\n'
    · cases b <;> simp [hn, ih]
    · by_cases hc : c = '\r'
      · simp [hn, hc, ih]
      · simp [hn, hc, ih]; exact fun e => hc e.symm

/-! ## the split -/

theorem splitKeepGo_flatten (cur s : LStr) : (splitKeepGo cur s).flatten = cur.reverse ++ s := by
  induction s generalizing cur with
  | nil => unfold splitKeepGo; cases cur <;> simp
  | cons c r ih =>
    simp only [splitKeepGo]
    by_cases hn : c = '\n'
    · simp [hn, ih]
    · simp [hn, ih]

/-- nothing is lost or added: the lines concatenate to the translated text -/
theorem uniLines_flatten (s : LStr) : (uniLines s).flatten = translate s := by
  unfold uniLines splitKeep; simpa using splitKeepGo_flatten [] (translate s)

/-- every character of the text other than the line ends themselves sits on some line -/
theorem mem_uniLines (s : LStr) (ch : Char) (h : ch ∈ s) (h1 : ch ≠ '\r') (h2 : ch ≠ '\n') : ∃ l ∈ uniLines s, ch ∈ l := by
  have : ch ∈ (uniLines s).flatten := by rw [uniLines_flatten]; exact mem_translateGo s false ch h h1 h2
  exact List.mem_flatten.1 this

/-- an LF text and the same text with CRLF line ends have the same lines -/
theorem uniLines_toCRLF (s : LStr) (h : '\r' ∉ s) : uniLines (toCRLF s) = uniLines s := by
  unfold uniLines; rw [translate_toCRLF s h]; unfold translate; rw [translateGo_noCR s h]

/-- … and so has the text with lone-CR line ends -/
theorem uniLines_toCR (s : LStr) (h : '\r' ∉ s) : uniLines (toCR s) = uniLines s := by
  unfold uniLines translate; rw [translateGo_toCR s h, translateGo_noCR s h]

/-- no line contains a `\r`; every line but possibly the last ends with `\n`, and `\n` occurs nowhere else -/
theorem splitKeepGo_shape (cur s : LStr) (hcur : '\n' ∉ cur) :
    ∀ l ∈ splitKeepGo cur s, l ≠ [] ∧ '\n' ∉ l.dropLast := by
  induction s generalizing cur with
  | nil =>
    unfold splitKeepGo
    cases cur with
    | nil => simp
    | cons a t =>
      intro l hl
      simp only [List.isEmpty_cons, Bool.false_eq_true, if_false, List.mem_singleton] at hl
      subst hl
      refine ⟨by simp, fun hm => hcur ?_⟩
      have := List.dropLast_subset _ hm
      simp only [List.mem_reverse] at this
      exact this
  | cons c r ih =>
    simp only [splitKeepGo]
    by_cases hn : c = '\n'
    · simp only [hn, if_true, List.mem_cons]
      rintro l (rfl | hl)
      · refine ⟨by simp, ?_⟩
        simp only [List.reverse_cons, List.dropLast_concat]
        simpa using hcur
      · exact ih [] (by simp) l hl
    · simp only [hn, if_false]
      exact ih (c :: cur) (by simp [hcur, Ne.symm hn])

theorem uniLines_shape (s : LStr) : ∀ l ∈ uniLines s, l ≠ [] ∧ '\n' ∉ l.dropLast ∧ '\r' ∉ l := by
  intro l hl
  obtain ⟨h1, h2⟩ := splitKeepGo_shape [] (translate s) (by simp) l hl
  refine ⟨h1, h2, fun hm => ?_⟩
  have : '\r' ∈ (uniLines s).flatten := List.mem_flatten.2 ⟨l, hl, hm⟩
  rw [uniLines_flatten] at this
  exact translateGo_noCR_out s false this

/-- line `i` (0-based) starts right after the `i`-th `\n` of the translated text -/
theorem splitKeepGo_count (cur s : LStr) (hcur : '\n' ∉ cur) (i : Nat) (hi : i < (splitKeepGo cur s).length) :
    ((splitKeepGo cur s).take i).flatten.count '\n' = i := by
  induction s generalizing cur i with
  | nil =>
    unfold splitKeepGo at hi ⊢
    cases cur with
    | nil => simp at hi
    | cons a t =>
      simp only [List.isEmpty_cons, Bool.false_eq_true, if_false, List.length_singleton] at hi
      have : i = 0 := by omega
      subst this; simp
  | cons c r ih =>
    simp only [splitKeepGo] at hi ⊢
    by_cases hn : c = '\n'
    · simp only [hn, if_true] at hi ⊢
      cases i with
      | zero => simp
      | succ j =>
        simp only [List.length_cons] at hi
        simp only [List.take_succ_cons, List.flatten_cons, List.count_append]
        rw [ih [] (by simp) j (by omega)]
        have : List.count '\n' ('\n' :: cur).reverse = 1 := by
          rw [List.count_reverse, List.count_cons_self, List.count_eq_zero.2 hcur]
        omega
    · simp only [hn, if_false] at hi ⊢
      exact ih (c :: cur) (by simp [hcur, Ne.symm hn]) i hi

theorem uniLines_count (s : LStr) (i : Nat) (hi : i < (uniLines s).length) : ((uniLines s).take i).flatten.count '\n' = i :=
  splitKeepGo_count [] (translate s) (by simp) i hi

/-! ## compositionality: a text is split chunk by chunk at its line ends -/

theorem translateGo_append_nl (b0 : Bool) (a b : LStr) :
    translateGo b0 (a ++ '\n' :: b) = translateGo b0 (a ++ ['\n']) ++ translateGo false b := by
  induction a generalizing b0 with
  | nil => cases b0 <;> simp [translateGo]
  | cons c r ih =>
    simp only [List.cons_append, translateGo]
    by_cases hn : c = '\n'
    · cases b0 <;> simp [hn, ih]
    · by_cases hc : c = '\r'
      · simp [hn, hc, ih]
      · simp [hn, hc, ih]

theorem translateGo_nl_end (b0 : Bool) (a : LStr) :
    translateGo b0 (a ++ ['\n']) = [] ∨ ∃ x, translateGo b0 (a ++ ['\n']) = x ++ ['\n'] := by
  induction a generalizing b0 with
  | nil => cases b0 <;> simp [translateGo]
  | cons c r ih =>
    simp only [List.cons_append, translateGo]
    by_cases hn : c = '\n'
    · cases b0
      · simp only [hn, if_true, Bool.false_eq_true, if_false]
        rcases ih false with h | ⟨x, h⟩
        · exact .inr ⟨[], by simp [h]⟩
        · exact .inr ⟨'\n' :: x, by simp [h]⟩
      · simp only [hn, if_true]
        exact ih false
    · by_cases hc : c = '\r'
      · rw [if_neg hn, if_pos hc]
        rcases ih true with h | ⟨x, h⟩
        · exact .inr ⟨[], by simp [h]⟩
        · exact .inr ⟨'\n' :: x, by simp [h]⟩
      · rw [if_neg hn, if_neg hc]
        rcases ih false with h | ⟨x, h⟩
        · right; refine ⟨[], ?_⟩
          exfalso
          -- translateGo false never returns [] on a non-empty input
          have hne : translateGo false (r ++ ['\n']) ≠ [] := by
            cases r with
            | nil => simp [translateGo]
            | cons d t =>
              simp only [List.cons_append, translateGo]
              by_cases h1 : d = '\n'
              · simp [h1]
              · by_cases h2 : d = '\r'
                · simp [h1, h2]
                · simp [h1, h2]
          exact hne h
        · exact .inr ⟨c :: x, by simp [h]⟩

theorem splitKeepGo_append_nl (cur x y : LStr) :
    splitKeepGo cur (x ++ '\n' :: y) = splitKeepGo cur (x ++ ['\n']) ++ splitKeepGo [] y := by
  induction x generalizing cur with
  | nil => simp [splitKeepGo]
  | cons c r ih =>
    simp only [List.cons_append, splitKeepGo]
    by_cases hn : c = '\n'
    · simp [hn, ih]
    · simp [hn, ih]

/-- **the lines of a text are the lines of its line-terminated prefix followed by the lines of the rest** -/
theorem uniLines_append_nl (a b : LStr) : uniLines (a ++ '\n' :: b) = uniLines (a ++ ['\n']) ++ uniLines b := by
  unfold uniLines translate splitKeep
  rw [translateGo_append_nl]
  rcases translateGo_nl_end false a with h | ⟨x, h⟩
  · rw [h]; simp [splitKeepGo]
  · rw [h]
    have := splitKeepGo_append_nl [] x (translateGo false b)
    simpa using this

/-- inserting an empty line after a line end adds exactly one line `"\n"` there and moves nothing else -/
theorem uniLines_insert_blank (a b : LStr) :
    uniLines ((a ++ ['\n']) ++ '\n' :: b) = uniLines (a ++ ['\n']) ++ [['\n']] ++ uniLines b ∧
    uniLines ((a ++ ['\n']) ++ b) = uniLines (a ++ ['\n']) ++ uniLines b := by
  constructor
  · have h1 := uniLines_append_nl a ('\n' :: b)
    have h2 := uniLines_append_nl [] b
    simp only [List.append_assoc, List.cons_append, List.nil_append] at h1 h2 ⊢
    rw [h1, h2]
    have : uniLines ['\n'] = [['\n']] := by decide
    rw [this]; simp
  · have h1 := uniLines_append_nl a b
    simpa using h1

/-! ## how many lines -/

/-- what is left in the accumulator after the last `\n` -/
def tailAfterNl : LStr → LStr → LStr
  | cur, [] => cur
  | cur, c :: r => if c = '\n' then tailAfterNl [] r else tailAfterNl (c :: cur) r

theorem splitKeepGo_length (cur t : LStr) :
    (splitKeepGo cur t).length = t.count '\n' + (if (tailAfterNl cur t).isEmpty then 0 else 1) := by
  induction t generalizing cur with
  | nil => unfold splitKeepGo tailAfterNl; cases cur <;> simp
  | cons c r ih =>
    simp only [splitKeepGo, tailAfterNl]
    by_cases hn : c = '\n'
    · subst hn; simp only [if_true, List.length_cons, ih, List.count_cons_self]; omega
    · simp only [hn, if_false, ih]
      rw [List.count_cons_of_ne (fun e => hn e)]

theorem tailAfterNl_of_ends_nl (cur t : LStr) (h : t.getLast? = some '\n') : tailAfterNl cur t = [] := by
  induction t generalizing cur with
  | nil => simp at h
  | cons c r ih =>
    simp only [tailAfterNl]
    cases r with
    | nil =>
      simp only [List.getLast?_singleton, Option.some.injEq] at h
      subst h; simp [tailAfterNl]
    | cons d r' =>
      have h' : (d :: r').getLast? = some '\n' := by simpa [List.getLast?_cons_cons] using h
      by_cases hn : c = '\n'
      · simp only [hn, if_true]; exact ih [] h'
      · simp only [hn, if_false]; exact ih _ h'

/-- a text that ends with a line end has exactly as many lines as line ends (after translation) -/
theorem uniLines_length_of_ends_nl (s : LStr) (h : (translate s).getLast? = some '\n') :
    (uniLines s).length = (translate s).count '\n' := by
  unfold uniLines splitKeep
  rw [splitKeepGo_length, tailAfterNl_of_ends_nl [] _ h]; simp

end Bandit
