import Bandit.Basic
/-!
# `BanditManager.run_tests` / `_parse_file` / `_execute_ast_visitor`  (bandit/core/manager.py)

The multi-file run as the code has it: a loop over the discovered files; for each file a
sequence of steps (`open`, `read`, tokenise, `ast.parse`, visit), each of which may raise;
two nested `try/except` ladders that turn *some* exception classes into a `skipped` entry;
`new_files_list.remove`, `skipped.append`, results committed only after `process` returned,
`scores` / `metrics` bookkeeping, final `metrics.aggregate()`.

Python exceptions are values (`Exc`).  What a step does for a given file is an *input* of the
model (`Outcome`): the model is bandit's own control flow, for **every** assignment of outcomes to
files.  Which `Outcome` CPython actually produces for given bytes is runtime behaviour, observed by
the harness (`harness/props/c04.py`), not modelled.

The findings a check run produces for a file are an abstract parameter (`Env`).
-/
namespace Bandit.Manager

/-- The exception classes the two ladders distinguish.  `otherException` is any other subclass of
`Exception` (ValueError, RecursionError, MemoryError, UnicodeDecodeError, …); `baseException` is any
other `BaseException` that is not an `Exception` (GeneratorExit, …). -/
inductive Exc
  | osError (strerror : Option Str)      -- `e.strerror` is `None` for `OSError("msg")`
  | tokenError                           -- tokenize.TokenError
  | syntaxError                          -- SyntaxError and subclasses (IndentationError, TabError)
  | keyboardInterrupt
  | systemExit (code : Nat)
  | otherException
  | baseException
  deriving DecidableEq, Repr

/-- `isinstance(e, Exception)` -/
def Exc.isException : Exc → Bool
  | .osError _ | .tokenError | .syntaxError | .otherException => true
  | .keyboardInterrupt | .systemExit _ | .baseException => false

/-- What the visit (`generic_visit` + the `File` tests, inside `process`) does. -/
inductive VisitOut
  | ok                        -- every check returned
  | checkRaised (e : Exc)     -- a check function raised `e` (inside `BanditTester.run_tests`' `try`)
  | raised (e : Exc)          -- the visitor itself raised `e` (outside the tester's `try`)
  deriving DecidableEq, Repr

/-- One file's behaviour at each step, should the step be reached. `none` = the step returns. -/
structure Outcome where
  /-- `open(fname, "rb")`; for `-`: `os.fdopen(sys.stdin.fileno(), "rb", 0)` and `open_fd.read()` -/
  open_ : Option Exc := none
  /-- `data = fdata.read()` -/
  read : Option Exc := none
  /-- iterating `tokenize.tokenize(fdata.readline)` (only iterated when nosec is honoured) -/
  tok : Option Exc := none
  /-- `ast.parse(data)` (first statement of `process`) -/
  parse : Option Exc := none
  visit : VisitOut := .ok
  deriving DecidableEq, Repr

structure Cfg where
  ignoreNosec : Bool := false
  debug : Bool := false
  deriving DecidableEq, Repr

/-- Findings of a file as a function of the (discovered) file name: `full` when every check
returned, `degraded` when some check raised and the tester swallowed it. -/
structure Env (α : Type) where
  full : Str → List α
  degraded : Str → List α

/-- The manager's mutable state during `run_tests`. -/
structure State (α : Type) where
  newFiles : List Str                     -- `new_files_list`
  skipped : List (Str × Option Str) := [] -- `self.skipped` : (name, reason)
  results : List (Str × α) := []          -- `self.results`, each issue tagged with its `fname`
  scores : List Str := []                 -- `self.scores`, one entry per completed visit (tagged by file)
  metricsBegun : List Str := []           -- `metrics.begin(fname)` was called
  metricsCounted : List Str := []         -- `metrics.count_issues([score])` was called
  deriving DecidableEq, Repr

def stdinArg : Str := "-".toList
def stdinName : Str := "<stdin>".toList
def reasonSyntax : Str := "syntax error while parsing AST from file".toList
def reasonException : Str := "exception while scanning file".toList

/-- `self.skipped.append((fname, reason)); new_files_list.remove(fname)`.
`list.remove` raises `ValueError` when the name is absent. -/
def skipFile {α} (fname : Str) (reason : Option Str) (st : State α) : State α × Option Exc :=
  let st1 := { st with skipped := st.skipped ++ [(fname, reason)] }
  if fname ∈ st1.newFiles then ({ st1 with newFiles := st1.newFiles.erase fname }, none)
  else (st1, some .otherException)

/-- The exception (if any) that leaves the inner `try: … except tokenize.TokenError: pass`. -/
def tokEscape (cfg : Cfg) (tok : Option Exc) : Option Exc :=
  if cfg.ignoreNosec then none        -- the generator is created but never iterated
  else match tok with
    | some .tokenError => none
    | t => t

/-- `BanditTester.run_tests`: `except Exception as e: report_error(...); if self.debug: raise`. -/
inductive VisitEffect | full | degraded | raise (e : Exc)
  deriving DecidableEq, Repr

def visitEffect (cfg : Cfg) : VisitOut → VisitEffect
  | .ok => .full
  | .checkRaised e => if e.isException && !cfg.debug then .degraded else .raise e
  | .raised e => .raise e

/-- Control flow of the `try` body of `_parse_file`: it completes, or some statement raises
(before or after `metrics.begin`). -/
inductive BodyRes
  | completed (degraded : Bool)
  | raised (afterBegin : Bool) (e : Exc)
  deriving DecidableEq, Repr

def body (cfg : Cfg) (o : Outcome) : BodyRes :=
  match o.read with
  | some e => .raised false e                       -- data = fdata.read()
  | none =>                                         -- lines = …; metrics.begin; metrics.count_locs
    match tokEscape cfg o.tok with
    | some e => .raised true e
    | none =>
      match o.parse with                            -- _execute_ast_visitor → res.process(data): ast.parse
      | some e => .raised true e
      | none =>
        match visitEffect cfg o.visit with          --                                          generic_visit
        | .raise e => .raised true e
        | .degraded => .completed true
        | .full => .completed false

/-- `self.results.extend(res.tester.results)` after `process` returned, then
`self.scores.append(score)`, `self.metrics.count_issues([score])`. -/
def commit {α} (fname : Str) (fs : List α) (st : State α) : State α :=
  { st with results := st.results ++ fs.map (fname, ·),
            scores := st.scores ++ [fname],
            metricsCounted := st.metricsCounted ++ [fname] }

def begin {α} (fname : Str) (st : State α) : State α :=
  { st with metricsBegun := st.metricsBegun ++ [fname] }

/-- `_parse_file(fname, fdata, new_files_list)`: new state and the exception that escapes, if any.
`orig` is the discovered name (findings are a function of the file), `fname` the name the file is
scanned under (`<stdin>` for `-`). -/
def parseFile {α} (cfg : Cfg) (env : Env α) (o : Outcome) (orig fname : Str) (st : State α) :
    State α × Option Exc :=
  match body cfg o with
  | .completed d => (commit fname (if d then env.degraded orig else env.full orig) (begin fname st), none)
  | .raised b e =>
    let st1 := if b then begin fname st else st
    match e with
    | .keyboardInterrupt => (st1, some (.systemExit 2))               -- except KeyboardInterrupt: sys.exit(2)
    | .syntaxError => skipFile fname (some reasonSyntax) st1          -- except SyntaxError:
    | e => if e.isException then skipFile fname (some reasonException) st1   -- except Exception as e:
           else (st1, some e)

/-- One iteration of the `for` loop of `run_tests`. -/
def runOne {α} (cfg : Cfg) (env : Env α) (o : Outcome) (fname : Str) (st : State α) :
    State α × Option Exc :=
  let r :=
    match o.open_ with
    | some e => (st, some e)
    | none =>
      if fname = stdinArg then
        -- new_files_list = ["<stdin>" if x == "-" else x for x in new_files_list]
        let st1 := { st with newFiles := st.newFiles.map fun x => if x = stdinArg then stdinName else x }
        parseFile cfg env o fname stdinName st1
      else parseFile cfg env o fname fname st
  match r with
  | (st', some (.osError s)) => skipFile fname s st'                  -- except OSError as e: (fname, e.strerror)
  | r => r

/-- The `for` loop; an escaping exception ends it. -/
def loop {α} (cfg : Cfg) (env : Env α) (out : Str → Outcome) : List Str → State α → State α × Option Exc
  | [], st => (st, none)
  | f :: fs, st =>
    match runOne cfg env (out f) f st with
    | (st', none) => loop cfg env out fs st'
    | (st', some e) => (st', some e)

/-- What is observable on the manager after `run_tests` (or after it was left by an exception). -/
structure Report (α : Type) where
  filesList : List Str                    -- `self.files_list`
  skipped : List (Str × Option Str)
  results : List (Str × α)
  scores : List Str
  metricsBegun : List Str
  metricsCounted : List Str
  /-- `self.metrics.aggregate()` was reached (the report can be produced) -/
  aggregated : Bool
  /-- the exception that left `run_tests` (`systemExit 2` after a KeyboardInterrupt inside `_parse_file`) -/
  escaped : Option Exc
  deriving DecidableEq, Repr

/-- `run_tests()` on the discovered list `files`. -/
def run {α} (cfg : Cfg) (env : Env α) (out : Str → Outcome) (files : List Str) : Report α :=
  match loop cfg env out files { newFiles := files } with
  | (st, none) =>
    { filesList := st.newFiles, skipped := st.skipped, results := st.results, scores := st.scores,
      metricsBegun := st.metricsBegun, metricsCounted := st.metricsCounted, aggregated := true, escaped := none }
  | (st, some e) =>       -- `self.files_list = new_files_list` is not reached
    { filesList := files, skipped := st.skipped, results := st.results, scores := st.scores,
      metricsBegun := st.metricsBegun, metricsCounted := st.metricsCounted, aggregated := false, escaped := some e }

/-- findings reported for the file scanned under name `f` -/
def Report.findingsFor {α} (r : Report α) (f : Str) : List α :=
  (r.results.filter (·.1 = f)).map (·.2)

/-! ## The report stage, as far as "a report is produced" depends on the scanned files

Every formatter renders each issue with `Issue.get_code(max_lines)`: for a file the excerpt lines come
from `linecache` (never raises: undecodable files yield no lines); for the stdin target they are read
back from the buffered bytes and decoded with `text.decode("utf-8")` — whatever encoding the source
declares — which raises `UnicodeDecodeError`; `output_results` turns that into `RuntimeError`. -/

/-- an issue as far as the excerpt is concerned; `utf8` says for each physical line (split on LF) of the
file's bytes whether that line decodes as UTF-8 -/
structure IssueLoc where
  fname : Str
  lineno : Nat
  rangeLen : Nat          -- `len(self.linerange)`
  utf8 : List Bool
  deriving DecidableEq, Repr

/-- `lmin`, `lmax` of `get_code`: the lines `lmin … lmax-1` are read -/
def excerptWindow (lineno rangeLen maxLines : Nat) : Nat × Nat :=
  let m := max maxLines 1
  let lmin := max 1 (lineno - m / 2)
  (lmin, lmin + rangeLen + m - 1)

/-- how `get_code` decodes stdin bytes: `true` = strict `text.decode("utf-8")` (the pinned commit),
`false` = `errors="replace"` (the code since /repo commit afafbd8) -/
def currentStrictDecode : Bool := false

/-- `get_code` raises `UnicodeDecodeError` -/
def excerptRaises (strict : Bool) (maxLines : Nat) (i : IssueLoc) : Bool :=
  strict && i.fname = stdinName &&
    let w := excerptWindow i.lineno i.rangeLen maxLines
    ((i.utf8.drop (w.1 - 1)).take (w.2 - w.1)).any (!·)

/-- `output_results` returns (no `RuntimeError`) as far as excerpts are concerned -/
def reportProduced (strict : Bool) (maxLines : Nat) (issues : List IssueLoc) : Bool :=
  issues.all fun i => !excerptRaises strict maxLines i

/-! ## What the property demands (independent of the code above) -/
namespace Spec

/-- the name a discovered target is reported under -/
def display (n : Str) : Str := if n = stdinArg then stdinName else n

/-- …and back: the discovered target a reported name stands for -/
def target (n : Str) : Str := if n = stdinName then stdinArg else n

/-- every failure is an `Exception` subclass and `open` fails only with `OSError`
(what CPython is *observed* to do on arbitrary bytes and I/O faults; not proved) -/
def ordinary (o : Outcome) : Bool :=
  (match o.open_ with | none => true | some (.osError _) => true | _ => false) &&
  (match o.read with | none => true | some e => e.isException) &&
  (match o.tok with | none => true | some e => e.isException) &&
  (match o.parse with | none => true | some e => e.isException) &&
  (match o.visit with | .ok => true | .checkRaised e => e.isException | .raised e => e.isException)

/-- OS-level failures of `open` carry an error text (`e.strerror`) -/
def openErrorsNamed (o : Outcome) : Bool :=
  match o.open_ with
  | some (.osError none) => false
  | some (.osError (some s)) => !s.isEmpty
  | _ => true

/-- scanned and skipped together are exactly the discovered files -/
def Accounted {α} (files : List Str) (r : Report α) : Prop :=
  ((r.filesList ++ r.skipped.map (·.1)).map target).Perm files

/-- …each exactly once: no name is listed twice, none is both scanned and skipped -/
def AccountedOnce {α} (r : Report α) : Prop :=
  (r.filesList ++ r.skipped.map (·.1)).Nodup

/-- a reason is present and is not the empty string -/
def hasReason : Option Str → Bool
  | some (_ :: _) => true
  | _ => false

def Reasoned {α} (r : Report α) : Prop :=
  ∀ e ∈ r.skipped, hasReason e.2 = true

instance {α} (files : List Str) (r : Report α) : Decidable (Accounted files r) := by
  unfold Accounted; exact inferInstance
instance {α} (r : Report α) : Decidable (AccountedOnce r) := by
  unfold AccountedOnce; exact inferInstance
instance {α} (r : Report α) : Decidable (Reasoned r) := by
  unfold Reasoned; exact inferInstance

end Spec

end Bandit.Manager
