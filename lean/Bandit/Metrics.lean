import Bandit.Tester
/-!
# Run metrics (`metrics.py`, the score bookkeeping of `tester.py` / `node_visitor.py`)
-/
namespace Bandit.Metrics
open Bandit

abbrev Bytes := List Nat

/-- `bytes.splitlines()`: splits on `\n`, `\r`, `\r\n`; no trailing empty line -/
def splitLines : Bytes → List Bytes
  | [] => []
  | b :: rest => go [] (b :: rest)
where
  go (cur : Bytes) : Bytes → List Bytes
    | [] => if cur.isEmpty then [] else [cur.reverse]
    | 10 :: rest => cur.reverse :: go [] rest
    | 13 :: 10 :: rest => cur.reverse :: go [] rest
    | 13 :: rest => cur.reverse :: go [] rest
    | b :: rest => go (b :: cur) rest

/-- bytes whitespace: space, \t, \n, \r, \x0b, \x0c -/
def isWs (b : Nat) : Bool := b == 32 || b == 9 || b == 10 || b == 13 || b == 11 || b == 12

def lstrip (l : Bytes) : Bytes := l.dropWhile isWs
def strip (l : Bytes) : Bytes := (lstrip l).reverse.dropWhile isWs |>.reverse

def bom : Bytes := [0xEF, 0xBB, 0xBF]

/-- `proc(line)` of `count_locs` (after the BOM repair: a UTF-8 BOM in front of the line's text is
not code) -/
def isLoc (line : Bytes) : Bool :=
  let t := strip line
  let t := if bom.isPrefixOf t then strip (t.drop 3) else t
  !t.isEmpty && t.head? != some 35

/-- `count_locs(lines)` -/
def countLocs (lines : List Bytes) : Nat := (lines.filter isLoc).length

/-! ## scores and counts -/

/-- weights `RANKING_VALUES` -/
abbrev Weights := Rank → Nat

inductive Criterion | severity | confidence
deriving DecidableEq, Repr

def rankOf : Criterion → Finding → Rank
  | .severity, f => f.sev
  | .confidence, f => f.conf

/-- `scores[crit][rank]` after a file's visit: every reported finding added its weight -/
def score (w : Weights) (fs : List Finding) (c : Criterion) (r : Rank) : Nat :=
  (fs.map fun f => if rankOf c f = r then w r else 0).sum

/-- `_get_issue_counts`: score // weight -/
def issueCount (w : Weights) (fs : List Finding) (c : Criterion) (r : Rank) : Nat :=
  score w fs c r / w r

/-- per-file metrics block -/
structure FileMetrics where
  loc : Nat
  nosec : Nat
  skippedTests : Nat
  counts : Criterion → Rank → Nat

def fileMetrics (w : Weights) (lines : List Bytes) (es : List Event) : FileMetrics :=
  { loc := countLocs lines, nosec := nosecCount es, skippedTests := skippedCount es,
    counts := issueCount w (findingsOf es) }

/-- `aggregate()`: totals are sums over the per-file blocks (for one `run_tests`) -/
structure Totals where
  loc : Nat
  nosec : Nat
  skippedTests : Nat
  counts : Criterion → Rank → Nat

def aggregate (ms : List FileMetrics) : Totals :=
  { loc := (ms.map (·.loc)).sum, nosec := (ms.map (·.nosec)).sum,
    skippedTests := (ms.map (·.skippedTests)).sum,
    counts := fun c r => (ms.map (fun m => m.counts c r)).sum }

/-! ## specification -/

/-- a line is code iff its first non-blank byte (after an optional BOM) exists and is not `#` -/
def Spec.isCode (line : Bytes) : Bool :=
  match lstrip line with
  | [] => false
  | b :: rest =>
    if bom.isPrefixOf (b :: rest) then
      (match lstrip ((b :: rest).drop 3) with
       | [] => false
       | c :: _ => c != 35)
    else b != 35

end Bandit.Metrics
