import Bandit.Value
/-!
# Import-alias table and qualified-name resolution (`node_visitor.visit_Import*`, `utils`)
-/
namespace Bandit

/-- `import_aliases`: newest binding first; lookup returns the newest binding of a key. -/
abbrev Aliases := List (Str × Str)

def Aliases.get? (al : Aliases) (k : Str) : Option Str := (al.find? (·.1 == k)).map (·.2)
/-- `aliases[k] if k in aliases else k` -/
def Aliases.resolve (al : Aliases) (k : Str) : Str := (al.get? k).getD k

/-- Per-file visitor state threaded through the traversal. -/
structure VState where
  aliases : Aliases := []
  imports : List Str := []      -- `self.imports` (a set; only membership / `any` are used)
deriving Inhabited

/-- names of an `Import`/`ImportFrom` node: (name, asname?) -/
def importNames (n : Node) : List (Str × Option Str) :=
  (n.kidList "names").map fun a => ((a.strAttr "name").getD [], a.strAttr "asname")

/-- `ImportFrom.module` (`none` for `from . import x`) -/
def importModule? (n : Node) : Option Str := n.strAttr "module"

/-- `asname` truthiness: `if nodename.asname:` -/
def asnameSet (a : Option Str) : Option Str := a.bind fun s => if s.isEmpty then none else some s

/-- State update performed by `visit_Import` / `visit_ImportFrom` *before* tests run on the node. -/
def VState.update (s : VState) (n : Node) : VState :=
  if n.isKind "Import" || (n.isKind "ImportFrom" && (importModule? n).isNone) then
    (importNames n).foldl (fun s (nm, asn) =>
      { aliases := (match asnameSet asn with | some a => (a, nm) :: s.aliases | none => s.aliases),
        imports := nm :: s.imports }) s
  else if n.isKind "ImportFrom" then
    let m := (importModule? n).getD []
    (importNames n).foldl (fun s (nm, asn) =>
      let q := m ++ '.' :: nm
      { aliases := ((asnameSet asn).getD nm, q) :: s.aliases, imports := q :: s.imports }) s
  else s

/-- `utils._get_attr_qual_name` -/
def attrQualName (al : Aliases) : Node → Str
  | .mk k p a ks =>
    let n := Node.mk k p a ks
    if n.isKind "Name" then al.resolve ((n.strAttr "id").getD [])
    else if n.isKind "Attribute" then
      let base := valueQual ks
      let nm := base ++ '.' :: (n.strAttr "attr").getD []
      al.resolve nm
    else []
where
  valueQual : List (Str × Bool × List Node) → Str
    | [] => []
    | (f, _, ns) :: rest => if f == "value".toList then firstQual ns else valueQual rest
  firstQual : List Node → Str
    | [] => []
    | x :: _ => attrQualName al x

/-- `utils.get_call_name` -/
def callName (al : Aliases) (c : CallView) : Str :=
  if c.func.isKind "Name" then al.resolve ((c.func.strAttr "id").getD [])
  else if c.func.isKind "Attribute" then attrQualName al c.func
  else []

/-- `utils.get_qual_attr` -/
def qualAttr (al : Aliases) (n : Node) : Str :=
  if n.isKind "Attribute" then
    let pfx := match (n.kid? "value").bind Node.nameId? with
      | some v => al.resolve v
      | none => []
    pfx ++ '.' :: (n.strAttr "attr").getD []
  else []

/-- `is_module_imported_like` -/
def importedLike (s : VState) (m : String) : Bool := s.imports.any (Str.isInfix m.toList)
/-- `is_module_imported_exact` -/
def importedExact (s : VState) (m : String) : Bool := s.imports.contains m.toList

end Bandit
