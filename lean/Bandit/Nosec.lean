import Bandit.Basic
/-!
# The nosec mini-language (`manager._parse_nosec_comment`)

Hand model of `NOSEC_COMMENT.search` and `NOSEC_COMMENT_TESTS.finditer(..).group(1)`
(the regex sources are regenerated into `Bandit.Gen.Regexes` and pinned by `Props.C02.regex_sources_known`).
The character classes (`\s`, `\d`, `[a-z]` under IGNORECASE) are parameters; the generated
module `Bandit.Gen.Chars` supplies the sets the running interpreter uses.
-/
namespace Bandit

structure CharClasses where
  isSpace : Char → Bool
  isDecimal : Char → Bool
  /-- `[a-z\d_]` under `re.IGNORECASE` -/
  isTok : Char → Bool

/-- The registry as the nosec parser sees it. -/
structure Registry where
  plugins : List (Str × Str)      -- (id, name)
  blacklist : List (Str × Str)    -- (id, name)
  builtin : List Str
deriving Inhabited

namespace Registry
/-- `extension_loader.Manager.check_id` -/
def checkId (r : Registry) (t : Str) : Bool :=
  r.plugins.any (·.1 == t) || r.blacklist.any (·.1 == t) || r.builtin.contains t
/-- `extension_loader.Manager.get_test_id`.  `blacklist_by_name` is a dict filled in table
order, so the *last* entry with a given name wins. -/
def getTestId (r : Registry) (t : Str) : Option Str :=
  match r.plugins.find? (·.2 == t) with
  | some (i, _) => some i
  | none => (r.blacklist.reverse.find? (·.2 == t)).map (·.1)
/-- `_find_test_id_from_nosec_string` -/
def resolve (r : Registry) (t : Str) : Option Str :=
  if r.checkId t then some t else r.getTestId t
def allIds (r : Registry) : List Str := r.plugins.map (·.1) ++ r.blacklist.map (·.1) ++ r.builtin
end Registry

namespace Nosec
variable (cc : CharClasses)

def nosecWord : Str := "nosec".toList

/-- position right after the leftmost `#\s*nosec`, as the remaining text -/
def afterMarker : Str → Option Str
  | [] => none
  | c :: rest =>
    if c = '#' then
      let r := rest.dropWhile cc.isSpace
      if nosecWord.isPrefixOf r then some (r.drop 5) else afterMarker rest
    else afterMarker rest

/-- the `tests` group: skip optional `:`, whitespace, then the maximal run of non-`#` -/
def testsGroup (s : Str) : Str :=
  let s := match s with | ':' :: r => r | _ => s
  (s.dropWhile cc.isSpace).takeWhile (· ≠ '#')

/-- One repetition of `(B\d+|[a-z\d_]+)`: `(captured, rest)`. -/
def oneRep (s : Str) : Option (Str × Str) :=
  match s with
  | [] => none
  | c :: rest =>
    if (c = 'B' ∨ c = 'b') ∧ (rest.head?.map cc.isDecimal).getD false then
      some (c :: rest.takeWhile cc.isDecimal, rest.dropWhile cc.isDecimal)
    else if cc.isTok c then some (s.takeWhile cc.isTok, s.dropWhile cc.isTok)
    else none

/-- `NOSEC_COMMENT_TESTS.finditer(tests)` with `(?:(B\d+|[a-z\d_]+),?)`: every repetition is a
match of its own (optionally swallowing one following comma); other characters are skipped. -/
def captures (fuel : Nat) (s : Str) : List Str :=
  match fuel with
  | 0 => []
  | fuel + 1 =>
    match s with
    | [] => []
    | _ :: rest =>
      match oneRep cc s with
      | some (cap, r) =>
        let r := match r with | ',' :: r' => r' | _ => r
        cap :: captures fuel r
      | none => captures fuel rest

/-- `_parse_nosec_comment`: `none` = no nosec comment; `some []` = bare nosec;
`some ids` = the named tests (as a list; consumers treat it as a set). -/
def parse (reg : Registry) (comment : Str) : Option (List Str) :=
  match afterMarker cc comment with
  | none => none
  | some rest =>
    let tests := testsGroup cc rest
    some ((captures cc (tests.length + 1) tests).filterMap reg.resolve)

end Nosec
end Bandit
