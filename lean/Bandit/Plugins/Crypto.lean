import Bandit.Tester
import Bandit.Config
/-!
# Weak-crypto and transport checks: B113 B324 B501 B502 B503 B504 B505 B507 B508 B509

(`request_without_timeout.py`, `hashlib_insecure_functions.py`, `crypto_request_no_cert_validation.py`,
`insecure_ssl_tls.py`, `weak_cryptographic_key.py`, `ssh_no_host_key_verification.py`,
`snmp_security_check.py`)

The model follows the Python statement by statement, including the order in which the context
accessors are evaluated, because accessors and comparisons can raise: `<` between an argument and a
non-numeric configured threshold and `config[...]` on a missing key / non-mapping do (malformed
settings).  Crashes are `throw`n, never totalised away.  The model follows /repo AFTER the fixes
60708c5 (B509 keyword keys), 6e22cbb (B505 non-numeric sizes / curves) and the `_get_literal_value`
set-display fix: on valid Python with well-formed settings no check here raises any more
(`Props.C15.*_total`).

The literal tables that live inside the plugin modules are a parameter (`CryptoTables`); the
instance regenerated from /repo on every run is `Bandit.Plugins.genCryptoTables`
(`Bandit/Plugins/CryptoGen.lean`).

Limits (stated, and exercised by the correspondence harness):
* `name.lower()` in B324 is Python's full-Unicode lower-casing; the model lower-cases ASCII only.
  They differ only on strings containing a non-ASCII character whose lower-case form is an ASCII
  letter (`K` KELVIN SIGN → `k`, `İ` → `i̇`), none of which can produce a name of `WEAK_HASHES`.
* configured values (`CfgVal`) are integers, booleans, strings, null, lists and maps; YAML floats are
  not modelled.  A configured `{}` never equals a `{}` argument in the model (`PyVal.beq` on dicts).
-/
namespace Bandit.Plugins
open Bandit

/-- The in-module literal tables of the C15 checks. -/
structure CryptoTables where
  weakHashes : List Str
  weakCryptHashes : List Str
  b501HttpVerbs : List Str
  b501HttpxAttrs : List Str
  b113HttpVerbs : List Str
  b113HttpxAttrs : List Str
  cioFuncKeyType : List (Str × Str)
  cioArgPosition : List (Str × Nat)
  curveKeySizes : List (Str × Int)
  pycFuncKeyType : List (Str × Str)
deriving Inhabited, Repr

/-- `d.get(k)` on a literal dict (first binding; Python dict displays keep the last duplicate,
the translator emits `dict.items()`, i.e. already de-duplicated) -/
def assocGet {α : Type} (d : List (Str × α)) (k : Str) : Option α := (d.find? (·.1 == k)).map (·.2)

/-- `keywords.get(name, dflt)` on the evaluated keyword dictionary -/
def kwGet (kws : List (Option Str × PyVal)) (name : String) (dflt : PyVal) : PyVal :=
  (CallView.lookupKw kws name).getD dflt

/-! ## B324 hashlib -/

def b324Raw (sev : Rank) : PRaw := { sev := sev, conf := .high, loc := .node }

/-- `keywords.get("usedforsecurity", "True") == "True"` -/
def usedForSecurity (kws : List (Option Str × PyVal)) : Bool :=
  (kwGet kws "usedforsecurity" (.str "True".toList)).beq (.str "True".toList)

/-- `isinstance(name, str) and name.lower() in WEAK_HASHES` (ASCII lower-casing, see header) -/
def isWeakHashName (T : CryptoTables) : PyVal → Bool
  | .str s => T.weakHashes.contains (Str.lower s)
  | _ => false

/-- `isinstance(name, str) and name in WEAK_CRYPT_HASHES` -/
def isWeakCryptName (T : CryptoTables) : PyVal → Bool
  | .str s => T.weakCryptHashes.contains s
  | _ => false

/-- `_hashlib_func` -/
def b324Hashlib (T : CryptoTables) (c : CallView) (func : Str) : M (Option PRaw) := do
  let kws ← c.callKeywords
  if T.weakHashes.contains func then
    if usedForSecurity kws then return some (b324Raw .high)
    return none
  else if func == "new".toList then
    let args ← c.callArgs
    let name := match args with
      | a :: _ => a
      | [] => kwGet kws "name" .none
    if isWeakHashName T name then
      if usedForSecurity kws then return some (b324Raw .high)
    return none
  else return none

/-- `_crypt_crypt` -/
def b324Crypt (T : CryptoTables) (c : CallView) (func : Str) : M (Option PRaw) := do
  let args ← c.callArgs
  let kws ← c.callKeywords
  if func == "crypt".toList then
    let name := match args with
      | _ :: b :: _ => b
      | _ => kwGet kws "salt" .none
    if isWeakCryptName T name then return some (b324Raw .medium)
    return none
  else if func == "mksalt".toList then
    let name := match args with
      | a :: _ => a
      | [] => kwGet kws "method" .none
    if isWeakCryptName T name then return some (b324Raw .medium)
    return none
  else return none

def b324 (T : CryptoTables) (e : Env) : M (Option PRaw) := do
  let some c := e.call? | throw .attributeError
  let parts := Str.splitOn '.' e.qual
  let func := Str.lastDot e.qual
  if parts.contains "hashlib".toList then b324Hashlib T c func
  else if parts.contains "crypt".toList && (func == "crypt".toList || func == "mksalt".toList) then
    b324Crypt T c func
  else return none

/-! ## B505 weak_cryptographic_key -/

/-- `config[key]`: `KeyError` when absent, `TypeError` when the settings are not a mapping -/
def cfgIndex (cfg : CfgVal) (key : String) : M CfgVal :=
  match cfg with
  | .map _ => match cfg.get? key with
    | some v => pure v
    | none => throw .keyError
  | _ => throw .typeError

/-- `key_size < size` for an evaluated argument and a configured threshold.  Numbers compare
exactly (`bool` thresholds are the ints 0/1, `inf` is below nothing); anything else raises
`TypeError` (`'<' not supported between instances of …`). -/
def pyLtCfg (a : PyVal) (b : CfgVal) : M Bool := do
  let j : Int ← match b with
    | .int j => pure j
    | .bool t => pure (if t then 1 else 0)
    | _ => throw .typeError
  match a with
  | .int i => pure (decide (i < j))
  | .rat n d => pure (decide (n < j * d))
  | .flt _ => pure false
  | _ => throw .typeError

def b505Raw (sev : Rank) : PRaw := { sev := sev, conf := .high }

/-- `isinstance(v, (int, float))` for an evaluated argument (`True`/`False` arrive as strings) -/
def _root_.Bandit.PyVal.isNumber : PyVal → Bool
  | .int _ | .rat _ _ | .flt _ => true
  | _ => false

/-- `_classify_key_size`: the `key_sizes` dict display evaluates all six settings first -/
def classifyKeySize (cfg : CfgVal) (keyType : Str) (keySize : PyVal) : M (Option PRaw) := do
  if !keySize.isNumber then return none      -- `if not isinstance(key_size, (int, float)): return`
  let dh ← cfgIndex cfg "weak_key_size_dsa_high"
  let dm ← cfgIndex cfg "weak_key_size_dsa_medium"
  let rh ← cfgIndex cfg "weak_key_size_rsa_high"
  let rm ← cfgIndex cfg "weak_key_size_rsa_medium"
  let eh ← cfgIndex cfg "weak_key_size_ec_high"
  let em ← cfgIndex cfg "weak_key_size_ec_medium"
  let (hi, med) ←
    if keyType == "DSA".toList then pure (dh, dm)
    else if keyType == "RSA".toList then pure (rh, rm)
    else if keyType == "EC".toList then pure (eh, em)
    else throw .keyError
  if ← pyLtCfg keySize hi then return some (b505Raw .high)
  if ← pyLtCfg keySize med then return some (b505Raw .medium)
  return none

/-- `get_call_arg_value(kw) or get_call_arg_at_position(pos) or 2048` (short-circuit: the
positional argument is only evaluated when the keyword value is falsy) -/
def keySizeArg (c : CallView) (kw : String) (pos : M Nat) : M PyVal := do
  let kv ← c.argValue kw
  if kv.truthy then return kv
  let p ← pos
  let av ← c.argAt p
  if av.truthy then return av
  return .int 2048

/-- `get_call_arg_value("curve") or (len(call_args) > pos and call_args[pos])`; Python's `False`
is written `0` (equal, same hash, equally falsy) -/
def curveArg (c : CallView) (pos : M Nat) : M PyVal := do
  let cv ← c.argValue "curve"
  if cv.truthy then return cv
  let args ← c.callArgs
  let p ← pos
  return (args[p]?).getD (.int 0)

/-- `curve_key_sizes.get(curve, 224) if isinstance(curve, str) else 224` -/
def curveSizeOf (T : CryptoTables) : PyVal → Int
  | .str s => (assocGet T.curveKeySizes s).getD 224
  | _ => 224

/-- `_weak_crypto_key_size_cryptography_io` -/
def b505Cio (T : CryptoTables) (cfg : CfgVal) (e : Env) (c : CallView) : M (Option PRaw) := do
  match assocGet T.cioFuncKeyType e.qual with
  | none => return none
  | some kt =>
    let pos : M Nat := match assocGet T.cioArgPosition kt with
      | some p => pure p
      | none => throw .keyError
    if kt == "DSA".toList || kt == "RSA".toList then
      let ks ← keySizeArg c "key_size" pos
      classifyKeySize cfg kt ks
    else if kt == "EC".toList then
      let curve ← curveArg c pos
      classifyKeySize cfg kt (.int (curveSizeOf T curve))
    else return none

/-- `_weak_crypto_key_size_pycrypto` -/
def b505Pyc (T : CryptoTables) (cfg : CfgVal) (e : Env) (c : CallView) : M (Option PRaw) := do
  match assocGet T.pycFuncKeyType e.qual with
  | none => return none
  | some kt =>
    if kt.isEmpty then return none      -- `if key_type:`
    let ks ← keySizeArg c "bits" (pure 0)
    classifyKeySize cfg kt ks

/-- `a(context, config) or b(context, config)` (an `Issue` is truthy) -/
def b505 (T : CryptoTables) (cfg : CfgVal) (e : Env) : M (Option PRaw) := do
  let some c := e.call? | throw .attributeError
  match ← b505Cio T cfg e c with
  | some r => return some r
  | none => b505Pyc T cfg e c

/-! ## B502 / B503 / B504 insecure_ssl_tls -/

mutual
  /-- a configured value as the Python object the YAML/TOML loader produced (`True == 1`) -/
  def cfgToPy : CfgVal → PyVal
    | .null => .none
    | .bool b => .int (if b then 1 else 0)
    | .int i => .int i
    | .str s => .str s
    | .list xs => .list (cfgToPyList xs)
    | .map kvs => .dict kvs.isEmpty
  def cfgToPyList : List CfgVal → List PyVal
    | [] => []
    | x :: xs => cfgToPy x :: cfgToPyList xs
end

/-- `context.check_call_arg_value(name, values)` with configured `values`
(a non-list is wrapped into a one-element list) -/
def checkArgCfg (c : CallView) (name : String) (values : CfgVal) : M (Option Bool) :=
  match values with
  | .list xs => c.checkArg name (cfgToPyList xs)
  | x => c.checkArg name [cfgToPy x]

def isTrue (r : Option Bool) : Bool := r == some true

def b502 (cfg : CfgVal) (e : Env) : M (Option PRaw) := do
  let some c := e.call? | throw .attributeError
  let bad ← cfgIndex cfg "bad_protocol_versions"
  if e.qual == "ssl.wrap_socket".toList then
    if isTrue (← checkArgCfg c "ssl_version" bad) then
      return some { sev := .high, conf := .high, loc := .kw ["ssl_version"] }
    return none
  else if e.qual == "pyOpenSSL.SSL.Context".toList then
    if isTrue (← checkArgCfg c "method" bad) then
      return some { sev := .high, conf := .high, loc := .kw ["method"] }
    return none
  else
    if isTrue (← checkArgCfg c "method" bad) then
      return some { sev := .medium, conf := .medium, loc := .kw ["method", "ssl_version"] }
    if isTrue (← checkArgCfg c "ssl_version" bad) then
      return some { sev := .medium, conf := .medium, loc := .kw ["method", "ssl_version"] }
    return none

/-- `val in bad_ssl_versions` for a string `val`: list membership, substring of a string,
key of a mapping; `TypeError` for a non-iterable setting -/
def strInCfg (val : Str) : CfgVal → M Bool
  | .list xs => pure ((cfgToPyList xs).any (fun x => (PyVal.str val).beq x))
  | .str s => pure (Str.isInfix val s)
  | .map kvs => pure (kvs.any (·.1 == val))
  | _ => throw .typeError

def b503 (cfg : CfgVal) (e : Env) : M (Option PRaw) := do
  let bad ← cfgIndex cfg "bad_protocol_versions"
  let defaults := match e.node.kid? "args" with
    | some a => a.kidList "defaults"
    | none => []
  let rec go : List Node → M (Option PRaw)
    | [] => pure none
    | d :: rest => do
      let val := Str.lastDot (qualAttr e.st.aliases d)
      if ← strInCfg val bad then return some { sev := .medium, conf := .medium }
      go rest
  go defaults

def b504 (e : Env) : M (Option PRaw) := do
  let some c := e.call? | throw .attributeError
  if e.qual == "ssl.wrap_socket".toList then
    if (← c.checkArg "ssl_version" [.none]).isNone then
      return some { sev := .low, conf := .medium, loc := .kw ["ssl_version"] }
  return none

/-! ## B501 / B113 requests and httpx -/

/-- `(root == 'requests' and name in HTTP_VERBS) or (root == 'httpx' and name in HTTPX_ATTRS)` -/
def httpTarget (verbs httpx : List Str) (e : Env) : Bool :=
  let root := Str.firstDot e.qual
  (root == "requests".toList && verbs.contains e.name) || (root == "httpx".toList && httpx.contains e.name)

def b501 (T : CryptoTables) (e : Env) : M (Option PRaw) := do
  let some c := e.call? | throw .attributeError
  if httpTarget T.b501HttpVerbs T.b501HttpxAttrs e then
    if isTrue (← c.checkArg "verify" [.str "False".toList]) then
      return some { sev := .high, conf := .high, loc := .kw ["verify"] }
  return none

def b113Raw : PRaw := { sev := .medium, conf := .low }

def b113 (T : CryptoTables) (e : Env) : M (Option PRaw) := do
  let some c := e.call? | throw .attributeError
  let root := Str.firstDot e.qual
  if root == "requests".toList && T.b113HttpVerbs.contains e.name then
    if (← c.checkArg "timeout" [.none]).isNone then return some b113Raw
  if httpTarget T.b113HttpVerbs T.b113HttpxAttrs e then
    if isTrue (← c.checkArg "timeout" [.str "None".toList]) then return some b113Raw
  return none

/-! ## B507 ssh_no_host_key_verification -/

/-- the policy name read off the first positional argument (Attribute / Name / Call of either) -/
def policyName (a : Node) : Option Str :=
  if a.isKind "Attribute" then a.strAttr "attr"
  else if a.isKind "Name" then a.strAttr "id"
  else if a.isKind "Call" then
    match a.kid? "func" with
    | some f =>
      if f.isKind "Attribute" then f.strAttr "attr"
      else if f.isKind "Name" then f.strAttr "id"
      else none
    | none => none
  else none

def autoAcceptPolicies : List Str := ["AutoAddPolicy".toList, "WarningPolicy".toList]

def b507 (e : Env) : M (Option PRaw) := do
  let some c := e.call? | throw .attributeError
  if importedLike e.st "paramiko" && e.name == "set_missing_host_key_policy".toList then
    match c.args with
    | [] => return none
    | a :: _ =>
      match policyName a with
      | some p =>
        if autoAcceptPolicies.contains p then
          return some { sev := .high, conf := .medium, loc := .kw ["set_missing_host_key_policy"] }
        return none
      | none => return none
  return none

/-! ## B508 / B509 snmp -/

def b508 (e : Env) : M (Option PRaw) := do
  let some c := e.call? | throw .attributeError
  if e.qual == "pysnmp.hlapi.CommunityData".toList then
    if isTrue (← c.checkArg "mpModel" [.int 0]) then
      return some { sev := .medium, conf := .high, loc := .kw ["CommunityData"] }
    if isTrue (← c.checkArg "mpModel" [.int 1]) then
      return some { sev := .medium, conf := .high, loc := .kw ["CommunityData"] }
  return none

/-- `snmp_crypto_check` (after /repo fix 60708c5): keys passed as `authKey=` / `privKey=` count like
the second / third positional argument; keyword *names* are read off the node, nothing is evaluated. -/
def b509 (e : Env) : M (Option PRaw) := do
  let some c := e.call? | throw .attributeError
  if e.qual == "pysnmp.hlapi.UsmUserData".toList then
    let hasKw (n : String) : Bool := c.keywords.any (fun k => CallView.kwName k == some n.toList)
    let hasAuth := decide (c.args.length > 1) || hasKw "authKey"
    let hasPriv := decide (c.args.length > 2) || hasKw "privKey"
    if !(hasAuth && hasPriv) then
      return some { sev := .medium, conf := .high, loc := .kw ["UsmUserData"] }
  return none

/-- the check as it was before the fix (`call_args_count < 3`); kept only for the regression
witness `Props.C15.NEG_b509_positional_only` -/
def b509PositionalOnly (e : Env) : M (Option PRaw) := do
  let some c := e.call? | throw .attributeError
  if e.qual == "pysnmp.hlapi.UsmUserData".toList then
    if c.args.length < 3 then
      return some { sev := .medium, conf := .high, loc := .kw ["UsmUserData"] }
  return none

/-- the ten checks, in no particular order (`pc` = per-plugin settings) -/
def cryptoChecks (T : CryptoTables) (pc : PluginCfg) : List Check :=
  let k := ["Call".toList]
  [ .plugin "B113" "request_without_timeout" k (b113 T),
    .plugin "B324" "hashlib" k (b324 T),
    .plugin "B501" "request_with_no_cert_validation" k (b501 T),
    .plugin "B502" "ssl_with_bad_version" k (b502 (pc.get "ssl_with_bad_version")),
    .plugin "B503" "ssl_with_bad_defaults" ["FunctionDef".toList] (b503 (pc.get "ssl_with_bad_version")),
    .plugin "B504" "ssl_with_no_version" k b504,
    .plugin "B505" "weak_cryptographic_key" k (b505 T (pc.get "weak_cryptographic_key")),
    .plugin "B507" "ssh_no_host_key_verification" k b507,
    .plugin "B508" "snmp_insecure_version_check" k b508,
    .plugin "B509" "snmp_crypto_check" k b509 ]

end Bandit.Plugins
