import Bandit.Plugins.Crypto
import Bandit.Gen.LocalTables
/-!
# The C15 checks instantiated with the tables regenerated from /repo
-/
namespace Bandit.Plugins
open Bandit

/-- the in-module literal tables as extracted from /repo's plugin sources on this run -/
def genCryptoTables : CryptoTables :=
  { weakHashes := Gen.weakHashes, weakCryptHashes := Gen.weakCryptHashes,
    b501HttpVerbs := Gen.b501HttpVerbs, b501HttpxAttrs := Gen.b501HttpxAttrs,
    b113HttpVerbs := Gen.b113HttpVerbs, b113HttpxAttrs := Gen.b113HttpxAttrs,
    cioFuncKeyType := Gen.cioFuncKeyType, cioArgPosition := Gen.cioArgPosition,
    curveKeySizes := Gen.curveKeySizes, pycFuncKeyType := Gen.pycFuncKeyType }

end Bandit.Plugins
