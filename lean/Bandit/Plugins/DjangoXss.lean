import Bandit.Plugins.Inject
/-!
# B703 django_mark_safe (`django_xss.py`)

`check_risk` / `evaluate_var` / `evaluate_call` / `transform2call` / `DeepAssignation`.

Shape of the model

* `isAssigned var stmt` is `DeepAssignation(var).is_assigned(stmt)`: a structural recursion over the
  statement (`Node.para`), with the two places where the Python raises (`name.id` on a non-`Name`
  tuple element, `elts[pos]` past the end of the value tuple) as `Crash` values.
* `evaluate_call` only ever answers "every element of the work list was fine"; any `break` makes the
  answer `False` all the way up.  So a call is first *linearised* (`callItems`, structural) into
  the sequence of things Python looks at, in the order it looks at them: a variable reference
  (`evaluate_var(arg, parent, call.lineno)`) or a `bad` element; string literals contribute nothing.
  The work list grows at its end while it is iterated (`*[...]` arguments), i.e. breadth-first —
  `Arg.levels` keeps the levels apart.
* `evaluate_var` recurses through variable references.  The Python recursion is **not**
  well-founded (`x = (⏎ x)` makes `evaluate_var(x, parent, 2)` call itself with the same arguments:
  CPython ends in `RecursionError`), so the model recursion is on an explicit `fuel`; running out of
  fuel is the distinguished outcome `XErr.diverge`.  `Props.C17` proves that more fuel never
  changes an answer, that `until`-many units suffice when simple assignments sit on one line, and
  that the witness above diverges for *every* amount of fuel.
-/
namespace Bandit.Plugins.DjangoXss
open Bandit

/-! ## `DeepAssignation.is_assigned` -/

/-- `False` | a node | a list of nodes -/
inductive Asg where
  | no
  | one (n : Node)
  | many (ns : List Node)
deriving Inhabited

/-- Python truthiness of the result -/
def Asg.truthy : Asg → Bool
  | .no => false
  | .one _ => true
  | .many ns => !ns.isEmpty

/-- `is_assigned_in(items)` given each item's own result, in order -/
def assignedIn : List (Node × M Asg) → M (List Node)
  | [] => pure []
  | (_, r) :: rest => do
    let a ← r
    let more ← assignedIn rest
    match a with
    | .no => pure more
    | .one n => pure (n :: more)
    | .many ns => pure (ns ++ more)

/-- the loop over the elements of a tuple target:
`getattr(name, "id", None) == var and pos < len(node.value.elts)` -/
def tupleTarget (var : Str) (valueElts : List Node) : List Node → Nat → M Asg
  | [], _ => pure .no
  | t :: ts, pos =>
    match t.nameId?, valueElts[pos]? with
    | some i, some v => if i == var then pure (.one v) else tupleTarget var valueElts ts (pos + 1)
    | _, _ => tupleTarget var valueElts ts (pos + 1)

/-- `DeepAssignation(var).is_assigned(node)` (with `ignore_nodes=None`, the only way it is used) -/
def isAssigned (var : Str) : Node → M Asg :=
  Node.para fun n kids =>
    let inSlot (f : String) : M (List Node) := assignedIn (slotRes kids f)
    if n.isKind "Expr" then
      match (slotRes kids "value").head? with
      | some (_, r) => r
      | none => pure .no
    else if n.isKind "FunctionDef" then
      -- `node.args.args` holds `ast.arg`, never `ast.Name`: the early return cannot trigger
      do pure (.many (← inSlot "body"))
    else if n.isKind "With" then
      let items := n.kidList "items"
      let hit (it : Node) : Bool := ((it.kid? "optional_vars").bind Node.nameId?) == some var
      match items.getLast? with
      | none => pure .no
      | some last => do
        -- every item that does not bind `var` evaluates `is_assigned_in(node.body)`; the last item decides
        let body ← if items.any (fun it => !hit it) then inSlot "body" else pure []
        if hit last then pure (.one n) else pure (.many body)
    else if n.isKind "Try" then do
      let a ← inSlot "body"
      let b ← inSlot "handlers"
      let c ← inSlot "orelse"
      let d ← inSlot "finalbody"
      pure (.many (a ++ b ++ c ++ d))
    else if n.isKind "ExceptHandler" then do pure (.many (← inSlot "body"))
    else if n.isKind "If" || n.isKind "For" || n.isKind "While" then do
      let a ← inSlot "body"
      let b ← inSlot "orelse"
      pure (.many (a ++ b))
    else if n.isKind "AugAssign" then
      match n.kid? "target", n.kid? "value" with
      | some t, some v => if t.nameId? == some var then pure (.one v) else pure .no
      | _, _ => pure .no
    else if n.isKind "Assign" then
      match (n.kidList "targets").head?, n.kid? "value" with
      | some t, some v =>
        if t.isKind "Name" then (if t.nameId? == some var then pure (.one v) else pure .no)
        else if t.isKind "Tuple" && v.isKind "Tuple" then tupleTarget var (v.kidList "elts") (t.kidList "elts") 0
        else pure .no
      | _, _ => pure .no
    else pure .no

/-! ## Linearising `evaluate_call` -/

/-- one thing `evaluate_call` looks at: a variable (with the `until` passed to `evaluate_var`:
the line of the call whose argument it is) or something that makes the answer `False` -/
inductive Item where
  | ref (id : Str) (till : Option Nat)
  | bad
deriving DecidableEq, Repr, Inhabited

/-- a work-list element before the line of its call is known -/
inductive Pre where
  | name (id : Str)
  | done (items : List Item)     -- a nested call, already linearised
  | bad
deriving Inhabited

/-- level-wise concatenation: `zipLevels [a, b]` has `a[k] ++ b[k]` at level `k` -/
def zipLevels : List (List (List Pre)) → List (List Pre)
  | [] => []
  | l :: ls =>
    let rest := zipLevels ls
    let rec merge : List (List Pre) → List (List Pre) → List (List Pre)
      | [], ys => ys
      | xs, [] => xs
      | x :: xs, y :: ys => (x ++ y) :: merge xs ys
    merge l rest

def resolvePre (line : Option Nat) : Pre → List Item
  | .name i => [.ref i line]
  | .done its => its
  | .bad => [.bad]

/-- the items of a call with the given positional arguments (already analysed) evaluated at `line` -/
def itemsOfArgs (line : Option Nat) (args : List (List (List Pre))) : List Item :=
  ((zipLevels args).flatten).flatMap (resolvePre line)

structure Info where
  /-- `evaluate_call(node, parent)` linearised -/
  asCall : List Item
  /-- the node as a work-list element: what it contributes at each breadth-first level -/
  asArg : List (List Pre)
  /-- `asArg` of every child in the `elts` slot (for `*[...]` / `*(...)` arguments) -/
  eltArgs : List (List (List Pre))
deriving Inhabited

/-- `isinstance(call, ast.Call) and isinstance(call.func, ast.Attribute) and
isinstance(call.func.value, ast.Str) and call.func.attr == "format" and not call.keywords` -/
def isLiteralFormat (n : Node) : Bool :=
  n.isKind "Call" &&
  (match n.kid? "func" with
   | some f => f.isKind "Attribute" && f.strAttr "attr" == some "format".toList &&
               ((f.kid? "value").map Node.isStrConst).getD false
   | none => false) &&
  (n.kidList "keywords").isEmpty

def info : Node → Info :=
  Node.para fun n kids =>
    let argInfos : List (List (List Pre)) := (slotRes kids "args").map (·.2.asArg)
    let asCall : List Item := if isLiteralFormat n then itemsOfArgs n.line? argInfos else [.bad]
    let asArg : List (List Pre) :=
      if n.isStrConst then []
      else match n.nameId? with
        | some i => [[.name i]]
        | none =>
          if n.isKind "Call" then [[.done asCall]]
          else if n.isKind "Starred" then
            match (slotRes kids "value").head? with
            | some (v, vi) =>
              if v.isKind "List" || v.isKind "Tuple" then
                -- `args.extend(arg.value.elts); num_secure += 1`
                [] :: zipLevels vi.eltArgs
              else [[.bad]]
            | none => [[.bad]]
          else [[.bad]]
    { asCall := asCall, asArg := asArg, eltArgs := (slotRes kids "elts").map (·.2.asArg) }

/-! ## `evaluate_var` / `evaluate_call` -/

/-- outcome of the data-flow walk besides an answer: a Python exception, or no answer at all -/
inductive XErr where
  | crash (c : Crash)
  | diverge
deriving DecidableEq, Repr, Inhabited

abbrev X := Except XErr

def liftX {α : Type} : M α → X α
  | .ok a => .ok a
  | .error c => .error (.crash c)

/-- `[name.arg for name in parent.args.args]` -/
def params (fn : Node) : List Str :=
  (((fn.kid? "args").map (·.kidList "args")).getD []).filterMap (·.strAttr "arg")

/-- `evaluate_call` over the linearised items: all references must evaluate secure, in order,
stopping at the first that does not -/
def evalItems (rec : Str → Nat → X Bool) : List Item → X Bool
  | [] => pure true
  | .bad :: _ => pure false
  | .ref _ none :: _ => throw (.crash .attributeError)
  | .ref i (some l) :: rest => do
    if ← rec i l then evalItems rec rest else pure false

/-- the `isinstance(to, (list, tuple))` branch of `evaluate_var` (`line` = `node.lineno`) -/
def evalMany (rec : Str → Nat → X Bool) (line : Nat) : List Node → X Bool
  | [] => pure true
  | t :: ts =>
    if t.isStrConst then evalMany rec line ts
    else match t.nameId? with
      | some i => do if ← rec i line then evalMany rec line ts else pure false
      | none => pure false

/-- `evaluate_call(to, parent, ignore_nodes, node.lineno)`: every variable of the call (nested calls
included) is looked up before the line of the assignment statement -/
def retill (ln : Nat) : Item → Item
  | .ref i _ => .ref i (some ln)
  | .bad => .bad

/-- the loop `for node in parent.body` of `evaluate_var`; `rec` is `evaluate_var` itself -/
def scanBody (rec : Str → Nat → X Bool) (var : Str) (till : Nat) : List Node → Bool → X Bool
  | [], secure => pure secure
  | node :: rest, secure =>
    match node.line? with
    | none => throw (.crash .attributeError)
    | some ln =>
      if ln ≥ till then pure secure else do
        let to ← liftX (isAssigned var node)
        match to with
        | .no => scanBody rec var till rest secure
        | .one t =>
          if t.isStrConst then scanBody rec var till rest true
          else match t.nameId? with
            | some i =>
              do
                let s ← rec i ln                 -- `evaluate_var(to, parent, node.lineno)`
                scanBody rec var till rest s
            | none =>
              if t.isKind "Call" then do
                let s ← evalItems rec ((info t).asCall.map (retill ln))
                scanBody rec var till rest s
              else pure false                    -- `secure = False; break`
        | .many ts =>
          if ts.isEmpty then scanBody rec var till rest secure
          else do
            if ← evalMany rec ln ts then scanBody rec var till rest true else pure false

/-- one unfolding of `evaluate_var(Name(var), parent, till)` -/
def evalVarStep (rec : Str → Nat → X Bool) (parent : Node) (var : Str) (till : Nat) : X Bool :=
  if parent.isKind "FunctionDef" && (params parent).contains var then pure false
  else scanBody rec var till (parent.kidList "body") false

/-- `evaluate_var` with at most `fuel` nested activations -/
def evalVar : Nat → Node → Str → Nat → X Bool
  | 0, _, _, _ => throw .diverge
  | n + 1, parent, var, till => evalVarStep (evalVar n parent) parent var till

/-- the enclosing `Module` / `FunctionDef` (`while not isinstance(parent, …): parent = parent._bandit_parent`) -/
def enclosing (anc : List Node) : Option Node :=
  anc.find? fun a => a.isKind "Module" || a.isKind "FunctionDef"

/-- the fake call of `transform2call`: arguments of `"..." % right` -/
def modArgs (x : Node) : Option (List Node) :=
  if x.isKind "BinOp" && ((x.kid? "op").map (·.isKind "Mod")).getD false
      && ((x.kid? "left").map Node.isStrConst).getD false then
    match x.kid? "right" with
    | some r => some (if r.isKind "Tuple" then r.kidList "elts" else [r])
    | none => none
  else none

/-- `check_risk`: is the first argument `x` of the call (on line `callLine`) secure? -/
def secureArg (fuel : Nat) (anc : List Node) (callLine : Option Nat) (x : Node) : X Bool :=
  let withParent (k : Node → X Bool) : X Bool :=
    match enclosing anc with
    | some p => k p
    | none => throw (.crash .attributeError)
  match x.nameId? with
  | some i => withParent fun parent =>
    if parent.isKind "FunctionDef" && (params parent).contains i then pure false
    else match callLine with
      | some l => evalVar fuel parent i l
      | none => throw (.crash .attributeError)
  | none =>
    if x.isKind "Call" then withParent fun parent => evalItems (evalVar fuel parent) (info x).asCall
    else match modArgs x with
      | some args => withParent fun parent =>
        evalItems (evalVar fuel parent) (itemsOfArgs x.line? (args.map fun a => (info a).asArg))
      | none => pure false

/-- recursion budget: an answer needs at most one activation per `Name` node of the enclosing
scope (a repeated (variable, line) pair repeats forever), so the size of the scope is enough; the
largest line number of the scope is added so that the budget also exceeds every `until` that can
occur (the bound `Props.C17.b703_terminates_partial` speaks about) -/
def fuelFor (anc : List Node) : Nat :=
  match enclosing anc with
  | some p => p.size + ((calcLinerange p).map (·.2)).getD 0 + 2
  | none => 2

def b703With (T : InjTables) (fuel : Env → Nat) (e : Env) : M (Option PRaw) := do
  if importedLike e.st "django.utils.safestring" then
    if T.affected.contains e.name then
      let some c := e.call? | throw .attributeError
      match c.args with
      | [] => return none                            -- `… and context.node.args`
      | x :: _ =>
        if x.isStrConst then return none
        match secureArg (fuel e) e.v.anc e.node.line? x with
        | .ok true => return none
        | .ok false => return some { sev := .medium, conf := .high }
        | .error (.crash c) => throw c
        | .error .diverge => throw .other            -- RecursionError
  return none

def b703 (T : InjTables) (e : Env) : M (Option PRaw) := b703With T (fun e => fuelFor e.v.anc) e

end Bandit.Plugins.DjangoXss

namespace Bandit.Plugins

/-- a plugin check whose decision looks at source positions: B703 compares line numbers (order only),
B608 uses spans as node identity (`sameNode`, equality only) — both are preserved by every strictly
monotone renumbering of lines -/
def _root_.Bandit.Check.pluginPos (id name : String) (kinds : List Str) (f : Env → M (Option PRaw)) : Check :=
  { Check.plugin id name kinds f with usesPos := true }

/-- the checks of `Plugins/Inject.lean` and `Plugins/DjangoXss.lean` over given tables -/
def injectChecksWith (T : InjTables) (pc : PluginCfg) : List Check :=
  let k := ["Call".toList]
  [ .pluginPos "B608" "hardcoded_sql_expressions" ["Str".toList] (b608 T),
    .plugin "B610" "django_extra_used" k (b610 T),
    .plugin "B611" "django_rawsql_used" k b611,
    .plugin "B701" "jinja2_autoescape_false" k b701,
    .pluginPos "B703" "django_mark_safe" k (DjangoXss.b703 T),
    .plugin "B704" "markupsafe_markup_xss" k (b704 T (pc.get "markupsafe_xss")),
    .plugin "B506" "yaml_load" k b506,
    .plugin "B614" "pytorch_load" k b614,
    .plugin "B202" "tarfile_unsafe_members" k b202 ]

/-- … over the tables regenerated from `/repo` -/
def injectChecks (pc : PluginCfg) : List Check := injectChecksWith Gen.injTables pc

end Bandit.Plugins
