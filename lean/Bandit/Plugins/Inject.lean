import Bandit.Plugins.Misc
import Bandit.Gen.Chars
import Bandit.Gen.LocalTablesInject
/-!
# Injection / templating / deserialisation checks

B608 (`injection_sql.py`), B610 B611 (`django_sql_injection.py`), B701 (`jinja2_templates.py`),
B704 (`markupsafe_markup_xss.py`), B506 (`yaml_load.py`), B614 (`pytorch_load.py`),
B202 (`tarfile_unsafe_members.py`).  B703 lives in `Plugins/DjangoXss.lean`.

Every check is written against an explicit table record `InjTables` (the literal tables found
inside the plugin functions and the interpreter's character classes); `Gen.injTables` is the
instance regenerated from `/repo` on every run.
-/
namespace Bandit
open Bandit

/-! ## A structural paramorphism on the rose tree

`Node.para f n` computes a value for every node bottom-up; `f` sees the node itself and, for each
child slot, the children paired with their values.  All tree recursions of this file go through
it, so they are structural (kernel-reducible) and total by construction. -/
mutual
  def Node.para {α : Type} (f : Node → List (Str × Bool × List (Node × α)) → α) : Node → α
    | .mk k p a ks => f (.mk k p a ks) (paraSlots f ks)
  def paraSlots {α : Type} (f : Node → List (Str × Bool × List (Node × α)) → α) :
      List (Str × Bool × List Node) → List (Str × Bool × List (Node × α))
    | [] => []
    | (fl, b, ns) :: r => (fl, b, paraList f ns) :: paraSlots f r
  def paraList {α : Type} (f : Node → List (Str × Bool × List (Node × α)) → α) :
      List Node → List (Node × α)
    | [] => []
    | n :: ns => (n, Node.para f n) :: paraList f ns
end

/-- children-with-values of the slot named `f` (empty when absent) -/
def slotRes {α : Type} (kids : List (Str × Bool × List (Node × α))) (f : String) : List (Node × α) :=
  match kids.find? (·.1 == f.toList) with
  | some (_, _, rs) => rs
  | none => []

/-! ## `ast.walk`: breadth-first order -/
mutual
  def Node.height : Node → Nat
    | .mk _ _ _ ks => heightSlots ks + 1
  def heightSlots : List (Str × Bool × List Node) → Nat
    | [] => 0
    | (_, _, ns) :: r => max (heightList ns) (heightSlots r)
  def heightList : List Node → Nat
    | [] => 0
    | n :: ns => max n.height (heightList ns)
end

mutual
  /-- number of nodes of the subtree -/
  def Node.size : Node → Nat
    | .mk _ _ _ ks => sizeSlots ks + 1
  def sizeSlots : List (Str × Bool × List Node) → Nat
    | [] => 0
    | (_, _, ns) :: r => sizeList ns + sizeSlots r
  def sizeList : List Node → Nat
    | [] => 0
    | n :: ns => n.size + sizeList ns
end

/-- level by level; `fuel` bounds the number of levels (`Node.walk` passes the height) -/
def bfsLevels : Nat → List Node → List Node
  | 0, _ => []
  | f + 1, l => if l.isEmpty then [] else l ++ bfsLevels f (l.flatMap Node.children)

/-- `ast.walk(n)` -/
def Node.walk (n : Node) : List Node := bfsLevels n.height [n]

namespace Plugins

/-- The data the checks of this file depend on. -/
structure InjTables where
  /-- `\s` of a `str` pattern -/
  isSpace : Char → Bool
  /-- non-ASCII code points an ASCII letter matches under `re.IGNORECASE`: (code point, letter) -/
  caseExtra : List (Nat × Nat)
  execNames : List Str
  strMethods : List Str
  affected : List Str
  markupNames : List Str
  extraListKeys : List Str

/-! ## `SIMPLE_SQL_RE.search` — hand-written matcher

`(select\s.*from\s|delete\s+from\s|insert\s+into\s.*values\s|update\s.*set\s)`, IGNORECASE|DOTALL.
Only the truth value of `search` is used, so the matcher decides language membership of some
substring. -/

/-- case folding of `re.IGNORECASE` restricted to what an ASCII-letter pattern can see -/
def foldSql (extra : List (Nat × Nat)) (c : Char) : Char :=
  if 'A' ≤ c ∧ c ≤ 'Z' then Char.ofNat (c.toNat + 32)
  else match extra.find? (·.1 == c.toNat) with
    | some (_, l) => Char.ofNat l
    | none => c

/-- `w\s` at the start of `t`: the rest after the space -/
def wordSp (sp : Char → Bool) (w : String) (t : Str) : Option Str :=
  match stripPrefix? w t with
  | some (c :: r) => if sp c then some r else none
  | _ => none

/-- `w\s+` at the start of `t`: the rest after *all* spaces (what follows `\s+` in the pattern is
a letter, so only the maximal run can be continued) -/
def wordSps (sp : Char → Bool) (w : String) (t : Str) : Option Str :=
  (wordSp sp w t).map (·.dropWhile sp)

/-- `.*w\s` matches a prefix of `t` (DOTALL: `.` is any character) -/
def laterWordSp (sp : Char → Bool) (w : String) (t : Str) : Bool :=
  (suffixes t).any fun u => (wordSp sp w u).isSome

def altSelect (sp : Char → Bool) (t : Str) : Bool :=
  match wordSp sp "select" t with | some r => laterWordSp sp "from" r | none => false
def altDelete (sp : Char → Bool) (t : Str) : Bool :=
  match wordSps sp "delete" t with | some r => (wordSp sp "from" r).isSome | none => false
def altInsert (sp : Char → Bool) (t : Str) : Bool :=
  match wordSps sp "insert" t with
  | some r => (match wordSp sp "into" r with | some r2 => laterWordSp sp "values" r2 | none => false)
  | none => false
def altUpdate (sp : Char → Bool) (t : Str) : Bool :=
  match wordSp sp "update" t with | some r => laterWordSp sp "set" r | none => false

/-- the pattern matches at the start of (folded) `t` -/
def sqlAt (sp : Char → Bool) (t : Str) : Bool := altSelect sp t || altDelete sp t || altInsert sp t || altUpdate sp t

/-- `SIMPLE_SQL_RE.search(s) is not None` -/
def sqlSearch (T : InjTables) (s : Str) : Bool :=
  (suffixes (s.map (foldSql T.caseExtra))).any (sqlAt T.isSpace)

/-! ## B608 hardcoded_sql_expressions -/

/-- identity of AST nodes, as far as the model can see it: same class and same span.  Distinct
`BinOp`s of one tree never share a span (an operand is strictly inside its operation) and distinct
`Constant` parts of one f-string never share a span on CPython 3.12. -/
def sameNode (a b : Node) : Bool := a.kind == b.kind && a.pos == b.pos

/-- the `ast.Str` leaves `utils.concat_string._get(node, bits, stop)` appends, left to right: it
does not descend into `stop` and does not even list `stop`'s own operands -/
def getBits (stop : Node) : Node → List Str :=
  Node.para fun n kids =>
    if sameNode n stop then [] else
      let side (f : String) : List Str :=
        match (slotRes kids f).head? with
        | some (c, sub) => if c.isKind "BinOp" then sub else (c.strConst?).toList
        | none => []
      side "left" ++ side "right"

/-- `utils.get_called_name` -/
def calledName (call : Node) : Str :=
  match call.kid? "func" with
  | some f => if f.isKind "Attribute" then (f.strAttr "attr").getD [] else (f.nameId?).getD []
  | none => []

/-- result of `_evaluate_ast`: (wrapper, statement, str_replace) -/
def evaluateAst (T : InjTables) (e : Env) : M (Option Node × Str × Bool) := do
  let node := e.node
  let some s := node.strConst? | throw .attributeError
  let some par := e.v.parent? | throw .attributeError
  if par.isKind "BinOp" then
    let run := e.v.anc.takeWhile (·.isKind "BinOp")
    let top := run.getLast?.getD par
    let bits := s :: getBits par top
    return ((e.v.anc.dropWhile (·.isKind "BinOp")).head?, Str.joinWith ' ' bits, false)
  else if par.isKind "Attribute" && T.strMethods.contains ((par.strAttr "attr").getD []) then
    -- `node._bandit_parent._bandit_parent._bandit_parent`
    let some w := e.v.anc[2]? | throw .attributeError
    return (some w, s, par.strAttr "attr" == some "replace".toList)
  else if par.isKind "JoinedStr" then
    let subs := (par.kidList "values").filter Node.isStrConst
    match subs.head? with
    | some first =>
      if sameNode first node && first.strConst? == some s then
        let some w := e.v.anc[1]? | throw .attributeError
        return (some w, (subs.filterMap Node.strConst?).flatten, false)
      else return (none, [], false)
    | none => return (none, [], false)
  else return (none, [], false)

/-- "wrapped in `execute` call?" -/
def insideExecute (T : InjTables) (wrapper : Option Node) : Bool :=
  match wrapper with
  | some w => w.isKind "Call" && T.execNames.contains (calledName w)
  | none => false

def b608 (T : InjTables) (e : Env) : M (Option PRaw) := do
  let (wrapper, statement, strReplace) ← evaluateAst T e
  let executeCall := insideExecute T wrapper
  if sqlSearch T statement then
    return some { sev := .medium, conf := if executeCall && !strReplace then .medium else .low }
  return none

/-! ## B610 django_extra_used / B611 django_rawsql_used -/

/-- `keywords2dict(keywords)[name]` (a later duplicate wins) -/
def kwNode (c : CallView) (name : Str) : Option Node :=
  (c.keywords.reverse.find? (fun k => CallView.kwName k == some name)).bind CallView.kwValue

def extraPositional : List Str :=
  ["select".toList, "where".toList, "params".toList, "tables".toList, "order_by".toList, "select_params".toList]

/-- the `kwargs` dict of `django_extra_used` after the positional arguments were merged in -/
def extraArg (c : CallView) (name : Str) : Option Node :=
  match extraPositional.idxOf? name with
  | some i => match c.args[i]? with | some a => some a | none => kwNode c name
  | none => kwNode c name

def allStr (ns : List Node) : Bool := ns.all Node.isStrConst

/-- the `where` / `tables` test: present and not a list of string literals -/
def listArgBad : Option Node → Bool
  | some v => if v.isKind "List" then !allStr (v.kidList "elts") else true
  | none => false

/-- the `select` test: present and not a dict whose keys and values are string literals -/
def dictArgBad : Option Node → Bool
  | some sel => if sel.isKind "Dict" then !(allStr (sel.kidList "keys") && allStr (sel.kidList "values")) else true
  | none => false

def b610 (T : InjTables) (e : Env) : M (Option PRaw) := do
  let some c := e.call? | throw .attributeError
  if e.name == "extra".toList then
    let insecure := T.extraListKeys.any (fun key => listArgBad (extraArg c key)) || dictArgBad (extraArg c "select".toList)
    if insecure then return some { sev := .medium, conf := .medium }
  return none

def b611 (e : Env) : M (Option PRaw) := do
  let some c := e.call? | throw .attributeError
  if importedLike e.st "django.db.models" then
    if e.name == "RawSQL".toList then
      let sql := match c.args with
        | a :: _ => some a
        | [] => kwNode c "sql".toList           -- `kwargs.get("sql")`
      match sql with
      | some q => if !q.isStrConst then return some { sev := .medium, conf := .medium }
      | none => pure ()
  return none

/-! ## B701 jinja2_autoescape_false -/

inductive Autoescape where
  | absent | off | on | selected | other
deriving DecidableEq, Repr

/-- a `keyword` node named `autoescape` -/
def isAutoescapeKw (k : Node) : Bool := k.isKind "keyword" && k.strAttr "arg" == some "autoescape".toList

/-- what an `autoescape=` keyword says -/
def classifyAutoescape (k : Node) : Autoescape :=
  match k.kid? "value" with
  | none => .other
  | some v =>
    if v.nameId? == some "False".toList || v.constValue? == some (.bool false) then .off
    else if v.nameId? == some "True".toList || v.constValue? == some (.bool true) then .on
    else if v.isKind "Call" &&
        (((v.kid? "func").bind Node.attrName?) == some "select_autoescape".toList ||
         ((v.kid? "func").bind Node.nameId?) == some "select_autoescape".toList) then .selected
    else .other

/-- what the first `autoescape=` keyword found by `ast.walk(call)` says -/
def autoescapeOf (call : Node) : Autoescape :=
  match call.walk.find? isAutoescapeKw with
  | none => .absent
  | some k => classifyAutoescape k

/-- `"jinja2" in qualname.split(".") and qualname.split(".")[-1] == "Environment"` -/
def isJinjaEnvironment (q : Str) : Bool :=
  (Str.splitOn '.' q).contains "jinja2".toList && Str.lastDot q == "Environment".toList

def b701 (e : Env) : M (Option PRaw) :=
  if isJinjaEnvironment e.qual then
    match autoescapeOf e.node with
    | .absent => pure (some { sev := .high, conf := .high })
    | .off => pure (some { sev := .high, conf := .high })
    | .on => pure none
    | .selected => pure none
    | .other => pure (some { sev := .high, conf := .medium })
  else pure none

/-! ## B704 markupsafe_markup_xss -/

/-- `x in config.get(key, [])` for a string `x` -/
def cfgMember (v : Option CfgVal) (x : Str) : M Bool :=
  match v with
  | none => pure false
  | some (.list xs) => pure (xs.any fun | .str s => s == x | _ => false)
  | some (.str s) => pure (Str.isInfix x s)
  | some (.map kvs) => pure (kvs.any (·.1 == x))
  | some _ => throw .typeError

def b704 (T : InjTables) (cfg : CfgVal) (e : Env) : M (Option PRaw) := do
  let some c := e.call? | throw .attributeError
  let isMap := match cfg with | .map _ => true | _ => false
  if !T.markupNames.contains e.qual then
    if !isMap then throw .attributeError          -- `config.get` on a non-mapping
    if !(← cfgMember (cfg.get? "extend_markup_names") e.qual) then return none
  match c.args with
  | [] => return none
  | a :: _ =>
    if a.isKind "Constant" then return none
    if !isMap then throw .attributeError
    let allowed := cfg.get? "allowed_calls"
    if (allowed.map CfgVal.truthy).getD false then
      match a.asCall? with
      | some c' => if ← cfgMember allowed (callName e.st.aliases c') then return none
      | none => pure ()
    return some { sev := .medium, conf := .high }

/-! ## B506 yaml_load -/

/-- `"yaml" in qualname.split(".") and qualname.split(".")[-1] == "load"` -/
def isYamlLoad (q : Str) : Bool := (Str.splitOn '.' q).contains "yaml".toList && Str.lastDot q == "load".toList
/-- the same for `torch` -/
def isTorchLoad (q : Str) : Bool := (Str.splitOn '.' q).contains "torch".toList && Str.lastDot q == "load".toList

def b506 (e : Env) : M (Option PRaw) := do
  let some c := e.call? | throw .attributeError
  if !importedLike e.st "yaml" then return none
  -- `all([...])` evaluates every element before looking at any
  let safeKw ← c.checkArg "Loader" [.str "SafeLoader".toList]
  let csafeKw ← c.checkArg "Loader" [.str "CSafeLoader".toList]
  let p1 ← c.argAt 1
  if isYamlLoad e.qual && safeKw != some true && csafeKw != some true
      && !p1.beq (.str "SafeLoader".toList) && !p1.beq (.str "CSafeLoader".toList) then
    return some { sev := .medium, conf := .high, loc := .node }
  return none

/-! ## B614 pytorch_load -/
def b614 (e : Env) : M (Option PRaw) := do
  let some c := e.call? | throw .attributeError
  if !importedLike e.st "torch" then return none
  if isTorchLoad e.qual then
    let w ← c.argValue "weights_only"
    if w.beq (.str "True".toList) then return none
    return some { sev := .medium, conf := .high, loc := .kw ["load"] }
  return none

/-! ## B202 tarfile_unsafe_members -/

/-- `is_filter_data`: the first `filter=` keyword is the string `"data"` -/
def isFilterData (c : CallView) : Bool :=
  match c.keywords.find? (fun k => CallView.kwName k == some "filter".toList) with
  | some k => ((CallView.kwValue k).bind Node.strConst?) == some "data".toList
  | none => false

/-- `get_members_value`: `true` = `{"Function": …}` (`getattr(arg.func, "id", arg.func)` never raises) -/
def membersIsFunction (c : CallView) : M Bool :=
  match c.keywords.find? (fun k => CallView.kwName k == some "members".toList) with
  | some k =>
    match CallView.kwValue k with
    | some v =>
      if v.isKind "Call" then pure true else pure false
    | none => pure false
  | none => throw .typeError     -- `"Function" in None`; unreachable: `members` is a keyword

def b202 (e : Env) : M (Option PRaw) := do
  let some c := e.call? | throw .attributeError
  if importedExact e.st "tarfile" && Str.isInfix "extractall".toList e.name then
    if (← c.hasKw "filter") && isFilterData c then return none
    if ← c.hasKw "members" then
      if ← membersIsFunction c then return some { sev := .low, conf := .low }
      else return some { sev := .medium, conf := .medium }
    return some { sev := .high, conf := .high }
  return none

end Plugins

/-- the tables regenerated from `/repo` -/
def Gen.injTables : Plugins.InjTables :=
  { isSpace := Gen.inRanges Gen.spaceRanges, caseExtra := Gen.ignoreCaseExtra,
    execNames := Gen.sqlExecNames, strMethods := Gen.sqlStrMethods, affected := Gen.djangoAffected,
    markupNames := Gen.markupNames, extraListKeys := Gen.extraListKeys }

end Bandit
