import Bandit.Tester
import Bandit.Config
import Bandit.Glob
/-!
# Small checks: B101 B102 B104 B108 B110 B112 B201 B601 B612 B702 and B103 B105 B106 B107
-/
namespace Bandit.Plugins
open Bandit

/-! ## B101 assert_used -/
def b101 (cfg : CfgVal) (fileName : Str) (_e : Env) : M (Option PRaw) :=
  match cfg with
  | .map _ =>
    let skips := (cfg.strList? "skips").getD []
    if skips.any (fun g => Glob.fnmatch fileName g) then pure none
    else pure (some { sev := .low, conf := .high })
  | _ => throw .attributeError      -- `config.get` on a non-mapping

/-! ## B102 exec_used -/
def b102 (e : Env) : M (Option PRaw) :=
  if e.qual == "exec".toList then pure (some { sev := .medium, conf := .high }) else pure none

/-! ## B104 / B108 (Str checks) -/
def b104 (e : Env) : M (Option PRaw) :=
  if e.node.strConst? == some "0.0.0.0".toList then
    pure (some { sev := .medium, conf := .medium }) else pure none

def defaultTmpDirs : List Str := ["/tmp".toList, "/var/tmp".toList, "/dev/shm".toList]

def b108 (cfg : CfgVal) (e : Env) : M (Option PRaw) :=
  let dirs := match cfg.get? "tmp_dirs" with
    | some v => v.strs
    | none => defaultTmpDirs
  match e.node.strConst? with
  | some s => if dirs.any (fun d => Str.startsWith s d) then
      pure (some { sev := .medium, conf := .medium }) else pure none
  | none => throw .attributeError

/-! ## B110 / B112 -/
def exceptHandler (id : String) (bodyKind : String) (cfg : CfgVal) (e : Env) : M (Option PRaw) := do
  let n := e.node
  let body := n.kidList "body"
  if body.length == 1 then
    let some cte := cfg.get? "check_typed_exception" | throw .keyError
    let typ := n.kid? "type"
    if !cte.truthy && typ.isSome && (typ.bind Node.nameId?) != some "Exception".toList then return none
    if (body.head?.map (·.isKind bodyKind)).getD false then
      return some { id := id.toList, sev := .low, conf := .high }
  return none

def b110 := exceptHandler "B110" "Pass"
def b112 := exceptHandler "B112" "Continue"

/-! ## B201 flask_debug_true -/
def b201 (e : Env) : M (Option PRaw) := do
  let some c := e.call? | throw .attributeError
  if importedLike e.st "flask" then
    if Str.endsWith e.qual ".run".toList then
      if (← c.checkArg "debug" [.str "True".toList]) == some true then
        return some { sev := .high, conf := .medium, loc := .kw ["debug"] }
  return none

/-! ## B601 paramiko_calls -/
def b601 (e : Env) : M (Option PRaw) :=
  if importedLike e.st "paramiko" && e.name == "exec_command".toList then
    pure (some { sev := .medium, conf := .medium }) else pure none

/-! ## B612 logging_config_insecure_listen -/
def b612 (e : Env) : M (Option PRaw) := do
  let some c := e.call? | throw .attributeError
  if e.qual == "logging.config.listen".toList then
    if !(← c.hasKw "verify") then
      return some { sev := .medium, conf := .high }
  return none

/-! ## B702 use_of_mako_templates -/
def b702 (e : Env) : M (Option PRaw) :=
  let parts := Str.splitOn '.' e.qual
  if parts.contains "mako".toList && Str.lastDot e.qual == "Template".toList then
    pure (some { sev := .medium, conf := .high }) else pure none

/-! ## B103 set_bad_file_permissions -/
def statDangerous (mode : Nat) : Bool := mode &&& 0o33 != 0     -- S_IWOTH|S_IWGRP|S_IXGRP|S_IXOTH = 2|16|8|1
def b103 (e : Env) : M (Option PRaw) := do
  let some c := e.call? | throw .attributeError
  if Str.isInfix "chmod".toList e.name then
    if c.args.length == 2 then
      let mode ← c.argAt 1
      match mode with
      | .int m =>
        -- Python's `&` on a negative int uses two's complement; literals are never negative
        if m ≥ 0 ∧ statDangerous m.toNat then
          let sev : Rank := if m.toNat &&& 2 != 0 then .high else .medium
          let _ ← c.argAt 0      -- `filename = context.get_call_arg_at_position(0)` (may raise)
          return some { sev := sev, conf := .high }
      | _ => pure ()
  return none

/-! ## The password-name pattern `RE_CANDIDATES` -/

/-- case folding of `re.IGNORECASE` as far as the letters of the pattern are concerned -/
def foldCase (c : Char) : Char :=
  if 'A' ≤ c ∧ c ≤ 'Z' then Char.ofNat (c.toNat + 32)
  else if c.toNat = 0x17F then 's' else if c.toNat = 0x212A then 'k' else c

def stripPrefix? (p : String) (s : Str) : Option Str :=
  if p.toList.isPrefixOf s then some (s.drop p.toList.length) else none

/-- all remainders after matching `pas+wo?r?d|pass(phrase)?|pwd|token|secrete?` as a prefix of the
(case-folded) string -/
def wordRests (s : Str) : List Str :=
  let alt1 : List Str :=
    match stripPrefix? "pas" s with
    | none => []
    | some r =>
      -- s+ : consume further 's' greedily or not; then w o? r? d
      let afterS : List Str := (List.range (r.takeWhile (· = 's')).length.succ).map (fun k => r.drop k)
      afterS.flatMap fun t =>
        match t with
        | 'w' :: t1 =>
          let o := match t1 with | 'o' :: t2 => [t1, t2] | _ => [t1]
          let rr := o.flatMap fun u => match u with | 'r' :: u2 => [u, u2] | _ => [u]
          rr.filterMap fun u => match u with | 'd' :: u2 => some u2 | _ => none
        | _ => []
  let alt2 := match stripPrefix? "pass" s with
    | none => []
    | some r => r :: (match stripPrefix? "phrase" r with | some r2 => [r2] | none => [])
  let alt3 := (stripPrefix? "pwd" s).toList
  let alt4 := (stripPrefix? "token" s).toList
  let alt5 := match stripPrefix? "secret" s with
    | none => []
    | some r => r :: (match r with | 'e' :: r2 => [r2] | _ => [])
  alt1 ++ alt2 ++ alt3 ++ alt4 ++ alt5

def atEnd (r : Str) : Bool := r.isEmpty || r == ['\n']

def suffixes : Str → List Str
  | [] => [[]]
  | c :: cs => (c :: cs) :: suffixes cs

/-- `RE_CANDIDATES.search(s)` -/
def isCandidate (s0 : Str) : Bool :=
  let s := s0.map foldCase
  let ws := wordRests s
  ws.any atEnd || ws.any (fun r => r.head? == some '_') ||
  (suffixes s).any fun t =>
    match t with
    | '_' :: t' => let w := wordRests t'; w.any atEnd || w.any (fun r => r.head? == some '_')
    | _ => false

def pwRaw : PRaw := { sev := .low, conf := .medium }

/-! ## B105 hardcoded_password_string -/
def b105 (e : Env) : M (Option PRaw) := do
  let n := e.node
  let some s := n.strConst? | throw .attributeError
  let some par := e.v.parent? | throw .attributeError
  let hit := some pwRaw
  if par.isKind "Assign" then
    let fired := (par.kidList "targets").any fun t =>
      (match t.nameId? with | some i => isCandidate i | none => false) ||
      (match t.attrName? with | some a => isCandidate a | none => false)
    return if fired then hit else none
  else if par.isKind "Subscript" && isCandidate s then
    match e.v.grandparent? with
    | some asg =>
      if asg.isKind "Assign" && ((asg.kid? "value").map Node.isStrConst).getD false then return hit
      else return none
    | none => throw .attributeError
  else if par.isKind "Compare" then
    let some left := par.kid? "left" | throw .attributeError
    let nm := match left.nameId? with | some i => some i | none => left.attrName?
    match nm with
    | some i =>
      if isCandidate i then
        match (par.kidList "comparators").head? with
        | some c0 => return if c0.isStrConst then hit else none
        | none => throw .indexError
      else return none
    | none => return none
  else return none

/-! ## B106 hardcoded_password_funcarg -/
def b106 (e : Env) : M (Option PRaw) := do
  let some c := e.call? | throw .attributeError
  let rec go : List Node → M (Option PRaw)
    | [] => pure none
    | kw :: rest =>
      if ((CallView.kwValue kw).map Node.isStrConst).getD false then
        match CallView.kwName kw with
        | none => go rest                   -- `**"literal"`: `kw.arg is None`, skipped
        | some a => if isCandidate a then pure (some pwRaw) else go rest
      else go rest
  go c.keywords

/-! ## B107 hardcoded_password_default -/
def b107 (e : Env) : M (Option PRaw) := do
  let some args := e.node.kid? "args" | throw .attributeError
  -- `args.posonlyargs + args.args`: defaults belong to the last positional parameters
  let params := args.kidList "posonlyargs" ++ args.kidList "args"
  let defaults := args.kidList "defaults"
  -- `[None] * (len(args) - len(defaults))`: a negative count gives no padding
  let pad := params.length - defaults.length
  let defs : List (Option Node) := List.replicate pad none ++ defaults.map some
  let rec go : List (Node × Option Node) → M (Option PRaw)
    | [] => pure none
    | (key, val) :: rest =>
      match val with
      | none => go rest
      | some v =>
        if v.constValue? == some .none then go rest
        else if v.isStrConst && isCandidate ((key.strAttr "arg").getD []) then
          pure (some pwRaw)
        else go rest
  go (params.zip defs)

def miscChecks (pc : PluginCfg) (fileName : Str) : List Check :=
  [ .plugin "B101" "assert_used" ["Assert".toList] (b101 (pc.get "assert_used") fileName),
    .plugin "B102" "exec_used" ["Call".toList] (b102),
    .plugin "B103" "set_bad_file_permissions" ["Call".toList] (b103),
    .plugin "B104" "hardcoded_bind_all_interfaces" ["Str".toList] (b104),
    .plugin "B105" "hardcoded_password_string" ["Str".toList] (b105),
    .plugin "B106" "hardcoded_password_funcarg" ["Call".toList] (b106),
    .plugin "B107" "hardcoded_password_default" ["FunctionDef".toList] (b107),
    .plugin "B108" "hardcoded_tmp_directory" ["Str".toList] (b108 (pc.get "hardcoded_tmp_directory")),
    .plugin "B110" "try_except_pass" ["ExceptHandler".toList] (b110 (pc.get "try_except_pass")),
    .plugin "B112" "try_except_continue" ["ExceptHandler".toList] (b112 (pc.get "try_except_continue")),
    .plugin "B201" "flask_debug_true" ["Call".toList] (b201),
    .plugin "B601" "paramiko_calls" ["Call".toList] (b601),
    .plugin "B612" "logging_config_insecure_listen" ["Call".toList] (b612),
    .plugin "B702" "use_of_mako_templates" ["Call".toList] b702 ]

end Bandit.Plugins
