import Bandit.Tester
import Bandit.Config
/-!
# B602–B607, B609 (`injection_shell.py`, `injection_wildcard.py`)
-/
namespace Bandit.Plugins
open Bandit

structure ShellCfg where
  subprocess : List Str
  shell : List Str
  noShell : List Str
  /-- `if config and ...` -/
  truthy : Bool := true
  hasSubprocess : Bool := true
  hasShell : Bool := true
  hasNoShell : Bool := true
deriving Inhabited

def ShellCfg.ofCfg (c : CfgVal) : ShellCfg :=
  { subprocess := (c.strList? "subprocess").getD [], shell := (c.strList? "shell").getD [],
    noShell := (c.strList? "no_shell").getD [], truthy := c.truthy,
    hasSubprocess := (c.get? "subprocess").isSome, hasShell := (c.get? "shell").isSome,
    hasNoShell := (c.get? "no_shell").isSome }

/-- `full_path_match.match(s)`: `^(?:[A-Za-z](?=\:)|[\\\/\.])` -/
def fullPathMatch (s : Str) : Bool :=
  match s with
  | c :: rest =>
    (c.isAlpha && c.toNat < 128 && rest.head? == some ':') || c == '\\' || c == '/' || c == '.'
  | [] => false

/-- `has_shell(context)`: Python object → truthiness as the code computes it.
`NameConstant` gives `val.value` itself (`True`/`False`/`None`), used only for its truthiness. -/
def shellValueTruth (val : Node) : Bool :=
  if val.isNumConst then
    match val.constValue? with
    | some (.int i) => i != 0
    | some (.rat n _) => n != 0
    | some (.flt _) => true
    | some (.cplx z) => !z
    | _ => true
  else if val.isKind "List" || val.isKind "Tuple" || val.isKind "Set" then !(val.kidList "elts").isEmpty
  else if val.isKind "Dict" then !(val.kidList "keys").isEmpty
  else if val.nameId? == some "False".toList || val.nameId? == some "None".toList then false
  else if val.isNameConst then
    match val.constValue? with | some (.bool b) => b | _ => false
  else true

/-- the loop over `keywords`: the last `shell=` keyword decides -/
def shellFromKeywords (kws : List Node) : Bool :=
  kws.foldl (fun r key =>
    if CallView.kwName key == some "shell".toList then
      match CallView.kwValue key with
      | some val => shellValueTruth val
      | none => true
    else r) false

def hasShell (c : CallView) : M Bool := do
  if !(← c.hasKw "shell") then return false
  return shellFromKeywords c.keywords

/-- `_evaluate_shell_call`: LOW iff the first positional argument is a plain string literal.
`context.node.args[0]` raises IndexError when there is none (callers guard with `len(call_args) > 0`). -/
def evalShellCall (c : CallView) : M Rank :=
  match c.args with
  | a :: _ => pure (if a.isStrConst then .low else .high)
  | [] => throw .indexError

def b602 (cfg : ShellCfg) (e : Env) : M (Option PRaw) := do
  let some c := e.call? | throw .attributeError
  if cfg.truthy then
    if !cfg.hasSubprocess then throw .keyError
    if cfg.subprocess.contains e.qual then
      if ← hasShell c then
        if (← c.callArgs).length > 0 then
          let sev ← evalShellCall c
          return some { sev := sev, conf := .high, loc := .kw ["shell"] }
  return none

def b603 (cfg : ShellCfg) (e : Env) : M (Option PRaw) := do
  let some c := e.call? | throw .attributeError
  if cfg.truthy then
    if !cfg.hasSubprocess then throw .keyError
    if cfg.subprocess.contains e.qual then
      if !(← hasShell c) then
        return some { sev := .low, conf := .high, loc := .kw ["shell"] }
  return none

def b604 (cfg : ShellCfg) (e : Env) : M (Option PRaw) := do
  let some c := e.call? | throw .attributeError
  if cfg.truthy then
    if !cfg.hasSubprocess then throw .keyError
    if !cfg.subprocess.contains e.qual then
      if ← hasShell c then
        return some { sev := .medium, conf := .low, loc := .kw ["shell"] }
  return none

def b605 (cfg : ShellCfg) (e : Env) : M (Option PRaw) := do
  let some c := e.call? | throw .attributeError
  if cfg.truthy then
    if !cfg.hasShell then throw .keyError
    if cfg.shell.contains e.qual then
      if (← c.callArgs).length > 0 then
        let sev ← evalShellCall c
        return some { sev := sev, conf := .high }
  return none

def b606 (cfg : ShellCfg) (e : Env) : M (Option PRaw) := do
  if cfg.truthy then
    if !cfg.hasNoShell then throw .keyError
    if cfg.noShell.contains e.qual then
      return some { sev := .low, conf := .medium }
  return none

/-- `node = args[0]; if isinstance(node, ast.List) and node.elts: node = node.elts[0]` -/
def exeNode (a : Node) : Node := if a.isKind "List" then ((a.kidList "elts").head?).getD a else a

def b607 (cfg : ShellCfg) (e : Env) : M (Option PRaw) := do
  let some c := e.call? | throw .attributeError
  if cfg.truthy then
    if (← c.callArgs).length > 0 then
      if !cfg.hasSubprocess then throw .keyError
      let inSub := cfg.subprocess.contains e.qual
      if !inSub && !cfg.hasShell then throw .keyError
      let inShell := cfg.shell.contains e.qual
      if !inSub && !inShell && !cfg.hasNoShell then throw .keyError
      if inSub || inShell || cfg.noShell.contains e.qual then
        match c.args with
        | [] => throw .indexError
        | a :: _ =>
          match (exeNode a).strConst? with
          | some s => if !fullPathMatch s then
              return some { sev := .low, conf := .high }
          | none => pure ()
  return none

/-- digits of a natural number -/
def natRepr (n : Nat) : Str := (toString n).toList
def intRepr (i : Int) : Str := (toString i).toList

/-- `f"{v}"` for a literal value, exact wherever a check can observe the difference:
only the presence of lower-case words and `*` is ever tested (B609), and number reprs
contain neither.  Strings are rendered as themselves at top level and `repr`-like when nested
(exact for printable ASCII without quotes/backslashes). -/
def pyFormat : PyVal → Str
  | .none => "None".toList
  | .int i => intRepr i
  | .rat _ _ => "0.0".toList
  | .flt r => r
  | .cplx _ => "0j".toList
  | .str s => s
  | .bytes b => 'b' :: '\'' :: (b.map fun n => Char.ofNat n) ++ ['\'']
  | .list xs => '[' :: fmtElems xs ++ [']']
  | .tuple xs => '(' :: fmtElems xs ++ [')']
  | .set _ => "{...}".toList
  | .dict _ => "{...}".toList
where
  fmtElems : List PyVal → Str
    | [] => []
    | [x] => reprVal x
    | x :: xs => reprVal x ++ ',' :: ' ' :: fmtElems xs
  reprVal : PyVal → Str
    | .str s => '\'' :: s ++ ['\'']
    | .list xs => '[' :: fmtElems xs ++ [']']
    | .tuple xs => '(' :: fmtElems xs ++ [')']
    | .none => "None".toList
    | .int i => intRepr i
    | .rat _ _ => "0.0".toList
    | .flt r => r
    | .cplx _ => "0j".toList
    | .bytes b => 'b' :: '\'' :: (b.map fun n => Char.ofNat n) ++ ['\'']
    | .set _ => "{...}".toList
    | .dict _ => "{...}".toList

def vulnerableFuncs : List Str := ["chown".toList, "chmod".toList, "tar".toList, "rsync".toList]

def b609 (cfg : ShellCfg) (e : Env) : M (Option PRaw) := do
  let some c := e.call? | throw .attributeError
  if !(cfg.hasShell && cfg.hasSubprocess) then return none
  let inShell := cfg.shell.contains e.qual
  let go ← if inShell then pure true
    else if cfg.subprocess.contains e.qual then do
      let r ← c.checkArg "shell" [.str "True".toList]
      pure (r == some true)
    else pure false
  if go then
    if c.args.length ≥ 1 then
      let a ← c.argAt 0
      let s : Str := match a with
        | .list xs => xs.flatMap (fun x => ' ' :: pyFormat x)
        | .str s => s
        | _ => []
      if !s.isEmpty then
        if vulnerableFuncs.any (fun f => Str.isInfix f s) && s.contains '*' then
          return some { sev := .high, conf := .medium, loc := .kw ["shell"] }
  return none

def shellChecks (cfg : ShellCfg) : List Check :=
  let k := ["Call".toList]
  [ .plugin "B602" "subprocess_popen_with_shell_equals_true" k (b602 cfg),
    .plugin "B603" "subprocess_without_shell_equals_true" k (b603 cfg),
    .plugin "B604" "any_other_function_with_shell_equals_true" k (b604 cfg),
    .plugin "B605" "start_process_with_a_shell" k (b605 cfg),
    .plugin "B606" "start_process_with_no_shell" k (b606 cfg),
    .plugin "B607" "start_process_with_partial_path" k (b607 cfg),
    .plugin "B609" "linux_commands_wildcard_injection" k (b609 cfg) ]

end Bandit.Plugins
