import Bandit.Tester
/-!
# B613 trojansource: bidirectional control characters anywhere in the decoded text
-/
namespace Bandit.Plugins
open Bandit

/-- first character of `table` (in table order) that occurs in `line`, with its 1-based column -/
def firstTableChar (table : List Char) (line : Str) : Option (Char × Nat) :=
  table.findSome? fun ch =>
    match line.idxOf? ch with
    | some i => some (ch, i + 1)
    | none => none

/-- `for lineno, line in enumerate(lines, 1): for char in BIDI: … return` — the first line that
contains any listed character; within it the first character *of the table* -/
def scanBidi (table : List Char) : Nat → List Str → Option (Nat × Nat × Char)
  | _, [] => none
  | ln, l :: ls =>
    match firstTableChar table l with
    | some (ch, col) => some (ln, col, ch)
    | none => scanBidi table (ln + 1) ls

def b613 (table : List Char) (e : Env) : M (Option PRaw) :=
  match scanBidi table 1 e.lines with
  | some (ln, col, _) => pure (some { sev := .high, conf := .medium, loc := .abs ln col })
  | none => pure none

def trojanChecks (table : List Char) : List Check :=
  [ .plugin "B613" "trojansource" ["File".toList] (b613 table) ]

end Bandit.Plugins
