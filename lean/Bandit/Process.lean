import Bandit.Basic
/-!
# Process-wide state shared by scanner objects (`BanditTestSet._load_tests`, `_load_builtins`)

`_load_tests` stores each plugin's settings **on the plugin function object** (`plugin._config = cfg`)
and `_load_builtins` stores the filtered blacklist data on the `blacklist` function
(`blacklisting.blacklist._config`, `._checks`).  Those objects are shared by every `BanditManager` of
the process: constructing a manager overwrites what earlier managers will read when they run.
Each manager keeps its own test *list* (`self.tests`), so which plugins run is per manager; only
the settings / blacklist data are global.
-/
namespace Bandit.Process

/-- a manager as constructed: its own plugin selection, and the settings / blacklist data it wrote -/
structure Mgr (σ β τ : Type) where
  tests : τ          -- per-manager (stored on the instance)
  settings : σ       -- written to the shared plugin function objects
  blData : β         -- written to the shared blacklist function object
deriving DecidableEq, Repr

/-- the shared state: `none` before any manager exists -/
structure Shared (σ β : Type) where
  settings : Option σ := none
  blData : Option β := none
deriving DecidableEq, Repr

inductive Op (σ β τ : Type) where
  | construct (m : Mgr σ β τ)
  | run (m : Mgr σ β τ)
deriving Repr

variable {σ β τ ρ : Type}

/-- what a scan computes from (tests, settings, blacklist data) — an arbitrary function -/
abbrev Scan (σ β τ ρ : Type) := τ → σ → β → ρ

/-- one operation: constructing overwrites the shared objects; running reads them -/
def step (scan : Scan σ β τ ρ) (s : Shared σ β) : Op σ β τ → Shared σ β × Option ρ
  | .construct m => ({ settings := some m.settings, blData := some m.blData }, none)
  | .run m => (s, some (scan m.tests (s.settings.getD m.settings) (s.blData.getD m.blData)))

/-- outputs of a whole history -/
def exec (scan : Scan σ β τ ρ) : Shared σ β → List (Op σ β τ) → List (Option ρ)
  | _, [] => []
  | s, op :: ops => let (s', out) := step scan s op; out :: exec scan s' ops

/-- what the property demands of `run m`: the scan with *m's own* configuration -/
def spec (scan : Scan σ β τ ρ) (m : Mgr σ β τ) : ρ := scan m.tests m.settings m.blData

/-- the shared state after a history -/
def after (s : Shared σ β) : List (Op σ β τ) → Shared σ β
  | [] => s
  | .construct m :: ops => after { settings := some m.settings, blData := some m.blData } ops
  | .run _ :: ops => after s ops

end Bandit.Process
