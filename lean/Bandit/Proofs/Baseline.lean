import Bandit.Baseline
/-!
# Helper lemmas for C07 (baseline filter)
-/
namespace Bandit.Baseline
open Spec

theorem eqv_iff {a b : Issue} : a.eqv b = true ↔ a.ident = b.ident := by
  simp only [Issue.eqv, Issue.ident, Bool.and_eq_true, beq_iff_eq, Ident.mk.injEq]
  constructor
  · rintro ⟨⟨⟨⟨⟨⟨h1, h2⟩, h3⟩, h4⟩, h5⟩, h6⟩, h7⟩; exact ⟨h1, h2, h3, h4, h5, h6, h7⟩
  · rintro ⟨h1, h2, h3, h4, h5, h6, h7⟩; exact ⟨⟨⟨⟨⟨⟨h1, h2⟩, h3⟩, h4⟩, h5⟩, h6⟩, h7⟩

theorem eqv_eq_decide (a b : Issue) : a.eqv b = decide (a.ident = b.ident) := by
  by_cases h : a.ident = b.ident
  · simp [h, eqv_iff.mpr h]
  · have : a.eqv b ≠ true := fun e => h (eqv_iff.mp e)
    simp [h, this]

theorem eqv_comm (a b : Issue) : a.eqv b = b.eqv a := by
  rw [eqv_eq_decide, eqv_eq_decide]
  by_cases h : a.ident = b.ident
  · simp [h]
  · have : ¬ b.ident = a.ident := fun e => h e.symm
    simp [h, this]

theorem eqv_refl (a : Issue) : a.eqv a = true := eqv_iff.mpr rfl

theorem countEq_eq_cnt (a : Issue) (l : List Issue) : countEq a l = cnt a.ident l := by
  unfold countEq cnt
  congr 1
  funext x
  exact eqv_eq_decide x a

theorem memEq_iff {a : Issue} {l : List Issue} : memEq a l = true ↔ ∃ x ∈ l, x.ident = a.ident := by
  simp only [memEq, List.any_eq_true, eqv_iff]

theorem cnt_pos_iff {id : Ident} {l : List Issue} : 0 < cnt id l ↔ ∃ x ∈ l, x.ident = id := by
  simp only [cnt, List.countP_pos_iff, decide_eq_true_eq]

theorem cnt_eq_zero_iff {id : Ident} {l : List Issue} : cnt id l = 0 ↔ ∀ x ∈ l, x.ident ≠ id := by
  simp only [cnt, List.countP_eq_zero, decide_eq_true_eq]

theorem memEq_eq_false_iff {a : Issue} {l : List Issue} : memEq a l = false ↔ cnt a.ident l = 0 := by
  rw [cnt_eq_zero_iff, ← Bool.not_eq_true, memEq_iff]
  constructor
  · intro h x hx e; exact h ⟨x, hx, e⟩
  · rintro h ⟨x, hx, e⟩; exact h x hx e

theorem cnt_pos_of_mem {r : Issue} {l : List Issue} (h : r ∈ l) : 0 < cnt r.ident l :=
  cnt_pos_iff.mpr ⟨r, h, rfl⟩

/-- the candidates of `u` are exactly the current occurrences of its identity -/
theorem candidates_eq_occurrences (u : Issue) (rs : List Issue) :
    rs.filter (fun i => u.eqv i) = occurrences u.ident rs := by
  unfold occurrences
  congr 1
  funext i
  rw [eqv_comm, eqv_eq_decide]

theorem occurrences_length (id : Ident) (rs : List Issue) : (occurrences id rs).length = cnt id rs := by
  simp [occurrences, cnt, List.countP_eq_length_filter]

/-- `_compare_baseline_results` as it is: keeps exactly the findings whose identity the baseline lacks -/
theorem compare_membership (b rs : List Issue) :
    compareBaseline .membership b rs = rs.filter (fun r => decide (cnt r.ident b = 0)) := by
  unfold compareBaseline
  apply List.filter_congr
  intro r _
  by_cases h : cnt r.ident b = 0
  · simp [h, memEq_eq_false_iff.mpr h]
  · have : memEq r b ≠ false := fun e => h (memEq_eq_false_iff.mp e)
    simp [h, this]

/-- the repaired comparison keeps exactly the findings whose identity occurs more often now -/
theorem compare_counting (b rs : List Issue) :
    compareBaseline .counting b rs = rs.filter (fun r => decide (MustReport b rs r.ident)) := by
  unfold compareBaseline MustReport
  apply List.filter_congr
  intro r _
  simp only [countEq_eq_cnt]

/-- both readings keep a sub-list of the results, decided per identity -/
def keepPred (v : Variant) (b rs : List Issue) (id : Ident) : Bool :=
  match v with
  | .membership => decide (cnt id b = 0)
  | .counting => decide (cnt id rs > cnt id b)

theorem compare_eq_filter (v : Variant) (b rs : List Issue) :
    compareBaseline v b rs = rs.filter (fun r => keepPred v b rs r.ident) := by
  cases v
  · rw [compare_membership]; rfl
  · rw [compare_counting]; rfl

theorem findCandidates_keys (u rs : List Issue) : (findCandidates u rs).map (·.1) = u := by
  simp [findCandidates, List.map_map, Function.comp_def]

theorem reported_filterCore (v : Variant) (b rs : List Issue) :
    (filterCore v b rs).reported = if b.isEmpty then rs else compareBaseline v b rs := by
  unfold filterCore
  split
  · rfl
  · simp [Outcome.reported, findCandidates_keys]

/-- with an empty baseline every identity has baseline count 0, so both readings keep everything -/
theorem compare_nil (v : Variant) (rs : List Issue) : compareBaseline v [] rs = rs := by
  rw [compare_eq_filter]
  apply List.filter_eq_self.mpr
  intro r hr
  cases v
  · simp [keepPred, cnt]
  · have := cnt_pos_of_mem hr
    simp only [keepPred, cnt, List.countP_nil, gt_iff_lt, decide_eq_true_eq] at this ⊢
    exact this

theorem reported_eq_compare (v : Variant) (b rs : List Issue) :
    (filterCore v b rs).reported = compareBaseline v b rs := by
  rw [reported_filterCore]
  split
  · rename_i h
    rw [List.isEmpty_iff.mp h, compare_nil]
  · rfl

theorem reported_eq_filter (v : Variant) (b rs : List Issue) :
    (filterCore v b rs).reported = rs.filter (fun r => keepPred v b rs r.ident) := by
  rw [reported_eq_compare, compare_eq_filter]

/-! ### counts depend on identities only -/

theorem cnt_eq_count_map (id : Ident) (l : List Issue) : cnt id l = (l.map Issue.ident).count id := by
  induction l with
  | nil => rfl
  | cons x xs ih =>
    simp only [cnt, List.countP_cons, List.map_cons, List.count_cons] at ih ⊢
    rw [ih]
    by_cases h : x.ident = id <;> simp [h]

theorem keepPred_congr {v : Variant} {b b' rs rs' : List Issue}
    (hb : b.map Issue.ident = b'.map Issue.ident) (hr : rs.map Issue.ident = rs'.map Issue.ident) (id : Ident) :
    keepPred v b rs id = keepPred v b' rs' id := by
  cases v <;> simp only [keepPred, cnt_eq_count_map, hb, hr]

/-- filtering by a predicate on the identity commutes with taking identities -/
theorem map_ident_filter (p : Ident → Bool) (l : List Issue) :
    (l.filter (fun r => p r.ident)).map Issue.ident = (l.map Issue.ident).filter p := by
  induction l with
  | nil => rfl
  | cons x xs ih =>
    simp only [List.filter_cons, List.map_cons]
    split <;> simp [ih]

/-! ### dict round trip -/

theorem cwe_roundtrip (n : Nat) : cweFromDict (cweAsDict n) = n := by
  unfold cweAsDict cweFromDict
  by_cases h : n = 0 <;> simp [h]

theorem fromDict_asDict (ser : IssueDict → IssueDict) (hs : JsonFaithful ser) (i : Issue) :
    fromDict (ser (i.asDict true)) =
      .ok { i with col := (ser (i.asDict true)).col_offset?.getD 0,
                   endCol := (ser (i.asDict true)).end_col_offset?.getD 0 } := by
  unfold fromDict
  simp only [hs.filename, hs.test_name, hs.test_id, hs.issue_severity, hs.issue_cwe, hs.issue_confidence,
    hs.issue_text, hs.line_number, hs.line_range, hs.code]
  simp [Issue.asDict, req, bind, Except.bind, pure, Except.pure, cwe_roundtrip]

theorem mapM_fromDict_ok (ser : IssueDict → IssueDict) (hs : JsonFaithful ser) (rs : List Issue) :
    ∃ l, (rs.map (fun i => ser (i.asDict true))).mapM fromDict = .ok l ∧
      l.map Issue.ident = rs.map Issue.ident := by
  induction rs with
  | nil => exact ⟨[], rfl, rfl⟩
  | cons r rs ih =>
    obtain ⟨l, hl, hid⟩ := ih
    refine ⟨{ r with col := (ser (r.asDict true)).col_offset?.getD 0,
                     endCol := (ser (r.asDict true)).end_col_offset?.getD 0 } :: l, ?_, ?_⟩
    · simp only [List.map_cons, List.mapM_cons, fromDict_asDict ser hs r, hl]
      rfl
    · simp only [List.map_cons, hid, Issue.ident]

/-! ### threshold filter -/

theorem thresholdFilter_sublist {ranking : List Str} {s c : Str} {rs frs : List Issue}
    (h : thresholdFilter ranking s c rs = .ok frs) : frs.Sublist rs := by
  induction rs generalizing frs with
  | nil =>
    simp only [thresholdFilter, pure, Except.pure, Except.ok.injEq] at h
    subst h; exact List.Sublist.refl _
  | cons r rs ih =>
    simp only [thresholdFilter, bind, Except.bind] at h
    split at h
    · cases h
    · rename_i k _
      split at h
      · cases h
      · rename_i rest hrest
        simp only [pure, Except.pure, Except.ok.injEq] at h
        subst h
        have := ih hrest
        cases k
        · exact this.cons _
        · exact this.cons_cons _

end Bandit.Baseline

namespace Bandit.Baseline
open Spec

theorem filterResults_ok {v : Variant} {ranking : List Str} {b rs frs : List Issue} {s c : Str}
    (hf : thresholdFilter ranking s c rs = .ok frs) :
    filterResults v ranking b rs s c = .ok (filterCore v b frs) := by
  simp [filterResults, hf, bind, Except.bind, pure, Except.pure]

theorem mem_findCandidates {u rs : List Issue} {e : Issue × List Issue} (h : e ∈ findCandidates u rs) :
    e.1 ∈ u ∧ e.2 = rs.filter (fun i => e.1.eqv i) := by
  simp only [findCandidates, List.mem_map] at h
  obtain ⟨x, hx, rfl⟩ := h
  exact ⟨hx, rfl⟩

theorem compare_sub {v : Variant} {b rs : List Issue} {r : Issue} (h : r ∈ compareBaseline v b rs) : r ∈ rs := by
  rw [compare_eq_filter] at h
  exact (List.mem_filter.mp h).1

theorem cnt_perm {b b' : List Issue} (h : b.Perm b') (id : Ident) : cnt id b = cnt id b' := by
  unfold cnt; exact h.countP_eq _

theorem occurrences_map_ident (id : Ident) (rs : List Issue) :
    (occurrences id rs).map Issue.ident = (rs.map Issue.ident).filter (fun j => decide (j = id)) := by
  unfold occurrences
  exact map_ident_filter (fun j => decide (j = id)) rs

/-- the identity-level outcome is a function of the two identity lists -/
def coreI (v : Variant) (bI rI : List Ident) : Bool × List (Ident × List Ident) :=
  let keep : Ident → Bool := fun id => match v with
    | .membership => decide (bI.count id = 0)
    | .counting => decide (rI.count id > bI.count id)
  if bI.isEmpty then (false, rI.map fun id => (id, []))
  else (true, (rI.filter keep).map fun id => (id, rI.filter (fun j => decide (j = id))))

theorem idents_filterCore (v : Variant) (b rs : List Issue) :
    (filterCore v b rs).idents = coreI v (b.map Issue.ident) (rs.map Issue.ident) := by
  unfold filterCore coreI
  have hemp : (b.map Issue.ident).isEmpty = b.isEmpty := by cases b <;> rfl
  rw [hemp]
  split
  · simp [Outcome.idents, List.map_map, Function.comp_def]
  · simp only [Outcome.idents, Prod.mk.injEq, true_and]
    rw [compare_eq_filter]
    simp only [findCandidates, List.map_map, Function.comp_def]
    have hk : (fun id => match v with
        | .membership => decide ((b.map Issue.ident).count id = 0)
        | .counting => decide ((rs.map Issue.ident).count id > (b.map Issue.ident).count id))
        = keepPred v b rs := by
      funext id
      cases v <;> simp only [keepPred, cnt_eq_count_map]
    rw [hk, ← map_ident_filter (keepPred v b rs) rs, List.map_map]
    apply List.map_congr_left
    intro r _
    simp only [Function.comp_def, Prod.mk.injEq, true_and]
    rw [candidates_eq_occurrences, occurrences_map_ident]

/-! ### witnesses (kernel-evaluated in `Props.C07`) -/
namespace Witness

/-- `password = 'a'` on line 1 of `f.py` as bandit reports it -/
def x : Issue :=
  { text := "Possible hardcoded password: 'a'".toList, severity := "LOW".toList, cwe := 259,
    confidence := "MEDIUM".toList, fname := "f.py".toList, test := "hardcoded_password_string".toList,
    testId := "B105".toList, lineno := 1, linerange := [1], col := 11, endCol := 14,
    code := "1 password = 'a'\n".toList }

/-- the same statement duplicated on line 2 -/
def x2 : Issue := { x with lineno := 2, linerange := [2], code := "1 password = 'a'\n2 password = 'a'\n".toList }

/-- `x` after three blank lines were inserted above it -/
def xMoved : Issue := { x with lineno := 4, linerange := [4], code := "3 \n4 password = 'a'\n".toList }

/-- a finding with another message (`password = 'b'`) -/
def y : Issue := { x with text := "Possible hardcoded password: 'b'".toList, lineno := 3, linerange := [3] }

/-- a MEDIUM/HIGH finding of another test in the same file -/
def z : Issue :=
  { text := "Use of possibly insecure function - consider using safer ast.literal_eval.".toList,
    severity := "MEDIUM".toList, cwe := 78, confidence := "HIGH".toList, fname := "f.py".toList,
    test := "blacklist".toList, testId := "B307".toList, lineno := 5, linerange := [5] }

def ranking : List Str := ["UNDEFINED".toList, "LOW".toList, "MEDIUM".toList, "HIGH".toList]

end Witness

end Bandit.Baseline
