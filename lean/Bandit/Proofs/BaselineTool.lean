import Bandit.BaselineTool
/-!
# Helper lemmas about the `bandit-baseline` state machine (used by `Props/C20.lean`)
-/
namespace Bandit.BaselineTool
open Spec

theorem initializeOk_iff (pre : Pre) (r : Repo) :
    initializeOk pre r = true ↔
      pre.gitModule = true ∧ pre.kind = .root ∧ r.dirty = false ∧ ¬ (pre.fmt = .file ∧ r.report = true) ∧
      r.cwdTmpFile = false ∧ pre.dashO = false := by
  obtain ⟨u, g, k, f, o, p⟩ := pre
  obtain ⟨h, b, w, d, pr, t, rep, ct⟩ := r
  cases g <;> cases k <;> cases f <;> cases o <;> cases d <;> cases rep <;> cases ct <;> simp [initializeOk]

theorem initializeOk_false_of_mustRefuse {pre : Pre} {r : Repo} (h : MustRefuse pre r) :
    initializeOk pre r = false := by
  cases hi : initializeOk pre r with
  | false => rfl
  | true =>
    obtain ⟨_, hk, hd, hrep, hct, ho⟩ := (initializeOk_iff pre r).1 hi
    rcases h with h | h | h | h | h
    · simp [hd] at h
    · exact absurd hk h
    · simp [ho] at h
    · exact absurd h hrep
    · simp [hct] at h

theorem restored_refl (fmt : Fmt) (r : Repo) : Restored fmt r r :=
  ⟨rfl, rfl, rfl, rfl, rfl, rfl, rfl, Or.inl rfl⟩

/-- the heart of C20: what `with baseline_setup(): <two steps>` leaves behind -/
theorem withSetup_restored (sh : Shape) (p : Commit) (fmt : Fmt) (sc : Scenario) (r : Repo)
    (hwf : r.WF) (hd : r.dirty = false) (hp : r.precious = false)
    (h : (sh = .fixed ∧ Recoverable sc) ∨ Quiet sc) :
    Restored fmt r (withSetup sh r.head p fmt sc r).1 := by
  obtain ⟨co1, run1, co2, run2, co3⟩ := sc
  obtain ⟨hd', b, w, d, pr, t, rep, ct⟩ := r
  obtain ⟨hw, hb⟩ := hwf
  simp only at hw hb hd hp
  subst hw hd hp
  have hb' : Option.map (fun _ => w) b = b := by
    cases b with
    | none => rfl
    | some c => simp [hb c rfl]
  rcases h with ⟨rfl, h⟩ | h <;>
  cases co1 <;> cases h1 : run1.result <;> cases co2 <;> cases h2 : run2.result <;> cases co3 <;>
  simp_all [withSetup, runSteps, steps, cleanupReset, Repo.resetHard, Repo.rmtree, Restored,
       Recoverable, Quiet, Returns, Shape.fixed, Except.isOk, Except.toBool, Function.comp_def] <;>
  (cases fmt <;> cases rep <;> cases hr : run2.reports <;> simp)

/-- the value `return_code` has when the `with` block is left normally -/
theorem withSetup_status (sh : Shape) (cur p : Commit) (fmt : Fmt) (sc : Scenario) (r : Repo) (c : Int)
    (h : ComparisonStatus sc c) (h3 : sc.co3 = .ok) :
    (withSetup sh cur p fmt sc r).2 = .ok (some c) := by
  obtain ⟨co1, run1, co2, run2, co3⟩ := sc
  obtain ⟨h1, hr1, h2, hr2⟩ := h
  simp only at h1 h2 h3 hr2
  subst h1 h2 h3
  cases hres : run1.result with
  | error e => simp [Returns, hres, Except.isOk, Except.toBool] at hr1
  | ok a => simp [withSetup, runSteps, steps, cleanupReset, hres, hr2]

theorem recoverable_of_faults_le_one {sc : Scenario} (h : faults sc ≤ 1) : Recoverable sc := by
  obtain ⟨co1, run1, co2, run2, co3⟩ := sc
  unfold faults at h
  unfold Recoverable Quiet
  cases co1 <;> cases co2 <;> cases co3 <;> simp_all <;>
  (by_cases h1 : Returns run1 <;> by_cases h2 : Returns run2 <;> simp_all)

end Bandit.BaselineTool
