import Bandit.Proofs.Scan
/-!
# Helper lemmas for C01 (blacklist reporting)
-/
namespace Bandit

/-- No nosec comment applies to any line of the range. -/
def NoNosecOn (nm : NosecMap) (range : List Nat) : Prop := ∀ l ∈ range, nm.get l = none

theorem getNosec_none {nm : NosecMap} {range : List Nat} (h : NoNosecOn nm range) : getNosec nm range = none := by
  unfold getNosec
  induction range with
  | nil => rfl
  | cons l ls ih =>
    simp only [List.findSome?_cons]
    rw [h l (by simp)]
    exact ih (fun l' hl' => h l' (by simp [hl']))

/-- A raw result without a check-supplied line, in a context free of nosec comments, is reported
with the context's location. -/
theorem emit_plain {nm : NosecMap} {ctx : Ctx} {raw : Raw} {l c : Nat}
    (hn : NoNosecOn nm ctx.linerange) (hraw : raw.lineno = none) (hcol : raw.col = none)
    (hl : ctx.lineno = some l) (hc : ctx.col = some c) (hrange : raw.range = none := by rfl) :
    emit nm ctx raw = .ok (.finding ⟨raw.id, raw.sev, raw.conf, l, ctx.linerange, c⟩) := by
  simp [emit, nosecsFor, hraw, hcol, hl, hc, hrange, getNosec_none hn, bind, Except.bind, pure, Except.pure]

theorem isKind_of_kind {n : Node} {k : String} (h : n.kind = k.toList) : n.isKind k = true := by
  simp [Node.isKind, h]

theorem not_isKind_of_kind {n : Node} {k k' : String} (h : n.kind = k.toList) (hne : k.toList ≠ k'.toList) :
    n.isKind k' = false := by
  simp [Node.isKind, h, hne]

/-- dispatch of a node that is not one of the specially handled kinds -/
theorem dispatch_plain {v : Visit} {k : String} (hk : v.node.kind = k.toList)
    (h1 : k.toList ≠ "ClassDef".toList) (h2 : k.toList ≠ "Constant".toList) (h3 : k.toList ≠ "ImportFrom".toList) :
    dispatch v = some (k.toList, ⟨v.node.line?, v.node.col?, linerange v.node v.sib⟩) := by
  simp [dispatch, not_isKind_of_kind hk h1, not_isKind_of_kind hk h2, not_isKind_of_kind hk h3, hk]

theorem blacklistCheck_run {t : BlTables} {bc : Check} (h : blacklistCheck t = some bc) :
    bc.run = blacklistRun t ∧ bc.kinds = t.map (·.1) ∧ bc.name = "blacklist".toList := by
  unfold blacklistCheck at h
  split at h
  · cases h
  · cases h; exact ⟨rfl, rfl, rfl⟩

theorem blacklistCheck_usesPos {t : BlTables} {bc : Check} (h : blacklistCheck t = some bc) : bc.usesPos = false := by
  unfold blacklistCheck at h
  split at h
  · cases h
  · cases h; rfl

theorem forCheck_erased {env : Env} {c : Check} (h : c.usesPos = false) :
    env.forCheck c = env.blind := by
  simp [Env.forCheck, h]

theorem rulesFor_mem_kinds {t : BlTables} {kind : Str} {r : Rule} (h : r ∈ t.rulesFor kind) :
    kind ∈ t.map (·.1) := by
  unfold BlTables.rulesFor at h
  cases hf : t.find? (·.1 == kind) with
  | none => simp [hf] at h
  | some kv =>
    have hm := List.mem_of_find?_eq_some hf
    have hp := List.find?_some hf
    simp only [beq_iff_eq] at hp
    exact List.mem_map.mpr ⟨kv, hm, hp⟩

theorem firstCallRule_mem {rules : List Rule} {q : Str} {r : Rule} (h : firstCallRule rules q = some r) :
    r ∈ rules ∧ q ∈ r.qualnames := by
  unfold firstCallRule at h
  refine ⟨List.mem_of_find?_eq_some h, ?_⟩
  have := List.find?_some h
  simpa [List.any_eq_true] using this

theorem firstImportRule_mem {rules : List Rule} {names : List Str} {r : Rule}
    (h : firstImportRule rules names = some r) :
    r ∈ rules ∧ ∃ nm ∈ names, ∃ qn ∈ r.qualnames, Str.startsWith nm qn = true := by
  unfold firstImportRule at h
  refine ⟨List.mem_of_find?_eq_some h, ?_⟩
  have := List.find?_some h
  simpa [List.any_eq_true] using this

/-- The event produced by a check that returns a plain raw finding in a nosec-free context. -/
theorem fillId_named {c : Check} {raw : Raw} (h : raw.id ≠ []) : fillId c raw = raw := by
  unfold fillId
  cases hr : raw.id with
  | nil => exact absurd hr h
  | cons a as => simp

theorem runCheck_plain {nm : NosecMap} {env : Env} {c : Check} {raw : PRaw} {l col : Nat}
    (hrun : c.run (env.forCheck c) = .ok (some raw)) (hid : raw.id ≠ [])
    (hn : NoNosecOn nm env.ctx.linerange) (hloc : raw.loc = .ctx)
    (hl : env.ctx.lineno = some l) (hc : env.ctx.col = some col) :
    runCheck nm env c = [.finding ⟨raw.id, raw.sev, raw.conf, l, env.ctx.linerange, col⟩] := by
  have hres : raw.resolve env.v = { id := raw.id, sev := raw.sev, conf := raw.conf } := by
    simp [PRaw.resolve, hloc]
  have hid' : (raw.resolve env.v).id ≠ [] := by rw [hres]; exact hid
  have hfill : fillId c (raw.resolve env.v) = { id := raw.id, sev := raw.sev, conf := raw.conf } := by
    rw [fillId_named hid', hres]
  simp only [runCheck, hrun, hfill]
  rw [emit_plain (raw := { id := raw.id, sev := raw.sev, conf := raw.conf }) hn rfl rfl hl hc]

theorem mem_runVisit {checks : List Check} {nm : NosecMap} {lines : List Str} {s : VState} {v : Visit}
    {kind : Str} {ctx : Ctx} {c : Check} {e : Event}
    (hd : dispatch v = some (kind, ctx)) (hc : c ∈ checks) (hk : kind ∈ c.kinds)
    (he : e ∈ runCheck nm { v := v, st := s, ctx := ctx } c) :
    e ∈ runVisit checks nm lines s v := by
  simp only [runVisit, hd, List.mem_flatMap]
  refine ⟨c, ?_, he⟩
  simp [checksFor, hc, hk]

end Bandit

namespace Bandit
theorem blacklistCallName_plain (e : Env) (c : CallView)
    (hni : c.func.nameId? ≠ some "__import__".toList)
    (h1 : e.qual ≠ "importlib.import_module".toList) (h2 : e.qual ≠ "importlib.__import__".toList) :
    blacklistCallName e c = .ok (some e.qual) := by
  unfold blacklistCallName
  have a : (c.func.nameId? == some "__import__".toList) = false := by
    rw [beq_eq_false_iff_ne]; exact hni
  have b : (e.qual == "importlib.import_module".toList) = false := by
    rw [beq_eq_false_iff_ne]; exact h1
  have d : (e.qual == "importlib.__import__".toList) = false := by
    rw [beq_eq_false_iff_ne]; exact h2
  rw [a]
  simp only [Bool.false_eq_true, if_false]
  rw [b, d]
  simp only [Bool.or_self, Bool.false_eq_true, if_false]
  rfl

theorem blacklistRun_call {t : BlTables} {e : Env} {c : CallView} {r : Rule}
    (hkind : e.node.kind = "Call".toList) (hc : e.node.asCall? = some c)
    (hni : c.func.nameId? ≠ some "__import__".toList)
    (h1 : e.qual ≠ "importlib.import_module".toList) (h2 : e.qual ≠ "importlib.__import__".toList)
    (hr : firstCallRule (t.rulesFor "Call".toList) e.qual = some r) :
    blacklistRun t e = .ok (some { id := r.id, sev := r.level, conf := .high }) := by
  unfold blacklistRun
  have hk : e.node.isKind "Call" = true := isKind_of_kind hkind
  simp only [hk, if_true, hc]
  rw [blacklistCallName_plain e c hni h1 h2]
  simp only [bind, Except.bind, Option.bind, hkind, hr]
  rfl

theorem blacklistRun_call_silent {t : BlTables} {e : Env} {c : CallView}
    (hkind : e.node.kind = "Call".toList) (hc : e.node.asCall? = some c)
    (hni : c.func.nameId? ≠ some "__import__".toList)
    (h1 : e.qual ≠ "importlib.import_module".toList) (h2 : e.qual ≠ "importlib.__import__".toList)
    (hr : firstCallRule (t.rulesFor "Call".toList) e.qual = none) :
    blacklistRun t e = .ok none := by
  unfold blacklistRun
  have hk : e.node.isKind "Call" = true := isKind_of_kind hkind
  simp only [hk, if_true, hc]
  rw [blacklistCallName_plain e c hni h1 h2]
  simp only [bind, Except.bind, Option.bind, hkind, hr]
  rfl
end Bandit
