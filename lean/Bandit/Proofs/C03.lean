import Bandit.Cli
import Bandit.Gen.Cli
/-!
# Helper lemmas for C03 (thresholds, filter, exit status)
-/
namespace Bandit.Cli
open Bandit

abbrev G : Tables := Gen.cliTables

instance {ε α} [DecidableEq ε] [DecidableEq α] : DecidableEq (Except ε α)
  | .ok a, .ok b => if h : a = b then isTrue (h ▸ rfl) else isFalse (fun h' => h (Except.ok.inj h'))
  | .error a, .error b => if h : a = b then isTrue (h ▸ rfl) else isFalse (fun h' => h (Except.error.inj h'))
  | .ok _, .error _ => isFalse (fun h => nomatch h)
  | .error _, .ok _ => isFalse (fun h => nomatch h)

/-- the function the baseline comparison applies to the threshold-filtered list (`id` without baseline) -/
def World.post (w : World) : List Issue → List Issue :=
  match w.baselineFilter with
  | none => id
  | some bf => bf

/-! ## `Issue.filter` over the generated RANKING is the rank order -/

theorem passesStr_gen (tS tC s c : Rank) :
    passesStr G.ranking tS.name.toList tC.name.toList s.name.toList c.name.toList
      = .ok (decide (tS ≤ s) && decide (tC ≤ c)) := by
  cases tS <;> cases tC <;> cases s <;> cases c <;> decide +kernel

theorem passes_gen (tS tC : Rank) (i : Issue) :
    passes G.ranking tS.name.toList tC.name.toList i = .ok (Spec.meets tS tC i) :=
  passesStr_gen tS tC i.sev i.conf

theorem filterIssues_gen (tS tC : Rank) (xs : List Issue) :
    filterIssues G.ranking tS.name.toList tC.name.toList xs = .ok (Spec.reported tS tC xs) := by
  induction xs with
  | nil => rfl
  | cons i is ih =>
    simp only [filterIssues, passes_gen, ih, bind, Except.bind, pure, Except.pure, Spec.reported, List.filter_cons]

theorem filterResults_gen (tS tC : Rank) (w : World) :
    filterResults G.ranking w.baselineFilter tS.name.toList tC.name.toList w.findings
      = .ok (w.post (Spec.reported tS tC w.findings)) := by
  simp only [filterResults, filterIssues_gen, bind, Except.bind, World.post]
  cases w.baselineFilter <;> rfl

/-! ## Threshold spellings over the generated tables -/

theorem ofName_cases {n : Str} {r : Rank} (h : Spec.ofName n = some r) :
    (n = "all".toList ∧ r = .undefined) ∨ (n = "low".toList ∧ r = .low)
    ∨ (n = "medium".toList ∧ r = .medium) ∨ (n = "high".toList ∧ r = .high) := by
  unfold Spec.ofName at h
  split at h
  · left; exact ⟨‹_›, (Option.some.inj h).symm⟩
  split at h
  · right; left; exact ⟨‹_›, (Option.some.inj h).symm⟩
  split at h
  · right; right; left; exact ⟨‹_›, (Option.some.inj h).symm⟩
  split at h
  · right; right; right; exact ⟨‹_›, (Option.some.inj h).symm⟩
  · cases h

theorem ofCount_cases {k : Nat} {r : Rank} (h : Spec.ofCount k = some r) :
    (k = 0 ∧ r = .undefined) ∨ (k = 1 ∧ r = .low) ∨ (k = 2 ∧ r = .medium) ∨ (k = 3 ∧ r = .high) := by
  match k, h with
  | 0, h => left; exact ⟨rfl, (Option.some.inj h).symm⟩
  | 1, h => right; left; exact ⟨rfl, (Option.some.inj h).symm⟩
  | 2, h => right; right; left; exact ⟨rfl, (Option.some.inj h).symm⟩
  | 3, h => right; right; right; exact ⟨rfl, (Option.some.inj h).symm⟩
  | _ + 4, h => cases h

/-- severity: whatever spelling the property recognises, `main()` arrives at that rank's name -/
theorem sev_threshold_gen {flags : Nat} {name : Option Str} {r : Rank}
    (h : Spec.threshold flags name = some r) :
    thresholdOf G.ranking G.sevOffset (.int (levelArg G.sevChain G.sevDefault flags name))
      = .ok r.name.toList := by
  unfold Spec.threshold at h
  cases name with
  | none =>
    rcases ofCount_cases h with ⟨rfl, rfl⟩ | ⟨rfl, rfl⟩ | ⟨rfl, rfl⟩ | ⟨rfl, rfl⟩ <;> decide +kernel
  | some n =>
    simp only at h
    split at h
    · subst_vars
      rcases ofName_cases h with ⟨rfl, rfl⟩ | ⟨rfl, rfl⟩ | ⟨rfl, rfl⟩ | ⟨rfl, rfl⟩ <;> decide +kernel
    · cases h

theorem conf_threshold_gen {flags : Nat} {name : Option Str} {r : Rank}
    (h : Spec.threshold flags name = some r) :
    thresholdOf G.ranking G.confOffset (.int (levelArg G.confChain G.confDefault flags name))
      = .ok r.name.toList := by
  unfold Spec.threshold at h
  cases name with
  | none =>
    rcases ofCount_cases h with ⟨rfl, rfl⟩ | ⟨rfl, rfl⟩ | ⟨rfl, rfl⟩ | ⟨rfl, rfl⟩ <;> decide +kernel
  | some n =>
    simp only at h
    split at h
    · subst_vars
      rcases ofName_cases h with ⟨rfl, rfl⟩ | ⟨rfl, rfl⟩ | ⟨rfl, rfl⟩ | ⟨rfl, rfl⟩ <;> decide +kernel
    · cases h

/-! ## The INI merge -/

theorem iniInert_elim {T : Tables} {a : Args} (h : Spec.iniInert T a = true) :
    ∃ il ic, iniVal T.iniAsInt a.iniLevel = .ok il ∧ iniVal T.iniAsInt a.iniConfidence = .ok ic
      ∧ logOptionSource T.sevDefault (sevArg T a) il = .int (sevArg T a)
      ∧ logOptionSource T.confDefault (confArg T a) ic = .int (confArg T a) := by
  unfold Spec.iniInert at h
  cases h1 : iniVal T.iniAsInt a.iniLevel with
  | error c => simp [h1] at h
  | ok il =>
    cases h2 : iniVal T.iniAsInt a.iniConfidence with
    | error c => simp [h1, h2] at h
    | ok ic =>
      simp only [h1, h2, Bool.and_eq_true, beq_iff_eq] at h
      exact ⟨il, ic, rfl, rfl, h.1, h.2⟩

/-- the raw-string variant never raises while merging -/
theorem iniVal_raw (s : Option Str) : ∃ v, iniVal false s = .ok v := by
  cases s with
  | none => exact ⟨_, rfl⟩
  | some s =>
    simp only [iniVal]
    split
    · exact ⟨_, rfl⟩
    · exact ⟨_, rfl⟩

/-- with the raw-string variant the merge yields the command-line value or a string, never another int -/
theorem logOptionSource_raw_int {d arg n : Nat} {s : Option Str} {v : IniVal}
    (hv : iniVal false s = .ok v) (h : logOptionSource d arg v = .int n) : n = arg := by
  have hv' : v = .absent ∨ ∃ t, v = .str t := by
    cases s with
    | none => left; simpa [iniVal] using hv.symm
    | some t =>
      simp only [iniVal] at hv
      split at hv
      · left; simpa using hv.symm
      · right; exact ⟨t, by simpa using hv.symm⟩
  unfold logOptionSource at h
  rcases hv' with rfl | ⟨t, rfl⟩
  · split at h <;> simp_all
  · split at h <;> simp_all

/-- both INI values can be evaluated (always so when they are passed as raw strings) -/
def iniConvertible (T : Tables) (a : Args) : Bool :=
  match iniVal T.iniAsInt a.iniLevel, iniVal T.iniAsInt a.iniConfidence with
  | .ok _, .ok _ => true
  | _, _ => false

theorem iniConvertible_raw {T : Tables} (a : Args) (h : T.iniAsInt = false) : iniConvertible T a = true := by
  unfold iniConvertible
  rw [h]
  obtain ⟨v1, h1⟩ := iniVal_raw a.iniLevel
  obtain ⟨v2, h2⟩ := iniVal_raw a.iniConfidence
  simp [h1, h2]

/-! ## The ladder of error exits -/

theorem errors_none_iff (T : Tables) (a : Args) (w : World) :
    Spec.isError T a w = false ↔ (parseError T a = none ∧ setupError T a w = none) := by
  unfold parseError setupError Spec.isError
  constructor
  · intro h
    simp only [Bool.or_eq_false_iff] at h
    obtain ⟨⟨⟨⟨⟨⟨⟨⟨h1, h2⟩, h3⟩, h4⟩, h5⟩, h6⟩, h7⟩, h8⟩, h9⟩ := h
    cases hp : a.profile <;> cases hb : a.baseline <;> simp_all
  · rintro ⟨hp, hs⟩
    repeat' (split at hp; · cases hp)
    repeat' (split at hs; · cases hs)
    simp_all

theorem error_cases {T : Tables} {a : Args} {w : World} (h : Spec.isError T a w = true) :
    (∃ d, parseError T a = some d) ∨ (parseError T a = none ∧ ∃ d, setupError T a w = some d) := by
  cases hp : parseError T a with
  | some d => exact .inl ⟨d, rfl⟩
  | none =>
    right
    refine ⟨rfl, ?_⟩
    cases hs : setupError T a w with
    | some d => exact ⟨d, rfl⟩
    | none =>
      rw [(errors_none_iff T a w).2 ⟨hp, hs⟩] at h
      cases h

/-! ## The characterisation of a run without error -/

theorem run_ok {a : Args} {w : World} {tS tC : Rank}
    (hse : setupError G a w = none)
    (hs : Spec.threshold a.sevFlags a.sevName = some tS)
    (hc : Spec.threshold a.confFlags a.confName = some tC)
    (ht : templateError a = false) :
    run G a w (.int (sevArg G a)) (.int (confArg G a))
      = .exit (Spec.exitStatus a.exitZero (w.post (Spec.reported tS tC w.findings)))
              (w.post (Spec.reported tS tC w.findings)) := by
  unfold run sevArg confArg
  rw [hse]
  simp only [sev_threshold_gen hs, conf_threshold_gen hc, filterResults_gen, ht]
  unfold Spec.exitStatus
  cases hz : a.exitZero <;> cases hr : w.post (Spec.reported tS tC w.findings) <;> simp

theorem main_ok {a : Args} {w : World} {tS tC : Rank}
    (he : Spec.isError G a w = false)
    (hi : Spec.iniInert G a = true)
    (hs : Spec.threshold a.sevFlags a.sevName = some tS)
    (hc : Spec.threshold a.confFlags a.confName = some tC)
    (ht : templateError a = false) :
    main G a w = .exit (Spec.exitStatus a.exitZero (w.post (Spec.reported tS tC w.findings)))
                       (w.post (Spec.reported tS tC w.findings)) := by
  obtain ⟨hp, hse⟩ := (errors_none_iff G a w).1 he
  obtain ⟨il, ic, h1, h2, h3, h4⟩ := iniInert_elim hi
  unfold main
  rw [hp]
  simp only [h1, h2, h3, h4]
  exact run_ok hse hs hc ht

/-- A run the first sentence of the property speaks about: no usage/configuration error, both
thresholds spelled in a way the property recognises (as ranks `tS`, `tC`), the INI file (if any) leaves the
thresholds alone, template (if any) well-formed. -/
structure Regular (a : Args) (w : World) (tS tC : Rank) : Prop where
  noError : Spec.isError G a w = false
  noIni : Spec.iniInert G a = true
  sev : Spec.threshold a.sevFlags a.sevName = some tS
  conf : Spec.threshold a.confFlags a.confName = some tC
  template : templateError a = false

theorem Regular.main_eq {a : Args} {w : World} {tS tC : Rank} (h : Regular a w tS tC) :
    main G a w = .exit (Spec.exitStatus a.exitZero (w.post (Spec.reported tS tC w.findings)))
                       (w.post (Spec.reported tS tC w.findings)) :=
  main_ok h.noError h.noIni h.sev h.conf h.template

/-! ## Generic facts (arbitrary tables) -/

theorem filterIssues_sublist {rk : List Str} {s c : Str} {xs ys : List Issue}
    (h : filterIssues rk s c xs = .ok ys) : ys.Sublist xs := by
  induction xs generalizing ys with
  | nil => cases h; exact List.Sublist.refl _
  | cons i is ih =>
    simp only [filterIssues, bind, Except.bind, pure, Except.pure] at h
    cases hp : passes rk s c i with
    | error e => simp [hp] at h
    | ok b =>
      cases hr : filterIssues rk s c is with
      | error e => simp [hp, hr] at h
      | ok rest =>
        simp only [hp, hr, Except.ok.injEq] at h
        subst h
        cases b
        · exact (ih hr).cons _
        · exact (ih hr).cons_cons _

theorem filterResults_sublist {rk : List Str} {s c : Str} {w : World} {ys : List Issue}
    (hb : ∀ xs, (w.post xs).Sublist xs)
    (h : filterResults rk w.baselineFilter s c w.findings = .ok ys) : ys.Sublist w.findings := by
  simp only [filterResults, bind, Except.bind] at h
  cases hr : filterIssues rk s c w.findings with
  | error e => simp [hr] at h
  | ok r =>
    have hs := filterIssues_sublist hr
    have hb' := hb r
    unfold World.post at hb'
    cases hbf : w.baselineFilter with
    | none => simp [hr, hbf, pure, Except.pure] at h; exact h ▸ hs
    | some bf => simp [hr, hbf, pure, Except.pure] at h; rw [hbf] at hb'; exact h ▸ hb'.trans hs

theorem reported_mono {tS tC tS' tC' : Rank} (hS : tS ≤ tS') (hC : tC ≤ tC') (xs : List Issue) :
    (Spec.reported tS' tC' xs).Sublist (Spec.reported tS tC xs) := by
  induction xs with
  | nil => exact List.Sublist.refl _
  | cons i is ih =>
    have himp : Spec.meets tS' tC' i = true → Spec.meets tS tC i = true := by
      simp only [Spec.meets, Bool.and_eq_true, decide_eq_true_eq]
      intro ⟨h1, h2⟩
      exact ⟨Nat.le_trans hS h1, Nat.le_trans hC h2⟩
    simp only [Spec.reported, List.filter_cons]
    cases h' : Spec.meets tS' tC' i
    · cases h : Spec.meets tS tC i
      · exact ih
      · exact List.Sublist.cons _ ih
    · rw [himp h']
      exact List.Sublist.cons_cons _ ih

end Bandit.Cli
