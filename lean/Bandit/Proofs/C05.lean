import Bandit.TestSet
import Bandit.Proofs.Scan
import Bandit.Proofs.Nosec
import Bandit.Proofs.C01
/-!
# Helper lemmas for C05 (selection = filtering)
-/
namespace Bandit

/-- a check that never names its own ID: the tester stamps `c.id` on every result -/
def IsPlugin (c : Check) : Prop := ∀ e raw, c.run e = .ok (some raw) → raw.id = []

theorem isPlugin_plugin (id name : String) (kinds : List Str) (f : Env → M (Option PRaw)) :
    IsPlugin (Check.plugin id name kinds f) := by
  intro e raw h
  simp only [Check.plugin] at h
  cases hf : f e with
  | error x => simp [hf, Except.map] at h
  | ok r =>
    cases r with
    | none => simp [hf, Except.map] at h
    | some r0 =>
      simp only [hf, Except.map, Option.map] at h
      cases h; rfl

/-- the same for a position-using plugin check (`Check.pluginPos`: same `run`) -/
theorem isPlugin_pluginPos (id name : String) (kinds : List Str) (f : Env → M (Option PRaw)) :
    IsPlugin (Check.pluginPos id name kinds f) :=
  fun e raw h => isPlugin_plugin id name kinds f e raw h

def eventId : Event → Option Str
  | .finding f => some f.id
  | .nosec f => some f.id
  | .skipped f => some f.id
  | .crash _ => none

theorem emit_id {nm : NosecMap} {ctx : Ctx} {raw : Raw} {ev : Event} (h : emit nm ctx raw = .ok ev) :
    eventId ev = some raw.id := by
  rw [emit_eq] at h
  cases hl : resolveLoc raw ctx with
  | none => simp [hl] at h
  | some lc =>
    obtain ⟨l, c⟩ := lc
    simp only [hl] at h
    cases hn : nosecsFor nm raw ctx with
    | none => simp only [hn] at h; cases h; rfl
    | some s =>
      cases s with
      | nil => simp only [hn] at h; cases h; rfl
      | cons a as =>
        simp only [hn] at h
        split at h <;> (cases h; rfl)

/-- every non-crash event of a plugin check carries the check's ID -/
theorem runCheck_plugin_id {nm : NosecMap} {env : Env} {c : Check} (hp : IsPlugin c) :
    ∀ e ∈ runCheck nm env c, ∀ i, eventId e = some i → i = c.id := by
  intro e he i hi
  unfold runCheck at he
  cases hr : c.run (env.forCheck c) with
  | error x => simp [hr] at he; subst he; cases hi
  | ok r =>
    cases r with
    | none => simp [hr] at he
    | some raw =>
      have hid := hp (env.forCheck c) raw hr
      have hrid : (raw.resolve env.v).id = [] := by
        unfold PRaw.resolve; cases raw.loc <;> simp [hid]
      have hf : (fillId c (raw.resolve env.v)).id = c.id := by simp [fillId, hrid]
      simp only [hr] at he
      cases hem : emit nm env.ctx (fillId c (raw.resolve env.v)) with
      | error x => simp [hem] at he; subst he; cases hi
      | ok ev =>
        simp only [hem, List.mem_singleton] at he
        subst he
        -- emit stamps raw.id on whatever it returns
        have hem' := emit_id hem
        rw [hem', hf] at hi
        exact (Option.some.inj hi).symm

end Bandit

namespace Bandit

def hasId (e : Event) : Bool := (eventId e).isSome
def keepEvent (keep : Str → Bool) (e : Event) : Bool :=
  match eventId e with | some i => keep i | none => false

theorem checksFor_filter (cs : List Check) (p : Check → Bool) (kind : Str) :
    checksFor (cs.filter p) kind = (checksFor cs kind).filter p := by
  simp only [checksFor, List.filter_filter]
  congr 1
  funext c
  exact Bool.and_comm _ _

theorem checksFor_append (a b : List Check) (kind : Str) :
    checksFor (a ++ b) kind = checksFor a kind ++ checksFor b kind := by
  simp [checksFor]

/-- one plugin check: its id-events survive the filter iff its ID is kept -/
theorem runCheck_plugin_filter {nm : NosecMap} {env : Env} {c : Check} (hp : IsPlugin c) (keep : Str → Bool) :
    (runCheck nm env c).filter (keepEvent keep) =
      if keep c.id then (runCheck nm env c).filter hasId else [] := by
  have hid := runCheck_plugin_id (nm := nm) (env := env) hp
  split
  · rename_i hk
    apply List.filter_congr
    intro e he
    unfold keepEvent hasId
    cases hi : eventId e with
    | none => rfl
    | some i => rw [hid e he i hi]; simp [hk]
  · rename_i hk
    rw [List.filter_eq_nil_iff]
    intro e he
    unfold keepEvent
    cases hi : eventId e with
    | none => simp
    | some i => rw [hid e he i hi]; simpa using hk

/-- the plugin part of the test set: restricting the plugins = filtering their events -/
theorem plugins_restrict (nm : NosecMap) (env : Env) (keep : Str → Bool) (l : List Check)
    (hp : ∀ c ∈ l, IsPlugin c) :
    ((l.filter (fun c => keep c.id)).flatMap (runCheck nm env)).filter hasId
      = (l.flatMap (runCheck nm env)).filter (keepEvent keep) := by
  induction l with
  | nil => rfl
  | cons c cs ih =>
    have ihc := ih (fun c' hc' => hp c' (List.mem_cons_of_mem _ hc'))
    have hc := runCheck_plugin_filter (nm := nm) (env := env) (hp c (by simp)) keep
    simp only [List.flatMap_cons, List.filter_append, hc]
    by_cases hk : keep c.id = true
    · simp only [List.filter_cons, hk, if_true, List.flatMap_cons, List.filter_append, ihc]
    · simp only [List.filter_cons, hk, Bool.false_eq_true, if_false, ihc, List.nil_append]

/-! ### the blacklist part -/

/-- dict keys are unique -/
def KeysNodup (t : BlTables) : Prop := (t.map (·.1)).Nodup

theorem rulesFor_restrict (t : BlTables) (keep : Str → Bool) (kind : Str) (hk : KeysNodup t) :
    (t.restrict keep).rulesFor kind = (t.rulesFor kind).filter (fun r => keep r.id) := by
  unfold BlTables.rulesFor BlTables.restrict
  induction t with
  | nil => rfl
  | cons kv rest ih =>
    obtain ⟨k, rs⟩ := kv
    have hk' : KeysNodup rest := (List.nodup_cons.mp hk).2
    have hnot : k ∉ rest.map (·.1) := (List.nodup_cons.mp hk).1
    simp only [List.map_cons, List.filter_cons, List.find?_cons]
    by_cases hkk : (k == kind) = true
    · have hkk' : k = kind := by simpa using hkk
      subst hkk'
      simp only [beq_self_eq_true, if_true, Option.map_some, Option.getD_some]
      by_cases he : (rs.filter fun r => keep r.id).isEmpty = true
      · simp only [he, Bool.not_true, Bool.false_eq_true, if_false]
        -- the entry is dropped; no other entry has this key
        have : (List.filter (fun x => !x.2.isEmpty) (List.map (fun x => (x.1, List.filter (fun r => keep r.id) x.2)) rest)).find? (fun x => x.1 == k) = none := by
          rw [List.find?_eq_none]
          intro x hx
          have hx' := (List.mem_filter.mp hx).1
          obtain ⟨y, hy, rfl⟩ := List.mem_map.mp hx'
          simp only [beq_iff_eq]
          intro h
          exact hnot (List.mem_map.mpr ⟨y, hy, h⟩)
        simp only [this, Option.map_none, Option.getD_none]
        exact (List.isEmpty_iff.mp he).symm
      · simp [he]
    · simp only [hkk, Bool.false_eq_true, if_false]
      have ih' := ih hk'
      by_cases he : (rs.filter fun r => keep r.id).isEmpty = true
      · simpa [he] using ih'
      · simpa [he, List.find?_cons, hkk] using ih'

/-- "no masking": if the first matching rule is not kept, no kept rule matches -/
def NoMaskCall (rules : List Rule) (keep : Str → Bool) (q : Str) : Prop :=
  ∀ r0, firstCallRule rules q = some r0 → keep r0.id = false →
    ∀ r ∈ rules, keep r.id = true → q ∉ r.qualnames

/-- generic: first match in a filtered list, when an unkept first match masks no kept match -/
theorem find?_filter_of_noMask {α : Type} (m p : α → Bool) (l : List α)
    (hm : ∀ r0, l.find? m = some r0 → p r0 = false → ∀ r ∈ l, p r = true → m r = false) :
    (l.filter p).find? m = (l.find? m).bind (fun r => if p r then some r else none) := by
  induction l with
  | nil => rfl
  | cons a as ih =>
    by_cases hma : m a = true
    · have hf : (a :: as).find? m = some a := by simp [List.find?_cons, hma]
      rw [hf]
      simp only [Option.bind_some]
      by_cases hpa : p a = true
      · simp [List.filter_cons, hpa, List.find?_cons, hma]
      · have hpa' : p a = false := by simpa using hpa
        simp only [List.filter_cons, hpa', Bool.false_eq_true, if_false]
        rw [List.find?_eq_none]
        intro r hr
        have hr' := List.mem_filter.mp hr
        have := hm a hf hpa' r (List.mem_cons_of_mem _ hr'.1) hr'.2
        simp [this]
    · have hma' : m a = false := by simpa using hma
      have hf : (a :: as).find? m = as.find? m := by simp [List.find?_cons, hma']
      rw [hf]
      have ih' := ih (fun r0 h0 hp0 r hr hpr => hm r0 (hf ▸ h0) hp0 r (List.mem_cons_of_mem _ hr) hpr)
      by_cases hpa : p a = true
      · simp [List.filter_cons, hpa, List.find?_cons, hma', ih']
      · simp [List.filter_cons, hpa, ih']

theorem firstCallRule_filter (rules : List Rule) (keep : Str → Bool) (q : Str) (hm : NoMaskCall rules keep q) :
    firstCallRule (rules.filter fun r => keep r.id) q =
      (firstCallRule rules q).bind (fun r => if keep r.id then some r else none) := by
  unfold firstCallRule
  apply find?_filter_of_noMask (α := Rule) (fun r => r.qualnames.any (· == q)) (fun r => keep r.id) rules
  intro r0 h0 hp0 r hr hpr
  have := hm r0 h0 hp0 r hr hpr
  simp only [List.any_eq_false, beq_iff_eq]
  intro x hx hxq
  exact this (hxq ▸ hx)

/-- the same for imports -/
def NoMaskImport (rules : List Rule) (keep : Str → Bool) (names : List Str) : Prop :=
  ∀ r0, firstImportRule rules names = some r0 → keep r0.id = false →
    ∀ r ∈ rules, keep r.id = true → ∀ nm ∈ names, ∀ qn ∈ r.qualnames, Str.startsWith nm qn = false

theorem firstImportRule_filter (rules : List Rule) (keep : Str → Bool) (names : List Str)
    (hm : NoMaskImport rules keep names) :
    firstImportRule (rules.filter fun r => keep r.id) names =
      (firstImportRule rules names).bind (fun r => if keep r.id then some r else none) := by
  unfold firstImportRule
  apply find?_filter_of_noMask (α := Rule) (fun r => names.any (fun nm => r.qualnames.any (fun qn => Str.startsWith nm qn))) (fun r => keep r.id) rules
  intro r0 h0 hp0 r hr hpr
  have := hm r0 h0 hp0 r hr hpr
  simp only [List.any_eq_false]
  intro nm hnm
  simp only [List.any_eq_true, not_exists, not_and]
  intro qn hqn
  simp [this nm hnm qn hqn]

end Bandit

namespace Bandit

/-- the guard of `restrict_is_filter_partial` at one node: the first-match-wins blacklist does not
let an unselected rule mask a selected one -/
def NoMask (t : BlTables) (keep : Str → Bool) (e : Env) : Prop :=
  (∀ c name, e.node.asCall? = some c → blacklistCallName e c = .ok (some name) →
      NoMaskCall (t.rulesFor e.node.kind) keep name) ∧
  NoMaskImport (t.rulesFor e.node.kind) keep (importFullNames e.node)

def keepRaw (keep : Str → Bool) (o : Option PRaw) : Option PRaw :=
  o.bind (fun raw => if keep raw.id then some raw else none)

theorem blacklistRun_restrict (t : BlTables) (keep : Str → Bool) (e : Env) (hk : KeysNodup t)
    (hm : NoMask t keep e) :
    blacklistRun (t.restrict keep) e = (blacklistRun t e).map (keepRaw keep) := by
  unfold blacklistRun
  simp only [rulesFor_restrict t keep _ hk]
  by_cases hcall : e.node.isKind "Call" = true
  · simp only [hcall, if_true]
    cases hc : e.node.asCall? with
    | none => rfl
    | some c =>
      simp only []
      cases hn : blacklistCallName e c with
      | error x => rfl
      | ok name =>
        simp only [bind, Except.bind]
        cases name with
        | none => rfl
        | some nm =>
          simp only [Option.bind_some]
          rw [firstCallRule_filter _ _ _ (hm.1 c nm hc hn)]
          cases firstCallRule (t.rulesFor e.node.kind) nm with
          | none => rfl
          | some r =>
            simp only [Option.bind_some]
            by_cases hkr : keep r.id = true
            · simp [hkr, pure, Except.pure, Except.map, keepRaw]
            · simp [hkr, pure, Except.pure, Except.map, keepRaw]
  · simp only [hcall, Bool.false_eq_true, if_false]
    by_cases himp : (e.node.isKind "Import" || e.node.isKind "ImportFrom") = true
    · simp only [himp, if_true]
      rw [firstImportRule_filter _ _ _ hm.2]
      cases firstImportRule (t.rulesFor e.node.kind) (importFullNames e.node) with
      | none => rfl
      | some r =>
        simp only [Option.bind_some]
        by_cases hkr : keep r.id = true
        · simp [hkr, pure, Except.pure, Except.map, keepRaw]
        · simp [hkr, pure, Except.pure, Except.map, keepRaw]
    · simp only [himp, Bool.false_eq_true, if_false]
      rfl

end Bandit

namespace Bandit

/-- two checks related by "the second returns what the first returns if its ID is kept" -/
theorem runCheck_related {nm : NosecMap} {env : Env} {c c' : Check} (keep : Str → Bool)
    (hname : c'.name = c.name) (hidc : c'.id = c.id)
    (hrun : c'.run (env.forCheck c') = (c.run (env.forCheck c)).map (keepRaw keep))
    (hids : ∀ raw, c.run (env.forCheck c) = .ok (some raw) → raw.id ≠ []) :
    (runCheck nm env c').filter hasId = (runCheck nm env c).filter (keepEvent keep) := by
  unfold runCheck
  rw [hrun]
  cases hr : c.run (env.forCheck c) with
  | error x => simp [Except.map, hasId, keepEvent, eventId]
  | ok o =>
    cases o with
    | none => simp [Except.map, keepRaw]
    | some raw =>
      have hne := hids raw hr
      have hrid : (raw.resolve env.v).id = raw.id := by
        unfold PRaw.resolve; cases raw.loc <;> rfl
      have hf : ∀ c0 : Check, fillId c0 (raw.resolve env.v) = raw.resolve env.v := fun c0 => by
        unfold fillId; cases h : (raw.resolve env.v).id with
        | nil => rw [hrid] at h; exact absurd h hne
        | cons a as => simp
      by_cases hk : keep raw.id = true
      · simp only [Except.map, keepRaw, Option.bind_some, hk, if_true, hf]
        cases hem : emit nm env.ctx (raw.resolve env.v) with
        | error x => simp [hasId, keepEvent, eventId, hname]
        | ok ev =>
          have := emit_id hem
          simp [hasId, keepEvent, this, hrid, hk]
      · simp only [Except.map, keepRaw, Option.bind_some, hk, Bool.false_eq_true, if_false, hf]
        cases hem : emit nm env.ctx (raw.resolve env.v) with
        | error x => simp [keepEvent, eventId]
        | ok ev =>
          have := emit_id hem
          simp [keepEvent, this, hrid, hk]

/-- a check none of whose results is kept contributes nothing after filtering -/
theorem runCheck_unkept {nm : NosecMap} {env : Env} {c : Check} (keep : Str → Bool)
    (hids : ∀ raw, c.run (env.forCheck c) = .ok (some raw) → raw.id ≠ [] ∧ keep raw.id = false) :
    (runCheck nm env c).filter (keepEvent keep) = [] := by
  unfold runCheck
  cases hr : c.run (env.forCheck c) with
  | error x => simp [keepEvent, eventId]
  | ok o =>
    cases o with
    | none => simp
    | some raw =>
      obtain ⟨hne, hk⟩ := hids raw hr
      have hrid : (raw.resolve env.v).id = raw.id := by
        unfold PRaw.resolve; cases raw.loc <;> rfl
      have hf : fillId c (raw.resolve env.v) = raw.resolve env.v := by
        unfold fillId; cases h : (raw.resolve env.v).id with
        | nil => rw [hrid] at h; exact absurd h hne
        | cons a as => simp
      simp only [hf]
      cases hem : emit nm env.ctx (raw.resolve env.v) with
      | error x => simp [keepEvent, eventId]
      | ok ev =>
        have := emit_id hem
        simp [keepEvent, this, hrid, hk]

/-- whatever the blacklist reports carries the ID of a rule of the node kind's table -/
theorem blacklistRun_id_mem {t : BlTables} {e : Env} {raw : PRaw} (h : blacklistRun t e = .ok (some raw)) :
    ∃ r ∈ t.rulesFor e.node.kind, raw.id = r.id := by
  unfold blacklistRun at h
  by_cases hcall : e.node.isKind "Call" = true
  · simp only [hcall, if_true] at h
    cases hc : e.node.asCall? with
    | none => simp [hc] at h
    | some c =>
      simp only [hc] at h
      cases hn : blacklistCallName e c with
      | error x => simp [hn, bind, Except.bind] at h
      | ok name =>
        simp only [hn, bind, Except.bind] at h
        cases hf : name.bind (firstCallRule (t.rulesFor e.node.kind)) with
        | none => simp [hf, pure, Except.pure] at h
        | some r =>
          simp only [hf, pure, Except.pure] at h
          cases h
          cases name with
          | none => simp at hf
          | some nm => exact ⟨r, (firstCallRule_mem hf).1, rfl⟩
  · simp only [hcall, Bool.false_eq_true, if_false] at h
    by_cases himp : (e.node.isKind "Import" || e.node.isKind "ImportFrom") = true
    · simp only [himp, if_true] at h
      cases hf : firstImportRule (t.rulesFor e.node.kind) (importFullNames e.node) with
      | none => simp [hf, pure, Except.pure] at h
      | some r =>
        simp only [hf, pure, Except.pure] at h
        cases h
        exact ⟨r, (firstImportRule_mem hf).1, rfl⟩
    · simp only [himp, Bool.false_eq_true, if_false, pure, Except.pure] at h
      cases h

theorem mem_restrict_keys (t : BlTables) (keep : Str → Bool) (kind : Str) (hk : KeysNodup t) :
    kind ∈ (t.restrict keep).map (·.1) ↔ (t.rulesFor kind).filter (fun r => keep r.id) ≠ [] := by
  rw [← rulesFor_restrict t keep kind hk]
  unfold BlTables.rulesFor
  constructor
  · intro h
    obtain ⟨kv, hkv, rfl⟩ := List.mem_map.mp h
    -- every entry of a restricted table is non-empty; the first entry with this key is such an entry
    cases hf : (t.restrict keep).find? (·.1 == kv.1) with
    | none =>
      have := List.find?_eq_none.mp hf kv hkv
      simp at this
    | some kv' =>
      have hm := List.mem_of_find?_eq_some hf
      unfold BlTables.restrict at hm
      have := (List.mem_filter.mp hm).2
      simp only [Option.map_some, Option.getD_some]
      intro hnil
      simp [hnil] at this
  · intro h
    cases hf : (t.restrict keep).find? (·.1 == kind) with
    | none => simp [hf] at h
    | some kv =>
      have hm := List.mem_of_find?_eq_some hf
      have he := List.find?_some hf
      simp only [beq_iff_eq] at he
      exact List.mem_map.mpr ⟨kv, hm, he⟩

end Bandit

namespace Bandit

/-- hypotheses about the blacklist tables and the selection under which restriction = filtering -/
structure SelHyp (t : BlTables) (keep : Str → Bool) : Prop where
  keys : KeysNodup t
  ids : ∀ kind, ∀ r ∈ t.rulesFor kind, r.id ≠ []
  importTables : t.rulesFor "Import".toList = t.rulesFor "ImportFrom".toList
  noMask : ∀ e, NoMask t keep e

theorem dispatch_kind {v : Visit} {kind : Str} {ctx : Ctx} (h : dispatch v = some (kind, ctx)) :
    kind = v.node.kind ∨ (kind = "Import".toList ∧ v.node.kind = "ImportFrom".toList) ∨
      v.node.isKind "Constant" = true := by
  unfold dispatch at h
  by_cases h1 : v.node.isKind "ClassDef" = true
  · simp [h1] at h
  · by_cases h2 : v.node.isKind "Constant" = true
    · exact Or.inr (Or.inr h2)
    · simp only [h1, h2, Bool.false_eq_true, if_false] at h
      by_cases h3 : (v.node.isKind "ImportFrom" && (importModule? v.node).isNone) = true
      · simp only [h3, if_true, Option.some.injEq, Prod.mk.injEq] at h
        right; left
        refine ⟨h.1.symm, ?_⟩
        have := (Bool.and_eq_true _ _ ▸ h3).1
        simpa [Node.isKind] using this
      · simp only [h3, Bool.false_eq_true, if_false, Option.some.injEq, Prod.mk.injEq] at h
        exact Or.inl h.1.symm

theorem blacklistRun_constant {t : BlTables} {e : Env} (h : e.node.isKind "Constant" = true) :
    blacklistRun t e = .ok none := by
  have hk : e.node.kind = "Constant".toList := by simpa [Node.isKind] using h
  have h1 := not_isKind_of_kind (k := "Constant") (k' := "Call") hk (by decide)
  have h2 := not_isKind_of_kind (k := "Constant") (k' := "Import") hk (by decide)
  have h3 := not_isKind_of_kind (k := "Constant") (k' := "ImportFrom") hk (by decide)
  simp [blacklistRun, h1, h2, h3, pure, Except.pure]

theorem blacklist_restrict_visit (t : BlTables) (keep : Str → Bool) (hs : SelHyp t keep)
    (nm : NosecMap) (env : Env) (kind : Str) (ctx : Ctx) (hd : dispatch env.v = some (kind, ctx)) :
    ((checksFor (blacklistCheck (t.restrict keep)).toList kind).flatMap (runCheck nm env)).filter hasId
      = ((checksFor (blacklistCheck t).toList kind).flatMap (runCheck nm env)).filter (keepEvent keep) := by
  -- the blacklist decides on the position-erased visit
  let envE : Env := env.blind
  have hkE : envE.node.kind = env.v.node.kind := by simp [envE, Env.blind, Env.node, Visit.erase]
  -- facts about rules the full check can report at this node
  have hraw : ∀ raw, blacklistRun t envE = .ok (some raw) → ∃ r ∈ t.rulesFor kind, raw.id = r.id := by
    intro raw hr
    obtain ⟨r, hrm, hid⟩ := blacklistRun_id_mem hr
    rw [hkE] at hrm
    rcases dispatch_kind hd with hk | ⟨hk1, hk2⟩ | hk
    · exact ⟨r, hk ▸ hrm, hid⟩
    · refine ⟨r, ?_, hid⟩
      rw [hk2] at hrm
      rw [hk1, hs.importTables]; exact hrm
    · have hkc : envE.node.isKind "Constant" = true := by
        simp only [envE, Env.blind, Env.node, Visit.erase, Node.erase_isKind]; exact hk
      rw [blacklistRun_constant (e := envE) hkc] at hr; cases hr
  cases hbt : blacklistCheck t with
  | none =>
    have hte : t.isEmpty = true := by
      unfold blacklistCheck at hbt; split at hbt <;> simp_all
    have : t = [] := List.isEmpty_iff.mp hte
    subst this
    simp [BlTables.restrict, blacklistCheck, checksFor]
  | some bc =>
    obtain ⟨hrun, hkinds, hname⟩ := blacklistCheck_run hbt
    have hfc : env.forCheck bc = envE := forCheck_erased (blacklistCheck_usesPos hbt)
    have hbcid : bc.id = "B001".toList := by
      unfold blacklistCheck at hbt; split at hbt <;> simp_all
      rw [← hbt]
    by_cases hkin : kind ∈ t.map (·.1)
    · -- the full check is invoked
      have hfull : checksFor [bc] kind = [bc] := by
        simp [checksFor, hkinds, hkin]
      rw [show (some bc).toList = [bc] from rfl, hfull]
      simp only [List.flatMap_cons, List.flatMap_nil, List.append_nil]
      by_cases hkr : kind ∈ (t.restrict keep).map (·.1)
      · -- the restricted check is invoked too
        have hne : (t.restrict keep).isEmpty = false := by
          cases hh : t.restrict keep with
          | nil => simp [hh] at hkr
          | cons a as => rfl
        obtain ⟨bc', hb'⟩ : ∃ bc', blacklistCheck (t.restrict keep) = some bc' := by
          simp [blacklistCheck, hne]
        obtain ⟨hrun', hkinds', hname'⟩ := blacklistCheck_run hb'
        have hid' : bc'.id = "B001".toList := by
          unfold blacklistCheck at hb'; split at hb' <;> simp_all
          rw [← hb']
        have hck : checksFor [bc'] kind = [bc'] := by simp [checksFor, hkinds', hkr]
        rw [hb', show (some bc').toList = [bc'] from rfl, hck]
        simp only [List.flatMap_cons, List.flatMap_nil, List.append_nil]
        have hfc' : env.forCheck bc' = envE := forCheck_erased (blacklistCheck_usesPos hb')
        apply runCheck_related keep
        · rw [hname, hname']
        · rw [hbcid, hid']
        · rw [hrun, hrun', hfc, hfc']; exact blacklistRun_restrict t keep envE hs.keys (hs.noMask envE)
        · intro raw hr
          rw [hrun, hfc] at hr
          obtain ⟨r, hrm, hid⟩ := hraw raw hr
          rw [hid]; exact hs.ids kind r hrm
      · -- restricted check absent or not registered for this kind: nothing kept is reported
        have hL : (checksFor (blacklistCheck (t.restrict keep)).toList kind) = [] := by
          cases hb : blacklistCheck (t.restrict keep) with
          | none => rfl
          | some bc' =>
            obtain ⟨_, hk', _⟩ := blacklistCheck_run hb
            rw [show (some bc').toList = [bc'] from rfl]
            simp [checksFor, hk', hkr]
        rw [hL]
        simp only [List.flatMap_nil, List.filter_nil]
        symm
        apply runCheck_unkept keep
        intro raw hr
        rw [hrun, hfc] at hr
        obtain ⟨r, hrm, hid⟩ := hraw raw hr
        have hnil : (t.rulesFor kind).filter (fun r => keep r.id) = [] := by
          cases hf : (t.rulesFor kind).filter (fun r => keep r.id) with
          | nil => rfl
          | cons a as => exact absurd ((mem_restrict_keys t keep kind hs.keys).mpr (by simp [hf])) hkr
        have hkf : keep r.id = false := by
          have := List.filter_eq_nil_iff.mp hnil r hrm
          simpa using this
        exact ⟨hid ▸ hs.ids kind r hrm, hid ▸ hkf⟩
    · -- not even the full check is registered for this kind
      have h1 : checksFor [bc] kind = [] := by simp [checksFor, hkinds, hkin]
      have hkr : kind ∉ (t.restrict keep).map (·.1) := by
        intro h
        have := (mem_restrict_keys t keep kind hs.keys).mp h
        apply hkin
        cases hf : (t.rulesFor kind).filter (fun r => keep r.id) with
        | nil => exact absurd hf this
        | cons r rs =>
          have hr : r ∈ t.rulesFor kind := (List.mem_filter.mp (hf ▸ List.mem_cons_self)).1
          exact rulesFor_mem_kinds hr
      have h2 : (checksFor (blacklistCheck (t.restrict keep)).toList kind) = [] := by
        cases hb : blacklistCheck (t.restrict keep) with
        | none => rfl
        | some bc' =>
          obtain ⟨_, hk', _⟩ := blacklistCheck_run hb
          rw [show (some bc').toList = [bc'] from rfl]
          simp [checksFor, hk', hkr]
      rw [show (some bc).toList = [bc] from rfl, h1, h2]
      simp only [List.flatMap_nil, List.filter_nil]

end Bandit

namespace Bandit

/-- the unrestricted test set -/
def fullTestSet (pc : PluginCfg) (fileName : Str) (t : BlTables) : List Check :=
  pluginChecks pc fileName ++ (blacklistCheck t).toList

theorem checks_restrict_kind (pc : PluginCfg) (fileName : Str) (t : BlTables) (keep : Str → Bool)
    (hs : SelHyp t keep) (hp : ∀ c ∈ pluginChecks pc fileName, IsPlugin c)
    (nm : NosecMap) (env : Env) (kind : Str) (ctx : Ctx) (hd : dispatch env.v = some (kind, ctx)) :
    ((checksFor (testSet pc fileName t keep) kind).flatMap (runCheck nm env)).filter hasId
      = ((checksFor (fullTestSet pc fileName t) kind).flatMap (runCheck nm env)).filter (keepEvent keep) := by
  unfold testSet fullTestSet
  rw [checksFor_append, checksFor_append, List.flatMap_append, List.flatMap_append,
      List.filter_append, List.filter_append, checksFor_filter]
  congr 1
  · apply plugins_restrict
    intro c hc
    exact hp c (List.mem_filter.mp hc).1
  · exact blacklist_restrict_visit t keep hs nm env kind ctx hd

theorem runVisit_restrict (pc : PluginCfg) (fileName : Str) (t : BlTables) (keep : Str → Bool)
    (hs : SelHyp t keep) (hp : ∀ c ∈ pluginChecks pc fileName, IsPlugin c)
    (nm : NosecMap) (lines : List Str) (s : VState) (v : Visit) :
    (runVisit (testSet pc fileName t keep) nm lines s v).filter hasId
      = (runVisit (fullTestSet pc fileName t) nm lines s v).filter (keepEvent keep) := by
  unfold runVisit
  cases hd : dispatch v with
  | none => rfl
  | some kc =>
    obtain ⟨kind, ctx⟩ := kc
    exact checks_restrict_kind pc fileName t keep hs hp nm { v := v, st := s, ctx := ctx } kind ctx hd

theorem scanVisits_restrict (pc : PluginCfg) (fileName : Str) (t : BlTables) (keep : Str → Bool)
    (hs : SelHyp t keep) (hp : ∀ c ∈ pluginChecks pc fileName, IsPlugin c)
    (nm : NosecMap) (lines : List Str) (s : VState) (vs : List Visit) :
    (scanVisits (testSet pc fileName t keep) nm lines s vs).filter hasId
      = (scanVisits (fullTestSet pc fileName t) nm lines s vs).filter (keepEvent keep) := by
  induction vs generalizing s with
  | nil => rfl
  | cons v vs ih =>
    simp only [scanVisits, List.filter_append, ih, runVisit_restrict pc fileName t keep hs hp]

theorem dispatch_fileNode : dispatch ⟨[], fileNode, none⟩ = some ("File".toList, ⟨none, none, linerange fileNode none⟩) := by
  have hk : fileNode.kind = "File".toList := rfl
  exact dispatch_plain (v := ⟨[], fileNode, none⟩) (k := "File") hk (by decide) (by decide) (by decide)

end Bandit
