import Bandit.Proofs.Discovery
import Bandit.Gen.Constants
/-!
# Witness inputs for the C11 property theorems (tiny trees, the CLI's default `-x`)
-/
namespace Bandit.Discovery
open Bandit

/-- `/w` is the working directory; it contains `.git/hooks/x.py`, `a.py`, `notes.txt`. -/
def repoRoot : Fs :=
  { root := .dir false [("w".toList, .dir false
      [(".git".toList, .dir false [("hooks".toList, .dir false [("x.py".toList, .file)])]),
       ("a.py".toList, .file), ("notes.txt".toList, .file)])],
    cwd := ["w".toList] }

/-- the `-x` default of the CLI: `",".join(constants.EXCLUDE)` as regenerated from /repo -/
def defaultX : Str := Str.joinWith ',' Gen.defaultExclude

/-- `/proj/a.py`, working directory `/`. -/
def projFs : Fs :=
  { root := .dir false [("proj".toList, .dir false [("a.py".toList, .file), ("data.txt".toList, .file)])],
    cwd := [] }

end Bandit.Discovery
