import Bandit.Proofs.Discovery
/-!
# Model variant for the proposed repair `proposed_fixes/C11-exclude-dir-in-cwd.diff`

Repaired code: every `-x` entry is kept as given, and `<entry>/*` is *added* (not substituted) when the
entry is an existing directory.  With that the guard `NoEntryIsDir` of
`Props.C11.predicate_spec_partial` disappears (`predicate_spec_fixed`); the only residue is that a
directory entry whose *name* contains a glob metacharacter contributes a glob that can match more
than the text of the name (hypothesis `hlit` of the "must scan" half).

Not imported by `Props.C11` (which describes the code as it is); to adopt the repair, replace
`prepareEntry`/`prepareExcludes` in `Bandit/Discovery.lean` by `Fixed.prepareEntries`/`Fixed.prepareExcludes` and
`predicate_spec_partial` by `predicate_spec_fixed`.
-/
namespace Bandit.Discovery.Fixed
open Bandit Bandit.Discovery

theorem user_subset_prepared (fs : Fs) (cfg : Config) (xp : Str) :
    ∀ d ∈ Spec.userExcludes cfg xp, d ∈ prepareExcludes fs cfg xp := by
  intro d hd
  simp only [Spec.userExcludes, prepareExcludes, List.mem_append, List.mem_flatMap] at hd ⊢
  rcases hd with hd | hd
  · exact Or.inl hd
  · refine Or.inr ⟨d, hd, ?_⟩
    simp only [prepareEntries]
    split <;> simp

theorem any_mono {f : Str → Bool} {l l' : List Str} (hsub : ∀ d ∈ l, d ∈ l') (h : l.any f = true) :
    l'.any f = true := by
  obtain ⟨x, hx, hf⟩ := List.any_eq_true.mp h
  exact List.any_eq_true.mpr ⟨x, hsub x hx, hf⟩

theorem excluded_mono {p : Str} {inc exc exc' : List Str} {e : Bool} (hsub : ∀ d ∈ exc, d ∈ exc')
    (h : isFileIncluded p inc exc e = false) : isFileIncluded p inc exc' e = false := by
  unfold isFileIncluded at h ⊢
  cases hc : (Glob.matchesGlobList p inc || !e)
  · simp
  · simp only [hc, ↓reduceIte] at h ⊢
    cases hA : Glob.matchesGlobList p exc
    · cases hB : exc.any (fun x => Str.isInfix x p)
      · simp [hA, hB] at h
      · have := any_mono hsub hB
        simp [this]
    · have : Glob.matchesGlobList p exc' = true := any_mono hsub hA
      simp [this]

/-- literal characters followed by `*`: matches exactly the strings with that prefix -/
theorem parse_literal_append {q : Str} (hq : Glob.Literal q) (r : Str) :
    ∀ fuel, q.length ≤ fuel → Glob.parse (fuel) (q ++ r) = q.map Glob.Tok.lit ++ Glob.parse (fuel - q.length) r := by
  induction q with
  | nil => intro fuel _; simp
  | cons c cs ih =>
    intro fuel hf
    cases fuel with
    | zero => simp at hf
    | succ n =>
      have hc := hq c List.mem_cons_self
      have := ih hq.tail n (by simpa using hf)
      simp [Glob.parse, hc.1, hc.2.1, hc.2.2, this]

theorem matchToks_lits_star (q s : Str) :
    Glob.matchToks (q.map Glob.Tok.lit ++ [Glob.Tok.star]) s = true ↔ q <+: s := by
  induction q generalizing s with
  | nil =>
    simp only [List.map_nil, List.nil_append, Glob.matchToks, Glob.anySuffix_iff, List.nil_prefix, iff_true]
    exact ⟨[], List.nil_suffix, rfl⟩
  | cons c cs ih =>
    cases s with
    | nil => simp [Glob.matchToks]
    | cons d ds =>
      simp only [List.map_cons, List.cons_append, Glob.matchToks, Bool.and_eq_true, beq_iff_eq, ih,
        List.cons_prefix_cons]

theorem fnmatch_literal_star {q : Str} (hq : Glob.Literal q) (s : Str) :
    Glob.fnmatch s (q ++ ['*']) = true ↔ q <+: s := by
  have hp : Glob.parse ((q ++ ['*']).length + 1) (q ++ ['*']) = q.map Glob.Tok.lit ++ [Glob.Tok.star] := by
    rw [parse_literal_append hq _ _ (by simp; omega)]
    have : (q ++ ['*']).length + 1 - q.length = 2 := by simp; omega
    rw [this]
    simp [Glob.parse]
  simp only [Glob.fnmatch, hp, matchToks_lits_star]

theorem infix_of_prefix {q s : Str} (h : q <+: s) : Str.isInfix q s = true := by
  obtain ⟨t, rfl⟩ := h
  exact (Str.isInfix_iff q (q ++ t)).mpr ⟨[], t, by simp⟩

theorem infix_trans_prefix {p q s : Str} (hpq : p <+: q) (h : Str.isInfix q s = true) :
    Str.isInfix p s = true := by
  obtain ⟨u, v, rfl⟩ := (Str.isInfix_iff q s).mp h
  obtain ⟨t, rfl⟩ := hpq
  exact (Str.isInfix_iff p _).mpr ⟨u, t ++ v, by simp⟩

/-- the added glob `<dir>/*` touches only paths in which the directory entry occurs as text -/
theorem added_glob_harmless {p path : Str} (hp : p ≠ []) (hl : Glob.Literal p) :
    (Glob.fnmatch path (join p ['*']) = true → Str.isInfix p path = true) ∧
    (Str.isInfix (join p ['*']) path = true → Str.isInfix p path = true) := by
  have hj : join p ['*'] = p ++ ['*'] ∨ join p ['*'] = (p ++ ['/']) ++ ['*'] := by
    simp only [join, List.head?_cons, Option.some.injEq, hp, false_or]
    have : ¬ ('*' = '/') := by decide
    simp only [this, ↓reduceIte]
    split
    · exact Or.inl rfl
    · exact Or.inr (by simp)
  have hl' : Glob.Literal (p ++ ['/']) := by
    intro c hc
    rcases List.mem_append.mp hc with hc | hc
    · exact hl c hc
    · simp only [List.mem_singleton] at hc; subst hc; decide
  rcases hj with hj | hj <;> rw [hj]
  · exact ⟨fun h => infix_of_prefix ((fnmatch_literal_star hl path).mp h),
           fun h => infix_trans_prefix (List.prefix_append _ _) h⟩
  · refine ⟨fun h => ?_, fun h => ?_⟩
    · have := (fnmatch_literal_star hl' path).mp h
      exact infix_of_prefix (List.IsPrefix.trans (List.prefix_append _ _) this)
    · exact infix_trans_prefix (List.IsPrefix.trans (List.prefix_append p ['/']) (List.prefix_append _ _)) h

/-- **Predicate = spec for the repaired code, no guard on the working directory.** -/
theorem predicate_spec_fixed (fs : Fs) (cfg : Config) (xp path : Str) (may : List Str) :
    (Spec.mustExclude (includedGlobs cfg) (Spec.userExcludes cfg xp) path = true →
      isFileIncluded path (includedGlobs cfg) (prepareExcludes fs cfg xp) true = false) ∧
    ((∀ p ∈ cliEntries xp, isDir fs p = true → Glob.Literal p) →
      Spec.mustScan (includedGlobs cfg) (Spec.userExcludes cfg xp ++ may) path = true →
      isFileIncluded path (includedGlobs cfg) (prepareExcludes fs cfg xp) true = true) := by
  constructor
  · intro h
    exact excluded_mono (user_subset_prepared fs cfg xp) (excluded_of_mustExclude h)
  · intro hlit h
    have h' := mustScan_mono h
    simp only [Spec.mustScan, Bool.and_eq_true, Bool.not_eq_eq_eq_not, Bool.not_true,
      Glob.matchesGlobList, List.any_eq_false] at h'
    obtain ⟨⟨⟨_, hinc⟩, hg⟩, hs⟩ := h'
    have key : ∀ d ∈ prepareExcludes fs cfg xp,
        Glob.fnmatch path d = false ∧ Str.isInfix d path = false := by
      intro d hd
      simp only [prepareExcludes, List.mem_append, List.mem_flatMap] at hd
      have huser : ∀ e ∈ Spec.userExcludes cfg xp, Glob.fnmatch path e = false ∧ Str.isInfix e path = false :=
        fun e he => ⟨by simpa using hg e he, by simpa using hs e he⟩
      rcases hd with hd | ⟨p, hp, hd⟩
      · exact huser d (by simp [Spec.userExcludes, hd])
      · have hpu : p ∈ Spec.userExcludes cfg xp := by simp [Spec.userExcludes, hp]
        simp only [prepareEntries] at hd
        split at hd
        · next hdir =>
          simp only [List.mem_cons, List.not_mem_nil, or_false] at hd
          rcases hd with rfl | rfl
          · exact huser _ hpu
          · have hne : p ≠ [] := by
              intro e; subst e
              simp [isDir, resolve] at hdir
            have := added_glob_harmless (path := path) hne (hlit p hp hdir)
            have hni := (huser p hpu).2
            constructor
            · cases hf : Glob.fnmatch path (join p ['*'])
              · rfl
              · rw [this.1 hf] at hni; cases hni
            · cases hf : Str.isInfix (join p ['*']) path
              · rfl
              · rw [this.2 hf] at hni; cases hni
        · simp only [List.mem_singleton] at hd
          subst hd
          exact huser _ hpu
    have h1 : Glob.matchesGlobList path (prepareExcludes fs cfg xp) = false := by
      simp only [Glob.matchesGlobList, List.any_eq_false]
      intro d hd; simpa using (key d hd).1
    have h2 : (prepareExcludes fs cfg xp).any (fun x => Str.isInfix x path) = false := by
      simp only [List.any_eq_false]
      intro d hd; simpa using (key d hd).2
    have hinc' : Glob.matchesGlobList path (includedGlobs cfg) = true := by
      simpa [Glob.matchesGlobList] using hinc
    simp [isFileIncluded, hinc', h1, h2]

end Bandit.Discovery.Fixed
