import Bandit.ConfigLoad
/-!
# Helper lemmas for `Props/C13.lean`
-/
namespace Bandit.ConfigLoad
open Bandit

/-! ## `split` / `join` -/

theorem splitOn_nodelim (c : Char) (s : Str) (h : c ∉ s) : Str.splitOn c s = [s] := by
  induction s with
  | nil => rfl
  | cons x xs ih =>
    have hx : x ≠ c := fun e => h (by simp [e])
    have hxs : c ∉ xs := fun e => h (by simp [e])
    simp [Str.splitOn, ih hxs, hx]

theorem splitOn_append_delim (c : Char) (p rest : Str) (hp : c ∉ p) :
    Str.splitOn c (p ++ c :: rest) = p :: Str.splitOn c rest := by
  induction p with
  | nil =>
    simp only [List.nil_append, Str.splitOn]
    cases h : Str.splitOn c rest with
    | nil => exact absurd h (Str.splitOn_ne_nil c rest)
    | cons hd tl => simp
  | cons x xs ih =>
    have hx : x ≠ c := fun e => hp (by simp [e])
    have hxs : c ∉ xs := fun e => hp (by simp [e])
    simp only [List.cons_append, Str.splitOn, ih hxs, hx, if_false]

theorem splitOn_joinWith (c : Char) (parts : List Str) (hne : parts ≠ []) (h : ∀ p ∈ parts, c ∉ p) :
    Str.splitOn c (Str.joinWith c parts) = parts := by
  induction parts with
  | nil => exact absurd rfl hne
  | cons p ps ih =>
    cases ps with
    | nil => simpa [Str.joinWith] using splitOn_nodelim c p (h p (by simp))
    | cons q qs =>
      have hp : c ∉ p := h p (by simp)
      have := ih (by simp) (fun r hr => h r (by simp [hr]))
      simp only [Str.joinWith]
      rw [splitOn_append_delim c p _ hp, this]

/-! ## `get_option` on a mapping -/

theorem any_key_eq_isSome (kvs : List (Str × CfgVal)) (k : Str) :
    kvs.any (fun kv => kv.1 == k) = (lookupKV kvs k).isSome := by
  induction kvs with
  | nil => rfl
  | cons kv rest ih =>
    simp only [List.any_cons, lookupKV, List.find?]
    cases h : (kv.1 == k) <;> simp [lookupKV] at ih ⊢ <;> exact ih

/-- a dot-free option name on a dict config is a plain key lookup (absent ⇒ `None`) -/
theorem getOption_map (kvs : List (Str × CfgVal)) (name : Str) (hdot : '.' ∉ name) :
    getOption (.map kvs) name = .ok ((lookupKV kvs name).getD .null) := by
  unfold getOption
  rw [splitOn_nodelim '.' name hdot]
  cases kvs with
  | nil => simp [getOptionLevels, CfgVal.truthy, lookupKV, pure, Except.pure]
  | cons kv rest =>
    simp only [getOptionLevels, CfgVal.truthy, List.isEmpty_cons, Bool.not_false, if_true, pyIn]
    have hk := any_key_eq_isSome (kv :: rest) name
    cases hl : lookupKV (kv :: rest) name with
    | none =>
      rw [hl] at hk
      simp only [Option.isSome_none] at hk
      simp [hk, bind, Except.bind, pure, Except.pure]
    | some v =>
      rw [hl] at hk
      simp only [Option.isSome_some] at hk
      simp [hk, hl, bind, Except.bind, pure, Except.pure, pyGetItem]

/-! ## plugin settings -/

theorem lookupKV_cons_ne (kv : Str × CfgVal) (rest : List (Str × CfgVal)) (name : Str) (h : (kv.1 == name) = false) :
    lookupKV (kv :: rest) name = lookupKV rest name := by
  simp [lookupKV, List.find?, h]

theorem lookupKV_cons_eq (kv : Str × CfgVal) (rest : List (Str × CfgVal)) (name : Str) (h : (kv.1 == name) = true) :
    lookupKV (kv :: rest) name = some kv.2 := by
  simp [lookupKV, List.find?, h]

theorem lookupKV_filter_ne (kvs : List (Str × CfgVal)) (k name : Str) (h : name ≠ k) :
    lookupKV (kvs.filter (fun kv => !(kv.1 == k))) name = lookupKV kvs name := by
  induction kvs with
  | nil => rfl
  | cons kv rest ih =>
    by_cases hk : kv.1 = k
    · have h1 : (kv.1 == k) = true := by simp [hk]
      have h2 : (kv.1 == name) = false := by
        simp only [beq_eq_false_iff_ne, ne_eq, hk]; exact fun e => h e.symm
      simp only [List.filter_cons, h1, Bool.not_true]
      rw [lookupKV_cons_ne kv rest name h2]; simpa using ih
    · have h1 : (kv.1 == k) = false := by simp [hk]
      simp only [List.filter_cons, h1, Bool.not_false, if_true]
      cases h2 : (kv.1 == name)
      · rw [lookupKV_cons_ne _ _ _ h2, lookupKV_cons_ne _ _ _ h2]; exact ih
      · rw [lookupKV_cons_eq _ _ _ h2, lookupKV_cons_eq _ _ _ h2]

theorem pluginSetting_map (kvs : List (Str × CfgVal)) (d : CfgVal) (name : Str) (hdot : '.' ∉ name) :
    pluginSetting (.map kvs) d name =
      (match lookupKV kvs name with | some .null => d | some v => v | none => d) := by
  unfold pluginSetting
  rw [getOption_map kvs name hdot]
  cases lookupKV kvs name with
  | none => rfl
  | some v => cases v <;> rfl

/-! ## well-typed ID lists -/

theorem filterMap_asStr_map (ids : List Str) : (ids.map CfgVal.str).filterMap asStr? = ids := by
  induction ids with
  | nil => rfl
  | cons i rest ih => simp [asStr?, ih]

theorem all_isStr_map (ids : List Str) : (ids.map CfgVal.str).all (fun x => (asStr? x).isSome) = true := by
  induction ids with
  | nil => rfl
  | cons i rest ih => simp [asStr?]

theorem map_str_filterMap (xs : List CfgVal) (h : xs.all (fun x => (asStr? x).isSome) = true) :
    (xs.filterMap asStr?).map CfgVal.str = xs := by
  induction xs with
  | nil => rfl
  | cons x rest ih =>
    simp only [List.all_cons, Bool.and_eq_true] at h
    obtain ⟨h1, h2⟩ := h
    cases x with
    | str s => simp only [List.filterMap_cons, asStr?, List.map_cons]; rw [ih h2]
    | null => simp [asStr?] at h1
    | bool b => simp [asStr?] at h1
    | int i => simp [asStr?] at h1
    | list l => simp [asStr?] at h1
    | map m => simp [asStr?] at h1

theorem all_hashable_of_str (xs : List CfgVal) (h : xs.all (fun x => (asStr? x).isSome) = true) :
    xs.all hashable = true := by
  induction xs with
  | nil => rfl
  | cons x rest ih =>
    simp only [List.all_cons, Bool.and_eq_true] at h ⊢
    refine ⟨?_, ih h.2⟩
    cases x <;> simp [asStr?] at h <;> rfl

theorem pyStrs_map (ids : List Str) : pyStrs (ids.map CfgVal.str) = .ok ids := by
  unfold pyStrs
  rw [all_isStr_map, filterMap_asStr_map]
  rfl

/-- a well-typed `tests:` / `skips:` value is read as exactly its IDs -/
theorem pySetOf_idsOf (v : CfgVal) (ids : List Str) (h : Spec.idsOf v = some ids) :
    pySetOf v = .ok (ids.map CfgVal.str) := by
  cases v with
  | null => simp [Spec.idsOf] at h; subst h; rfl
  | list xs =>
    simp only [Spec.idsOf] at h
    split at h
    · rename_i hall
      simp only [Option.some.injEq] at h
      subst h
      rw [map_str_filterMap xs hall]
      cases xs with
      | nil => rfl
      | cons x rest =>
        simp [pySetOf, CfgVal.truthy, pyIter, bind, Except.bind, pure, Except.pure, all_hashable_of_str _ hall]
    · simp at h
  | bool b => simp [Spec.idsOf] at h
  | int i => simp [Spec.idsOf] at h
  | str s => simp [Spec.idsOf] at h
  | map kvs => simp [Spec.idsOf] at h

/-! ## the stages of `run` -/

theorem dotfree_tests : '.' ∉ "tests".toList := by decide
theorem dotfree_skips : '.' ∉ "skips".toList := by decide
theorem dotfree_profiles : '.' ∉ "profiles".toList := by decide
theorem dotfree_exclude_dirs : '.' ∉ "exclude_dirs".toList := by decide
theorem dotfree_blc : '.' ∉ "blacklist_calls".toList := by decide
theorem dotfree_bli : '.' ∉ "blacklist_imports".toList := by decide

/-- the selection stage without a profile, for a config whose `tests`/`skips` are well-typed: the
include set is *config tests ∪ flag tests*, the exclude set *config skips ∪ flag skips*, and the
only way to fail is a contradiction -/
theorem stageSelect_noprofile (ld : Loaded) (a : Args) (kvs : List (Str × CfgVal)) (ct cs : List Str)
    (hcfg : ld.cfg = .map kvs) (hp : truthyOpt a.profile = false)
    (ht : Spec.idsOf ((lookupKV kvs "tests".toList).getD .null) = some ct)
    (hs : Spec.idsOf ((lookupKV kvs "skips".toList).getD .null) = some cs) :
    stageSelect ld a =
      (if (union ct (splitIds a.tests)).any ((union cs (splitIds a.skips)).contains ·) then .reject .contradictory
       else .ok (union ct (splitIds a.tests), union cs (splitIds a.skips), false)) := by
  unfold stageSelect getProfile
  simp only [hp, Bool.false_eq_true, if_false, hcfg]
  rw [getOption_map kvs _ dotfree_tests, getOption_map kvs _ dotfree_skips]
  simp only [Outcome.ofM_ok, Outcome.bind_ok, pySetOf_idsOf _ _ ht, pySetOf_idsOf _ _ hs, Outcome.pure_eq,
    pyStrs_map]

/-- loading a document whose (extracted) value is a mapping without `profiles`: it is taken as is -/
theorem loadConfig_plain (reg : Registry) (isToml : Bool) (doc : CfgVal) (kvs : List (Str × CfgVal))
    (hx : extractDoc isToml doc = Outcome.ok (.map kvs))
    (hnp : lookupKV kvs "profiles".toList = none) :
    loadConfig reg isToml (.parsed doc) =
      .ok { cfg := .map kvs, profiles := [],
            legacyData := ((lookupKV kvs "blacklist_calls".toList).getD .null).truthy ||
                          ((lookupKV kvs "blacklist_imports".toList).getD .null).truthy } := by
  have hin : pyIn "profiles".toList (.map kvs) = .ok false := by
    show (pure (kvs.any (fun kv => kv.1 == "profiles".toList)) : M Bool) = _
    rw [any_key_eq_isSome, hnp]; rfl
  have hv : validate (.map kvs) = .ok () := by
    unfold validate
    simp only [hin, Outcome.ofM_ok, Outcome.bind_ok]
    rfl
  unfold loadConfig
  simp only [hx, Outcome.bind_ok, hv]
  unfold convertLegacy
  rw [getOption_map kvs _ dotfree_profiles, getOption_map kvs _ dotfree_blc, getOption_map kvs _ dotfree_bli]
  rw [hnp]
  simp [CfgVal.truthy, convertProfiles, pure, Except.pure]

theorem tomlExtract_tomlDoc (kvs : List (Str × CfgVal)) :
    tomlExtract (Spec.tomlDoc (.map kvs)) = .ok (.map kvs) := by
  have h1 : lookupKV [("project".toList, CfgVal.map [("name".toList, .str "demo".toList)]),
      ("tool".toList, .map [("bandit".toList, .map kvs)])] "tool".toList = some (.map [("bandit".toList, .map kvs)]) := by
    rw [lookupKV_cons_ne _ _ _ (by simp), lookupKV_cons_eq _ _ _ (by simp)]
  have h2 : lookupKV [("bandit".toList, CfgVal.map kvs)] "bandit".toList = some (.map kvs) := by
    rw [lookupKV_cons_eq _ _ _ (by simp)]
  simp only [tomlExtract, Spec.tomlDoc, h1, h2, Option.getD_some]
  rfl

theorem lookupKV_none_of_keys (kvs : List (Str × CfgVal)) (k : Str) (h : ∀ kv ∈ kvs, kv.1 ≠ k) :
    lookupKV kvs k = none := by
  induction kvs with
  | nil => rfl
  | cons kv rest ih =>
    have h1 : (kv.1 == k) = false := by simpa using h kv (by simp)
    rw [lookupKV_cons_ne kv rest k h1]
    exact ih (fun x hx => h x (by simp [hx]))

/-- a config that mentions none of the plugin keys leaves every plugin at its generated default -/
theorem effective_plain (kvs : List (Str × CfgVal)) (d : PluginCfg)
    (hd : ∀ kv ∈ d, '.' ∉ kv.1) (hk : ∀ kv ∈ d, lookupKV kvs kv.1 = none) :
    effective (.map kvs) d = d := by
  unfold effective
  conv => rhs; rw [← List.map_id d]
  apply List.map_congr_left
  intro kv hkv
  rw [pluginSetting_map kvs kv.2 kv.1 (hd kv hkv), hk kv hkv]
  rfl

theorem excludeGlobs_none (isDir : Str → Bool) (kvs : List (Str × CfgVal)) (x : Str)
    (h : lookupKV kvs "exclude_dirs".toList = none) :
    excludeGlobs isDir (.map kvs) x =
      .ok (cliGlobs isDir x) := by
  unfold excludeGlobs
  rw [getOption_map kvs _ dotfree_exclude_dirs, h]
  rfl

theorem run_noprofile (w : World) (c : Cli) (ini : IniOutcome) (a : Args) (ld : Loaded)
    (kvs : List (Str × CfgVal)) (ct cs : List Str)
    (hres : resolveArgs w.dx c ini = .ok a) (hload : stageLoad w a = .ok ld) (htg : a.targets ≠ [])
    (hcfg : ld.cfg = .map kvs) (hp : truthyOpt a.profile = false)
    (ht : Spec.idsOf ((lookupKV kvs "tests".toList).getD .null) = some ct)
    (hs : Spec.idsOf ((lookupKV kvs "skips".toList).getD .null) = some cs) :
    run w c ini =
      (if (union ct (splitIds a.tests)).any ((union cs (splitIds a.skips)).contains ·) then .reject .contradictory
       else stageScan w ld a (union ct (splitIds a.tests), union cs (splitIds a.skips), false)) := by
  unfold run
  have he : a.targets.isEmpty = false := by cases h : a.targets <;> simp_all
  simp only [hres, hload, Outcome.bind_ok, he, Bool.false_eq_true, if_false,
    stageSelect_noprofile ld a kvs ct cs hcfg hp ht hs]
  split <;> simp

/-! ## carriers of one abstract selection -/

theorem joinWith_ne_nil (c : Char) (p : Str) (ps : List Str) (hp : p ≠ []) : Str.joinWith c (p :: ps) ≠ [] := by
  cases ps with
  | nil => simpa [Str.joinWith] using hp
  | cons q qs => simp [Str.joinWith, hp]

theorem splitIds_optJoin (ids : List Str) (h : ∀ i ∈ ids, Spec.CanonId i) : splitIds (Spec.optJoin ids) = ids := by
  cases ids with
  | nil => rfl
  | cons i rest =>
    have hne : Str.joinWith ',' (i :: rest) ≠ [] := joinWith_ne_nil ',' i rest (h i (by simp)).1
    have he : (Str.joinWith ',' (i :: rest)).isEmpty = false := by
      cases hj : Str.joinWith ',' (i :: rest) with
      | nil => exact absurd hj hne
      | cons _ _ => rfl
    simp only [Spec.optJoin, List.isEmpty_cons, Bool.false_eq_true, if_false, splitIds, he]
    exact splitOn_joinWith ',' (i :: rest) (by simp) (fun p hp => (h p hp).2)

theorem truthy_optJoin (ids : List Str) (h : ∀ i ∈ ids, Spec.CanonId i) :
    truthyOpt (Spec.optJoin ids) = !ids.isEmpty := by
  cases ids with
  | nil => rfl
  | cons i rest =>
    have hne : Str.joinWith ',' (i :: rest) ≠ [] := joinWith_ne_nil ',' i rest (h i (by simp)).1
    cases hj : Str.joinWith ',' (i :: rest) with
    | nil => exact absurd hj hne
    | cons _ _ => simp [Spec.optJoin, truthyOpt, hj]

theorem idsOf_list_map (ids : List Str) : Spec.idsOf (.list (ids.map CfgVal.str)) = some ids := by
  simp only [Spec.idsOf, all_isStr_map, if_true, filterMap_asStr_map]

theorem union_nil_right (a : List Str) : union a [] = a.eraseDups := by simp [union]
theorem union_nil_left (a : List Str) : union [] a = a.eraseDups := by simp [union]

theorem rankIndex_one : rankIndex 1 = .ok 1 := by simp [rankIndex, pure, Except.pure]

/-- the scan stage for a config that sets no plugin block and no `exclude_dirs`, with default flags -/
theorem stageScan_plain (w : World) (ld : Loaded) (a : Args) (kvs : List (Str × CfgVal)) (inc exc : List Str)
    (hcfg : ld.cfg = .map kvs) (hleg : ld.legacyData = false)
    (hd : ∀ kv ∈ w.defaults, '.' ∉ kv.1) (hk : ∀ kv ∈ w.defaults, lookupKV kvs kv.1 = none)
    (hx : lookupKV kvs "exclude_dirs".toList = none)
    (hex : a.excluded = w.dx) (hsev : a.severity = 1) (hconf : a.confidence = 1) :
    stageScan w ld a (inc, exc, false) =
      (if !(runnableIds w.reg).any (keep w.reg inc exc) then .reject .noTests
       else .ok { inc := inc, exc := exc, settings := w.defaults, globs := cliGlobs w.isDir w.dx,
                  severity := 1, confidence := 1, targets := a.targets, legacy := false }) := by
  unfold stageScan
  simp only [hcfg, hex, excludeGlobs_none w.isDir kvs w.dx hx, Outcome.ofM_ok, Outcome.bind_ok, hsev, hconf,
    rankIndex_one, effective_plain kvs w.defaults hd hk, hleg, Bool.not_false, Bool.true_and, Bool.or_false,
    Outcome.pure_eq]

/-- every carrier reduces to this: no profile, config `kvs` whose `tests`/`skips` are `ct`/`cs`, flags `ft`/`fs` -/
theorem run_plain (w : World) (c : Cli) (ini : IniOutcome) (a : Args) (ld : Loaded)
    (kvs : List (Str × CfgVal)) (ct cs : List Str)
    (hres : resolveArgs w.dx c ini = .ok a) (hload : stageLoad w a = .ok ld) (htg : a.targets ≠ [])
    (hcfg : ld.cfg = .map kvs) (hleg : ld.legacyData = false) (hp : truthyOpt a.profile = false)
    (ht : Spec.idsOf ((lookupKV kvs "tests".toList).getD .null) = some ct)
    (hs : Spec.idsOf ((lookupKV kvs "skips".toList).getD .null) = some cs)
    (hd : ∀ kv ∈ w.defaults, '.' ∉ kv.1) (hk : ∀ kv ∈ w.defaults, lookupKV kvs kv.1 = none)
    (hx : lookupKV kvs "exclude_dirs".toList = none)
    (hex : a.excluded = w.dx) (hsev : a.severity = 1) (hconf : a.confidence = 1)
    (ts ss : List Str) (hinc : union ct (splitIds a.tests) = ts.eraseDups) (hexc : union cs (splitIds a.skips) = ss.eraseDups) :
    run w c ini = Spec.selectionOutcome w a.targets ts ss := by
  rw [run_noprofile w c ini a ld kvs ct cs hres hload htg hcfg hp ht hs, hinc, hexc,
    stageScan_plain w ld a kvs _ _ hcfg hleg hd hk hx hex hsev hconf]
  rfl

def selKvs (ts ss : List Str) : List (Str × CfgVal) :=
  [("tests".toList, .list (ts.map .str)), ("skips".toList, .list (ss.map .str))]

theorem lookup_sel_tests (ts ss : List Str) : lookupKV (selKvs ts ss) "tests".toList = some (.list (ts.map .str)) := by
  simp [selKvs, lookupKV, List.find?]
theorem lookup_sel_skips (ts ss : List Str) : lookupKV (selKvs ts ss) "skips".toList = some (.list (ss.map .str)) := by
  simp [selKvs, lookupKV, List.find?]
theorem lookup_sel_other (ts ss : List Str) (k : Str) (h1 : k ≠ "tests".toList) (h2 : k ≠ "skips".toList) :
    lookupKV (selKvs ts ss) k = none := by
  apply lookupKV_none_of_keys
  intro kv hkv
  simp only [selKvs, List.mem_cons, List.not_mem_nil, or_false] at hkv
  rcases hkv with rfl | rfl
  · exact fun e => h1 e.symm
  · exact fun e => h2 e.symm

def noCfgKvs : List (Str × CfgVal) :=
  [("plugin_name_pattern".toList, .str "*.py".toList), ("include".toList, .list [.str "*.py".toList, .str "*.pyw".toList])]

theorem noConfig_cfg : noConfig.cfg = .map noCfgKvs := rfl

theorem lookup_nocfg_other (k : Str) (h1 : k ≠ "plugin_name_pattern".toList) (h2 : k ≠ "include".toList) :
    lookupKV noCfgKvs k = none := by
  apply lookupKV_none_of_keys
  intro kv hkv
  simp only [noCfgKvs, List.mem_cons, List.not_mem_nil, or_false] at hkv
  rcases hkv with rfl | rfl
  · exact fun e => h1 e.symm
  · exact fun e => h2 e.symm

theorem ne_of_not_reserved {k : Str} (h : k ∉ Spec.reservedKeys) (r : Str) (hr : r ∈ Spec.reservedKeys) : k ≠ r :=
  fun e => h (e ▸ hr)

theorem plain_dotfree {d : PluginCfg} (h : Spec.PlainDefaults d) : ∀ kv ∈ d, '.' ∉ kv.1 := fun kv hkv => (h kv hkv).1

theorem plain_sel {d : PluginCfg} (h : Spec.PlainDefaults d) (ts ss : List Str) :
    ∀ kv ∈ d, lookupKV (selKvs ts ss) kv.1 = none := fun kv hkv =>
  lookup_sel_other ts ss kv.1 (ne_of_not_reserved (h kv hkv).2 _ (by decide)) (ne_of_not_reserved (h kv hkv).2 _ (by decide))

theorem plain_nocfg {d : PluginCfg} (h : Spec.PlainDefaults d) :
    ∀ kv ∈ d, lookupKV noCfgKvs kv.1 = none := fun kv hkv =>
  lookup_nocfg_other kv.1 (ne_of_not_reserved (h kv hkv).2 _ (by decide)) (ne_of_not_reserved (h kv hkv).2 _ (by decide))

theorem stageLoad_file (w : World) (a : Args) (p : Str) (h : a.configFile = some p) (hp : p ≠ []) :
    stageLoad w a = loadConfig w.reg (Str.endsWith p ".toml".toList) (w.file p) := by
  unfold stageLoad
  rw [h]
  cases p with
  | nil => exact absurd rfl hp
  | cons x xs => rfl

theorem stageLoad_none (w : World) (a : Args) (h : a.configFile = none) : stageLoad w a = .ok noConfig := by
  unfold stageLoad; rw [h]; rfl

/-- the abstract selection in a config file (YAML, or TOML under `[tool.bandit]`) -/
theorem run_cfgfile (w : World) (ts ss tg : List Str) (p : Str) (doc : CfgVal)
    (htg : tg ≠ []) (hplain : Spec.PlainDefaults w.defaults)
    (hf : w.file p = .parsed doc) (hp : p ≠ [])
    (hx : extractDoc (Str.endsWith p ".toml".toList) doc = .ok (Spec.selCfg ts ss)) :
    run w { excluded := w.dx, targets := tg, configFile := some p } .absent = Spec.selectionOutcome w tg ts ss := by
  let c : Cli := { excluded := w.dx, targets := tg, configFile := some p }
  have hload : stageLoad w c.toArgs = .ok { cfg := .map (selKvs ts ss), profiles := [], legacyData := false } := by
    rw [stageLoad_file w c.toArgs p rfl hp, hf,
      loadConfig_plain w.reg _ doc (selKvs ts ss) hx (lookup_sel_other ts ss _ (by decide) (by decide)),
      lookup_sel_other ts ss _ (by decide) (by decide), lookup_sel_other ts ss _ (by decide) (by decide)]
    rfl
  exact run_plain w c .absent c.toArgs _ (selKvs ts ss) ts ss rfl hload htg rfl rfl rfl
    (by rw [lookup_sel_tests]; exact idsOf_list_map ts) (by rw [lookup_sel_skips]; exact idsOf_list_map ss)
    (plain_dotfree hplain) (plain_sel hplain ts ss) (lookup_sel_other ts ss _ (by decide) (by decide))
    rfl rfl rfl ts ss (union_nil_right ts) (union_nil_right ss)

/-- the abstract selection as `-t` / `-s` -/
theorem run_cliflags (w : World) (ts ss tg : List Str)
    (hts : ∀ i ∈ ts, Spec.CanonId i) (hss : ∀ i ∈ ss, Spec.CanonId i)
    (htg : tg ≠ []) (hplain : Spec.PlainDefaults w.defaults) :
    run w { excluded := w.dx, targets := tg, tests := Spec.optJoin ts, skips := Spec.optJoin ss } .absent
      = Spec.selectionOutcome w tg ts ss := by
  let c : Cli := { excluded := w.dx, targets := tg, tests := Spec.optJoin ts, skips := Spec.optJoin ss }
  exact run_plain w c .absent c.toArgs noConfig noCfgKvs [] [] rfl (stageLoad_none w _ rfl) htg noConfig_cfg rfl rfl
    (by rw [lookup_nocfg_other _ (by decide) (by decide)]; rfl) (by rw [lookup_nocfg_other _ (by decide) (by decide)]; rfl)
    (plain_dotfree hplain) (plain_nocfg hplain) (lookup_nocfg_other _ (by decide) (by decide))
    rfl rfl rfl ts ss
    (by show union [] (splitIds (Spec.optJoin ts)) = _; rw [splitIds_optJoin ts hts, union_nil_left])
    (by show union [] (splitIds (Spec.optJoin ss)) = _; rw [splitIds_optJoin ss hss, union_nil_left])

theorem iniGet_iniSel_tests (ts ss : List Str) : iniGet (Spec.iniSel ts ss) "tests" = Spec.optJoin ts := by
  cases ts <;> cases ss <;> simp [Spec.iniSel, iniGet, List.find?, Spec.optJoin]
theorem iniGet_iniSel_skips (ts ss : List Str) : iniGet (Spec.iniSel ts ss) "skips" = Spec.optJoin ss := by
  cases ts <;> cases ss <;> simp [Spec.iniSel, iniGet, List.find?, Spec.optJoin]
theorem iniGet_none (kvs : List (Str × Str)) (k : String) (h : ∀ kv ∈ kvs, kv.1 ≠ k.toList) : iniGet kvs k = none := by
  unfold iniGet
  rw [Option.map_eq_none_iff, List.find?_eq_none]
  intro kv hkv
  simpa using h kv hkv

theorem mem_iniSel (ts ss : List Str) (kv : Str × Str) (h : kv ∈ Spec.iniSel ts ss) :
    kv.1 = "tests".toList ∨ kv.1 = "skips".toList := by
  unfold Spec.iniSel at h
  rw [List.mem_append] at h
  rcases h with h | h
  · split at h
    · simp at h
    · left; simp only [List.mem_cons, List.not_mem_nil, or_false] at h; rw [h]
  · split at h
    · simp at h
    · right; simp only [List.mem_cons, List.not_mem_nil, or_false] at h; rw [h]

theorem iniGet_iniSel_other (ts ss : List Str) (k : String) (h1 : k.toList ≠ "tests".toList) (h2 : k.toList ≠ "skips".toList) :
    iniGet (Spec.iniSel ts ss) k = none := by
  apply iniGet_none
  intro kv hkv
  rcases mem_iniSel ts ss kv hkv with e | e <;> rw [e]
  · exact fun x => h1 x.symm
  · exact fun x => h2 x.symm

theorem srcNone_optJoin (ids : List Str) (h : ∀ i ∈ ids, Spec.CanonId i) : srcNone none (Spec.optJoin ids) = Spec.optJoin ids := by
  unfold srcNone
  rw [truthy_optJoin ids h]
  cases ids <;> simp [truthyOpt, Spec.optJoin]

theorem mergeIni_iniSel (dx : Str) (ts ss tg : List Str)
    (hts : ∀ i ∈ ts, Spec.CanonId i) (hss : ∀ i ∈ ss, Spec.CanonId i) (htg : tg ≠ []) :
    mergeIni dx { excluded := dx, targets := tg } (Spec.iniSel ts ss) =
      ({ excluded := dx, targets := tg, tests := Spec.optJoin ts, skips := Spec.optJoin ss } : Cli).toArgs := by
  have htg' : tg.isEmpty = false := by cases tg <;> simp_all
  simp only [mergeIni, Cli.toArgs, iniGet_iniSel_tests, iniGet_iniSel_skips, srcNone_optJoin ts hts, srcNone_optJoin ss hss,
    iniGet_iniSel_other ts ss "configfile" (by decide) (by decide),
    iniGet_iniSel_other ts ss "exclude" (by decide) (by decide),
    iniGet_iniSel_other ts ss "targets" (by decide) (by decide),
    iniGet_iniSel_other ts ss "profile" (by decide) (by decide)]
  simp [srcNone, truthyOpt, srcDefaultStr, htg']

/-- the abstract selection as the `[bandit]` section of an INI file -/
theorem run_ini (w : World) (ts ss tg : List Str)
    (hts : ∀ i ∈ ts, Spec.CanonId i) (hss : ∀ i ∈ ss, Spec.CanonId i)
    (htg : tg ≠ []) (hplain : Spec.PlainDefaults w.defaults) :
    run w { excluded := w.dx, targets := tg } (.opts (Spec.iniSel ts ss)) = Spec.selectionOutcome w tg ts ss := by
  let c : Cli := { excluded := w.dx, targets := tg }
  let c' : Cli := { excluded := w.dx, targets := tg, tests := Spec.optJoin ts, skips := Spec.optJoin ss }
  have hres : resolveArgs w.dx c (.opts (Spec.iniSel ts ss)) = .ok c'.toArgs := by
    have htg' : tg.isEmpty = false := by cases tg <;> simp_all
    by_cases he : (Spec.iniSel ts ss).isEmpty = true
    · have h1 : ts = [] := by cases ts <;> simp_all [Spec.iniSel]
      have h2 : ss = [] := by cases ss <;> simp_all [Spec.iniSel]
      subst h1; subst h2
      rfl
    · simp only [resolveArgs, he, Bool.false_eq_true, if_false, Outcome.pure_eq,
        iniGet_iniSel_other ts ss "level" (by decide) (by decide),
        iniGet_iniSel_other ts ss "confidence" (by decide) (by decide), srcDefaultNum, pure, Except.pure,
        Outcome.ofM_ok, Outcome.bind_ok]
      have hm : mergeIni w.dx c (Spec.iniSel ts ss) = c'.toArgs := mergeIni_iniSel w.dx ts ss tg hts hss htg
      rw [hm]
      rfl
  exact run_plain w c _ c'.toArgs noConfig noCfgKvs [] [] hres (stageLoad_none w _ rfl) htg noConfig_cfg rfl rfl
    (by rw [lookup_nocfg_other _ (by decide) (by decide)]; rfl) (by rw [lookup_nocfg_other _ (by decide) (by decide)]; rfl)
    (plain_dotfree hplain) (plain_nocfg hplain) (lookup_nocfg_other _ (by decide) (by decide))
    rfl rfl rfl ts ss
    (by show union [] (splitIds (Spec.optJoin ts)) = _; rw [splitIds_optJoin ts hts, union_nil_left])
    (by show union [] (splitIds (Spec.optJoin ss)) = _; rw [splitIds_optJoin ss hss, union_nil_left])

/-! ## rejecting bad files -/

/-- a bad file is rejected by `BanditConfig(...)`, whatever the parser returned -/
theorem loadConfig_bad (reg : Registry) (isToml : Bool) (fo : FileOutcome) (hbad : Spec.BadFile isToml fo = true) :
    ∃ r, loadConfig reg isToml fo = .reject r ∧ (r = .unreadable ∨ r = .unparsable ∨ r = .notMapping) := by
  cases fo with
  | unreadable => exact ⟨_, rfl, Or.inl rfl⟩
  | syntaxError => exact ⟨_, rfl, Or.inr (Or.inl rfl)⟩
  | undecodable => exact ⟨_, rfl, Or.inr (Or.inl rfl)⟩
  | parsedOther => exact ⟨_, rfl, Or.inr (Or.inr rfl)⟩
  | parsed doc =>
    refine ⟨.notMapping, ?_, Or.inr (Or.inr rfl)⟩
    cases isToml with
    | false =>
      cases doc with
      | map kvs => simp [Spec.BadFile] at hbad
      | _ => rfl
    | true =>
      simp only [Spec.BadFile, if_true] at hbad
      cases doc with
      | map kvs =>
        simp only at hbad
        cases ht : lookupKV kvs "tool".toList with
        | none => rw [ht] at hbad; simp at hbad
        | some tool =>
          rw [ht] at hbad
          cases tool with
          | map t =>
            simp only at hbad
            cases hb : lookupKV t "bandit".toList with
            | none => rw [hb] at hbad; simp at hbad
            | some v =>
              rw [hb] at hbad
              have hx : extractDoc true (.map kvs) = .ok v := by
                simp only [extractDoc, if_true, tomlExtract, ht, hb, Option.getD_some]; rfl
              simp only [loadConfig, hx, Outcome.bind_ok]
              cases v with
              | map m => simp at hbad
              | _ => rfl
          | null => simp only [loadConfig, extractDoc, if_true, tomlExtract, ht]; rfl
          | bool b => simp only [loadConfig, extractDoc, if_true, tomlExtract, ht]; rfl
          | int i => simp only [loadConfig, extractDoc, if_true, tomlExtract, ht]; rfl
          | str s => simp only [loadConfig, extractDoc, if_true, tomlExtract, ht]; rfl
          | list l => simp only [loadConfig, extractDoc, if_true, tomlExtract, ht]; rfl
      | null => simp at hbad
      | bool b => simp at hbad
      | int i => simp at hbad
      | str s => simp at hbad
      | list l => simp at hbad

/-! ## precedence -/

theorem srcNone_none (o : Option Str) : srcNone none o = Spec.given o := by
  cases o with
  | none => rfl
  | some s => cases s <;> rfl

theorem srcNone_given (arg ini : Option Str) (h : truthyOpt arg = true) : srcNone arg ini = arg := by
  simp [srcNone, h]

theorem srcDefaultStr_same (dx : Str) (o : Option Str) : srcDefaultStr dx dx o = (Spec.given o).getD dx := by
  cases o with
  | none => simp [srcDefaultStr, Spec.given]
  | some s => cases s <;> simp [srcDefaultStr, Spec.given]

theorem resolve_ini_as_cli (dx : Str) (kvs : List (Str × Str)) (tg : List Str) (htg : tg ≠ [])
    (hl : iniGet kvs "level" = none) (hc : iniGet kvs "confidence" = none) :
    resolveArgs dx { excluded := dx, targets := tg } (.opts kvs) = resolveArgs dx (Spec.cliOfIni dx kvs tg) .absent := by
  have htg' : tg.isEmpty = false := by cases tg <;> simp_all
  cases kvs with
  | nil => rfl
  | cons kv rest =>
    simp only [resolveArgs, List.isEmpty_cons, Bool.false_eq_true, if_false, Outcome.pure_eq, mergeIni, hl, hc,
      srcDefaultNum, pure, Except.pure, Outcome.ofM_ok, Outcome.bind_ok,
      srcNone_none, srcDefaultStr_same, Spec.cliOfIni, Cli.toArgs, htg', Bool.not_false, if_true]

theorem mergeIni_congr_tests (dx : Str) (c : Cli) (kvs kvs' : List (Str × Str)) (hc : truthyOpt c.tests = true)
    (h : ∀ k : String, k ≠ "tests" → iniGet kvs k = iniGet kvs' k) : mergeIni dx c kvs = mergeIni dx c kvs' := by
  simp only [mergeIni, srcNone_given c.tests _ hc, h "configfile" (by decide), h "exclude" (by decide), h "skips" (by decide),
    h "targets" (by decide), h "profile" (by decide)]

theorem mergeIni_congr_skips (dx : Str) (c : Cli) (kvs kvs' : List (Str × Str)) (hc : truthyOpt c.skips = true)
    (h : ∀ k : String, k ≠ "skips" → iniGet kvs k = iniGet kvs' k) : mergeIni dx c kvs = mergeIni dx c kvs' := by
  simp only [mergeIni, srcNone_given c.skips _ hc, h "configfile" (by decide), h "exclude" (by decide), h "tests" (by decide),
    h "targets" (by decide), h "profile" (by decide)]

/-! ## unknown profile, contradiction -/

theorem mem_union (a b : List Str) (i : Str) : i ∈ union a b ↔ i ∈ a ∨ i ∈ b := by
  simp [union, List.mem_eraseDups]

end Bandit.ConfigLoad
