import Bandit.ConfigLoadFixed
import Bandit.Proofs.C13
import Bandit.Proofs.C13Gen
/-!
# C13 for the code with the proposed fixes applied (`proposed_fixes/C13-*.diff`)

The rejection table holds at full strength (no guard), and the INI `level` option means what the
counted `-l` flag means.  These theorems are about `Bandit.ConfigLoad.Fixed.*`; they become the
`Props/C13.lean` statements (replacing `reject_table_partial` and the `NEG_` witnesses) once the
fixes are in /repo.
-/
namespace Bandit.ConfigLoad.Fixed
open Bandit Bandit.ConfigLoad

theorem loadConfig_bad (reg : Registry) (isToml : Bool) (fo : FileOutcome) (hbad : Spec.BadFile isToml fo = true) :
    ∃ r, loadConfig reg isToml fo = .reject r ∧ (r = .unreadable ∨ r = .unparsable ∨ r = .notMapping) := by
  cases fo with
  | unreadable => exact ⟨_, rfl, Or.inl rfl⟩
  | syntaxError => exact ⟨_, rfl, Or.inr (Or.inl rfl)⟩
  | undecodable => exact ⟨_, rfl, Or.inr (Or.inl rfl)⟩
  | parsedOther => exact ⟨_, rfl, Or.inr (Or.inr rfl)⟩
  | parsed doc =>
    refine ⟨.notMapping, ?_, Or.inr (Or.inr rfl)⟩
    cases isToml with
    | false =>
      cases doc with
      | map kvs => simp [Spec.BadFile] at hbad
      | _ => rfl
    | true =>
      simp only [Spec.BadFile, if_true] at hbad
      cases doc with
      | map kvs =>
        simp only at hbad
        cases ht : lookupKV kvs "tool".toList with
        | none => rw [ht] at hbad; simp at hbad
        | some tool =>
          rw [ht] at hbad
          cases tool with
          | map t =>
            simp only at hbad
            cases hb : lookupKV t "bandit".toList with
            | none => rw [hb] at hbad; simp at hbad
            | some v =>
              rw [hb] at hbad
              have hx : tomlExtract (.map kvs) = .ok v := by
                simp only [tomlExtract, ht, hb, Option.getD_some]; rfl
              simp only [loadConfig, if_true, hx, Outcome.ofM_ok, Outcome.bind_ok]
              cases v with
              | map m => simp at hbad
              | _ => rfl
          | null => simp only [loadConfig, if_true, tomlExtract, ht]; rfl
          | bool b => simp only [loadConfig, if_true, tomlExtract, ht]; rfl
          | int i => simp only [loadConfig, if_true, tomlExtract, ht]; rfl
          | str s => simp only [loadConfig, if_true, tomlExtract, ht]; rfl
          | list l => simp only [loadConfig, if_true, tomlExtract, ht]; rfl
      | null => simp at hbad
      | bool b => simp at hbad
      | int i => simp at hbad
      | str s => simp at hbad
      | list l => simp at hbad

/-- **Bad files are rejected — full strength** (fixed code): unreadable, unparsable (including
non-UTF-8 TOML) or non-mapping config ⇒ diagnostic + exit 2, for *every* parser result. -/
theorem reject_table (w : World) (c : Cli) (ini : IniOutcome) (a : Args) (p : Str)
    (hres : resolveArgs w.dx c ini = .ok a) (hp : a.configFile = some p) (hpne : p ≠ [])
    (hbad : Spec.BadFile (Str.endsWith p ".toml".toList) (w.file p) = true) :
    ∃ r, run w c ini = .reject r ∧ (r = .unreadable ∨ r = .unparsable ∨ r = .notMapping) := by
  obtain ⟨r, hr, hcls⟩ := loadConfig_bad w.reg _ (w.file p) hbad
  refine ⟨r, ?_, hcls⟩
  have hl : stageLoad w a = loadConfig w.reg (Str.endsWith p ".toml".toList) (w.file p) := by
    unfold stageLoad; rw [hp]
    cases p with
    | nil => exact absurd rfl hpne
    | cons x xs => rfl
  unfold run
  simp only [hres, Outcome.bind_ok, hl, hr, Outcome.bind_reject]

/-- the former counter-examples are rejections now -/
theorem former_witnesses_rejected :
    (run (genWorld [("empty.yaml".toList, .parsed .null)]) { genCli with configFile := some "empty.yaml".toList } .absent).rejectOf = some .notMapping ∧
    (run (genWorld [("five.yaml".toList, .parsed (.int 5))]) { genCli with configFile := some "five.yaml".toList } .absent).rejectOf = some .notMapping ∧
    (run (genWorld [("s.yaml".toList, .parsed (.str "xprofilesx".toList))]) { genCli with configFile := some "s.yaml".toList } .absent).rejectOf = some .notMapping ∧
    (run (genWorld [("pyproject.toml".toList, .parsed (.map [("tool".toList, .int 5)]))]) { genCli with configFile := some "pyproject.toml".toList } .absent).rejectOf = some .notMapping ∧
    (run (genWorld [("pyproject.toml".toList, .undecodable)]) { genCli with configFile := some "pyproject.toml".toList } .absent).rejectOf = some .unparsable := by
  refine ⟨by decide +kernel, by decide +kernel, by decide +kernel, by decide +kernel, by decide +kernel⟩

/-- INI `level = N` equals the command line counted up to severity `N` -/
theorem ini_level_as_cli :
    ((run (genWorld []) genCli (.opts [("level".toList, "3".toList)])).isOk = true) ∧
    (match run (genWorld []) genCli (.opts [("level".toList, "3".toList)]), run (genWorld []) { genCli with severity := 3 } .absent with
     | .ok a, .ok b => a.severity == b.severity && a.confidence == b.confidence && a.inc == b.inc && a.exc == b.exc
     | _, _ => false) = true := by
  refine ⟨by decide +kernel, by decide +kernel⟩

end Bandit.ConfigLoad.Fixed
