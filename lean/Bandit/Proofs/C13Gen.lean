import Bandit.Proofs.C13
import Bandit.Gen.Defaults
import Bandit.Gen.Registry
import Bandit.Gen.Constants
/-!
# C13: the world built from the tables regenerated from /repo, and a decidable equality test for
config values (`CfgVal` is a nested inductive; `deriving DecidableEq` does not apply)
-/
namespace Bandit.ConfigLoad
open Bandit

mutual
def cfgBeq : CfgVal → CfgVal → Bool
  | .null, .null => true
  | .bool a, .bool b => a == b
  | .int a, .int b => a == b
  | .str a, .str b => a == b
  | .list a, .list b => cfgBeqList a b
  | .map a, .map b => cfgBeqMap a b
  | _, _ => false
def cfgBeqList : List CfgVal → List CfgVal → Bool
  | [], [] => true
  | x :: xs, y :: ys => cfgBeq x y && cfgBeqList xs ys
  | _, _ => false
def cfgBeqMap : List (Str × CfgVal) → List (Str × CfgVal) → Bool
  | [], [] => true
  | (k, x) :: xs, (l, y) :: ys => k == l && cfgBeq x y && cfgBeqMap xs ys
  | _, _ => false
end

mutual
theorem cfgBeq_sound : ∀ (a b : CfgVal), cfgBeq a b = true → a = b
  | .null, .null, _ => rfl
  | .bool a, .bool b, h => by simp [cfgBeq] at h; rw [h]
  | .int a, .int b, h => by simp [cfgBeq] at h; rw [h]
  | .str a, .str b, h => by simp [cfgBeq] at h; rw [h]
  | .list a, .list b, h => by simp only [cfgBeq] at h; rw [cfgBeqList_sound a b h]
  | .map a, .map b, h => by simp only [cfgBeq] at h; rw [cfgBeqMap_sound a b h]
  | .null, .bool _, h | .null, .int _, h | .null, .str _, h | .null, .list _, h | .null, .map _, h => by simp [cfgBeq] at h
  | .bool _, .null, h | .bool _, .int _, h | .bool _, .str _, h | .bool _, .list _, h | .bool _, .map _, h => by simp [cfgBeq] at h
  | .int _, .null, h | .int _, .bool _, h | .int _, .str _, h | .int _, .list _, h | .int _, .map _, h => by simp [cfgBeq] at h
  | .str _, .null, h | .str _, .bool _, h | .str _, .int _, h | .str _, .list _, h | .str _, .map _, h => by simp [cfgBeq] at h
  | .list _, .null, h | .list _, .bool _, h | .list _, .int _, h | .list _, .str _, h | .list _, .map _, h => by simp [cfgBeq] at h
  | .map _, .null, h | .map _, .bool _, h | .map _, .int _, h | .map _, .str _, h | .map _, .list _, h => by simp [cfgBeq] at h
theorem cfgBeqList_sound : ∀ (a b : List CfgVal), cfgBeqList a b = true → a = b
  | [], [], _ => rfl
  | x :: xs, y :: ys, h => by
    simp only [cfgBeqList, Bool.and_eq_true] at h
    rw [cfgBeq_sound x y h.1, cfgBeqList_sound xs ys h.2]
  | [], _ :: _, h => by simp [cfgBeqList] at h
  | _ :: _, [], h => by simp [cfgBeqList] at h
theorem cfgBeqMap_sound : ∀ (a b : List (Str × CfgVal)), cfgBeqMap a b = true → a = b
  | [], [], _ => rfl
  | (k, x) :: xs, (l, y) :: ys, h => by
    simp only [cfgBeqMap, Bool.and_eq_true, beq_iff_eq] at h
    rw [h.1.1, cfgBeq_sound x y h.1.2, cfgBeqMap_sound xs ys h.2]
  | [], _ :: _, h => by simp [cfgBeqMap] at h
  | _ :: _, [], h => by simp [cfgBeqMap] at h
end

/-- (plugin name, `_takes_config` key) of every registered plugin -/
def genPlugins : List (Str × Option Str) := Gen.plugins.map fun p => (p.name, p.takesConfig)

/-- the world of the code as it is now: registry, defaults and `-x` default regenerated from /repo -/
def genWorld (files : List (Str × FileOutcome)) : World :=
  { reg := Gen.registry, defaults := Gen.pluginDefaults, dx := Str.joinWith ',' Gen.defaultExclude, files := files }

/-- a command line with every option at its default, scanning `x.py` -/
def genCli : Cli := { excluded := Str.joinWith ',' Gen.defaultExclude, targets := ["x.py".toList] }

end Bandit.ConfigLoad
