import Bandit.Spec.Inject
import Bandit.Checks
/-!
# Small concrete trees for the non-vacuity examples and `NEG_` witnesses of C17
(the shapes `harness/astser.py` produces, written by hand)
-/
namespace Bandit.Ex
open Bandit

def at_ (l : Nat) (c : Nat := 0) : Option Pos := some ⟨l, l, c, c + 1⟩
def load : Node := .mk "Load".toList none [] []
def store : Node := .mk "Store".toList none [] []
def name (id : String) (l : Nat) (c : Nat := 0) : Node :=
  .mk "Name".toList (at_ l c) [("id".toList, .str id.toList)] [("ctx".toList, false, [load])]
def target (id : String) (l : Nat) (c : Nat := 0) : Node :=
  .mk "Name".toList (at_ l c) [("id".toList, .str id.toList)] [("ctx".toList, false, [store])]
def str (s : String) (l : Nat) (c : Nat := 0) : Node :=
  .mk "Constant".toList (at_ l c) [("value".toList, .str s.toList), ("kind".toList, .none)] []
def const (a : Atom) (l : Nat) (c : Nat := 0) : Node :=
  .mk "Constant".toList (at_ l c) [("value".toList, a), ("kind".toList, .none)] []
def attr (v : Node) (a : String) (l : Nat) (c : Nat := 0) : Node :=
  .mk "Attribute".toList (at_ l c) [("attr".toList, .str a.toList)] [("value".toList, false, [v]), ("ctx".toList, false, [load])]
def kw (arg : String) (v : Node) (l : Nat) (c : Nat := 0) : Node :=
  .mk "keyword".toList (at_ l c) [("arg".toList, .str arg.toList)] [("value".toList, false, [v])]
def call (f : Node) (args kws : List Node) (l : Nat) (c : Nat := 0) : Node :=
  .mk "Call".toList (at_ l c) [] [("func".toList, false, [f]), ("args".toList, true, args), ("keywords".toList, true, kws)]
def assign (t v : Node) (l : Nat) : Node :=
  .mk "Assign".toList (at_ l) [("type_comment".toList, .none)] [("targets".toList, true, [t]), ("value".toList, false, [v])]
def exprStmt (v : Node) (l : Nat) : Node := .mk "Expr".toList (at_ l) [] [("value".toList, false, [v])]
def tuple (elts : List Node) (l : Nat) (c : Nat := 0) : Node :=
  .mk "Tuple".toList (at_ l c) [] [("elts".toList, true, elts), ("ctx".toList, false, [load])]
def list (elts : List Node) (l : Nat) (c : Nat := 0) : Node :=
  .mk "List".toList (at_ l c) [] [("elts".toList, true, elts), ("ctx".toList, false, [load])]
def dict (keys values : List Node) (l : Nat) (c : Nat := 0) : Node :=
  .mk "Dict".toList (at_ l c) [] [("keys".toList, true, keys), ("values".toList, true, values)]
def binop (left : Node) (op : String) (right : Node) (l : Nat) (c : Nat := 0) (w : Nat := 1) : Node :=
  .mk "BinOp".toList (some ⟨l, l, c, c + w⟩) [] [("left".toList, false, [left]), ("op".toList, false, [.mk op.toList none [] []]), ("right".toList, false, [right])]
def module (body : List Node) : Node := .mk "Module".toList none [] [("body".toList, true, body), ("type_ignores".toList, true, [])]
def importFrom (mod nm : String) (l : Nat) : Node :=
  .mk "ImportFrom".toList (at_ l) [("module".toList, .str mod.toList), ("level".toList, .int 0)]
    [("names".toList, true, [.mk "alias".toList (at_ l 5) [("name".toList, .str nm.toList), ("asname".toList, .none)] []])]
def import_ (nm : String) (l : Nat) : Node :=
  .mk "Import".toList (at_ l) [] [("names".toList, true, [.mk "alias".toList (at_ l 7) [("name".toList, .str nm.toList), ("asname".toList, .none)] []])]
def handler (type : Option Node) (body : List Node) (l : Nat) : Node :=
  .mk "ExceptHandler".toList (at_ l) [("name".toList, .none)] [("type".toList, false, type.toList), ("body".toList, true, body)]
def stmt (kind : String) (l : Nat) : Node := .mk kind.toList (at_ l) [] []

/-- an environment for a visited node: ancestors nearest first, the import set and alias table
as the traversal would have built them -/
def env (node : Node) (anc : List Node) (imports : List String := []) (aliases : List (String × String) := []) : Env :=
  { v := ⟨anc, node, none⟩,
    st := { aliases := aliases.map fun (a, b) => (a.toList, b.toList), imports := imports.map String.toList },
    ctx := ⟨node.line?, node.col?, (node.line?).toList⟩ }

/-- the per-file scan with every modelled check and the default settings: (id, severity, confidence, line) -/
def scan (root : Node) (pc : PluginCfg := []) : List (String × Rank × Rank × Nat) :=
  (findingsOf (scanFile (pluginChecks pc "x.py".toList) { root := root, nosec := [] })).map
    fun f => (String.ofList f.id, f.sev, f.conf, f.line)
def crashes (root : Node) (pc : PluginCfg := []) : List String :=
  (crashesOf (scanFile (pluginChecks pc "x.py".toList) { root := root, nosec := [] })).map String.ofList

end Bandit.Ex
