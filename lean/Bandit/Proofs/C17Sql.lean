import Bandit.Spec.Inject
/-!
# The hand-written SQL matcher decides the denotation of the pattern
-/
namespace Bandit.Plugins
open Bandit Bandit.Spec

theorem stripPrefix?_eq_some {w : String} {t r : Str} :
    stripPrefix? w t = some r ↔ t = w.toList ++ r := by
  unfold stripPrefix?
  constructor
  · intro h
    split at h
    · rename_i hp
      simp only [Option.some.injEq] at h
      rw [List.isPrefixOf_iff_prefix] at hp
      obtain ⟨u, hu⟩ := hp
      subst hu; subst h
      simp
    · cases h
  · intro h
    subst h
    simp

theorem suffixes_any {p : Str → Bool} {t : Str} :
    (suffixes t).any p = true ↔ ∃ pre u, t = pre ++ u ∧ p u = true := by
  induction t with
  | nil =>
    simp only [suffixes, List.any_cons, List.any_nil, Bool.or_false]
    constructor
    · intro h; exact ⟨[], [], rfl, h⟩
    · rintro ⟨pre, u, h, hp⟩
      have : u = [] := by
        have := congrArg List.length h
        simp at this
        exact List.eq_nil_of_length_eq_zero (by omega)
      subst this; exact hp
  | cons c cs ih =>
    simp only [suffixes, List.any_cons, Bool.or_eq_true, ih]
    constructor
    · rintro (h | ⟨pre, u, h, hp⟩)
      · exact ⟨[], c :: cs, rfl, h⟩
      · exact ⟨c :: pre, u, by simp [h], hp⟩
    · rintro ⟨pre, u, h, hp⟩
      cases pre with
      | nil => left; simp at h; subst h; exact hp
      | cons a pre =>
        right
        simp only [List.cons_append, List.cons.injEq] at h
        exact ⟨pre, u, h.2, hp⟩

theorem wordSp_eq_some {sp : Char → Bool} {w : String} {t r : Str} :
    wordSp sp w t = some r ↔ ∃ c, t = w.toList ++ c :: r ∧ sp c = true := by
  unfold wordSp
  constructor
  · intro h
    split at h
    · rename_i c r' hs
      split at h
      · rename_i hc
        simp only [Option.some.injEq] at h; subst h
        exact ⟨c, stripPrefix?_eq_some.mp hs, hc⟩
      · cases h
    · cases h
  · rintro ⟨c, h, hc⟩
    have := (stripPrefix?_eq_some (w := w) (t := t) (r := c :: r)).mpr h
    simp [this, hc]

theorem wordSp_isSome {sp : Char → Bool} {w : String} {t : Str} :
    (wordSp sp w t).isSome = true ↔ ∃ c r, t = w.toList ++ c :: r ∧ sp c = true := by
  rw [Option.isSome_iff_exists]
  constructor
  · rintro ⟨r, h⟩; obtain ⟨c, h1, h2⟩ := wordSp_eq_some.mp h; exact ⟨c, r, h1, h2⟩
  · rintro ⟨c, r, h1, h2⟩; exact ⟨r, wordSp_eq_some.mpr ⟨c, h1, h2⟩⟩

theorem laterWordSp_iff {sp : Char → Bool} {w : String} {t : Str} :
    laterWordSp sp w t = true ↔ ∃ mid d rest, t = mid ++ w.toList ++ d :: rest ∧ sp d = true := by
  unfold laterWordSp
  rw [suffixes_any]
  constructor
  · rintro ⟨pre, u, h, hp⟩
    obtain ⟨c, r, h1, h2⟩ := wordSp_isSome.mp hp
    exact ⟨pre, c, r, by rw [h, h1]; simp, h2⟩
  · rintro ⟨mid, d, rest, h, hd⟩
    exact ⟨mid, w.toList ++ d :: rest, by rw [h]; simp, wordSp_isSome.mpr ⟨d, rest, rfl, hd⟩⟩

theorem dropWhile_spaces {sp : Char → Bool} (ws : Str) (x : Char) (rest : Str)
    (hws : ∀ c ∈ ws, sp c = true) (hx : sp x = false) :
    (ws ++ x :: rest).dropWhile sp = x :: rest := by
  induction ws with
  | nil => simp [List.dropWhile, hx]
  | cons a ws ih =>
    have ha := hws a (by simp)
    simp only [List.cons_append, List.dropWhile_cons, ha, if_true]
    exact ih (fun c hc => hws c (by simp [hc]))

theorem takeWhile_all {sp : Char → Bool} (l : Str) : ∀ c ∈ l.takeWhile sp, sp c = true := by
  induction l with
  | nil => intro c hc; simp at hc
  | cons a l ih =>
    intro c hc
    simp only [List.takeWhile_cons] at hc
    split at hc
    · rename_i ha
      rcases List.mem_cons.mp hc with h | h
      · subst h; exact ha
      · exact ih c h
    · simp at hc

/-- `w\s+` followed by a word starting with a non-space -/
theorem wordSps_then {sp : Char → Bool} {w : String} {t : Str} (x : Char) (tail rest : Str) (hx : sp x = false) :
    wordSps sp w t = some (x :: tail ++ rest) ↔
    ∃ c ws, t = w.toList ++ c :: ws ++ x :: tail ++ rest ∧ sp c = true ∧ (∀ y ∈ ws, sp y = true) := by
  unfold wordSps
  constructor
  · intro h
    simp only [Option.map_eq_some_iff] at h
    obtain ⟨r0, h0, hd⟩ := h
    obtain ⟨c, ht, hc⟩ := wordSp_eq_some.mp h0
    refine ⟨c, r0.takeWhile sp, ?_, hc, takeWhile_all r0⟩
    have : r0 = r0.takeWhile sp ++ r0.dropWhile sp := (List.takeWhile_append_dropWhile).symm
    rw [ht]
    rw [hd] at this
    simp only [List.append_assoc, List.cons_append, List.append_cancel_left_eq, List.cons.injEq, true_and]
    simpa using this
  · rintro ⟨c, ws, ht, hc, hws⟩
    have h0 : wordSp sp w t = some (ws ++ x :: tail ++ rest) :=
      wordSp_eq_some.mpr ⟨c, by rw [ht]; simp, hc⟩
    simp only [h0, Option.map_some, Option.some.injEq]
    have := dropWhile_spaces ws x (tail ++ rest) hws hx
    simpa using this

theorem altSelect_iff {sp : Char → Bool} {t : Str} : altSelect sp t = true ↔ SelectAt sp t := by
  unfold altSelect SelectAt lit
  constructor
  · intro h
    split at h
    · rename_i r hr
      obtain ⟨c, ht, hc⟩ := wordSp_eq_some.mp hr
      obtain ⟨mid, d, rest, hr2, hd⟩ := laterWordSp_iff.mp h
      exact ⟨c, mid, d, rest, by rw [ht, hr2]; simp, hc, hd⟩
    · cases h
  · rintro ⟨c, mid, d, rest, ht, hc, hd⟩
    have : wordSp sp "select" t = some (mid ++ "from".toList ++ d :: rest) :=
      wordSp_eq_some.mpr ⟨c, by rw [ht]; simp, hc⟩
    simp only [this]
    exact laterWordSp_iff.mpr ⟨mid, d, rest, rfl, hd⟩

theorem altUpdate_iff {sp : Char → Bool} {t : Str} : altUpdate sp t = true ↔ UpdateAt sp t := by
  unfold altUpdate UpdateAt lit
  constructor
  · intro h
    split at h
    · rename_i r hr
      obtain ⟨c, ht, hc⟩ := wordSp_eq_some.mp hr
      obtain ⟨mid, d, rest, hr2, hd⟩ := laterWordSp_iff.mp h
      exact ⟨c, mid, d, rest, by rw [ht, hr2]; simp, hc, hd⟩
    · cases h
  · rintro ⟨c, mid, d, rest, ht, hc, hd⟩
    have : wordSp sp "update" t = some (mid ++ "set".toList ++ d :: rest) :=
      wordSp_eq_some.mpr ⟨c, by rw [ht]; simp, hc⟩
    simp only [this]
    exact laterWordSp_iff.mpr ⟨mid, d, rest, rfl, hd⟩

theorem altDelete_iff {sp : Char → Bool} {t : Str} (hf : sp 'f' = false) :
    altDelete sp t = true ↔ DeleteAt sp t := by
  unfold altDelete DeleteAt lit
  constructor
  · intro h
    split at h
    · rename_i r hr
      obtain ⟨d, rest, hr2, hd⟩ := wordSp_isSome.mp h
      have hr' : wordSps sp "delete" t = some ('f' :: "rom".toList ++ (d :: rest)) := by rw [hr, hr2]; rfl
      obtain ⟨c, ws, ht, hc, hws⟩ := (wordSps_then 'f' "rom".toList (d :: rest) hf).mp hr'
      exact ⟨c, ws, d, rest, by rw [ht]; simp, hc, hws, hd⟩
    · cases h
  · rintro ⟨c, ws, d, rest, ht, hc, hws, hd⟩
    have hr : wordSps sp "delete" t = some ('f' :: "rom".toList ++ (d :: rest)) :=
      (wordSps_then 'f' "rom".toList (d :: rest) hf).mpr ⟨c, ws, by rw [ht]; simp, hc, hws⟩
    simp only [hr]
    exact wordSp_isSome.mpr ⟨d, rest, rfl, hd⟩

theorem altInsert_iff {sp : Char → Bool} {t : Str} (hi : sp 'i' = false) :
    altInsert sp t = true ↔ InsertAt sp t := by
  unfold altInsert InsertAt lit
  constructor
  · intro h
    split at h
    · rename_i r hr
      split at h
      · rename_i r2 hr2
        obtain ⟨c2, hr2', hc2⟩ := wordSp_eq_some.mp hr2
        obtain ⟨mid, d, rest, hr3, hd⟩ := laterWordSp_iff.mp h
        have hr' : wordSps sp "insert" t = some ('i' :: "nto".toList ++ (c2 :: r2)) := by rw [hr, hr2']; rfl
        obtain ⟨c, ws, ht, hc, hws⟩ := (wordSps_then 'i' "nto".toList (c2 :: r2) hi).mp hr'
        exact ⟨c, ws, c2, mid, d, rest, by rw [ht, hr3]; simp, hc, hws, hc2, hd⟩
      · cases h
    · cases h
  · rintro ⟨c, ws, c2, mid, d, rest, ht, hc, hws, hc2, hd⟩
    have hr : wordSps sp "insert" t = some ('i' :: "nto".toList ++ (c2 :: (mid ++ "values".toList ++ d :: rest))) :=
      (wordSps_then 'i' "nto".toList _ hi).mpr ⟨c, ws, by rw [ht]; simp, hc, hws⟩
    have hr2 : wordSp sp "into" ('i' :: "nto".toList ++ (c2 :: (mid ++ "values".toList ++ d :: rest))) =
        some (mid ++ "values".toList ++ d :: rest) := wordSp_eq_some.mpr ⟨c2, rfl, hc2⟩
    simp only [hr, hr2]
    exact laterWordSp_iff.mpr ⟨mid, d, rest, rfl, hd⟩

theorem sqlAt_iff {sp : Char → Bool} {t : Str} (hf : sp 'f' = false) (hi : sp 'i' = false) :
    sqlAt sp t = true ↔ (SelectAt sp t ∨ DeleteAt sp t ∨ InsertAt sp t ∨ UpdateAt sp t) := by
  unfold sqlAt
  simp only [Bool.or_eq_true, altSelect_iff, altDelete_iff hf, altInsert_iff hi, altUpdate_iff, or_assoc]

/-- the matcher is the denotation of the pattern -/
theorem sqlSearch_iff_sqlLike (T : InjTables) (hf : T.isSpace 'f' = false) (hi : T.isSpace 'i' = false) (s : Str) :
    sqlSearch T s = true ↔ SqlLike T.isSpace (s.map (foldSql T.caseExtra)) := by
  unfold sqlSearch SqlLike
  rw [suffixes_any]
  constructor
  · rintro ⟨pre, u, h, hp⟩; exact ⟨pre, u, h, (sqlAt_iff hf hi).mp hp⟩
  · rintro ⟨pre, u, h, hp⟩; exact ⟨pre, u, h, (sqlAt_iff hf hi).mpr hp⟩

end Bandit.Plugins
