import Bandit.Proofs.C17Sql
import Bandit.Proofs.C17Xss
import Bandit.Proofs.C17Ex
import Bandit.Proofs.C17Walk
/-!
# Helper definitions and lemmas for `Props/C17.lean`
(result constructors used in the statements, small classification functions, accessor lemmas)
-/
namespace Props.C17
open Bandit Bandit.Plugins Bandit.Ex

/-- a raw result with the given ranks at the default location -/
def mk (r : Rank × Rank) : PRaw := { sev := r.1, conf := r.2 }

theorem isKind_excl {n : Node} {a b : String} (ha : n.isKind a = true) (hab : a.toList ≠ b.toList) :
    n.isKind b = false := by
  unfold Node.isKind at *
  have : n.kind = a.toList := by simpa using ha
  rw [this]
  simpa using hab

theorem getBits_self (n : Node) : getBits n n = [] := by
  cases n with
  | mk k p a ks => simp [getBits, Node.para, sameNode]

theorem sqlSearch_nil (T : InjTables) : sqlSearch T [] = false := by
  simp [sqlSearch, suffixes, sqlAt, altSelect, altDelete, altInsert, altUpdate, wordSp, wordSps, stripPrefix?]

theorem listArg_bad (o : Option Node) :
    listArgBad o = (Spec.argShape o != .absent && Spec.argShape o != .literalList) := by
  cases o with
  | none => rfl
  | some v =>
    unfold listArgBad Spec.argShape allStr
    by_cases hl : v.isKind "List" = true
    · by_cases ha : (v.kidList "elts").all Node.isStrConst = true <;> simp [hl, ha]
    · by_cases hd : v.isKind "Dict" = true
      · by_cases ha : ((v.kidList "keys").all Node.isStrConst && (v.kidList "values").all Node.isStrConst) = true <;>
          simp [hl, hd, ha]
      · simp [hl, hd]

theorem dictArg_bad (o : Option Node) :
    dictArgBad o = (Spec.argShape o != .absent && Spec.argShape o != .literalDict) := by
  cases o with
  | none => rfl
  | some v =>
    unfold dictArgBad Spec.argShape allStr
    by_cases hd : v.isKind "Dict" = true
    · have hl : v.isKind "List" = false := isKind_excl hd (by decide)
      by_cases ha : ((v.kidList "keys").all Node.isStrConst && (v.kidList "values").all Node.isStrConst) = true <;>
        simp [hl, hd, ha]
    · by_cases hl : v.isKind "List" = true
      · by_cases ha : (v.kidList "elts").all Node.isStrConst = true <;> simp [hl, hd, ha]
      · simp [hl, hd]

/-- the SQL argument of `RawSQL(...)`: first positional, else the `sql=` keyword -/
def rawSqlArg (c : CallView) : Option Node :=
  match c.args with
  | a :: _ => some a
  | [] => kwNode c "sql".toList

theorem checkArg_str (c : CallView) (kws : List (Option Str × PyVal)) (hk : c.callKeywords = .ok kws)
    (name : String) (x : Str) :
    ∃ r, c.checkArg name [.str x] = .ok r ∧
      (r != some true) = !(((CallView.lookupKw kws name).map (·.beq (.str x))).getD false) := by
  unfold CallView.checkArg CallView.argValue
  simp only [hk, bind, Except.bind, pure, Except.pure]
  cases hl : CallView.lookupKw kws name with
  | none => exact ⟨none, by simp [PyVal.isNone], by simp⟩
  | some v =>
    cases v <;> simp [PyVal.isNone, PyVal.beq]
    rename_i s
    cases (s == x) <;> rfl

/-- a B506 finding: MEDIUM/HIGH on the first line of the call -/
def mkNode (r : Rank × Rank) : PRaw := { sev := r.1, conf := r.2, loc := .node }

/-- a B614 finding: on the line of a `load=` keyword if there is one (sic), else the default -/
def mkLoadKw (r : Rank × Rank) : PRaw := { sev := r.1, conf := r.2, loc := .kw ["load"] }

/-- a finding located on the line of the first present keyword among `names` -/
def mkKw (names : List String) (r : Rank × Rank) : PRaw := { sev := r.1, conf := r.2, loc := .kw names }

/-- how the handler names its exception class -/
def handlerType (n : Node) : Spec.Handler :=
  match n.kid? "type" with
  | none => .bare
  | some t => if t.nameId? == some "Exception".toList then .exception else .typed

end Props.C17
