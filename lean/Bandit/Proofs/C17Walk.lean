import Bandit.Spec.Inject
/-!
# `ast.walk`: the direct children come right after the node itself
-/
namespace Bandit
open Bandit

theorem heightList_ge {ns : List Node} {c : Node} (h : c ∈ ns) : c.height ≤ heightList ns := by
  induction ns with
  | nil => cases h
  | cons n ns ih =>
    simp only [heightList]
    rcases List.mem_cons.mp h with h | h
    · subst h; omega
    · have := ih h; omega

theorem heightSlots_ge {ks : List (Str × Bool × List Node)} {f : Str} {b : Bool} {ns : List Node} {c : Node}
    (hk : (f, b, ns) ∈ ks) (h : c ∈ ns) : c.height ≤ heightSlots ks := by
  induction ks with
  | nil => cases hk
  | cons s ks ih =>
    obtain ⟨f', b', ns'⟩ := s
    simp only [heightSlots]
    rcases List.mem_cons.mp hk with hk | hk
    · cases hk; have := heightList_ge h; omega
    · have := ih hk; omega

theorem children_height_lt {n c : Node} (h : c ∈ n.children) : c.height < n.height := by
  cases n with
  | mk k p a ks =>
    simp only [Node.children, Node.kids, List.mem_filter, List.mem_flatMap] at h
    obtain ⟨⟨s, hs, hc⟩, _⟩ := h
    obtain ⟨f, b, ns⟩ := s
    have := heightSlots_ge hs hc
    simp only [Node.height]; omega

theorem height_pos (n : Node) : 0 < n.height := by
  cases n; simp [Node.height]

/-- `ast.walk(n)` starts with `n`, then all of its children in order -/
theorem walk_eq (n : Node) : ∃ deeper, n.walk = n :: (n.children ++ deeper) := by
  unfold Node.walk
  obtain ⟨k, hk⟩ : ∃ k, n.height = k + 1 := ⟨n.height - 1, by have := height_pos n; omega⟩
  rw [hk]
  simp only [bfsLevels, List.isEmpty_cons, Bool.false_eq_true, if_false, List.flatMap_cons, List.flatMap_nil,
    List.append_nil, List.singleton_append]
  by_cases hc : n.children = []
  · refine ⟨[], ?_⟩
    rw [hc]
    cases k <;> simp [bfsLevels]
  · obtain ⟨c, hcm⟩ := List.exists_mem_of_ne_nil _ hc
    have := children_height_lt hcm
    have hpos := height_pos c
    obtain ⟨k', hk'⟩ : ∃ k', k = k' + 1 := ⟨k - 1, by omega⟩
    subst hk'
    refine ⟨bfsLevels k' (n.children.flatMap Node.children), ?_⟩
    simp [bfsLevels, hc]

/-- the height is enough fuel: more levels add nothing -/
theorem bfsLevels_fuel (k : Nat) : ∀ (f : Nat) (l : List Node), (∀ x ∈ l, x.height ≤ f) →
    bfsLevels (f + k) l = bfsLevels f l := by
  intro f
  induction f with
  | zero =>
    intro l h
    have : l = [] := by
      cases l with
      | nil => rfl
      | cons x xs => have := h x (by simp); have := height_pos x; omega
    subst this
    cases k <;> simp [bfsLevels]
  | succ f ih =>
    intro l h
    have e : f + 1 + k = (f + k) + 1 := by omega
    rw [e]
    simp only [bfsLevels]
    split
    · rfl
    · congr 1
      apply ih
      intro x hx
      obtain ⟨p, hp, hxp⟩ := List.mem_flatMap.mp hx
      have := children_height_lt hxp
      have := h p hp
      omega

/-- `Node.walk` is the complete breadth-first traversal -/
theorem walk_fuel_enough (n : Node) (k : Nat) : bfsLevels (n.height + k) [n] = n.walk := by
  unfold Node.walk
  exact bfsLevels_fuel k n.height [n] (by intro x hx; simp at hx; subst hx; omega)

end Bandit
