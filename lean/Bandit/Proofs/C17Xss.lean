import Bandit.Spec.Inject
/-!
# B703: fuel lemmas for `evaluate_var`
-/
namespace Bandit.Plugins.DjangoXss
open Bandit

/-- `r'` answers at least wherever `r` does, and identically -/
def Le (r r' : Str → Nat → X Bool) : Prop := ∀ i l, r i l ≠ .error .diverge → r' i l = r i l

theorem bind_mono {α β : Type} {a a' : X α} {f f' : α → X β}
    (ha : a ≠ .error .diverge → a' = a) (hf : ∀ x, f x ≠ .error .diverge → f' x = f x)
    (h : (a >>= f) ≠ .error .diverge) : (a' >>= f') = (a >>= f) := by
  cases hx : a with
  | error e =>
    have hne : a ≠ .error .diverge := by
      intro hd; rw [hd] at h; exact h rfl
    rw [ha hne, hx]; rfl
  | ok x =>
    have hne : a ≠ .error .diverge := by rw [hx]; intro hd; cases hd
    rw [ha hne, hx]
    rw [hx] at h
    exact hf x h

theorem evalItems_mono {r r' : Str → Nat → X Bool} (hle : Le r r') :
    ∀ its, evalItems r its ≠ .error .diverge → evalItems r' its = evalItems r its := by
  intro its
  induction its with
  | nil => intro _; rfl
  | cons it rest ih =>
    intro h
    match it with
    | .bad => rfl
    | .ref _ none => rfl
    | .ref i (some l) =>
      simp only [evalItems] at h ⊢
      refine bind_mono (hle i l) ?_ h
      intro b hb
      cases b with
      | true => simpa using ih (by simpa using hb)
      | false => rfl

theorem evalMany_mono {r r' : Str → Nat → X Bool} (hle : Le r r') (line : Nat) :
    ∀ ts, evalMany r line ts ≠ .error .diverge → evalMany r' line ts = evalMany r line ts := by
  intro ts
  induction ts with
  | nil => intro _; rfl
  | cons t ts ih =>
    intro h
    simp only [evalMany] at h ⊢
    split
    · rename_i hs; simp only [hs, if_true] at h; exact ih h
    · rename_i hs
      simp only [hs] at h
      split
      · rename_i i hi
        simp only [hi] at h
        refine bind_mono (hle i line) ?_ h
        intro b hb
        cases b with
        | true => simpa using ih (by simpa using hb)
        | false => rfl
      · rfl

theorem scanBody_mono {r r' : Str → Nat → X Bool} (hle : Le r r') (var : Str) (till : Nat) :
    ∀ body secure, scanBody r var till body secure ≠ .error .diverge →
      scanBody r' var till body secure = scanBody r var till body secure := by
  intro body
  induction body with
  | nil => intro _ _; rfl
  | cons node rest ih =>
    intro secure h
    unfold scanBody at h ⊢
    split
    · rfl
    · rename_i ln hln
      simp only [hln] at h
      split
      · rfl
      · rename_i hge
        simp only [hge, if_false] at h
        refine bind_mono (fun _ => rfl) ?_ h
        intro to hto
        cases to with
        | no => exact ih _ hto
        | one t =>
          simp only at hto ⊢
          split
          · rename_i hs; simp only [hs, if_true] at hto; exact ih _ hto
          · rename_i hs
            simp only [hs] at hto
            split
            · rename_i i hi
              simp only [hi] at hto
              refine bind_mono (hle i ln) ?_ hto
              intro b hb
              exact ih _ hb
            · rename_i hi
              simp only [hi] at hto
              split
              · rename_i hc
                simp only [hc, if_true] at hto
                refine bind_mono (evalItems_mono hle _) ?_ hto
                intro b hb
                exact ih _ hb
              · rfl
        | many ts =>
          simp only at hto ⊢
          split
          · rename_i he; simp only [he, if_true] at hto; exact ih _ hto
          · rename_i he
            simp only [he] at hto
            refine bind_mono (evalMany_mono hle ln ts) ?_ hto
            intro b hb
            cases b with
            | true => simpa using ih true (by simpa using hb)
            | false => rfl

theorem evalVarStep_mono {r r' : Str → Nat → X Bool} (hle : Le r r') (parent : Node) (var : Str) (till : Nat)
    (h : evalVarStep r parent var till ≠ .error .diverge) :
    evalVarStep r' parent var till = evalVarStep r parent var till := by
  unfold evalVarStep at h ⊢
  split
  · rfl
  · rename_i hp
    simp only [hp] at h
    exact scanBody_mono hle var till _ _ h

/-- one more unit of fuel never changes an answer (value or Python exception) -/
theorem evalVar_succ (parent : Node) : ∀ n, Le (evalVar n parent) (evalVar (n + 1) parent) := by
  intro n
  induction n with
  | zero => intro i l h; exact absurd rfl h
  | succ n ih =>
    intro i l h
    show evalVarStep (evalVar (n + 1) parent) parent i l = evalVarStep (evalVar n parent) parent i l
    exact evalVarStep_mono ih parent i l h

theorem evalVar_add (parent : Node) (n k : Nat) : Le (evalVar n parent) (evalVar (n + k) parent) := by
  induction k with
  | zero => intro i l _; rfl
  | succ k ih =>
    intro i l h
    have h1 := ih i l h
    have h2 := evalVar_succ parent (n + k) i l (by rw [h1]; exact h)
    rw [← h1]; exact h2

/-! ## Termination: every `until` passed down is the first line of a statement that starts before the current one -/

theorem retill_refs {ln : Nat} {its : List Item} {i : Str} {l : Nat}
    (h : Item.ref i (some l) ∈ its.map (retill ln)) : l = ln := by
  obtain ⟨it, _, hit⟩ := List.mem_map.mp h
  cases it with
  | ref j t => simp only [retill, Item.ref.injEq, Option.some.injEq] at hit; exact hit.2.symm
  | bad => cases hit

theorem evalItems_no_diverge {r : Str → Nat → X Bool} {till : Nat}
    (hr : ∀ i l, l < till → r i l ≠ .error .diverge) :
    ∀ its, (∀ i l, Item.ref i (some l) ∈ its → l < till) → evalItems r its ≠ .error .diverge := by
  intro its
  induction its with
  | nil => intro _ h; cases h
  | cons it rest ih =>
    intro hl
    match it with
    | .bad => intro h; cases h
    | .ref _ none => intro h; cases h
    | .ref i (some l) =>
      simp only [evalItems]
      have h1 := hr i l (hl i l (by simp))
      have hrest := ih (fun i' l' hm => hl i' l' (by simp [hm]))
      cases hx : r i l with
      | error e =>
        intro h
        have : e = .diverge := by simpa [bind, Except.bind] using h
        exact h1 (by rw [hx, this])
      | ok b =>
        cases b with
        | true => simpa [bind, Except.bind] using hrest
        | false => intro h; cases h

theorem evalMany_no_diverge {r : Str → Nat → X Bool} {till line : Nat} (hlt : line < till)
    (hr : ∀ i l, l < till → r i l ≠ .error .diverge) :
    ∀ ts, evalMany r line ts ≠ .error .diverge := by
  intro ts
  induction ts with
  | nil => intro h; cases h
  | cons t ts ih =>
    simp only [evalMany]
    split
    · exact ih
    · split
      · rename_i i _
        have h1 := hr i line hlt
        cases hx : r i line with
        | error e =>
          intro h
          have : e = .diverge := by simpa [bind, Except.bind] using h
          exact h1 (by rw [hx, this])
        | ok b =>
          cases b with
          | true => simpa [bind, Except.bind] using ih
          | false => intro h; cases h
      · intro h; cases h

theorem liftX_no_diverge {α : Type} (m : M α) : liftX m ≠ .error .diverge := by
  cases m <;> (intro h; cases h)

theorem scanBody_no_diverge {r : Str → Nat → X Bool} {var : Str} {till : Nat}
    (hr : ∀ i l, l < till → r i l ≠ .error .diverge) :
    ∀ body secure, scanBody r var till body secure ≠ .error .diverge := by
  intro body
  induction body with
  | nil => intro _ h; cases h
  | cons node rest ih =>
    intro secure
    unfold scanBody
    split
    · intro h; cases h
    · rename_i ln hln
      split
      · intro h; cases h
      · rename_i hge
        have hlt : ln < till := by omega
        cases hto : isAssigned var node with
        | error c => intro h; cases h
        | ok to =>
          simp only [liftX, bind, Except.bind]
          cases to with
          | no => exact ih _
          | one t =>
            simp only
            split
            · exact ih _
            · split
              · rename_i i hi
                have h1 := hr i ln hlt
                cases hx : r i ln with
                | error e =>
                  intro h
                  have : e = .diverge := by simpa using h
                  exact h1 (by rw [hx, this])
                | ok b => simpa using ih b
              · split
                · have h1 := evalItems_no_diverge hr ((info t).asCall.map (retill ln))
                    (fun i l hm => by have := retill_refs hm; omega)
                  cases hx : evalItems r ((info t).asCall.map (retill ln)) with
                  | error e =>
                    intro h
                    have : e = .diverge := by simpa using h
                    exact h1 (by rw [hx, this])
                  | ok b => simpa using ih b
                · intro h; cases h
          | many ts =>
            simp only
            split
            · exact ih _
            · have h1 := evalMany_no_diverge hlt hr ts
              cases hx : evalMany r ln ts with
              | error e =>
                intro h
                have : e = .diverge := by simpa using h
                exact h1 (by rw [hx, this])
              | ok b =>
                cases b with
                | true => simpa using ih true
                | false => intro h; cases h

/-- **Termination**: `until + 1` activations are always enough -/
theorem evalVar_terminates (parent : Node) :
    ∀ till n var, till < n → evalVar n parent var till ≠ .error .diverge := by
  intro till
  induction till using Nat.strongRecOn with
  | _ till ih =>
    intro n var hn
    cases n with
    | zero => omega
    | succ n =>
      show evalVarStep (evalVar n parent) parent var till ≠ _
      unfold evalVarStep
      split
      · intro h; cases h
      · exact scanBody_no_diverge (fun i l hl => ih l hl n i (by omega)) _ _

/-! ## Statements that do not matter to a variable -/

/-- `s` starts before `till` and does not assign `var` (`is_assigned` is falsy) -/
def Skipped (var : Str) (till : Nat) (s : Node) : Prop :=
  ∃ ln, s.line? = some ln ∧ ln < till ∧ ∃ a, isAssigned var s = .ok a ∧ a.truthy = false

/-- `s` is not looked at (starts at or after `till`: the loop stops) or does not assign `var` -/
def Inert (var : Str) (till : Nat) (s : Node) : Prop :=
  ∃ ln, s.line? = some ln ∧ (till ≤ ln ∨ ∃ a, isAssigned var s = .ok a ∧ a.truthy = false)

theorem scanBody_falsy {r : Str → Nat → X Bool} {var : Str} {till ln : Nat} {node : Node} {rest : List Node}
    {secure : Bool} {a : Asg} (hln : node.line? = some ln) (hlt : ln < till)
    (ha : isAssigned var node = .ok a) (hf : a.truthy = false) :
    scanBody r var till (node :: rest) secure = scanBody r var till rest secure := by
  rw [scanBody]
  have hge : ¬ ln ≥ till := by omega
  simp only [hln, hge, if_false, ha, liftX, bind, Except.bind]
  cases a with
  | no => rfl
  | one t => simp [Asg.truthy] at hf
  | many ts =>
    have : ts.isEmpty = true := by simpa [Asg.truthy] using hf
    simp [this]

theorem scanBody_skip_prefix {r : Str → Nat → X Bool} {var : Str} {till : Nat} :
    ∀ (pre rest : List Node) (secure : Bool), (∀ s ∈ pre, Skipped var till s) →
      scanBody r var till (pre ++ rest) secure = scanBody r var till rest secure := by
  intro pre
  induction pre with
  | nil => intro rest secure _; rfl
  | cons s pre ih =>
    intro rest secure h
    obtain ⟨ln, hln, hlt, a, ha, hf⟩ := h s (by simp)
    rw [List.cons_append, scanBody_falsy hln hlt ha hf]
    exact ih rest secure (fun x hx => h x (by simp [hx]))

theorem scanBody_inert {r : Str → Nat → X Bool} {var : Str} {till : Nat} :
    ∀ (body : List Node) (secure : Bool), (∀ s ∈ body, Inert var till s) →
      scanBody r var till body secure = .ok secure := by
  intro body
  induction body with
  | nil => intro secure _; rfl
  | cons s body ih =>
    intro secure h
    obtain ⟨ln, hln, hd⟩ := h s (by simp)
    rcases hd with hge | ⟨a, ha, hf⟩
    · rw [scanBody]; simp [hln, hge, pure, Except.pure]
    · by_cases hlt : ln < till
      · rw [scanBody_falsy hln hlt ha hf]
        exact ih secure (fun x hx => h x (by simp [hx]))
      · rw [scanBody]
        have : ln ≥ till := by omega
        simp [hln, this, pure, Except.pure]

/-- a statement that assigns a string literal to `var` makes it secure (until reassigned) -/
theorem scanBody_literal {r : Str → Nat → X Bool} {var : Str} {till ln : Nat} {node t : Node} {rest : List Node}
    {secure : Bool} (hln : node.line? = some ln) (hlt : ln < till)
    (ha : isAssigned var node = .ok (.one t)) (ht : t.isStrConst = true) :
    scanBody r var till (node :: rest) secure = scanBody r var till rest true := by
  rw [scanBody]
  have hge : ¬ ln ≥ till := by omega
  simp [hln, hge, ha, liftX, bind, Except.bind, ht]

theorem nameId_not_str {n : Node} {i : Str} (h : n.nameId? = some i) : n.isStrConst = false := by
  unfold Node.nameId? at h
  by_cases hk : n.isKind "Name" = true
  · have : n.isKind "Constant" = false := by
      unfold Node.isKind at *
      have hk' : n.kind = "Name".toList := by simpa using hk
      rw [hk']; decide
    simp [Node.isStrConst, Node.constValue?, this]
  · simp [hk] at h

theorem nameId_not_call {n : Node} {i : Str} (h : n.nameId? = some i) : n.isKind "Call" = false := by
  unfold Node.nameId? at h
  by_cases hk : n.isKind "Name" = true
  · unfold Node.isKind at *
    have hk' : n.kind = "Name".toList := by simpa using hk
    rw [hk']; decide
  · simp [hk] at h

end Bandit.Plugins.DjangoXss
