import Bandit.Gen.RegTables
import Bandit.Gen.Blacklists
/-!
Coherence of the two generated views of the blacklist (C18 row table vs. the per-kind rule tables the
blacklist model of C01 runs on).  One module per statement: the kernel has to decode every
`"…".toList` literal of `Gen.Blacklists`, which is slow, so these are built in parallel.
-/
namespace Bandit.Proofs.C18
theorem coh_call : Gen.blTables.rulesFor "Call".toList = Gen.tables.rules "Call".toList := by
  decide +kernel
end Bandit.Proofs.C18
