import Bandit.Gen.RegTables
import Bandit.Gen.Blacklists
/-! see `CohCall.lean` -/
namespace Bandit.Proofs.C18
theorem coh_import :
    Gen.blTables.rulesFor "Import".toList = Gen.tables.rules "Import".toList ∧
    Gen.blTables.rulesFor "ImportFrom".toList = Gen.tables.rules "ImportFrom".toList := by
  decide +kernel
end Bandit.Proofs.C18
