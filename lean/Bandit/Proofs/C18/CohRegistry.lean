import Bandit.Gen.RegTables
import Bandit.Gen.Registry
/-! see `CohCall.lean` -/
namespace Bandit.Proofs.C18
theorem coh_registry :
    Gen.tables.registry.plugins = Gen.registry.plugins ∧ Gen.tables.registry.blacklist = Gen.registry.blacklist ∧
    Gen.tables.registry.builtin = Gen.registry.builtin := by
  decide +kernel
end Bandit.Proofs.C18
