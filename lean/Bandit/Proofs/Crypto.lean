import Bandit.Spec.Crypto
/-!
# Helper lemmas for C15 (accessor rewriting, the B503 loop, key-size arithmetic) and the small
AST builders used by the kernel-checked witnesses
-/
/-- finishing tactic for decision tables: split every `if`/`match`, close each row by `simp_all` -/
macro "table_cases" : tactic =>
  `(tactic| ((repeat' split) <;> (try simp_all) <;> (try (split <;> simp_all))))

namespace Bandit.Plugins
open Bandit Bandit.Spec.Crypto

/-! ## accessors, given that the keyword values evaluate -/

theorem argValue_ok {c : CallView} {kws : Kws} (hk : c.callKeywords = .ok kws) (name : String) :
    c.argValue name = .ok ((kw kws name).getD .none) := by
  simp [CallView.argValue, hk, kw, bind, Except.bind, pure, Except.pure]

/-- the result of `check_call_arg_value(name, vals)` on evaluated keywords -/
def checkVal (kws : Kws) (name : String) (vals : List PyVal) : Option Bool :=
  match kw kws name with
  | some v => if v.isNone then none else some (vals.any (fun x => v.beq x))
  | none => none

theorem checkArg_ok {c : CallView} {kws : Kws} (hk : c.callKeywords = .ok kws) (name : String) (vals : List PyVal) :
    c.checkArg name vals = .ok (checkVal kws name vals) := by
  simp only [CallView.checkArg, argValue_ok hk, checkVal, bind, Except.bind, pure, Except.pure]
  cases kw kws name with
  | none => simp [PyVal.isNone]
  | some v => simp only [Option.getD_some]; split <;> rfl

@[simp] theorem isTrue_checkVal (kws : Kws) (name : String) (vals : List PyVal) :
    isTrue (checkVal kws name vals) = kwIn kws name vals := by
  simp only [isTrue, checkVal, kwIn]
  cases kw kws name with
  | none => rfl
  | some v => cases h : v.isNone <;> simp [h]

@[simp] theorem isNone_checkVal (kws : Kws) (name : String) (vals : List PyVal) :
    (checkVal kws name vals).isNone = kwUnknown kws name := by
  simp only [checkVal, kwUnknown]
  cases kw kws name with
  | none => rfl
  | some v => cases h : v.isNone <;> simp [h]

theorem checkArgCfg_list {c : CallView} {kws : Kws} (hk : c.callKeywords = .ok kws) (name : String) (xs : List CfgVal) :
    checkArgCfg c name (.list xs) = .ok (checkVal kws name (cfgToPyList xs)) := by
  simp [checkArgCfg, checkArg_ok hk]

theorem kwGet_eq (kws : Kws) (name : String) (d : PyVal) : kwGet kws name d = (kw kws name).getD d := rfl

theorem usedForSecurity_eq (kws : Kws) : usedForSecurity kws = forSecurity kws := by
  simp only [usedForSecurity, forSecurity, kwGet_eq]
  cases kw kws "usedforsecurity" <;> simp [PyVal.beq]

/-! ## B324 helper tables -/

theorem b324Hashlib_ok (T : CryptoTables) (c : CallView) (args : List PyVal) (kws : Kws) (func : Str)
    (ha : c.callArgs = .ok args) (hk : c.callKeywords = .ok kws) :
    b324Hashlib T c func = .ok (
      if T.weakHashes.contains func then (if forSecurity kws then some (b324Raw .high) else none)
      else if func == "new".toList then
        (if isWeakHashName T (param args kws 0 "name") && forSecurity kws then some (b324Raw .high) else none)
      else none) := by
  cases args with
  | nil =>
    simp only [b324Hashlib, ha, hk, bind, Except.bind, pure, Except.pure, usedForSecurity_eq, param, kwGet_eq]
    table_cases
  | cons a rest =>
    simp only [b324Hashlib, ha, hk, bind, Except.bind, pure, Except.pure, usedForSecurity_eq, param]
    table_cases

theorem b324Crypt_ok (T : CryptoTables) (c : CallView) (args : List PyVal) (kws : Kws) (func : Str)
    (ha : c.callArgs = .ok args) (hk : c.callKeywords = .ok kws) :
    b324Crypt T c func = .ok (
      if func == "crypt".toList then
        (if isWeakCryptName T (param args kws 1 "salt") then some (b324Raw .medium) else none)
      else if func == "mksalt".toList then
        (if isWeakCryptName T (param args kws 0 "method") then some (b324Raw .medium) else none)
      else none) := by
  match args with
  | [] =>
    simp only [b324Crypt, ha, hk, bind, Except.bind, pure, Except.pure, param, kwGet_eq]
    table_cases
  | [a] =>
    simp only [b324Crypt, ha, hk, bind, Except.bind, pure, Except.pure, param, kwGet_eq]
    table_cases
  | a :: b :: rest =>
    simp only [b324Crypt, ha, hk, bind, Except.bind, pure, Except.pure, param, kwGet_eq]
    table_cases

/-- reading a decision off a table entry -/
theorem ok_ite_some_iff {b : Bool} {x r : PRaw} :
    (Except.ok (if b = true then some x else none) : M (Option PRaw)) = .ok (some r) ↔ b = true ∧ r = x := by
  cases b <;> simp [eq_comm]

theorem ok_ite_none_iff {b : Bool} {x : PRaw} :
    (Except.ok (if b = true then some x else none) : M (Option PRaw)) = .ok none ↔ b = false := by
  cases b <;> simp

/-! ## B503 loop -/

theorem strInCfg_list (val : Str) (xs : List CfgVal) :
    strInCfg val (.list xs) = .ok ((cfgToPyList xs).any (fun x => (PyVal.str val).beq x)) := rfl

theorem b503_go (e : Env) (xs : List CfgVal) (ds : List Node) :
    b503.go e (.list xs) ds =
      .ok (if Spec.Crypto.b503 (cfgToPyList xs) (ds.map (qualAttr e.st.aliases))
           then some { sev := .medium, conf := .medium } else none) := by
  induction ds with
  | nil => simp [b503.go, Spec.Crypto.b503, pure, Except.pure]
  | cons d rest ih =>
    simp only [b503.go, strInCfg_list, bind, Except.bind, pure, Except.pure, ih, Spec.Crypto.b503,
      List.map_cons, List.any_cons, last]
    cases h : (cfgToPyList xs).any (fun x => (PyVal.str (Str.lastDot (qualAttr e.st.aliases d))).beq x) <;> simp

/-! ## key-size arithmetic -/

theorem keySeverity_high {h m k : Int} : keySeverity h m k = some .high ↔ k < h := by
  unfold keySeverity
  split
  · simp_all
  · split <;> simp_all

theorem keySeverity_medium {h m k : Int} : keySeverity h m k = some .medium ↔ h ≤ k ∧ k < m := by
  unfold keySeverity
  split
  · simp; omega
  · split <;> simp <;> omega

theorem keySeverity_none {h m k : Int} : keySeverity h m k = none ↔ h ≤ k ∧ m ≤ k := by
  unfold keySeverity
  split
  · simp; omega
  · split <;> simp <;> omega

theorem keySeverity_antitone (h m : Int) {k₁ k₂ : Int} (hk : k₁ ≤ k₂) :
    sevLevel (keySeverity h m k₂) ≤ sevLevel (keySeverity h m k₁) := by
  unfold keySeverity
  by_cases h2 : k₂ < h
  · have : k₁ < h := by omega
    simp [h2, this]
  · by_cases h2m : k₂ < m
    · by_cases h1 : k₁ < h
      · simp [h2, h2m, h1, sevLevel, Rank.toNat]
      · have : k₁ < m := by omega
        simp [h2, h2m, h1, this]
    · simp [h2, h2m, sevLevel]

/-! ## settings -/

/-- the settings are a mapping carrying these six integer thresholds -/
def HasThresholds (cfg : CfgVal) (t : Thresholds) : Prop :=
  cfgIndex cfg "weak_key_size_dsa_high" = .ok (.int t.dsaHigh) ∧
  cfgIndex cfg "weak_key_size_dsa_medium" = .ok (.int t.dsaMedium) ∧
  cfgIndex cfg "weak_key_size_rsa_high" = .ok (.int t.rsaHigh) ∧
  cfgIndex cfg "weak_key_size_rsa_medium" = .ok (.int t.rsaMedium) ∧
  cfgIndex cfg "weak_key_size_ec_high" = .ok (.int t.ecHigh) ∧
  cfgIndex cfg "weak_key_size_ec_medium" = .ok (.int t.ecMedium)

/-- the settings mapping one gets from six thresholds (key order as in `gen_config`) -/
def thresholdCfg (t : Thresholds) : CfgVal :=
  .map [("weak_key_size_dsa_high".toList, .int t.dsaHigh), ("weak_key_size_dsa_medium".toList, .int t.dsaMedium),
        ("weak_key_size_rsa_high".toList, .int t.rsaHigh), ("weak_key_size_rsa_medium".toList, .int t.rsaMedium),
        ("weak_key_size_ec_high".toList, .int t.ecHigh), ("weak_key_size_ec_medium".toList, .int t.ecMedium)]

theorem hasThresholds_thresholdCfg (t : Thresholds) : HasThresholds (thresholdCfg t) t := by
  refine ⟨?_, ?_, ?_, ?_, ?_, ?_⟩ <;> rfl

theorem classify_int {cfg : CfgVal} {t : Thresholds} (ht : HasThresholds cfg t) (kt : KeyType) (k : Int) :
    classifyKeySize cfg kt.name (.int k) = .ok ((Spec.Crypto.b505 t kt k).map b505Raw) := by
  obtain ⟨h1, h2, h3, h4, h5, h6⟩ := ht
  cases kt <;>
    simp [classifyKeySize, PyVal.isNumber, h1, h2, h3, h4, h5, h6, KeyType.name, pyLtCfg, bind, Except.bind,
      pure, Except.pure, Spec.Crypto.b505, keySeverity, Thresholds.high, Thresholds.medium] <;>
    (split <;> rename_i a <;> simp [a] <;> (split <;> rename_i b <;> simp [b]))

theorem classify_str (cfg : CfgVal) (kt : Str) (s : Str) : classifyKeySize cfg kt (.str s) = .ok none := by
  simp [classifyKeySize, PyVal.isNumber, pure, Except.pure]

/-- anything that is not an int or float literal is left ungraded (no `TypeError` any more) -/
theorem classify_nonnumber (cfg : CfgVal) (kt : Str) (v : PyVal) (h : v.isNumber = false) :
    classifyKeySize cfg kt v = .ok none := by
  simp [classifyKeySize, h, pure, Except.pure]

/-- with well-formed settings `_classify_key_size` never raises, whatever the argument evaluates to -/
theorem classify_total {cfg : CfgVal} {t : Thresholds} (ht : HasThresholds cfg t) (kt : KeyType) (v : PyVal) :
    ∃ r, classifyKeySize cfg kt.name v = .ok r := by
  cases hv : v.isNumber with
  | false => exact ⟨none, classify_nonnumber cfg _ v hv⟩
  | true =>
    obtain ⟨h1, h2, h3, h4, h5, h6⟩ := ht
    cases v <;> simp [PyVal.isNumber] at hv <;> cases kt <;>
      simp [classifyKeySize, PyVal.isNumber, h1, h2, h3, h4, h5, h6, KeyType.name, pyLtCfg, bind, Except.bind,
        pure, Except.pure] <;>
      (repeat' split) <;> simp

/-! ## AST builders for the kernel-checked witnesses -/

def wpos : Option Pos := some ⟨1, 1, 0, 0⟩
def mkName (s : String) : Node := .mk "Name".toList wpos [("id".toList, .str s.toList)] []
def mkAttr (v : Node) (s : String) : Node :=
  .mk "Attribute".toList wpos [("attr".toList, .str s.toList)] [("value".toList, false, [v])]
def mkConst (a : Atom) : Node := .mk "Constant".toList wpos [("value".toList, a)] []
def mkInt (i : Int) : Node := mkConst (.int i)
def mkStr (s : String) : Node := mkConst (.str s.toList)
def mkKw (k : String) (v : Node) : Node :=
  .mk "keyword".toList wpos [("arg".toList, .str k.toList)] [("value".toList, false, [v])]
def mkCall (f : Node) (args kws : List Node) : Node :=
  .mk "Call".toList wpos [] [("func".toList, false, [f]), ("args".toList, true, args), ("keywords".toList, true, kws)]
/-- a dotted name `a.b.c` as nested attributes -/
def mkDotted : List String → Node
  | [] => mkName ""
  | x :: xs => xs.foldl mkAttr (mkName x)
/-- the environment of a call visited at top level, after the given imports -/
def envOf (n : Node) (imports : List String := []) : Env :=
  { v := ⟨[], n, none⟩, st := { aliases := [], imports := imports.map String.toList }, ctx := ⟨some 1, some 0, [1]⟩ }

end Bandit.Plugins

namespace Bandit.Plugins
open Bandit Bandit.Spec.Crypto

/-! ## keyword names vs evaluated keywords -/

theorem mapM_ok_map {α β : Type} (f : α → M β) : ∀ (l : List α) (r : List β), l.mapM f = .ok r →
    ∀ (g : α → Option Str) (h : β → Option Str), (∀ a b, f a = .ok b → h b = g a) → r.map h = l.map g := by
  intro l
  induction l with
  | nil => intro r hr g h _; simp [List.mapM_nil, pure, Except.pure] at hr; simp [← hr]
  | cons a l ih =>
    intro r hr g h hfg
    simp only [List.mapM_cons, bind, Except.bind] at hr
    cases hfa : f a with
    | error x => simp [hfa] at hr
    | ok b =>
      simp only [hfa] at hr
      cases hl : l.mapM f with
      | error x => simp [hl] at hr
      | ok bs =>
        simp only [hl, pure, Except.pure] at hr
        cases hr
        simp [hfg a b hfa, ih bs hl g h hfg]

theorem callKeywords_names {c : CallView} {kws : Kws} (hk : c.callKeywords = .ok kws) :
    kws.map (·.1) = c.keywords.map CallView.kwName := by
  unfold CallView.callKeywords at hk
  refine mapM_ok_map _ _ _ hk CallView.kwName (·.1) ?_
  intro a b hab
  cases hv : CallView.kwValue a with
  | none => simp [hv, pure, Except.pure] at hab; simp [← hab]
  | some v =>
    simp only [hv, bind, Except.bind] at hab
    cases hx : attrOrLiteral v with
    | error x => simp [hx] at hab
    | ok x => simp [hx, pure, Except.pure] at hab; simp [← hab]

theorem kw_isSome {c : CallView} {kws : Kws} (hk : c.callKeywords = .ok kws) (name : String) :
    (kw kws name).isSome = c.keywords.any (fun k => CallView.kwName k == some name.toList) := by
  have h := callKeywords_names hk
  simp only [kw, CallView.lookupKw, Option.isSome_map]
  have e1 : (List.find? (fun x : Option Str × PyVal => x.fst == some name.toList) (List.reverse kws)).isSome
      = (kws.map (·.1)).any (· == some name.toList) := by
    rw [Bool.eq_iff_iff]
    simp [List.find?_isSome, List.any_eq_true]
  have e2 : (c.keywords.any fun k => CallView.kwName k == some name.toList)
      = (c.keywords.map CallView.kwName).any (· == some name.toList) := by
    simp [List.any_map, Function.comp_def]
  rw [e1, e2, h]

/-- read six integer thresholds off a settings mapping -/
def thresholdsOf (cfg : CfgVal) : Option Thresholds :=
  match cfgIndex cfg "weak_key_size_dsa_high", cfgIndex cfg "weak_key_size_dsa_medium",
        cfgIndex cfg "weak_key_size_rsa_high", cfgIndex cfg "weak_key_size_rsa_medium",
        cfgIndex cfg "weak_key_size_ec_high", cfgIndex cfg "weak_key_size_ec_medium" with
  | .ok (.int a), .ok (.int b), .ok (.int c), .ok (.int d), .ok (.int e), .ok (.int f) => some ⟨a, b, c, d, e, f⟩
  | _, _, _, _, _, _ => none

theorem hasThresholds_of {cfg : CfgVal} {t : Thresholds} (h : thresholdsOf cfg = some t) : HasThresholds cfg t := by
  unfold thresholdsOf at h
  split at h
  · rename_i h1 h2 h3 h4 h5 h6
    cases h
    exact ⟨h1, h2, h3, h4, h5, h6⟩
  · cases h

/-- the settings carry six integer thresholds that are coherent and at least the published ones -/
def thresholdsOk (cfg : CfgVal) : Bool :=
  match thresholdsOf cfg with
  | some t => decide (t.Coherent ∧ t.AtLeast publishedThresholds)
  | none => false

theorem thresholdsOk_spec {cfg : CfgVal} (h : thresholdsOk cfg = true) :
    ∃ t, HasThresholds cfg t ∧ t.Coherent ∧ t.AtLeast publishedThresholds := by
  unfold thresholdsOk at h
  split at h
  · rename_i t ht
    exact ⟨t, hasThresholds_of ht, of_decide_eq_true h⟩
  · cases h

/-- the settings carry a list of protocol names containing every published one -/
def badProtocolsOk (cfg : CfgVal) : Bool :=
  match cfgIndex cfg "bad_protocol_versions" with
  | .ok (.list xs) => publishedBadProtocols.all (fun p => (cfgToPyList xs).any (fun x => (PyVal.str p).beq x))
  | _ => false

/-- severity of a check result, "no finding" at the bottom -/
def resultLevel (r : Option PRaw) : Nat := sevLevel (r.map (·.sev))

/-! ## witnesses: concrete calls -/

/-- `<dotted callee>(<args>, <kw>=<value>…)` visited at top level after `import <imports>` -/
def callEnv (callee : List String) (args : List Node) (kws : List (String × Node)) (imports : List String := []) : Env :=
  envOf (mkCall (mkDotted callee) args (kws.map fun (k, v) => mkKw k v)) imports

/-- the set display `{[]}` -/
def setOfEmptyList : Node :=
  .mk "Set".toList wpos [] [("elts".toList, true, [.mk "List".toList wpos [] [("elts".toList, true, [])]])]

theorem literalValue_setOfEmptyList : literalValue setOfEmptyList = .ok .none := by
  have h1 : literalValue.litList [("elts".toList, true, [Node.mk "List".toList wpos [] [("elts".toList, true, [])]])]
      = .ok [.list []] := rfl
  unfold setOfEmptyList
  rw [literalValue]
  simp only [h1]
  simp [Node.isKind, Node.kind, bind, Except.bind, PyVal.hashable]
  rfl

def rsaPath : List String := ["cryptography", "hazmat", "primitives", "asymmetric", "rsa", "generate_private_key"]

end Bandit.Plugins
