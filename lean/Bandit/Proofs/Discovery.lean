import Bandit.Discovery
import Bandit.Proofs.Glob
/-!
# Lemmas about the discovery model
-/
namespace Bandit.Discovery
open Bandit

/-! ### `sorted(set(..))` -/

theorem mem_insertU {x z : Str} {l : List Str} : z ∈ insertU x l ↔ z = x ∨ z ∈ l := by
  induction l with
  | nil => simp [insertU]
  | cons y ys ih =>
    simp only [insertU]
    split
    · next h => subst h; simp
    · split
      · simp
      · simp only [List.mem_cons, ih]
        constructor
        · rintro (h | h | h) <;> simp [h]
        · rintro (h | h | h) <;> simp [h]

theorem mem_sortedSet {z : Str} {l : List Str} : z ∈ sortedSet l ↔ z ∈ l := by
  induction l with
  | nil => simp [sortedSet]
  | cons x xs ih =>
    have : sortedSet (x :: xs) = insertU x (sortedSet xs) := rfl
    rw [this, mem_insertU, ih]; simp

theorem strLt_irrefl (a : Str) : strLt a a = false := by
  induction a with
  | nil => rfl
  | cons c cs ih => simp [strLt, ih]

theorem strLt_trans : ∀ {a b c : Str}, strLt a b = true → strLt b c = true → strLt a c = true
  | [], [], _, h, _ => by simp [strLt] at h
  | [], _ :: _, [], _, h => by simp [strLt] at h
  | [], _ :: _, _ :: _, _, _ => by simp [strLt]
  | _ :: _, [], _, h, _ => by simp [strLt] at h
  | _ :: _, _ :: _, [], _, h => by simp [strLt] at h
  | x :: xs, y :: ys, z :: zs, h1, h2 => by
    simp only [strLt, Bool.or_eq_true, decide_eq_true_eq, Bool.and_eq_true, beq_iff_eq] at *
    rcases h1 with h1 | ⟨rfl, h1⟩ <;> rcases h2 with h2 | ⟨rfl, h2⟩
    · left; omega
    · left; exact h1
    · left; exact h2
    · right; exact ⟨rfl, strLt_trans h1 h2⟩

theorem strLt_total : ∀ {a b : Str}, strLt a b = false → a ≠ b → strLt b a = true
  | [], [], _, h => absurd rfl h
  | [], _ :: _, h, _ => by simp [strLt] at h
  | _ :: _, [], _, _ => by simp [strLt]
  | x :: xs, y :: ys, h, hne => by
    simp only [strLt, Bool.or_eq_false_iff, decide_eq_false_iff_not, Bool.and_eq_false_imp,
      beq_iff_eq, Bool.or_eq_true, decide_eq_true_eq, Bool.and_eq_true] at *
    by_cases hxy : x = y
    · subst hxy
      right
      refine ⟨rfl, strLt_total (h.2 rfl) ?_⟩
      intro e; exact hne (by rw [e])
    · left
      have : x.toNat ≠ y.toNat := fun e => hxy (Char.toNat_inj.mp e)
      omega

/-- strictly increasing in Python's string order: sorted and without duplicates -/
def StrictSorted (l : List Str) : Prop := l.Pairwise (fun a b => strLt a b = true)

theorem insertU_sorted {x : Str} {l : List Str} (h : StrictSorted l) : StrictSorted (insertU x l) := by
  induction l with
  | nil => simp [insertU, StrictSorted]
  | cons y ys ih =>
    simp only [insertU]
    split
    · exact h
    · next hne =>
      split
      · next hlt =>
        refine List.Pairwise.cons ?_ h
        intro z hz
        rcases List.mem_cons.mp hz with rfl | hz
        · exact hlt
        · exact strLt_trans hlt (List.rel_of_pairwise_cons h hz)
      · next hnl =>
        have hyx : strLt y x = true := strLt_total (by simpa using hnl) hne
        refine List.Pairwise.cons ?_ (ih (List.Pairwise.of_cons h))
        intro z hz
        rcases mem_insertU.mp hz with rfl | hz
        · exact hyx
        · exact List.rel_of_pairwise_cons h hz

theorem sortedSet_sorted (l : List Str) : StrictSorted (sortedSet l) := by
  induction l with
  | nil => simp [sortedSet, StrictSorted]
  | cons x xs ih => exact insertU_sorted ih

theorem sortedSet_nodup (l : List Str) : (sortedSet l).Nodup := by
  have := sortedSet_sorted l
  refine List.Pairwise.imp ?_ this
  intro a b h e
  subst e
  simp [strLt_irrefl] at h

/-! ### the walk partition -/

theorem mem_getFiles_fst {fs : Fs} {top p : Str} {inc exc : List Str} :
    p ∈ (getFilesFromDir fs top inc exc).1 ↔ p ∈ walkedPaths fs top ∧ isFileIncluded p inc exc true = true := by
  simp [getFilesFromDir]

theorem mem_getFiles_snd {fs : Fs} {top p : Str} {inc exc : List Str} :
    p ∈ (getFilesFromDir fs top inc exc).2 ↔ p ∈ walkedPaths fs top ∧ isFileIncluded p inc exc true = false := by
  simp [getFilesFromDir]

theorem mem_files {fs : Fs} {cfg : Config} {targets : List Str} {r : Bool} {xp s : Str} :
    s ∈ (discoverFiles fs cfg targets r xp).files ↔
      ∃ t ∈ targets, s ∈ targetFiles fs (includedGlobs cfg) (prepareExcludes fs cfg xp) r t := by
  simp [discoverFiles, mem_sortedSet, List.mem_flatMap]

theorem mem_excluded {fs : Fs} {cfg : Config} {targets : List Str} {r : Bool} {xp s : Str} :
    s ∈ (discoverFiles fs cfg targets r xp).excluded ↔
      ∃ t ∈ targets, s ∈ targetExcluded fs (includedGlobs cfg) (prepareExcludes fs cfg xp) r t := by
  simp [discoverFiles, mem_sortedSet, List.mem_flatMap]

theorem mem_targetFiles_dir {fs : Fs} {inc exc : List Str} {t s : Str} (hd : isDir fs t = true) :
    s ∈ targetFiles fs inc exc true t ↔ s ∈ walkedPaths fs t ∧ isFileIncluded s inc exc true = true := by
  simp [targetFiles, hd, mem_getFiles_fst]

theorem mem_targetExcluded_dir {fs : Fs} {inc exc : List Str} {t s : Str} (hd : isDir fs t = true) :
    s ∈ targetExcluded fs inc exc true t ↔ s ∈ walkedPaths fs t ∧ isFileIncluded s inc exc true = false := by
  simp [targetExcluded, hd, mem_getFiles_snd]

/-- dropping the include test can only turn "excluded" into "included" -/
theorem included_enforce_mono {p : Str} {inc exc : List Str}
    (h : isFileIncluded p inc exc true = true) : isFileIncluded p inc exc false = true := by
  simp only [isFileIncluded, Bool.not_true, Bool.or_false, Bool.not_false, Bool.or_true, ↓reduceIte] at *
  split at h
  · exact h
  · simp at h

/-! ### exclude preparation under the guard -/

theorem prepareExcludes_of_guard {fs : Fs} {cfg : Config} {xp : Str} (h : NoEntryIsDir fs xp = true) :
    prepareExcludes fs cfg xp = Spec.userExcludes cfg xp := by
  simp only [prepareExcludes, Spec.userExcludes, List.append_cancel_left_eq]
  simp only [NoEntryIsDir, List.all_eq_true, Bool.not_eq_eq_eq_not, Bool.not_true] at h
  conv => rhs; rw [← List.map_id (cliEntries xp)]
  apply List.map_congr_left
  intro p hp
  simp [prepareEntry, h p hp]

/-! ### "under the directory" implies "occurs in the text" -/

theorem alignedFrom_infix (d : Str) : ∀ (a : Bool) (s : Str), Spec.alignedFrom d a s = true → Str.isInfix d s = true
  | a, [], h => by
    simp only [Spec.alignedFrom, Bool.and_eq_true] at h
    simpa [Str.isInfix] using h.2
  | a, c :: cs, h => by
    simp only [Spec.alignedFrom, Bool.or_eq_true, Bool.and_eq_true] at h
    simp only [Str.isInfix, Bool.or_eq_true]
    rcases h with ⟨⟨_, hp⟩, _⟩ | h
    · exact Or.inl hp
    · exact Or.inr (alignedFrom_infix d _ cs h)

theorem underPath_infix {d path : Str} (h : Spec.underPath d path = true) : Str.isInfix d path = true := by
  simp only [Spec.underPath, Bool.and_eq_true] at h
  exact alignedFrom_infix d _ _ h.2

/-- the spec's component-wise reading, spelled out -/
theorem alignedFrom_iff (d : Str) : ∀ (a : Bool) (s : Str), Spec.alignedFrom d a s = true ↔
    ∃ u v, s = u ++ d ++ v ∧ (u = [] → a = true) ∧ (u ≠ [] → u.getLast? = some '/') ∧
      (v = [] ∨ v.head? = some '/')
  | a, [] => by
    simp only [Spec.alignedFrom, Bool.and_eq_true, List.isEmpty_iff]
    constructor
    · rintro ⟨ha, rfl⟩; exact ⟨[], [], rfl, fun _ => ha, fun h => absurd rfl h, Or.inl rfl⟩
    · rintro ⟨u, v, h, hu, _, _⟩
      have h' := h.symm
      simp only [List.append_eq_nil_iff] at h'
      exact ⟨hu h'.1.1, h'.1.2⟩
  | a, c :: cs => by
    simp only [Spec.alignedFrom, Bool.or_eq_true, Bool.and_eq_true, alignedFrom_iff d (c == '/') cs]
    constructor
    · rintro (⟨⟨ha, hp⟩, hv⟩ | ⟨u, v, hs, hu1, hu2, hv⟩)
      · obtain ⟨v, hv'⟩ := List.isPrefixOf_iff_prefix.mp hp
        refine ⟨[], v, by simpa using hv'.symm, fun _ => ha, fun h => absurd rfl h, ?_⟩
        rw [← hv'] at hv
        simp only [List.drop_left, List.isEmpty_iff, beq_iff_eq] at hv
        exact hv
      · refine ⟨c :: u, v, by simp [hs], fun h => by simp at h, fun _ => ?_, hv⟩
        cases u with
        | nil =>
          have := hu1 rfl
          simp only [beq_iff_eq] at this
          simp [this]
        | cons x xs =>
          have := hu2 (by simp)
          simpa [List.getLast?_cons_cons] using this
    · rintro ⟨u, v, hs, hu1, hu2, hv⟩
      cases u with
      | nil =>
        left
        simp only [List.nil_append] at hs
        refine ⟨⟨hu1 rfl, ?_⟩, ?_⟩
        · rw [hs]; exact List.isPrefixOf_iff_prefix.mpr ⟨v, rfl⟩
        · rw [hs]
          simp only [List.drop_left, List.isEmpty_iff, beq_iff_eq]
          exact hv
      | cons x xs =>
        right
        simp only [List.cons_append, List.cons.injEq] at hs
        obtain ⟨rfl, hs⟩ := hs
        refine ⟨xs, v, hs, ?_, ?_, hv⟩
        · intro h
          subst h
          have := hu2 (by simp)
          simpa using this
        · intro h
          have := hu2 (by simp)
          cases xs with
          | nil => exact absurd rfl h
          | cons y ys => simpa [List.getLast?_cons_cons] using this

theorem underPath_iff (d path : Str) : Spec.underPath d path = true ↔
    d ≠ [] ∧ ∃ u v, path = u ++ d ++ v ∧ (u = [] ∨ u.getLast? = some '/') ∧ (v = [] ∨ v.head? = some '/') := by
  simp only [Spec.underPath, Bool.and_eq_true, Bool.not_eq_eq_eq_not, Bool.not_true,
    List.isEmpty_eq_false_iff, alignedFrom_iff]
  constructor
  · rintro ⟨hd, u, v, hs, _, hu, hv⟩
    refine ⟨hd, u, v, hs, ?_, hv⟩
    by_cases h : u = []
    · exact Or.inl h
    · exact Or.inr (hu h)
  · rintro ⟨hd, u, v, hs, hu, hv⟩
    refine ⟨hd, u, v, hs, fun _ => trivial, fun h => ?_, hv⟩
    rcases hu with hu | hu
    · exact absurd hu h
    · exact hu

/-! ### the predicate under the guard -/

theorem excluded_of_mustExclude {inc exc : List Str} {path : Str}
    (h : Spec.mustExclude inc exc path = true) : isFileIncluded path inc exc true = false := by
  simp only [Spec.mustExclude, Bool.or_eq_true, Bool.and_eq_true, Bool.not_eq_eq_eq_not,
    Bool.not_true, List.any_eq_true] at h
  simp only [isFileIncluded, Bool.not_true, Bool.or_false]
  rcases h with (⟨_, hp⟩ | ⟨d, hd, hu⟩) | hg
  · simp [hp]
  · have : exc.any (fun x => Str.isInfix x path) = true :=
      List.any_eq_true.mpr ⟨d, hd, underPath_infix hu⟩
    simp [this]
  · simp [hg]

theorem included_of_mustScan {inc exc : List Str} {path : Str}
    (h : Spec.mustScan inc exc path = true) : isFileIncluded path inc exc true = true := by
  simp only [Spec.mustScan, Bool.and_eq_true, Bool.not_eq_eq_eq_not, Bool.not_true] at h
  obtain ⟨⟨⟨_, hp⟩, hg⟩, hs⟩ := h
  simp [isFileIncluded, hp, hg, hs]

/-- fewer patterns to respect: still "must scan" -/
theorem mustScan_mono {inc exc may : List Str} {path : Str}
    (h : Spec.mustScan inc (exc ++ may) path = true) : Spec.mustScan inc exc path = true := by
  simp only [Spec.mustScan, Bool.and_eq_true, Bool.not_eq_eq_eq_not, Bool.not_true,
    Glob.matchesGlobList, List.any_append, Bool.or_eq_false_iff] at h ⊢
  exact ⟨⟨h.1.1, h.1.2.1⟩, h.2.1⟩

theorem explicit_included_of_mustScan {inc exc : List Str} {t : Str}
    (h : Spec.explicitMustScan exc t = true) : isFileIncluded t inc exc false = true := by
  simp only [Spec.explicitMustScan, Bool.and_eq_true, Bool.not_eq_eq_eq_not, Bool.not_true] at h
  simp [isFileIncluded, h.1, h.2]

theorem explicit_excluded_of_mustExclude {inc exc : List Str} {t : Str}
    (h : Spec.explicitMustExclude exc t = true) : isFileIncluded t inc exc false = false := by
  simp only [Spec.explicitMustExclude, Bool.or_eq_true, List.any_eq_true] at h
  simp only [isFileIncluded, Bool.not_false, Bool.or_true, ↓reduceIte]
  rcases h with ⟨d, hd, hu⟩ | hg
  · have : exc.any (fun x => Str.isInfix x t) = true :=
      List.any_eq_true.mpr ⟨d, hd, underPath_infix hu⟩
    simp [this]
  · simp [hg]

/-! ### "name matches an include pattern": file name vs. whole path -/

theorem nameOf_decomp : ∀ (path : Str), ∃ pre, path = pre ++ Spec.nameOf path ∧
    (pre = [] ∨ pre.getLast? = some '/') ∧ '/' ∉ Spec.nameOf path
  | [] => ⟨[], rfl, Or.inl rfl, by simp [Spec.nameOf]⟩
  | c :: cs => by
    obtain ⟨pre, hcs, hpre, hn⟩ := nameOf_decomp cs
    simp only [Spec.nameOf]
    split
    · next hc =>
      subst hc
      refine ⟨'/' :: pre, by simp [← hcs], Or.inr ?_, hn⟩
      cases pre with
      | nil => rfl
      | cons x xs =>
        rcases hpre with h | h
        · simp at h
        · simpa [List.getLast?_cons_cons] using h
    · next hc =>
      split
      · next hs =>
        refine ⟨c :: pre, by simp [← hcs], Or.inr ?_, hn⟩
        cases pre with
        | nil =>
          exfalso
          simp only [List.nil_append] at hcs
          rw [hcs] at hs
          simp only [List.contains_eq_mem, decide_eq_true_eq] at hs
          exact hn hs
        | cons x xs =>
          rcases hpre with h | h
          · simp at h
          · simpa [List.getLast?_cons_cons] using h
      · next hs =>
        refine ⟨[], rfl, Or.inl rfl, ?_⟩
        simp only [List.contains_eq_mem, decide_eq_true_eq] at hs
        simp only [List.mem_cons, not_or]
        exact ⟨fun e => hc e.symm, hs⟩

/-- a slash-free suffix of a path is a suffix of its file name -/
theorem suffix_path_iff_name {lit path : Str} (hl : '/' ∉ lit) :
    lit <:+ path ↔ lit <:+ Spec.nameOf path := by
  obtain ⟨pre, hp, hpre, _⟩ := nameOf_decomp path
  constructor
  · rintro ⟨w, hw⟩
    rw [hp] at hw
    rcases List.append_eq_append_iff.mp hw with ⟨a', h1, h2⟩ | ⟨c', h1, h2⟩
    · -- lit = a' ++ name, pre = w ++ a'
      cases ha : a' with
      | nil => subst ha; simp only [List.nil_append] at h2; rw [h2]; exact List.suffix_refl _
      | cons x xs =>
        exfalso
        have hne : pre ≠ [] := by rw [h1, ha]; simp
        rcases hpre with h | h
        · exact hne h
        · have hl' : (w ++ a').getLast? = some '/' := by rw [← h1]; exact h
          rw [List.getLast?_append, ha] at hl'
          have hx : ((x :: xs).getLast?).isSome = true := by simp
          obtain ⟨y, hy⟩ := Option.isSome_iff_exists.mp hx
          rw [hy, Option.some_or] at hl'
          have : '/' ∈ a' := by
            rw [ha]; exact List.mem_of_getLast? (hy.trans hl')
          exact hl (by rw [h2]; exact List.mem_append_left _ this)
    · exact ⟨c', h2.symm⟩
  · intro h
    rw [hp]
    exact List.IsSuffix.trans h (List.suffix_append _ _)

/-- an include pattern of the documented shape `*<literal suffix without '/'>` (`*.py`, `*.pyw`) -/
def StarSuffix (g : Str) : Prop := ∃ lit, g = '*' :: lit ∧ Glob.Literal lit ∧ '/' ∉ lit

theorem fnmatch_name_eq_path {g path : Str} (hg : StarSuffix g) :
    Glob.fnmatch (Spec.nameOf path) g = Glob.fnmatch path g := by
  obtain ⟨lit, rfl, hlit, hs⟩ := hg
  rw [Bool.eq_iff_iff, Glob.fnmatch_star_literal hlit, Glob.fnmatch_star_literal hlit]
  exact (suffix_path_iff_name hs).symm

theorem matchesGlobList_name_eq_path {inc : List Str} {path : Str} (h : ∀ g ∈ inc, StarSuffix g) :
    Glob.matchesGlobList (Spec.nameOf path) inc = Glob.matchesGlobList path inc := by
  rw [Bool.eq_iff_iff, Glob.matchesGlobList_iff, Glob.matchesGlobList_iff]
  constructor
  · rintro ⟨g, hg, hm⟩; exact ⟨g, hg, by rw [← fnmatch_name_eq_path (h g hg)]; exact hm⟩
  · rintro ⟨g, hg, hm⟩; exact ⟨g, hg, by rw [fnmatch_name_eq_path (h g hg)]; exact hm⟩

end Bandit.Discovery

/-! ### `sorted(set(..))` is canonical: the result depends on the members only -/
namespace Bandit.Discovery
open Bandit

theorem strictSorted_ext : ∀ {a b : List Str}, StrictSorted a → StrictSorted b → (∀ z, z ∈ a ↔ z ∈ b) → a = b
  | [], [], _, _, _ => rfl
  | [], y :: ys, _, _, h => by have := (h y).2 (by simp); simp at this
  | x :: xs, [], _, _, h => by have := (h x).1 (by simp); simp at this
  | x :: xs, y :: ys, ha, hb, h => by
    have hx : ∀ z ∈ xs, strLt x z = true := fun z hz => List.rel_of_pairwise_cons ha hz
    have hy : ∀ z ∈ ys, strLt y z = true := fun z hz => List.rel_of_pairwise_cons hb hz
    have hxy : x = y := by
      by_cases e : x = y
      · exact e
      · have h1 : x ∈ ys := by
          rcases List.mem_cons.1 ((h x).1 (by simp)) with h1 | h1
          · exact absurd h1 e
          · exact h1
        have h2 : y ∈ xs := by
          rcases List.mem_cons.1 ((h y).2 (by simp)) with h2 | h2
          · exact absurd h2.symm e
          · exact h2
        have := strLt_trans (hy x h1) (hx y h2)
        simp [strLt_irrefl] at this
    subst hxy
    have hrest : ∀ z, z ∈ xs ↔ z ∈ ys := by
      intro z
      constructor
      · intro hz
        rcases List.mem_cons.1 ((h z).1 (List.mem_cons_of_mem _ hz)) with e | hz'
        · subst e; have := hx z hz; simp [strLt_irrefl] at this
        · exact hz'
      · intro hz
        rcases List.mem_cons.1 ((h z).2 (List.mem_cons_of_mem _ hz)) with e | hz'
        · subst e; have := hy z hz; simp [strLt_irrefl] at this
        · exact hz'
    rw [strictSorted_ext (List.Pairwise.of_cons ha) (List.Pairwise.of_cons hb) hrest]

theorem sortedSet_ext {l l' : List Str} (h : ∀ z, z ∈ l ↔ z ∈ l') : sortedSet l = sortedSet l' :=
  strictSorted_ext (sortedSet_sorted l) (sortedSet_sorted l') (fun z => by rw [mem_sortedSet, mem_sortedSet]; exact h z)

/-- the result of `discover_files` depends on the SET of targets only: order and repetition of the targets are irrelevant -/
theorem discoverFiles_targets_ext (fs : Fs) (cfg : Config) (ts ts' : List Str) (r : Bool) (xp : Str)
    (h : ∀ t, t ∈ ts ↔ t ∈ ts') : discoverFiles fs cfg ts r xp = discoverFiles fs cfg ts' r xp := by
  unfold discoverFiles
  simp only []
  congr 1
  · apply sortedSet_ext
    intro z; simp only [List.mem_flatMap]
    constructor <;> rintro ⟨t, ht, hz⟩
    · exact ⟨t, (h t).1 ht, hz⟩
    · exact ⟨t, (h t).2 ht, hz⟩
  · apply sortedSet_ext
    intro z; simp only [List.mem_flatMap]
    constructor <;> rintro ⟨t, ht, hz⟩
    · exact ⟨t, (h t).1 ht, hz⟩
    · exact ⟨t, (h t).2 ht, hz⟩

end Bandit.Discovery
