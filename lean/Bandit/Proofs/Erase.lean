import Bandit.Blacklist
/-!
# Position erasure commutes with the accessors
-/
namespace Bandit

theorem eraseList_eq_map (ns : List Node) : Node.erase.eraseList ns = ns.map Node.erase := by
  induction ns with
  | nil => rfl
  | cons n ns ih => simp [Node.erase.eraseList, ih]

theorem eraseSlots_eq_map (ks : List (Str × Bool × List Node)) :
    Node.erase.eraseSlots ks = ks.map (fun s => (s.1, s.2.1, s.2.2.map Node.erase)) := by
  induction ks with
  | nil => rfl
  | cons s ks ih =>
    obtain ⟨f, l, ns⟩ := s
    simp [Node.erase.eraseSlots, ih, eraseList_eq_map]

theorem Node.erase_kids (n : Node) :
    n.erase.kids = n.kids.map (fun s => (s.1, s.2.1, s.2.2.map Node.erase)) := by
  cases n; simp [Node.erase, Node.kids, eraseSlots_eq_map]

theorem find?_slot_map (ks : List (Str × Bool × List Node)) (f : Str) :
    (ks.map (fun s => (s.1, s.2.1, s.2.2.map Node.erase))).find? (·.1 == f)
      = (ks.find? (·.1 == f)).map (fun s => (s.1, s.2.1, s.2.2.map Node.erase)) := by
  induction ks with
  | nil => rfl
  | cons s ks ih =>
    simp only [List.map_cons, List.find?_cons]
    cases (s.1 == f) <;> simp [ih]

@[simp] theorem Node.kidList_erase (n : Node) (f : String) : n.erase.kidList f = (n.kidList f).map Node.erase := by
  simp only [Node.kidList, Node.erase_kids, find?_slot_map]
  cases n.kids.find? (·.1 == f.toList) with
  | none => rfl
  | some s => obtain ⟨a, b, c⟩ := s; rfl

@[simp] theorem Node.kid?_erase (n : Node) (f : String) : n.erase.kid? f = (n.kid? f).map Node.erase := by
  simp only [Node.kid?, Node.erase_kids, find?_slot_map]
  cases n.kids.find? (·.1 == f.toList) with
  | none => rfl
  | some s => obtain ⟨a, b, c⟩ := s; cases c <;> rfl

@[simp] theorem Node.attr_erase (n : Node) (f : String) : n.erase.attr f = n.attr f := by
  simp [Node.attr]
@[simp] theorem Node.strAttr_erase (n : Node) (f : String) : n.erase.strAttr f = n.strAttr f := by
  simp [Node.strAttr]
@[simp] theorem Node.nameId?_erase (n : Node) : n.erase.nameId? = n.nameId? := by
  simp [Node.nameId?]
@[simp] theorem Node.attrName?_erase (n : Node) : n.erase.attrName? = n.attrName? := by
  simp [Node.attrName?]
@[simp] theorem Node.constValue?_erase (n : Node) : n.erase.constValue? = n.constValue? := by
  simp [Node.constValue?]
@[simp] theorem Node.strConst?_erase (n : Node) : n.erase.strConst? = n.strConst? := by
  simp [Node.strConst?]
@[simp] theorem Node.isStrConst_erase (n : Node) : n.erase.isStrConst = n.isStrConst := by
  simp [Node.isStrConst]

@[simp] theorem importNames_erase (n : Node) : importNames n.erase = importNames n := by
  simp [importNames, List.map_map, Function.comp_def]
@[simp] theorem importModule?_erase (n : Node) : importModule? n.erase = importModule? n := by
  simp [importModule?]
@[simp] theorem importFullNames_erase (n : Node) : importFullNames n.erase = importFullNames n := by
  simp [importFullNames]

/-- the call view of an erased node is the erased call view -/
def CallView.erase (c : CallView) : CallView :=
  ⟨c.node.erase, c.func.erase, c.args.map Node.erase, c.keywords.map Node.erase⟩

theorem Node.asCall?_erase (n : Node) : n.erase.asCall? = n.asCall?.map CallView.erase := by
  simp only [Node.asCall?, Node.erase_isKind, Node.kid?_erase, Node.kidList_erase]
  by_cases h : n.isKind "Call" = true
  · simp only [h, if_true]
    cases n.kid? "func" <;> rfl
  · simp [h]

end Bandit
