import Bandit.Format
/-!
# Helper lemmas for the report-formatter model (C09)
-/
namespace Bandit.Format
open Bandit

/-! ## html.escape -/

/-- the per-character view of `html.escape` -/
def escChar (c : Char) : Str :=
  if c = '&' then "&amp;".toList else if c = '<' then "&lt;".toList else if c = '>' then "&gt;".toList
  else if c = '"' then "&quot;".toList else if c = '\'' then "&#x27;".toList else [c]

theorem replaceChar_flatMap (c : Char) (r : Str) (f : Char → Str) (s : Str) :
    replaceChar c r (s.flatMap f) = s.flatMap (fun x => replaceChar c r (f x)) := by
  simp [replaceChar, List.flatMap_assoc]

theorem replaceChar_eq_flatMap (c : Char) (r : Str) (s : Str) :
    replaceChar c r s = s.flatMap (fun x => if x = c then r else [x]) := rfl

/-- the five sequential replacements are one pass of `escChar` (each replacement text contains none
of the characters replaced later, and `&` is replaced first) -/
theorem htmlEscape_eq (s : Str) : htmlEscape s = s.flatMap escChar := by
  unfold htmlEscape
  rw [replaceChar_eq_flatMap '&', replaceChar_flatMap, replaceChar_flatMap, replaceChar_flatMap, replaceChar_flatMap]
  congr 1
  funext x
  unfold escChar
  by_cases h1 : x = '&'
  · subst h1; decide
  by_cases h2 : x = '<'
  · subst h2; decide
  by_cases h3 : x = '>'
  · subst h3; decide
  by_cases h4 : x = '"'
  · subst h4; decide
  by_cases h5 : x = '\''
  · subst h5; decide
  simp [replaceChar, h1, h2, h3, h4, h5]

theorem htmlEscape_cons (c : Char) (s : Str) : htmlEscape (c :: s) = escChar c ++ htmlEscape s := by
  simp [htmlEscape_eq]

theorem htmlEscape_nil : htmlEscape [] = [] := by simp [htmlEscape_eq]

theorem matchEntity_of_ne_amp {c : Char} (h : c ≠ '&') (r : Str) : matchEntity (c :: r) = none := by
  have hc : ¬ ('&' = c) := fun e => h e.symm
  simp [matchEntity, entities, List.findSome?, hc]

theorem escChar_length_pos (c : Char) : 0 < (escChar c).length := by
  unfold escChar
  repeat' split
  all_goals simp

theorem unescape_step (n : Nat) (c : Char) (rest : Str) (hn : (escChar c ++ rest).length ≤ n + 1) :
    ∃ m, rest.length ≤ m ∧ unescapeFuel (n + 1) (escChar c ++ rest) = c :: unescapeFuel m rest := by
  unfold escChar at hn ⊢
  by_cases h1 : c = '&'
  · subst h1
    refine ⟨n, by simp at hn; omega, ?_⟩
    simp [unescapeFuel, matchEntity, entities]
  by_cases h2 : c = '<'
  · subst h2
    refine ⟨n, by simp at hn; omega, ?_⟩
    simp [unescapeFuel, matchEntity, entities]
  by_cases h3 : c = '>'
  · subst h3
    refine ⟨n, by simp at hn; omega, ?_⟩
    simp [unescapeFuel, matchEntity, entities]
  by_cases h4 : c = '"'
  · subst h4
    refine ⟨n, by simp at hn; omega, ?_⟩
    simp [unescapeFuel, matchEntity, entities]
  by_cases h5 : c = '\''
  · subst h5
    refine ⟨n, by simp at hn; omega, ?_⟩
    simp [unescapeFuel, matchEntity, entities]
  · refine ⟨n, by simp [h1, h2, h3, h4, h5] at hn; omega, ?_⟩
    simp only [h1, h2, h3, h4, h5, if_false, List.cons_append, List.nil_append, unescapeFuel,
      matchEntity_of_ne_amp h1]

theorem unescapeFuel_escape (s : Str) : ∀ n, (htmlEscape s).length ≤ n → unescapeFuel n (htmlEscape s) = s := by
  induction s with
  | nil => intro n _; cases n <;> simp [htmlEscape_nil, unescapeFuel]
  | cons c s ih =>
    intro n hn
    rw [htmlEscape_cons] at hn ⊢
    cases n with
    | zero =>
      have := escChar_length_pos c
      rw [List.length_append] at hn
      omega
    | succ n =>
      obtain ⟨m, hm, he⟩ := unescape_step n c (htmlEscape s) hn
      rw [he, ih m hm]

theorem mem_htmlEscape {x : Char} {s : Str} : x ∈ htmlEscape s ↔ ∃ c ∈ s, x ∈ escChar c := by
  simp [htmlEscape_eq, List.mem_flatMap]

theorem escChar_no_markup (c x : Char) (h : x ∈ escChar c) : x ≠ '<' ∧ x ≠ '>' ∧ x ≠ '"' ∧ x ≠ '\'' := by
  have key : ∀ e ∈ entities, ∀ y ∈ e.1, y ≠ '<' ∧ y ≠ '>' ∧ y ≠ '"' ∧ y ≠ '\'' := by decide
  unfold escChar at h
  by_cases h1 : c = '&'
  · rw [if_pos h1] at h; exact key ("&amp;".toList, '&') (by decide) x h
  rw [if_neg h1] at h
  by_cases h2 : c = '<'
  · rw [if_pos h2] at h; exact key ("&lt;".toList, '<') (by decide) x h
  rw [if_neg h2] at h
  by_cases h3 : c = '>'
  · rw [if_pos h3] at h; exact key ("&gt;".toList, '>') (by decide) x h
  rw [if_neg h3] at h
  by_cases h4 : c = '"'
  · rw [if_pos h4] at h; exact key ("&quot;".toList, '"') (by decide) x h
  rw [if_neg h4] at h
  by_cases h5 : c = '\''
  · rw [if_pos h5] at h; exact key ("&#x27;".toList, '\'') (by decide) x h
  rw [if_neg h5] at h
  have : x = c := by simpa using h
  subst this
  exact ⟨h2, h3, h4, h5⟩

theorem amp_head {tail pre rest : Str} (h : '&' :: tail = pre ++ '&' :: rest) (ht : '&' ∉ tail) : pre = [] := by
  cases pre with
  | nil => rfl
  | cons p pre' =>
    simp only [List.cons_append, List.cons.injEq] at h
    exact absurd (by rw [h.2]; simp) ht

/-- an `&` inside `escChar c` is its first character, and then `escChar c` is one of the five entities -/
theorem escChar_amp (c : Char) (pre rest : Str) (h : escChar c = pre ++ '&' :: rest) :
    pre = [] ∧ ∃ e ∈ entities, escChar c = e.1 := by
  unfold escChar at h ⊢
  by_cases h1 : c = '&'
  · rw [if_pos h1] at h ⊢; exact ⟨amp_head h (by decide), ("&amp;".toList, '&'), by decide, rfl⟩
  rw [if_neg h1] at h ⊢
  by_cases h2 : c = '<'
  · rw [if_pos h2] at h ⊢; exact ⟨amp_head h (by decide), ("&lt;".toList, '<'), by decide, rfl⟩
  rw [if_neg h2] at h ⊢
  by_cases h3 : c = '>'
  · rw [if_pos h3] at h ⊢; exact ⟨amp_head h (by decide), ("&gt;".toList, '>'), by decide, rfl⟩
  rw [if_neg h3] at h ⊢
  by_cases h4 : c = '"'
  · rw [if_pos h4] at h ⊢; exact ⟨amp_head h (by decide), ("&quot;".toList, '"'), by decide, rfl⟩
  rw [if_neg h4] at h ⊢
  by_cases h5 : c = '\''
  · rw [if_pos h5] at h ⊢; exact ⟨amp_head h (by decide), ("&#x27;".toList, '\''), by decide, rfl⟩
  rw [if_neg h5] at h
  exfalso
  cases pre with
  | nil => simp at h; exact h1 h.1
  | cons p pre' => simp at h

theorem amp_starts_entity (s : Str) : ∀ pre post, htmlEscape s = pre ++ '&' :: post →
    ∃ e ∈ entities, e.1 <+: '&' :: post := by
  induction s with
  | nil => intro pre post h; simp [htmlEscape_nil] at h
  | cons c s ih =>
    intro pre post h
    rw [htmlEscape_cons, List.append_eq_append_iff] at h
    rcases h with ⟨a', rfl, h2⟩ | ⟨c', h1, h2⟩
    · exact ih a' post h2
    · cases c' with
      | nil =>
        simp only [List.nil_append] at h2
        exact ih [] post (by simpa using h2.symm)
      | cons x c'' =>
        simp only [List.cons_append, List.cons.injEq] at h2
        obtain ⟨hx, hpost⟩ := h2
        subst hx
        obtain ⟨hpre, e, he, hee⟩ := escChar_amp c pre c'' h1
        subst hpre
        refine ⟨e, he, ?_⟩
        have : '&' :: post = e.1 ++ htmlEscape s := by
          rw [← hee, h1, hpost]; simp
        rw [this]
        exact List.prefix_append _ _

end Bandit.Format
