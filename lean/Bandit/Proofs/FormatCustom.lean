import Bandit.Spec.Format
import Bandit.Proofs.FormatDoc
/-!
# Lemmas: the custom formatter's template round trip (parse → re-compose → `str.format`)
-/
namespace Bandit.Format
open Bandit Bandit.Format.Spec

def run (st : PSt × List Tok) (s : Str) : M (PSt × List Tok) := s.foldlM pstep st

theorem run_nil (st : PSt × List Tok) : run st [] = .ok st := rfl

theorem run_cons (st : PSt × List Tok) (c : Char) (s : Str) : run st (c :: s) = pstep st c >>= fun st' => run st' s := by
  simp [run, List.foldlM_cons]

theorem run_append (st : PSt × List Tok) (a b : Str) : run st (a ++ b) = run st a >>= fun st' => run st' b := by
  simp [run, List.foldlM_append]

theorem run_text (out : List Tok) (s : Str) (h : ∀ c ∈ s, c ≠ '{' ∧ c ≠ '}') :
    run (.lit, out) s = .ok (.lit, out ++ s.map Tok.ch) := by
  induction s generalizing out with
  | nil => simp [run_nil]
  | cons c s ih =>
    obtain ⟨h1, h2⟩ := h c (by simp)
    rw [run_cons]
    simp only [pstep, if_neg h1, if_neg h2, bind, Except.bind]
    rw [ih _ (fun x hx => h x (by simp [hx]))]
    simp

theorem run_fld (out : List Tok) (acc n : Str) (h : ∀ c ∈ n, c ≠ '{' ∧ c ≠ '}' ∧ fieldSpecial c = false) :
    run (.fld acc, out) (n ++ ['}']) = .ok (.lit, out ++ [.tag (acc ++ n)]) := by
  induction n generalizing acc with
  | nil => simp [run_cons, run_nil, pstep, bind, Except.bind]
  | cons c n ih =>
    obtain ⟨h1, h2, h3⟩ := h c (by simp)
    rw [List.cons_append, run_cons]
    simp only [pstep, if_neg h1, if_neg h2, h3, Bool.false_eq_true, if_false, bind, Except.bind]
    rw [ih _ (fun x hx => h x (by simp [hx]))]
    simp

/-- the tokens a well-formed segment parses to -/
def segToks : TSeg → List Tok
  | .text s => s.map Tok.ch
  | .lbrace => [.ch '{']
  | .rbrace => [.ch '}']
  | .tag n => [.tag n]

theorem run_seg (out : List Tok) (seg : TSeg) (h : seg.WF) :
    run (.lit, out) seg.source = .ok (.lit, out ++ segToks seg) := by
  cases seg with
  | text s => exact run_text out s h
  | lbrace => simp [TSeg.source, segToks, run_cons, run_nil, pstep, bind, Except.bind]
  | rbrace => simp [TSeg.source, segToks, run_cons, run_nil, pstep, bind, Except.bind]
  | tag n =>
    obtain ⟨hne, hc⟩ := h
    cases n with
    | nil => exact absurd rfl hne
    | cons c n =>
      obtain ⟨h1, h2, h3⟩ := hc c (by simp)
      simp only [TSeg.source, segToks, List.cons_append]
      rw [run_cons]
      simp only [pstep, bind, Except.bind, if_true]
      rw [run_cons]
      simp only [pstep, if_neg h1, if_neg h2, h3, Bool.false_eq_true, if_false, bind, Except.bind]
      rw [run_fld out [c] n (fun x hx => hc x (by simp [hx]))]
      simp

theorem run_segs (out : List Tok) (segs : List TSeg) (h : ∀ s ∈ segs, s.WF) :
    run (.lit, out) (templateSource segs) = .ok (.lit, out ++ segs.flatMap segToks) := by
  induction segs generalizing out with
  | nil => simp [templateSource, run_nil]
  | cons s segs ih =>
    simp only [templateSource, List.flatMap_cons] at ih ⊢
    rw [run_append, run_seg out s (h s (by simp))]
    simp only [bind, Except.bind]
    rw [ih _ (fun x hx => h x (by simp [hx]))]
    simp

theorem parse_segs (segs : List TSeg) (h : ∀ s ∈ segs, s.WF) :
    parseTemplate (templateSource segs) = .ok (segs.flatMap segToks) := by
  have := run_segs [] segs h
  simp only [run, List.nil_append] at this
  simp [parseTemplate, this, bind, Except.bind, pfinish]

/-- the segment that `recomposeTok` writes for a token -/
def tokSeg : Tok → TSeg
  | .ch c => if c = '{' then .lbrace else if c = '}' then .rbrace else .text [c]
  | .tag n => if knownTags.contains n then .tag n else .text n

theorem recomposeTok_eq (t : Tok) : recomposeTok t = (tokSeg t).source := by
  cases t with
  | ch c =>
    simp only [recomposeTok, tokSeg]
    by_cases h1 : c = '{'
    · simp [h1, TSeg.source]
    · by_cases h2 : c = '}'
      · simp [h2, TSeg.source]
      · simp [h1, h2, TSeg.source]
  | tag n =>
    simp only [recomposeTok, tokSeg]
    by_cases h : knownTags.contains n = true
    · rw [if_pos h, if_pos h]; rfl
    · rw [if_neg h, if_neg h]; rfl

theorem tokSeg_WF (seg : TSeg) (h : seg.WF) : ∀ t ∈ segToks seg, (tokSeg t).WF := by
  intro t ht
  cases seg with
  | text s =>
    simp only [segToks, List.mem_map] at ht
    obtain ⟨c, hc, rfl⟩ := ht
    obtain ⟨h1, h2⟩ := h c hc
    simp [tokSeg, h1, h2, TSeg.WF]
  | lbrace => simp only [segToks, List.mem_singleton] at ht; subst ht; simp [tokSeg, TSeg.WF]
  | rbrace => simp only [segToks, List.mem_singleton] at ht; subst ht; simp [tokSeg, TSeg.WF]
  | tag n =>
    simp only [segToks, List.mem_singleton] at ht
    subst ht
    obtain ⟨hne, hc⟩ := h
    simp only [tokSeg]
    split
    · exact ⟨hne, hc⟩
    · intro c hcm; exact ⟨(hc c hcm).1, (hc c hcm).2.1⟩

theorem lookup_isSome (l : List (Str × Str)) (n : Str) : (l.lookup n).isSome = (l.map Prod.fst).contains n := by
  induction l with
  | nil => rfl
  | cons e es ih =>
    obtain ⟨k, v⟩ := e
    simp only [List.lookup, List.map_cons, List.contains_cons]
    cases h : n == k <;> simp [ih]

theorem tagTable_keys (i : Issue) : (tagTable i).map Prod.fst = knownTags := rfl

theorem knownTag_value (i : Issue) (n : Str) (h : knownTags.contains n = true) : ∃ v, tagValue i n = some v := by
  have := lookup_isSome (tagTable i) n
  rw [tagTable_keys, h] at this
  exact Option.isSome_iff_exists.mp this

theorem unknownTag_value (i : Issue) (n : Str) (h : ¬ knownTags.contains n = true) : tagValue i n = none := by
  have := lookup_isSome (tagTable i) n
  rw [tagTable_keys] at this
  have h' : knownTags.contains n = false := by simpa using h
  rw [h'] at this
  simpa [tagValue] using this

theorem fmt_chars (i : Issue) (n : Str) : (n.map Tok.ch).flatMap (fmtTok i) = n := by
  induction n with
  | nil => rfl
  | cons c n ih => simp only [List.map_cons, List.flatMap_cons, fmtTok, ih]; rfl

theorem chars_meaning (i : Issue) (s : Str) (h : ∀ c ∈ s, c ≠ '{' ∧ c ≠ '}') :
    (s.map Tok.ch).flatMap (fun t => (segToks (tokSeg t)).flatMap (fmtTok i)) = s := by
  induction s with
  | nil => rfl
  | cons c s ih =>
    obtain ⟨h1, h2⟩ := h c (by simp)
    have e : tokSeg (.ch c) = .text [c] := by simp [tokSeg, h1, h2]
    rw [List.map_cons, List.flatMap_cons, e, ih (fun x hx => h x (by simp [hx]))]
    rfl

/-- formatting the re-composed segment of a token gives what the original segment means -/
theorem seg_meaning (i : Issue) (seg : TSeg) (h : seg.WF) :
    (segToks seg).flatMap (fun t => (segToks (tokSeg t)).flatMap (fmtTok i)) = seg.meaning i := by
  cases seg with
  | text s => exact chars_meaning i s h
  | lbrace => simp [segToks, tokSeg, fmtTok, TSeg.meaning]
  | rbrace => simp [segToks, tokSeg, fmtTok, TSeg.meaning]
  | tag n =>
    obtain ⟨_, hc⟩ := h
    simp only [segToks, TSeg.meaning, List.flatMap_cons, List.flatMap_nil, List.append_nil, tokSeg]
    by_cases hk : knownTags.contains n = true
    · obtain ⟨v, hv⟩ := knownTag_value i n hk
      rw [if_pos hk]
      simp [fmtTok, hv]
    · rw [if_neg hk, unknownTag_value i n hk]
      simp only [Option.getD_none]
      exact fmt_chars i n

theorem flatMap_flatMap_segs (i : Issue) (segs : List TSeg) (h : ∀ s ∈ segs, s.WF) :
    (segs.flatMap segToks).flatMap (fun t => (segToks (tokSeg t)).flatMap (fmtTok i)) = segs.flatMap (TSeg.meaning i) := by
  induction segs with
  | nil => rfl
  | cons s segs ih =>
    simp only [List.flatMap_cons, List.flatMap_append]
    rw [seg_meaning i s (h s (by simp)), ih (fun x hx => h x (by simp [hx]))]

/-- the re-composed template, seen as a user template again -/
def segs2 (toks : List Tok) : List TSeg := toks.map tokSeg ++ [.text ['\n']]

theorem recompose_eq (toks : List Tok) : recompose toks = templateSource (segs2 toks) := by
  simp only [recompose, templateSource, segs2, List.flatMap_append, List.flatMap_map, List.flatMap_cons, List.flatMap_nil,
    TSeg.source, List.append_nil]
  have : recomposeTok = fun t => (tokSeg t).source := funext recomposeTok_eq
  rw [this]
  rfl

theorem formatWith_recompose (i : Issue) (segs : List TSeg) (h : ∀ s ∈ segs, s.WF) :
    formatWith i (recompose (segs.flatMap segToks)) = .ok (segs.flatMap (TSeg.meaning i) ++ ['\n']) := by
  have hwf : ∀ s ∈ segs2 (segs.flatMap segToks), s.WF := by
    intro s hs
    simp only [segs2, List.mem_append, List.mem_map, List.mem_flatMap, List.mem_singleton] at hs
    rcases hs with ⟨t, ⟨seg, hseg, ht⟩, rfl⟩ | rfl
    · exact tokSeg_WF seg (h seg hseg) t ht
    · intro c hc
      have : c = '\n' := by simpa using hc
      subst this; decide
  unfold formatWith
  rw [recompose_eq, parse_segs _ hwf]
  simp only [bind, Except.bind, pure, Except.pure, segs2, List.flatMap_append, List.flatMap_map]
  rw [List.flatMap_assoc, flatMap_flatMap_segs i segs h]
  rfl

theorem any_isTag (segs : List TSeg) (ht : ∃ s ∈ segs, s.isTag = true) : (segs.flatMap segToks).any Tok.isTag = true := by
  obtain ⟨s, hs, hst⟩ := ht
  cases s with
  | tag n =>
    simp only [List.any_eq_true, List.mem_flatMap]
    exact ⟨.tag n, ⟨.tag n, hs, by simp [segToks]⟩, rfl⟩
  | _ => simp [TSeg.isTag] at hst

theorem no_empty_tag (segs : List TSeg) (h : ∀ s ∈ segs, s.WF) : (segs.flatMap segToks).any (· == .tag []) = false := by
  rw [Bool.eq_false_iff]
  intro hany
  simp only [List.any_eq_true, List.mem_flatMap, beq_iff_eq] at hany
  obtain ⟨t, ⟨seg, hseg, ht⟩, rfl⟩ := hany
  have hw := h seg hseg
  cases seg with
  | text s => simp [segToks] at ht
  | lbrace => simp [segToks] at ht
  | rbrace => simp [segToks] at ht
  | tag n =>
    simp only [segToks, List.mem_singleton, Tok.tag.injEq] at ht
    exact hw.1 ht.symm

/-- **What the custom formatter prints** for any well-formed user template with at least one tag:
exactly the template's meaning, one line per finding — in particular validation accepts it
(no `exit2`), no expansion raises, doubled braces survive the re-composition, and finding text
containing `{`, `}` or `%` is never re-interpreted. -/
theorem customReport_meaning (segs : List TSeg) (h : ∀ s ∈ segs, s.WF) (ht : ∃ s ∈ segs, s.isTag = true)
    (issues : List Issue) :
    customReport (templateSource segs) issues = .ok (reportMeaning segs issues) := by
  unfold customReport
  rw [parse_segs segs h]
  simp only [bind, Except.bind, no_empty_tag segs h, any_isTag segs ht, Bool.false_eq_true, if_false, not_true_eq_false,
    pure, Except.pure]
  rw [mapM_ok_of_forall _ (fun i => segs.flatMap (TSeg.meaning i) ++ ['\n']) issues
    (fun i _ => formatWith_recompose i segs h)]
  simp [reportMeaning, List.flatMap_def]

end Bandit.Format
