import Bandit.Format
/-!
# Lemmas: grouping order, `mapM` in `Except`, record shapes (C09)
-/
namespace Bandit.Format
open Bandit

/-! ## Python's `str` order -/

theorem strLe_refl : ∀ a : Str, strLe a a = true
  | [] => rfl
  | a :: as => by simp [strLe, strLe_refl as]

theorem strLe_total : ∀ a b : Str, (strLe a b || strLe b a) = true
  | [], _ => by simp [strLe]
  | _ :: _, [] => by simp [strLe]
  | a :: as, b :: bs => by
    have ih := strLe_total as bs
    simp only [strLe]
    by_cases h1 : a.toNat < b.toNat
    · simp [h1]
    · by_cases h2 : b.toNat < a.toNat
      · simp [h1, h2]
      · simpa [h1, h2] using ih

theorem strLe_trans : ∀ a b c : Str, strLe a b = true → strLe b c = true → strLe a c = true
  | [], _, _, _, _ => by simp [strLe]
  | _ :: _, [], _, h, _ => by simp [strLe] at h
  | _ :: _, _ :: _, [], _, h => by simp [strLe] at h
  | a :: as, b :: bs, c :: cs, h1, h2 => by
    have ih := strLe_trans as bs cs
    simp only [strLe] at h1 h2 ⊢
    by_cases hab : a.toNat < b.toNat
    · by_cases hbc : b.toNat < c.toNat
      · have : a.toNat < c.toNat := by omega
        simp [this]
      · by_cases hcb : c.toNat < b.toNat
        · simp [hbc, hcb] at h2
        · have : a.toNat < c.toNat := by omega
          simp [this]
    · by_cases hba : b.toNat < a.toNat
      · simp [hab, hba] at h1
      · have e : a.toNat = b.toNat := by omega
        simp only [hab, hba, if_false] at h1
        by_cases hbc : b.toNat < c.toNat
        · have : a.toNat < c.toNat := by omega
          simp [this]
        · by_cases hcb : c.toNat < b.toNat
          · simp [hbc, hcb] at h2
          · simp only [hbc, hcb, if_false] at h2
            have n1 : ¬ a.toNat < c.toNat := by omega
            have n2 : ¬ c.toNat < a.toNat := by omega
            simp only [n1, n2, if_false]
            exact ih h1 h2

theorem strLe_antisymm : ∀ a b : Str, strLe a b = true → strLe b a = true → a = b
  | [], [], _, _ => rfl
  | [], _ :: _, _, h => by simp [strLe] at h
  | _ :: _, [], h, _ => by simp [strLe] at h
  | a :: as, b :: bs, h1, h2 => by
    simp only [strLe] at h1 h2
    by_cases hab : a.toNat < b.toNat
    · have : ¬ b.toNat < a.toNat := by omega
      simp [hab, this] at h2
    · by_cases hba : b.toNat < a.toNat
      · simp [hab, hba] at h1
      · simp only [hab, hba, if_false] at h1 h2
        have e : a = b := Char.toNat_inj.mp (by omega)
        rw [e, strLe_antisymm as bs h1 h2]

/-! ## `mapM` in `Except` -/

theorem mapM_ok_of_forall {α β ε} (f : α → Except ε β) (g : α → β) (l : List α) (h : ∀ x ∈ l, f x = .ok (g x)) :
    l.mapM f = .ok (l.map g) := by
  induction l with
  | nil => rfl
  | cons a l ih =>
    rw [List.mapM_cons, h a (by simp), ih (fun x hx => h x (by simp [hx]))]
    rfl

/-- element-wise relation between two lists of the same length -/
inductive Forall₂ {α β} (R : α → β → Prop) : List α → List β → Prop
  | nil : Forall₂ R [] []
  | cons {a b l rs} : R a b → Forall₂ R l rs → Forall₂ R (a :: l) (b :: rs)

theorem mapM_ok_forall₂ {α β ε} (f : α → Except ε β) :
    ∀ (l : List α) (rs : List β), l.mapM f = .ok rs → Forall₂ (fun x r => f x = .ok r) l rs := by
  intro l
  induction l with
  | nil => intro rs h; cases h; exact .nil
  | cons a l ih =>
    intro rs h
    rw [List.mapM_cons] at h
    cases hfa : f a with
    | error e => rw [hfa] at h; cases h
    | ok b =>
      rw [hfa] at h
      cases hl : l.mapM f with
      | error e => rw [hl] at h; cases h
      | ok bs =>
        rw [hl] at h
        cases h
        exact .cons hfa (ih bs hl)

theorem forall₂_length {α β} {R : α → β → Prop} {l : List α} {rs : List β} (h : Forall₂ R l rs) :
    rs.length = l.length := by
  induction h with
  | nil => rfl
  | cons _ _ ih => simp [ih]

theorem forall₂_mem_right {α β} {R : α → β → Prop} {l : List α} {rs : List β} (h : Forall₂ R l rs) :
    ∀ r ∈ rs, ∃ x ∈ l, R x r := by
  induction h with
  | nil => intro r hr; cases hr
  | cons hab _ ih =>
    intro r hr
    rcases List.mem_cons.mp hr with rfl | hr
    · exact ⟨_, by simp, hab⟩
    · obtain ⟨x, hx, hR⟩ := ih r hr
      exact ⟨x, by simp [hx], hR⟩

theorem forall₂_mem_left {α β} {R : α → β → Prop} {l : List α} {rs : List β} (h : Forall₂ R l rs) :
    ∀ x ∈ l, ∃ r ∈ rs, R x r := by
  induction h with
  | nil => intro r hr; cases hr
  | cons hab _ ih =>
    intro x hx
    rcases List.mem_cons.mp hx with rfl | hx
    · exact ⟨_, by simp, hab⟩
    · obtain ⟨r, hr, hR⟩ := ih x hx
      exact ⟨r, by simp [hr], hR⟩

end Bandit.Format
