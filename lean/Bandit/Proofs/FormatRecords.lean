import Bandit.Spec.Format
/-!
# Lemmas: which leaves each format's record contains (C09)
-/
namespace Bandit.Format
open Bandit Bandit.Format.Spec

theorem carries_json (n : Int) (i : Issue) : Carries (jsonRecord n i) i := by
  intro o ho
  refine ⟨ser o (fieldVal i o), ?_, rfl, rfl⟩
  simp only [sixFields, List.mem_cons, List.not_mem_nil, or_false] at ho
  rcases ho with rfl | rfl | rfl | rfl | rfl | rfl <;> simp [jsonRecord, fieldVal]

theorem carries_yaml (n : Int) (i : Issue) : Carries (yamlRecord n i) i := by
  intro o ho
  obtain ⟨l, hl, ho', hv⟩ := carries_json n i o ho
  refine ⟨l, ?_, ho', hv⟩
  simp only [yamlRecord, List.mem_map]
  refine ⟨l, hl, ?_⟩
  have : l.origin ≠ .code := by
    rw [ho']
    simp only [sixFields, List.mem_cons, List.not_mem_nil, or_false] at ho
    rcases ho with rfl | rfl | rfl | rfl | rfl | rfl <;> decide
  simp [this]

theorem carries_csv (i : Issue) : Carries (csvRecord i) i := by
  intro o ho
  refine ⟨ser o (fieldVal i o), ?_, rfl, rfl⟩
  simp only [sixFields, List.mem_cons, List.not_mem_nil, or_false] at ho
  rcases ho with rfl | rfl | rfl | rfl | rfl | rfl <;> simp [csvRecord, fieldVal]

theorem carries_xml (i : Issue) : Carries (xmlRecord i) i := by
  intro o ho
  refine ⟨ser o (fieldVal i o), ?_, rfl, rfl⟩
  simp only [sixFields, List.mem_cons, List.not_mem_nil, or_false] at ho
  rcases ho with rfl | rfl | rfl | rfl | rfl | rfl <;> simp [xmlRecord, fieldVal]

theorem carries_html (cfg : HtmlCfg) (n : Int) (i : Issue) : Carries (htmlRecord cfg n i) i := by
  intro o ho
  simp only [sixFields, List.mem_cons, List.not_mem_nil, or_false] at ho
  rcases ho with rfl | rfl | rfl | rfl | rfl | rfl
  · exact ⟨⟨.testId, .raw, i.testId⟩, by simp [htmlRecord], rfl, rfl⟩
  · exact ⟨⟨.file, encIf cfg.escPath, i.fname⟩, by simp [htmlRecord], rfl, rfl⟩
  · exact ⟨⟨.line, .raw, natStr i.lineno⟩, by simp [htmlRecord], rfl, rfl⟩
  · exact ⟨⟨.sev, .raw, i.sev⟩, by simp [htmlRecord], rfl, rfl⟩
  · exact ⟨⟨.conf, .raw, i.conf⟩, by simp [htmlRecord], rfl, rfl⟩
  · exact ⟨⟨.text, encIf cfg.escText, i.text⟩, by simp [htmlRecord], rfl, rfl⟩

theorem all_ser_json (n : Int) (i : Issue) : ∀ l ∈ jsonRecord n i, l.enc = .viaSerializer := by
  simp [jsonRecord, ser]

theorem all_ser_yaml (n : Int) (i : Issue) : ∀ l ∈ yamlRecord n i, l.enc = .viaSerializer := by
  intro l hl
  simp only [yamlRecord, List.mem_map] at hl
  obtain ⟨l', hl', rfl⟩ := hl
  have := all_ser_json n i l' hl'
  split <;> simp [this]

theorem all_ser_csv (i : Issue) : ∀ l ∈ csvRecord i, l.enc = .viaSerializer := by
  simp [csvRecord, ser]

theorem all_ser_xml (i : Issue) : ∀ l ∈ xmlRecord i, l.enc = .viaSerializer := by
  simp [xmlRecord, ser]

theorem all_ser_sarif (i : Issue) (r : Record) (h : sarifRecord i = .ok r) : ∀ l ∈ r, l.enc = .viaSerializer := by
  simp only [sarifRecord, bind, Except.bind] at h
  cases ha : addRegion i.range i.col i.endCol (i.code 3) with
  | error e => rw [ha] at h; cases h
  | ok loc =>
    rw [ha] at h
    simp only [pure, Except.pure, Except.ok.injEq] at h
    subst h
    intro l hl
    simp only [List.mem_append, List.mem_cons, List.not_mem_nil, or_false] at hl
    rcases hl with ((hl | hl) | hl) | hl
    · rcases hl with rfl | rfl | rfl | rfl | rfl | rfl | rfl | rfl <;> rfl
    · split at hl
      · simp only [List.mem_singleton] at hl; subst hl; rfl
      · cases hl
    · split at hl
      · simp only [List.mem_singleton] at hl; subst hl; rfl
      · cases hl
    · rcases hl with rfl | rfl <;> rfl

theorem html_leaf_enc (cfg : HtmlCfg) (n : Int) (i : Issue) :
    ∀ l ∈ htmlRecord cfg n i, l.origin.fromSource = true →
      (l.origin = .code ∧ l.enc = .escaped) ∨ (l.origin = .text ∧ l.enc = encIf cfg.escText) ∨
      (l.origin = .file ∧ l.enc = encIf cfg.escPath) := by
  intro l hl hs
  simp only [htmlRecord, List.mem_cons, List.not_mem_nil, or_false] at hl
  rcases hl with rfl | rfl | rfl | rfl | rfl | rfl | rfl | rfl | rfl | rfl | rfl | rfl | rfl <;>
    first | (simp [Origin.fromSource] at hs; done) | simp


end Bandit.Format
