import Bandit.Spec.Format
/-!
# Lemmas: decimal rendering, `get_code` window, SARIF `parse_code` (C09)
-/
namespace Bandit.Format
open Bandit Bandit.Format.Spec

/-! ## decimal numbers -/

theorem digitChar_toNat : ∀ d, d < 10 → (digitChar d).toNat = 48 + d := by decide

theorem digitsVal_append (a : Str) (c : Char) : digitsVal (a ++ [c]) = digitsVal a * 10 + (c.toNat - 48) := by
  simp [digitsVal, List.foldl_append]

theorem natDigits_spec : ∀ fuel n, n < fuel →
    natDigits fuel n ≠ [] ∧ (∀ c ∈ natDigits fuel n, isAsciiDigit c = true) ∧ digitsVal (natDigits fuel n) = n := by
  intro fuel
  induction fuel with
  | zero => intro n h; omega
  | succ fuel ih =>
    intro n h
    unfold natDigits
    by_cases h10 : n < 10
    · rw [if_pos h10]
      have ht := digitChar_toNat n h10
      refine ⟨by simp, ?_, ?_⟩
      · intro c hc
        have : c = digitChar n := by simpa using hc
        subst this
        simp only [isAsciiDigit, ht, Bool.and_eq_true, decide_eq_true_eq]
        omega
      · simp [digitsVal, ht]
    · rw [if_neg h10]
      obtain ⟨_, h2, h3⟩ := ih (n / 10) (by omega)
      have ht := digitChar_toNat (n % 10) (by omega)
      refine ⟨by simp, ?_, ?_⟩
      · intro c hc
        rcases List.mem_append.mp hc with hc | hc
        · exact h2 c hc
        · have : c = digitChar (n % 10) := by simpa using hc
          subst this
          simp only [isAsciiDigit, ht, Bool.and_eq_true, decide_eq_true_eq]
          omega
      · rw [digitsVal_append, h3, ht]; omega

theorem natStr_ne_nil (n : Nat) : natStr n ≠ [] := (natDigits_spec (n + 1) n (by omega)).1
theorem natStr_digits (n : Nat) : ∀ c ∈ natStr n, isAsciiDigit c = true := (natDigits_spec (n + 1) n (by omega)).2.1
theorem natStr_val (n : Nat) : digitsVal (natStr n) = n := (natDigits_spec (n + 1) n (by omega)).2.2

/-- `int("%i" % n) == n` -/
theorem pyInt_natStr (n : Nat) : pyInt (natStr n) = .ok n := by
  unfold pyInt
  rw [if_pos ⟨natStr_ne_nil n, by simpa [List.all_eq_true] using natStr_digits n⟩, natStr_val]

theorem natStr_no_space (n : Nat) : ' ' ∉ natStr n := by
  intro h; have := natStr_digits n _ h; revert this; decide

theorem natStr_no_nl (n : Nat) : '\n' ∉ natStr n := by
  intro h; have := natStr_digits n _ h; revert this; decide

/-! ## `split` -/

theorem splitOn_append_sep (c : Char) (a rest : Str) (h : c ∉ a) :
    Str.splitOn c (a ++ c :: rest) = a :: Str.splitOn c rest := by
  induction a with
  | nil =>
    simp only [List.nil_append, Str.splitOn]
    have := Str.splitOn_ne_nil c rest
    cases hs : Str.splitOn c rest with
    | nil => exact absurd hs this
    | cons hd tl => simp
  | cons x xs ih =>
    have hx : x ≠ c := fun e => h (by simp [e])
    have hxs : c ∉ xs := fun e => h (by simp [e])
    simp only [List.cons_append, Str.splitOn, ih hxs, if_neg hx]

theorem split1_append (a b : Str) (h : ' ' ∉ a) : split1 (a ++ ' ' :: b) = (a, some b) := by
  induction a with
  | nil => simp [split1]
  | cons x xs ih =>
    have hx : x ≠ ' ' := fun e => h (by simp [e])
    have hxs : ' ' ∉ xs := fun e => h (by simp [e])
    simp [split1, hx, ih hxs]

/-! ## rendering and parsing back -/

/-- the same lines without their final newline -/
def numberedBody : Nat → List Str → List Str
  | _, [] => []
  | l, t :: ts => (natStr l ++ ' ' :: t.dropLast) :: numberedBody (l + 1) ts

theorem splitOn_render (l : Nat) (ts : List Str) (h : ∀ t ∈ ts, IsLine t) :
    Str.splitOn '\n' (numbered ' ' l ts).flatten = numberedBody l ts ++ [[]] := by
  induction ts generalizing l with
  | nil => simp [numbered, numberedBody, Str.splitOn]
  | cons t ts ih =>
    obtain ⟨b, rfl, hb⟩ := h t (by simp)
    have hno : '\n' ∉ natStr l ++ ' ' :: b := by
      simp only [List.mem_append, List.mem_cons, not_or]
      exact ⟨natStr_no_nl l, by decide, hb⟩
    simp only [numbered, List.flatten_cons, numberedBody, List.dropLast_concat, List.cons_append]
    have : natStr l ++ ' ' :: (b ++ ['\n']) ++ (numbered ' ' (l + 1) ts).flatten
        = (natStr l ++ ' ' :: b) ++ '\n' :: (numbered ' ' (l + 1) ts).flatten := by simp
    rw [this, splitOn_append_sep _ _ _ hno, ih (l + 1) (fun t ht => h t (by simp [ht]))]

theorem snippetLines_body (l : Nat) (ts : List Str) (h : ∀ t ∈ ts, IsLine t) :
    snippetLines (numberedBody l ts) = .ok ts := by
  induction ts generalizing l with
  | nil => simp [numberedBody, snippetLines]
  | cons t ts ih =>
    obtain ⟨b, rfl, _⟩ := h t (by simp)
    simp only [numberedBody, List.dropLast_concat, snippetLines, split1_append _ _ (natStr_no_space l),
      ih (l + 1) (fun t ht => h t (by simp [ht]))]
    rfl

/-- `parse_code` undoes the `"%i %s"` rendering of `get_code` -/
theorem parseCode_render (l : Nat) (ts : List Str) (hne : ts ≠ []) (h : ∀ t ∈ ts, IsLine t) :
    parseCode (numbered ' ' l ts).flatten = .ok (l, ts) := by
  unfold parseCode
  rw [splitOn_render l ts h]
  cases ts with
  | nil => exact absurd rfl hne
  | cons t ts =>
    have hsl := snippetLines_body l (t :: ts) h
    obtain ⟨b, rfl, _⟩ := h t (by simp)
    simp only [numberedBody, List.dropLast_concat] at hsl ⊢
    simp only [List.getLast?_append, List.getLast?_singleton, Option.some_or, Option.getD_some,
      List.isEmpty_nil, if_true]
    simp only [split1_append _ _ (natStr_no_space l), pyInt_natStr, hsl]
    rfl

/-! ## the `get_code` window -/

theorem codeLines_window (file : List Str) (sep : Char) (hfile : ∀ t ∈ file, t ≠ []) :
    ∀ k l, 1 ≤ l → codeLines file sep l k = numbered sep l (window file l k) := by
  intro k
  induction k with
  | zero => intro l _; simp [codeLines, window, numbered]
  | succ k ih =>
    intro l hl
    have hl0 : l ≠ 0 := by omega
    simp only [codeLines, getLine, if_neg hl0]
    cases hg : file[l - 1]? with
    | none =>
      have : file.length ≤ l - 1 := by simpa using hg
      simp [window, List.drop_eq_nil_of_le this, numbered]
    | some t =>
      have hlt : l - 1 < file.length := by
        rcases List.getElem?_eq_some_iff.mp hg with ⟨h, _⟩; exact h
      have ht : t ∈ file := List.mem_of_getElem? hg
      have hne : t ≠ [] := hfile t ht
      have hd : file.drop (l - 1) = t :: file.drop l := by
        rw [List.drop_eq_getElem_cons hlt]
        have : file[l - 1] = t := by
          rcases List.getElem?_eq_some_iff.mp hg with ⟨_, h⟩; exact h
        rw [this]
        congr 2
        omega
      have hw : window file l (k + 1) = t :: window file (l + 1) k := by
        simp [window, hd]
      simp only [Option.getD_some, List.isEmpty_iff, hne, if_false, hw, numbered, ih (l + 1) (by omega)]

theorem window_getElem? (file : List Str) (l k j : Nat) (hj : j < k) :
    (window file l k)[j]? = file[l - 1 + j]? := by
  simp [window, hj, List.getElem?_drop]

theorem lmin_three (lineno : Nat) : lmin lineno 3 = max 1 (lineno - 1) := by
  have : (max (3 : Int) 1).toNat = 3 := by decide
  simp [lmin, effLines, this]

theorem lmax_three (lineno rangeLen : Nat) : lmax lineno rangeLen 3 - lmin lineno 3 = rangeLen + 2 := by
  have : (max (3 : Int) 1).toNat = 3 := by decide
  simp only [lmax, effLines, this]; omega

theorem pyIndex_nat {α} (l : List α) (j : Nat) (x : α) (h : l[j]? = some x) : pyIndex l (j : Int) = .ok x := by
  have h1 : ¬ ((j : Int) < 0) := by omega
  simp [pyIndex, h1, h]

/-- **Region arithmetic under the guard.** If the excerpt window (3 context lines, as the SARIF
formatter always uses) starts at or before the first line of the finding's range, the snippet index
is in range, the report is produced, and the snippet is the source line at `startLine`. -/
theorem addRegion_in_range (file : List Str) (lineno : Nat) (range : List Nat) (col endCol : Int) (r0 : Nat)
    (hfile : ∀ t ∈ file, IsLine t) (hr : range.head? = some r0)
    (hlo : lmin lineno 3 ≤ r0) (hhi : r0 ≤ lineno) (hin : lineno ≤ file.length) :
    ∃ loc, addRegion range col endCol (getCode file lineno range.length 3 false) = .ok loc
      ∧ loc.region.startLine = r0 ∧ loc.region.snippet = some (getLine file r0)
      ∧ loc.ctx.map (·.startLine) = some (lmin lineno 3) := by
  obtain ⟨tl, rfl⟩ : ∃ tl, range = r0 :: tl := by
    cases range with
    | nil => simp at hr
    | cons a tl => simp at hr; exact ⟨tl, by rw [hr]⟩
  have hlm1 : 1 ≤ lmin lineno 3 := by rw [lmin_three]; omega
  have hlm2 : lineno - 1 ≤ lmin lineno 3 := by rw [lmin_three]; omega
  have hne : ∀ t ∈ file, t ≠ [] := by
    intro t ht; obtain ⟨b, rfl, _⟩ := hfile t ht; simp
  let k := (r0 :: tl).length + 2
  have hcode : getCode file lineno (r0 :: tl).length 3 false
      = (numbered ' ' (lmin lineno 3) (window file (lmin lineno 3) k)).flatten := by
    simp only [getCode, getCodeLines, lmax_three, Bool.false_eq_true, if_false]
    rw [codeLines_window file ' ' hne _ _ hlm1]
  -- the window
  have hidx : (window file (lmin lineno 3) k)[r0 - lmin lineno 3]? = file[r0 - 1]? := by
    rw [window_getElem? _ _ _ _ (by simp [k]; omega)]
    congr 1; omega
  have hlt : r0 - 1 < file.length := by omega
  have hsome : file[r0 - 1]? = some file[r0 - 1] := List.getElem?_eq_getElem hlt
  have hwne : window file (lmin lineno 3) k ≠ [] := by
    intro he; rw [he] at hidx; rw [hsome] at hidx; simp at hidx
  have hwl : ∀ t ∈ window file (lmin lineno 3) k, IsLine t := by
    intro t ht
    exact hfile t (List.mem_of_mem_drop (List.mem_of_mem_take ht))
  have hparse := parseCode_render (lmin lineno 3) _ hwne hwl
  have hnonempty : (numbered ' ' (lmin lineno 3) (window file (lmin lineno 3) k)).flatten.isEmpty = false := by
    cases hw : window file (lmin lineno 3) k with
    | nil => exact absurd hw hwne
    | cons t ts =>
      have := natStr_ne_nil (lmin lineno 3)
      cases hn : natStr (lmin lineno 3) with
      | nil => exact absurd hn this
      | cons d ds => simp [numbered, hn]
  have hi : ((r0 : Int) - (lmin lineno 3 : Nat)) = ((r0 - lmin lineno 3 : Nat) : Int) := by omega
  have hsnip : snippetAt (window file (lmin lineno 3) k) ((r0 - lmin lineno 3 : Nat) : Int) = some file[r0 - 1] := by
    have h0 : (0 : Int) ≤ ((r0 - lmin lineno 3 : Nat) : Int) := by omega
    simp only [snippetAt, h0, if_true, Int.toNat_natCast]
    exact hidx.trans hsome
  have hgl : getLine file r0 = file[r0 - 1] := by
    have : r0 ≠ 0 := by omega
    simp [getLine, this, hsome]
  have h0 : pyIndex (r0 :: tl) 0 = .ok r0 := pyIndex_nat (r0 :: tl) 0 r0 rfl
  rw [hcode, hgl]
  cases tl with
  | nil =>
    simp only [addRegion, parseSnippet, regionOf, hnonempty, hparse, bind, Except.bind, pure, Except.pure, Bool.false_eq_true, if_false,
      h0, hi, hsnip]
    exact ⟨_, rfl, rfl, rfl, rfl⟩
  | cons a tl' =>
    have h1 : pyIndex (r0 :: a :: tl') 1 = .ok a := pyIndex_nat (r0 :: a :: tl') 1 a rfl
    have hlen : (r0 :: a :: tl').length > 1 := by simp
    simp only [addRegion, parseSnippet, regionOf, hnonempty, hparse, bind, Except.bind, pure, Except.pure, Bool.false_eq_true, if_false,
      h0, h1, hi, hsnip, hlen, if_true]
    exact ⟨_, rfl, rfl, rfl, rfl⟩

/-- **Region arithmetic, every finding** (since /repo fix "SARIF snippet index"): wherever the
reported line sits inside its range, the location is produced; `startLine` is the first line of the
range; the snippet is looked up in the excerpt and absent when the excerpt starts below that line. -/
theorem addRegion_total (file : List Str) (lineno : Nat) (range : List Nat) (col endCol : Int) (r0 : Nat)
    (hfile : ∀ t ∈ file, IsLine t) (hr : range.head? = some r0)
    (h1 : 1 ≤ lineno) (hin : lineno ≤ file.length) :
    ∃ loc, addRegion range col endCol (getCode file lineno range.length 3 false) = .ok loc
      ∧ loc.region.startLine = r0
      ∧ loc.region.snippet = snippetAt (window file (lmin lineno 3) (range.length + 2)) ((r0 : Int) - (lmin lineno 3 : Nat))
      ∧ loc.ctx.map (·.startLine) = some (lmin lineno 3) := by
  obtain ⟨tl, rfl⟩ : ∃ tl, range = r0 :: tl := by
    cases range with
    | nil => simp at hr
    | cons a tl => simp at hr; exact ⟨tl, by rw [hr]⟩
  have hlm1 : 1 ≤ lmin lineno 3 := by rw [lmin_three]; omega
  have hlm3 : lmin lineno 3 ≤ lineno := by rw [lmin_three]; omega
  have hne : ∀ t ∈ file, t ≠ [] := by
    intro t ht; obtain ⟨b, rfl, _⟩ := hfile t ht; simp
  let k := (r0 :: tl).length + 2
  have hcode : getCode file lineno (r0 :: tl).length 3 false
      = (numbered ' ' (lmin lineno 3) (window file (lmin lineno 3) k)).flatten := by
    simp only [getCode, getCodeLines, lmax_three, Bool.false_eq_true, if_false]
    rw [codeLines_window file ' ' hne _ _ hlm1]
  have hidx : (window file (lmin lineno 3) k)[lineno - lmin lineno 3]? = file[lineno - 1]? := by
    rw [window_getElem? _ _ _ _ (by simp [k]; rw [lmin_three]; omega)]
    congr 1; omega
  have hlt : lineno - 1 < file.length := by omega
  have hsome : file[lineno - 1]? = some file[lineno - 1] := List.getElem?_eq_getElem hlt
  have hwne : window file (lmin lineno 3) k ≠ [] := by
    intro he; rw [he] at hidx; rw [hsome] at hidx; simp at hidx
  have hwl : ∀ t ∈ window file (lmin lineno 3) k, IsLine t := by
    intro t ht
    exact hfile t (List.mem_of_mem_drop (List.mem_of_mem_take ht))
  have hparse := parseCode_render (lmin lineno 3) _ hwne hwl
  have hnonempty : (numbered ' ' (lmin lineno 3) (window file (lmin lineno 3) k)).flatten.isEmpty = false := by
    cases hw : window file (lmin lineno 3) k with
    | nil => exact absurd hw hwne
    | cons t ts =>
      have := natStr_ne_nil (lmin lineno 3)
      cases hn : natStr (lmin lineno 3) with
      | nil => exact absurd hn this
      | cons d ds => simp [numbered, hn]
  have h0 : pyIndex (r0 :: tl) 0 = .ok r0 := pyIndex_nat (r0 :: tl) 0 r0 rfl
  rw [hcode]
  cases tl with
  | nil =>
    simp only [addRegion, parseSnippet, regionOf, hnonempty, hparse, bind, Except.bind, pure, Except.pure, Bool.false_eq_true, if_false,
      h0]
    exact ⟨_, rfl, rfl, rfl, rfl⟩
  | cons a tl' =>
    have h1' : pyIndex (r0 :: a :: tl') 1 = .ok a := pyIndex_nat (r0 :: a :: tl') 1 a rfl
    have hlen : (r0 :: a :: tl').length > 1 := by simp
    simp only [addRegion, parseSnippet, regionOf, hnonempty, hparse, bind, Except.bind, pure, Except.pure, Bool.false_eq_true, if_false,
      h0, h1', hlen, if_true]
    exact ⟨_, rfl, rfl, rfl, rfl⟩

/-- whatever else happens, a produced SARIF region starts at the first line of the range -/
theorem addRegion_startLine {range : List Nat} {col endCol : Int} {code : Str} {loc : SarifLoc}
    (h : addRegion range col endCol code = .ok loc) : range.head? = some loc.region.startLine := by
  unfold addRegion at h
  simp only [bind, Except.bind] at h
  cases hp : parseSnippet range code with
  | error e => rw [hp] at h; cases h
  | ok parsed =>
    rw [hp] at h
    cases range with
    | nil => simp [regionOf, pyIndex, bind, Except.bind] at h
    | cons a tl =>
      have h0 : pyIndex (a :: tl) 0 = .ok a := pyIndex_nat _ 0 _ rfl
      simp only [regionOf, bind, Except.bind, h0] at h
      by_cases hl : (a :: tl).length > 1
      · simp only [hl, if_true] at h
        cases h1 : pyIndex (a :: tl) 1 with
        | error e => rw [h1] at h; cases h
        | ok v =>
          rw [h1] at h
          simp only [pure, Except.pure, Except.ok.injEq] at h
          subst h
          rfl
      · simp only [hl, if_false, pure, Except.pure, Except.ok.injEq] at h
        subst h
        rfl

end Bandit.Format
