import Bandit.Glob
/-!
# Lemmas about the `fnmatch` transcription
-/
namespace Bandit.Glob
open Bandit

/-- a pattern without glob metacharacters -/
def Literal (pat : Str) : Prop := ∀ c ∈ pat, c ≠ '*' ∧ c ≠ '?' ∧ c ≠ '['

instance (pat : Str) : Decidable (Literal pat) := by unfold Literal; infer_instance

theorem Literal.tail {c : Char} {pat : Str} (h : Literal (c :: pat)) : Literal pat :=
  fun d hd => h d (List.mem_cons_of_mem _ hd)

theorem parse_nil (fuel : Nat) : parse fuel [] = [] := by
  cases fuel <;> rfl

theorem parse_literal : ∀ (pat : Str) (fuel : Nat), pat.length ≤ fuel → Literal pat →
    parse fuel pat = pat.map Tok.lit
  | [], fuel, _, _ => by simp [parse_nil]
  | c :: rest, 0, h, _ => by simp at h
  | c :: rest, fuel + 1, h, hl => by
    have hc := hl c (List.mem_cons_self)
    have ih := parse_literal rest fuel (by simpa using h) hl.tail
    simp [parse, hc.1, hc.2.1, hc.2.2, ih]

theorem anySuffix_iff (k : Str → Bool) (s : Str) :
    anySuffix k s = true ↔ ∃ t, t <:+ s ∧ k t = true := by
  induction s with
  | nil =>
    simp only [anySuffix]
    constructor
    · intro h; exact ⟨[], List.suffix_refl _, h⟩
    · rintro ⟨t, ht, hk⟩
      have : t = [] := List.eq_nil_of_suffix_nil ht
      simpa [this] using hk
  | cons c cs ih =>
    simp only [anySuffix, Bool.or_eq_true, ih]
    constructor
    · rintro (h | ⟨t, ht, hk⟩)
      · exact ⟨c :: cs, List.suffix_refl _, h⟩
      · exact ⟨t, List.suffix_cons_iff.mpr (Or.inr ht), hk⟩
    · rintro ⟨t, ht, hk⟩
      rcases List.suffix_cons_iff.mp ht with rfl | ht'
      · exact Or.inl hk
      · exact Or.inr ⟨t, ht', hk⟩

theorem matchToks_lits (pat s : Str) : matchToks (pat.map Tok.lit) s = true ↔ s = pat := by
  induction pat generalizing s with
  | nil => cases s <;> simp [matchToks]
  | cons c rest ih =>
    cases s with
    | nil => simp [matchToks]
    | cons d cs =>
      simp only [List.map_cons, matchToks, Bool.and_eq_true, beq_iff_eq, ih, List.cons.injEq]
      constructor
      · rintro ⟨h1, h2⟩; exact ⟨h1.symm, h2⟩
      · rintro ⟨h1, h2⟩; exact ⟨h1.symm, h2⟩

/-- `*` matches every name (empty, dotted, with slashes or newlines, …) -/
theorem fnmatch_star (s : Str) : fnmatch s ['*'] = true := by
  have : parse 2 ['*'] = [Tok.star] := by simp [parse]
  simp only [fnmatch, List.length_singleton, this, matchToks]
  rw [anySuffix_iff]
  exact ⟨[], List.nil_suffix, rfl⟩

/-- a pattern without `*`, `?`, `[` matches exactly itself -/
theorem fnmatch_literal {pat : Str} (h : Literal pat) (s : Str) : fnmatch s pat = true ↔ s = pat := by
  simp only [fnmatch, parse_literal pat (pat.length + 1) (Nat.le_succ _) h, matchToks_lits]

/-- `*` followed by a literal suffix (such as `*.py`) matches exactly the names ending in it -/
theorem fnmatch_star_literal {lit : Str} (h : Literal lit) (s : Str) :
    fnmatch s ('*' :: lit) = true ↔ lit <:+ s := by
  have hdw : lit.dropWhile (· = '*') = lit := by
    cases lit with
    | nil => rfl
    | cons c rest =>
      have := (h c List.mem_cons_self).1
      simp [List.dropWhile, this]
  have hp : parse (('*' :: lit).length + 1) ('*' :: lit) = Tok.star :: lit.map Tok.lit := by
    simp only [List.length_cons, parse, ↓reduceIte, hdw, List.cons.injEq, true_and]
    exact parse_literal lit _ (Nat.le_succ _) h
  simp only [fnmatch, hp, matchToks, anySuffix_iff, matchToks_lits]
  constructor
  · rintro ⟨t, ht, rfl⟩; exact ht
  · intro hs; exact ⟨lit, hs, rfl⟩

/-- `?` matches exactly the one-character names -/
theorem fnmatch_question (s : Str) : fnmatch s ['?'] = true ↔ s.length = 1 := by
  have : parse 2 ['?'] = [Tok.any] := by simp [parse]
  simp only [fnmatch, List.length_singleton, this]
  match s with
  | [] => simp [matchToks]
  | [c] => simp [matchToks]
  | c :: d :: r => simp [matchToks]

theorem matchesGlobList_iff (name : Str) (globs : List Str) :
    matchesGlobList name globs = true ↔ ∃ g ∈ globs, fnmatch name g = true := by
  simp [matchesGlobList, List.any_eq_true]

end Bandit.Glob
