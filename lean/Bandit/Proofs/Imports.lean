import Bandit.TestSet
/-!
# The plugin checks see the visited imports only as a set

bandit keeps `self.imports` as a Python `set`; the model keeps a list (`VState.imports`) and reads it only through
`importedLike` (`any`) and `importedExact` (`contains`).  These lemmas show that every plugin check returns the same result for any two
import lists with the same members — order and multiplicity of the visited `import` statements cannot change a decision.
-/
namespace Bandit
open Bandit.Plugins

/-- the same environment with another list of visited imports -/
def Env.withImports (e : Env) (x : List Str) : Env := { e with st := { e.st with imports := x } }

def SameMembers (a b : List Str) : Prop := ∀ s, s ∈ a ↔ s ∈ b

theorem any_sameMembers {a b : List Str} (h : SameMembers a b) (p : Str → Bool) : a.any p = b.any p := by
  rw [Bool.eq_iff_iff]; simp only [List.any_eq_true]
  constructor
  · rintro ⟨s, hs, hp⟩; exact ⟨s, (h s).1 hs, hp⟩
  · rintro ⟨s, hs, hp⟩; exact ⟨s, (h s).2 hs, hp⟩

theorem importedLike_with {e : Env} {x : List Str} (h : SameMembers x e.st.imports) (m : String) :
    importedLike (e.withImports x).st m = importedLike e.st m := any_sameMembers h _

theorem importedExact_with {e : Env} {x : List Str} (h : SameMembers x e.st.imports) (m : String) :
    importedExact (e.withImports x).st m = importedExact e.st m := by
  unfold importedExact; rw [Bool.eq_iff_iff]; simp only [List.contains_iff_mem]; exact h _

theorem b503_go_imp (e : Env) (x : List Str) (bad) (l : List Node) : b503.go (e.withImports x) bad l = b503.go e bad l := by
  induction l with
  | nil => rfl
  | cons d rest ih => simp only [b503.go, ih]; rfl

theorem b503_imp (e : Env) (x : List Str) (c : CfgVal) : b503 c (e.withImports x) = b503 c e := by
  unfold b503; simp only [b503_go_imp]; rfl

section
variable {x : List Str} {e : Env} (h : SameMembers x e.st.imports)
include h
theorem b201_imp : b201 (e.withImports x) = b201 e := by unfold b201; rw [importedLike_with h]; rfl
theorem b601_imp : b601 (e.withImports x) = b601 e := by unfold b601; rw [importedLike_with h]; rfl
theorem b507_imp : b507 (e.withImports x) = b507 e := by unfold b507; rw [importedLike_with h]; rfl
theorem b611_imp : b611 (e.withImports x) = b611 e := by unfold b611; rw [importedLike_with h]; rfl
theorem b506_imp : b506 (e.withImports x) = b506 e := by unfold b506; rw [importedLike_with h]; rfl
theorem b614_imp : b614 (e.withImports x) = b614 e := by unfold b614; rw [importedLike_with h]; rfl
theorem b202_imp : b202 (e.withImports x) = b202 e := by unfold b202; rw [importedExact_with h]; rfl
theorem b703_imp (I) : DjangoXss.b703 I (e.withImports x) = DjangoXss.b703 I e := by
  unfold DjangoXss.b703 DjangoXss.b703With; rw [importedLike_with h]; rfl

/-- every plugin check, run on the same node with two import lists of the same members, decides the same -/
theorem pluginChecks_imp (pc : PluginCfg) (fn : Str) :
    (pluginChecks pc fn).map (fun c => c.run (e.withImports x)) = (pluginChecks pc fn).map (fun c => c.run e) := by
  simp only [pluginChecks, miscChecks, shellChecks, cryptoChecks, trojanChecks, injectChecks, injectChecksWith, List.map_append, List.map_cons,
    List.map_nil, Check.plugin, Check.pluginPos, b201_imp h, b601_imp h, b507_imp h, b611_imp h, b506_imp h, b614_imp h, b202_imp h, b703_imp h,
    b503_imp]
  rfl

theorem mem_map_run_imp {cs : List Check}
    (hl : cs.map (fun c => c.run (e.withImports x)) = cs.map (fun c => c.run e)) :
    ∀ c ∈ cs, c.run (e.withImports x) = c.run e := by
  induction cs with
  | nil => intro c hc; cases hc
  | cons a cs ih =>
    simp only [List.map_cons, List.cons.injEq] at hl
    intro c hc
    rcases List.mem_cons.1 hc with rfl | hc
    · exact hl.1
    · exact ih hl.2 c hc

/-- … and so does every check of any selected test set, the blacklist check included -/
theorem testSet_imp (pc : PluginCfg) (fn : Str) (t : BlTables) (keep : Str → Bool) :
    ∀ c ∈ testSet pc fn t keep, c.run (e.withImports x) = c.run e := by
  intro c hc
  unfold testSet at hc
  rcases List.mem_append.1 hc with hc | hc
  · exact mem_map_run_imp h (pluginChecks_imp h pc fn) c (List.mem_filter.1 hc).1
  · unfold blacklistCheck at hc
    split at hc
    · cases hc
    · simp only [Option.toList_some, List.mem_singleton] at hc
      subst hc; rfl
end

/-! ## what the visitor adds to the set -/

/-- the names an `Import` / `ImportFrom` node adds to `self.imports` -/
def importedBy (n : Node) : List Str :=
  if n.isKind "Import" || (n.isKind "ImportFrom" && (importModule? n).isNone) then (importNames n).map (·.1)
  else if n.isKind "ImportFrom" then (importNames n).map fun p => (importModule? n).getD [] ++ '.' :: p.1
  else []

theorem foldl_imports_mem {α : Type} (f : α → Str) (g : VState → α → Aliases) (l : List α) (s : VState) (q : Str) :
    q ∈ (l.foldl (fun s a => { aliases := g s a, imports := f a :: s.imports }) s).imports ↔ q ∈ l.map f ∨ q ∈ s.imports := by
  induction l generalizing s with
  | nil => simp
  | cons a l ih =>
    simp only [List.foldl_cons, List.map_cons, List.mem_cons]
    rw [ih]
    simp only [List.mem_cons]
    constructor
    · rintro (h | h | h)
      · exact .inl (.inr h)
      · exact .inl (.inl h)
      · exact .inr h
    · rintro ((h | h) | h)
      · exact .inr (.inl h)
      · exact .inl h
      · exact .inr (.inr h)

/-- after visiting a node the set is the old set plus what the node imports -/
theorem update_imports_mem (s : VState) (n : Node) (q : Str) :
    q ∈ (s.update n).imports ↔ q ∈ importedBy n ∨ q ∈ s.imports := by
  unfold VState.update importedBy
  split
  · exact foldl_imports_mem (fun p : Str × Option Str => p.1)
      (fun s p => match asnameSet p.2 with | some a => (a, p.1) :: s.aliases | none => s.aliases) _ s q
  · split
    · exact foldl_imports_mem (fun p : Str × Option Str => (importModule? n).getD [] ++ '.' :: p.1)
        (fun s p => ((asnameSet p.2).getD p.1, (importModule? n).getD [] ++ '.' :: p.1) :: s.aliases) _ s q
    · simp

end Bandit
