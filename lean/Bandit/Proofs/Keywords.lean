import Bandit.Value
/-!
# A `**mapping` expansion among the keywords of a call is invisible to every lookup by name

`context.call_keywords` is a dict built from `node.keywords`; the entry of an expansion has the key `None`.  Whatever reads a keyword by name
(`get_call_arg_value`, `check_call_arg_value`, `name in call_keywords`) sees the same value with and without an expansion, wherever it stands.
-/
namespace Bandit.CallView
open Bandit
theorem lookupKw_ignores_expansion (pre post : List (Option Str × PyVal)) (v : PyVal) (name : String) :
    lookupKw (pre ++ (none, v) :: post) name = lookupKw (pre ++ post) name := by
  unfold lookupKw
  simp only [List.reverse_append, List.reverse_cons, List.append_assoc, List.find?_append]
  have : List.find? (fun x : Option Str × PyVal => x.1 == some name.toList) [(none, v)] = none := by
    simp [List.find?]
  simp [this]

/-- what `callKeywords` does with one keyword node -/
def kwEntry (k : Node) : M (Option Str × PyVal) :=
  match kwValue k with
  | some v => do let x ← attrOrLiteral v; pure (kwName k, x)
  | none => pure (kwName k, .none)

theorem callKeywords_eq (c : CallView) : c.callKeywords = c.keywords.mapM kwEntry := by
  unfold callKeywords kwEntry
  congr 1

theorem argValue_ignores_expansion (c c' : CallView) (pre post : List Node) (star : Node) (x : PyVal) (name : String)
    (hk : c.keywords = pre ++ post) (hk' : c'.keywords = pre ++ star :: post)
    (hv : kwEntry star = .ok (none, x)) :
    c'.argValue name = c.argValue name := by
  unfold argValue
  rw [callKeywords_eq, callKeywords_eq, hk, hk']
  simp only [List.mapM_append, List.mapM_cons]
  cases h1 : pre.mapM kwEntry with
  | error e => simp [bind, Except.bind]
  | ok a =>
    cases h2 : post.mapM kwEntry with
    | error e => simp [bind, Except.bind, hv, pure, Except.pure]
    | ok b =>
      simp only [bind, Except.bind, hv, pure, Except.pure]
      rw [lookupKw_ignores_expansion]

theorem hasKw_ignores_expansion (c c' : CallView) (pre post : List Node) (star : Node) (x : PyVal) (name : String)
    (hk : c.keywords = pre ++ post) (hk' : c'.keywords = pre ++ star :: post) (hv : kwEntry star = .ok (none, x)) :
    c'.hasKw name = c.hasKw name := by
  unfold hasKw
  rw [callKeywords_eq, callKeywords_eq, hk, hk']
  simp only [List.mapM_append, List.mapM_cons]
  cases h1 : pre.mapM kwEntry with
  | error e => simp [bind, Except.bind]
  | ok a =>
    cases h2 : post.mapM kwEntry with
    | error e => simp [bind, Except.bind, hv]
    | ok b =>
      simp only [bind, Except.bind, hv, pure, Except.pure]
      rw [lookupKw_ignores_expansion]

theorem checkArg_ignores_expansion (c c' : CallView) (pre post : List Node) (star : Node) (x : PyVal) (name : String) (values : List PyVal)
    (hk : c.keywords = pre ++ post) (hk' : c'.keywords = pre ++ star :: post) (hv : kwEntry star = .ok (none, x)) :
    c'.checkArg name values = c.checkArg name values := by
  unfold checkArg
  rw [argValue_ignores_expansion c c' pre post star x name hk hk' hv]

end Bandit.CallView
