import Bandit.Tester
import Bandit.Proofs.Erase
/-!
# Locations: line ranges and the well-formedness facts of CPython positions
-/
namespace Bandit

/-- all nodes strictly below `n` (pseudo-nodes included; they carry no position) -/
def Node.descendants : Node → List Node
  | .mk _ _ _ ks => slots ks
where
  slots : List (Str × Bool × List Node) → List Node
    | [] => []
    | (_, _, ns) :: rest => nodes ns ++ slots rest
  nodes : List Node → List Node
    | [] => []
    | n :: ns => n :: (Node.descendants n ++ nodes ns)

/-- CPython fact (asserted by `astser.check_wf` on every tree the harness serialises): a positioned
node's span is non-empty and contains the first line of every positioned node below it.  The one
exception in CPython 3.12 is a decorated function / class definition, whose decorators precede the
`def` line: `spanOK` is false for such a node, and theorems that assume `spanOK` say nothing about it. -/
def Node.spanOK (n : Node) : Bool :=
  match n.pos with
  | none => true
  | some p => p.line ≤ p.endLine &&
      n.descendants.all (fun d => match d.pos with
        | none => true
        | some q => p.line ≤ q.line && q.line ≤ p.endLine)

theorem mem_nodes_self {ns : List Node} {m : Node} (h : m ∈ ns) : m ∈ Node.descendants.nodes ns := by
  induction ns with
  | nil => cases h
  | cons n ns ih =>
    simp only [Node.descendants.nodes, List.mem_cons, List.mem_append]
    rcases List.mem_cons.mp h with rfl | h
    · exact Or.inl rfl
    · exact Or.inr (Or.inr (ih h))

theorem mem_nodes_deeper {ns : List Node} {c m : Node} (hc : c ∈ ns) (hm : m ∈ c.descendants) :
    m ∈ Node.descendants.nodes ns := by
  induction ns with
  | nil => cases hc
  | cons n ns ih =>
    simp only [Node.descendants.nodes, List.mem_cons, List.mem_append]
    rcases List.mem_cons.mp hc with rfl | h
    · exact Or.inr (Or.inl hm)
    · exact Or.inr (Or.inr (ih h))

theorem mem_slots {ks : List (Str × Bool × List Node)} {f : Str} {l : Bool} {ns : List Node} {m : Node}
    (hs : (f, l, ns) ∈ ks) (hm : m ∈ Node.descendants.nodes ns) : m ∈ Node.descendants.slots ks := by
  induction ks with
  | nil => cases hs
  | cons s ks ih =>
    obtain ⟨f', l', ns'⟩ := s
    simp only [Node.descendants.slots, List.mem_append]
    rcases List.mem_cons.mp hs with h | h
    · cases h; exact Or.inl hm
    · exact Or.inr (ih h)

theorem kidList_slot {n : Node} {f : String} {m : Node} (h : m ∈ n.kidList f) :
    ∃ l ns, (f.toList, l, ns) ∈ n.kids ∧ m ∈ ns := by
  unfold Node.kidList at h
  cases hf : n.kids.find? (·.1 == f.toList) with
  | none => simp [hf] at h
  | some s =>
    obtain ⟨f', l, ns⟩ := s
    simp only [hf] at h
    have hm := List.mem_of_find?_eq_some hf
    have he := List.find?_some hf
    simp only [beq_iff_eq] at he
    exact ⟨l, ns, he ▸ hm, h⟩

theorem kid?_slot {n : Node} {f : String} {m : Node} (h : n.kid? f = some m) :
    ∃ l ns, (f.toList, l, ns) ∈ n.kids ∧ m ∈ ns := by
  unfold Node.kid? at h
  cases hf : n.kids.find? (·.1 == f.toList) with
  | none => simp [hf] at h
  | some s =>
    obtain ⟨f', l, ns⟩ := s
    simp only [hf] at h
    have hm := List.mem_of_find?_eq_some hf
    have he := List.find?_some hf
    simp only [beq_iff_eq] at he
    exact ⟨l, ns, he ▸ hm, List.mem_of_mem_head? h⟩

/-- children in a list field are descendants -/
theorem kidList_desc {n m : Node} {f : String} (h : m ∈ n.kidList f) : m ∈ n.descendants := by
  obtain ⟨l, ns, hs, hm⟩ := kidList_slot h
  cases n with
  | mk k p a ks => exact mem_slots (ks := ks) hs (mem_nodes_self hm)

theorem kid?_desc {n m : Node} {f : String} (h : n.kid? f = some m) : m ∈ n.descendants := by
  obtain ⟨l, ns, hs, hm⟩ := kid?_slot h
  cases n with
  | mk k p a ks => exact mem_slots (ks := ks) hs (mem_nodes_self hm)

/-- grandchildren through a list field -/
theorem kidList_kid?_desc {n c m : Node} {f g : String} (hc : c ∈ n.kidList f) (hm : c.kid? g = some m) :
    m ∈ n.descendants := by
  obtain ⟨l, ns, hs, hcn⟩ := kidList_slot hc
  cases n with
  | mk k p a ks => exact mem_slots (ks := ks) hs (mem_nodes_deeper hcn (kid?_desc hm))

/-! ### `rangeList` -/

theorem mem_rangeList {lo hi l : Nat} : l ∈ rangeList lo hi ↔ lo ≤ l ∧ l ≤ hi := by
  unfold rangeList
  simp only [List.mem_map, List.mem_range]
  constructor
  · rintro ⟨i, hi', rfl⟩; omega
  · rintro ⟨h1, h2⟩; exact ⟨l - lo, by omega, by omega⟩

theorem rangeList_length (lo hi : Nat) : (rangeList lo hi).length = hi + 1 - lo := by
  simp [rangeList]

theorem rangeList_getElem (lo hi i : Nat) (h : i < (rangeList lo hi).length) :
    (rangeList lo hi)[i] = lo + i := by
  simp [rangeList]; omega

end Bandit
