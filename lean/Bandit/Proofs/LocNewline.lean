import Bandit.Metrics
/-!
# Lines of code do not depend on the line-end style

`data.splitlines()` on bytes ends a line at `\n`, `\r\n` and a lone `\r`, and drops the terminator: an LF file, its CRLF rendering and its
lone-CR rendering have the same list of lines, hence the same `loc`.
-/
namespace Bandit.Metrics

def toCRLFb (s : Bytes) : Bytes := s.flatMap fun c => if c = 10 then [13, 10] else [c]
def toCRb (s : Bytes) : Bytes := s.map fun c => if c = 10 then 13 else c

theorem go_other (cur : Bytes) (b : Nat) (rest : Bytes) (h1 : b ≠ 10) (h2 : b ≠ 13) :
    splitLines.go cur (b :: rest) = splitLines.go (b :: cur) rest := by
  rw [splitLines.go.eq_def]
  split
  · simp_all
  · simp_all
  · simp_all
  · simp_all
  · rename_i h; simp_all

theorem splitLines_eq_go (s : Bytes) : splitLines s = splitLines.go [] s := by
  cases s with
  | nil => simp [splitLines, splitLines.go]
  | cons b r => rfl

theorem go_toCRLF (cur r : Bytes) (h : 13 ∉ r) : splitLines.go cur (toCRLFb r) = splitLines.go cur r := by
  induction r generalizing cur with
  | nil => rfl
  | cons b r ih =>
    have hb : b ≠ 13 := fun e => h (by simp [e])
    have hr : 13 ∉ r := fun e => h (by simp [e])
    by_cases hn : b = 10
    · subst hn
      have : toCRLFb (10 :: r) = 13 :: 10 :: toCRLFb r := by simp [toCRLFb]
      rw [this]
      simp only [splitLines.go]
      rw [ih [] hr]
    · have : toCRLFb (b :: r) = b :: toCRLFb r := by simp [toCRLFb, hn]
      rw [this, go_other _ _ _ hn hb, go_other _ _ _ hn hb, ih _ hr]

/-- a lone CR followed by something that is not LF ends a line like LF does -/
theorem go_cr (cur rest : Bytes) (h : rest.head? ≠ some 10) : splitLines.go cur (13 :: rest) = cur.reverse :: splitLines.go [] rest := by
  rw [splitLines.go.eq_def]
  split
  · simp_all
  · simp_all
  · simp_all
  · simp_all
  · rename_i h1 h2 h3; simp_all

theorem toCRb_head (r : Bytes) : (toCRb r).head? ≠ some 10 := by
  cases r with
  | nil => simp [toCRb]
  | cons b r =>
    simp only [toCRb, List.map_cons, List.head?_cons, ne_eq, Option.some.injEq]
    by_cases hb : b = 10 <;> simp [hb]

theorem go_toCR (cur r : Bytes) (h : 13 ∉ r) : splitLines.go cur (toCRb r) = splitLines.go cur r := by
  induction r generalizing cur with
  | nil => rfl
  | cons b r ih =>
    have hb : b ≠ 13 := fun e => h (by simp [e])
    have hr : 13 ∉ r := fun e => h (by simp [e])
    by_cases hn : b = 10
    · subst hn
      have : toCRb (10 :: r) = 13 :: toCRb r := by simp [toCRb]
      rw [this, go_cr _ _ (toCRb_head r), ih [] hr]
      simp only [splitLines.go]
    · have : toCRb (b :: r) = b :: toCRb r := by simp [toCRb, hn]
      rw [this, go_other _ _ _ hn hb, go_other _ _ _ hn hb, ih _ hr]

theorem splitLines_newline_style (s : Bytes) (h : 13 ∉ s) :
    splitLines (toCRLFb s) = splitLines s ∧ splitLines (toCRb s) = splitLines s := by
  simp only [splitLines_eq_go]
  exact ⟨go_toCRLF [] s h, go_toCR [] s h⟩

end Bandit.Metrics
