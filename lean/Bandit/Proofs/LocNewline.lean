import Bandit.Metrics
/-!
# Lines of code do not depend on the line-end style

`data.splitlines()` on bytes ends a line at `\n`, `\r\n` and a lone `\r`, and drops the terminator: an LF file, its CRLF rendering and its
lone-CR rendering have the same list of lines, hence the same `loc`.
-/
namespace Bandit.Metrics

def toCRLFb (s : Bytes) : Bytes := s.flatMap fun c => if c = 10 then [13, 10] else [c]
def toCRb (s : Bytes) : Bytes := s.map fun c => if c = 10 then 13 else c

theorem go_other (cur : Bytes) (b : Nat) (rest : Bytes) (h1 : b ≠ 10) (h2 : b ≠ 13) :
    splitLines.go cur (b :: rest) = splitLines.go (b :: cur) rest := by
  rw [splitLines.go.eq_def]
  split
  · simp_all
  · simp_all
  · simp_all
  · simp_all
  · rename_i h; simp_all

theorem splitLines_eq_go (s : Bytes) : splitLines s = splitLines.go [] s := by
  cases s with
  | nil => simp [splitLines, splitLines.go]
  | cons b r => rfl

theorem go_toCRLF (cur r : Bytes) (h : 13 ∉ r) : splitLines.go cur (toCRLFb r) = splitLines.go cur r := by
  induction r generalizing cur with
  | nil => rfl
  | cons b r ih =>
    have hb : b ≠ 13 := fun e => h (by simp [e])
    have hr : 13 ∉ r := fun e => h (by simp [e])
    by_cases hn : b = 10
    · subst hn
      have : toCRLFb (10 :: r) = 13 :: 10 :: toCRLFb r := by simp [toCRLFb]
      rw [this]
      simp only [splitLines.go]
      rw [ih [] hr]
    · have : toCRLFb (b :: r) = b :: toCRLFb r := by simp [toCRLFb, hn]
      rw [this, go_other _ _ _ hn hb, go_other _ _ _ hn hb, ih _ hr]

/-- a lone CR followed by something that is not LF ends a line like LF does -/
theorem go_cr (cur rest : Bytes) (h : rest.head? ≠ some 10) : splitLines.go cur (13 :: rest) = cur.reverse :: splitLines.go [] rest := by
  rw [splitLines.go.eq_def]
  split
  · simp_all
  · simp_all
  · simp_all
  · simp_all
  · rename_i h1 h2 h3; simp_all

theorem toCRb_head (r : Bytes) : (toCRb r).head? ≠ some 10 := by
  cases r with
  | nil => simp [toCRb]
  | cons b r =>
    simp only [toCRb, List.map_cons, List.head?_cons, ne_eq, Option.some.injEq]
    by_cases hb : b = 10 <;> simp [hb]

theorem go_toCR (cur r : Bytes) (h : 13 ∉ r) : splitLines.go cur (toCRb r) = splitLines.go cur r := by
  induction r generalizing cur with
  | nil => rfl
  | cons b r ih =>
    have hb : b ≠ 13 := fun e => h (by simp [e])
    have hr : 13 ∉ r := fun e => h (by simp [e])
    by_cases hn : b = 10
    · subst hn
      have : toCRb (10 :: r) = 13 :: toCRb r := by simp [toCRb]
      rw [this, go_cr _ _ (toCRb_head r), ih [] hr]
      simp only [splitLines.go]
    · have : toCRb (b :: r) = b :: toCRb r := by simp [toCRb, hn]
      rw [this, go_other _ _ _ hn hb, go_other _ _ _ hn hb, ih _ hr]

theorem splitLines_newline_style (s : Bytes) (h : 13 ∉ s) :
    splitLines (toCRLFb s) = splitLines s ∧ splitLines (toCRb s) = splitLines s := by
  simp only [splitLines_eq_go]
  exact ⟨go_toCRLF [] s h, go_toCR [] s h⟩

/-! ## newline normalisation (what `_parse_file` hands to `tokenize` since /repo 1cb0176, and what the parser does itself) -/

/-- `data.replace(b"\\r\\n", b"\\n").replace(b"\\r", b"\\n")` -/
def normNl : Bytes → Bytes
  | [] => []
  | 13 :: 10 :: r => 10 :: normNl r
  | 13 :: r => 10 :: normNl r
  | b :: r => b :: normNl r

theorem normNl_other (b : Nat) (r : Bytes) (h : b ≠ 13) : normNl (b :: r) = b :: normNl r := by
  rw [normNl]
  · intro r' hb _; exact h hb
  · intro hb; exact h hb

theorem go_normNl (s : Bytes) : ∀ cur, splitLines.go cur (normNl s) = splitLines.go cur s := by
  induction s using normNl.induct with
  | case1 => intro cur; rfl
  | case2 r ih => intro cur; simp only [normNl, splitLines.go, ih]
  | case3 r h ih =>
    intro cur
    rw [normNl]
    · simp only [splitLines.go, ih]
    · exact h
  | case4 b r h1 h2 ih =>
    intro cur
    have hb : b ≠ 13 := fun e => h2 e
    rw [normNl_other b r hb]
    by_cases h10 : b = 10
    · subst h10; simp only [splitLines.go, ih]
    · rw [go_other _ _ _ h10 hb, go_other _ _ _ h10 hb, ih]

/-- `bytes.splitlines()` does not care whether the line ends were normalised first: the lines `loc` is counted over are the parser's lines -/
theorem splitLines_normNl (s : Bytes) : splitLines (normNl s) = splitLines s := by
  rw [splitLines_eq_go, splitLines_eq_go]; exact go_normNl s []

end Bandit.Metrics
