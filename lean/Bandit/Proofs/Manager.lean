import Bandit.Manager
/-!
# Helper lemmas for C04: closed form of `Manager.run`

`delta` is what one file contributes to each list of the manager state when all its failures are
ordinary exceptions; `loop_closed` shows by induction over the file list (with the state and the
already-processed prefix of `new_files_list` generalised) that the loop appends exactly the `delta`s.
-/
namespace Bandit.Manager
open Spec

/-- contribution of one file to the run -/
structure Delta (α : Type) where
  scanned : List Str := []
  skipped : List (Str × Option Str) := []
  results : List (Str × α) := []
  begun : List Str := []

def delta {α} (cfg : Cfg) (env : Env α) (o : Outcome) (f : Str) : Delta α :=
  match o.open_ with
  | some (.osError s) => { skipped := [(f, s)] }
  | some _ => {}
  | none =>
    match body cfg o with
    | .completed d =>
      { scanned := [display f], begun := [display f],
        results := (if d then env.degraded f else env.full f).map (display f, ·) }
    | .raised b .syntaxError => { skipped := [(display f, some reasonSyntax)], begun := if b then [display f] else [] }
    | .raised b _ => { skipped := [(display f, some reasonException)], begun := if b then [display f] else [] }

def applyDelta {α} (A post : List Str) (st : State α) (d : Delta α) : State α :=
  { newFiles := A ++ d.scanned ++ post,
    skipped := st.skipped ++ d.skipped,
    results := st.results ++ d.results,
    scores := st.scores ++ d.scanned,
    metricsBegun := st.metricsBegun ++ d.begun,
    metricsCounted := st.metricsCounted ++ d.scanned }

theorem stdinArg_ne_stdinName : stdinArg ≠ stdinName := by decide

theorem display_of_ne {f : Str} (h : f ≠ stdinArg) : display f = f := by simp [display, h]
theorem display_stdin : display stdinArg = stdinName := by simp [display]
theorem target_of_ne {f : Str} (h : f ≠ stdinName) : target f = f := by simp [target, h]
theorem target_display {f : Str} (h : f ≠ stdinName) : target (display f) = f := by
  unfold display target
  by_cases hf : f = stdinArg
  · simp [hf]
  · simp [hf, h]

theorem display_inj {f g : Str} (hf : f ≠ stdinName) (hg : g ≠ stdinName) (h : display f = display g) : f = g := by
  have := congrArg target h
  rwa [target_display hf, target_display hg] at this

theorem erase_middle {A post : List Str} {n : Str} (h : n ∉ A) : (A ++ n :: post).erase n = A ++ post := by
  rw [List.erase_append_right _ h, List.erase_cons_head]

theorem rename_middle {A post : List Str} (hA : stdinArg ∉ A) (hp : stdinArg ∉ post) :
    (A ++ stdinArg :: post).map (fun x => if x = stdinArg then stdinName else x) = A ++ stdinName :: post := by
  have idA : ∀ l : List Str, stdinArg ∉ l → l.map (fun x => if x = stdinArg then stdinName else x) = l := by
    intro l hl
    induction l with
    | nil => rfl
    | cons a l ih =>
      simp only [List.mem_cons, not_or] at hl
      have : a ≠ stdinArg := fun h => hl.1 h.symm
      simp [this, ih hl.2]
  simp [idA A hA, idA post hp]

theorem skipFile_middle {α} {A post : List Str} {n : Str} {r : Option Str} {st : State α}
    (hst : st.newFiles = A ++ n :: post) (h : n ∉ A) :
    skipFile n r st = ({ st with skipped := st.skipped ++ [(n, r)], newFiles := A ++ post }, none) := by
  unfold skipFile
  simp [hst, erase_middle h]

/-- facts about an ordinary outcome that the case analysis needs -/
theorem ordinary_open {o : Outcome} (h : ordinary o = true) :
    o.open_ = none ∨ ∃ s, o.open_ = some (.osError s) := by
  unfold ordinary at h
  cases ho : o.open_ with
  | none => exact Or.inl rfl
  | some e => cases e <;> simp [ho] at h <;> exact Or.inr ⟨_, rfl⟩

theorem tokEscape_isException {cfg : Cfg} {t : Option Exc} {e : Exc}
    (ht : ∀ x, t = some x → x.isException = true) (h : tokEscape cfg t = some e) : e.isException = true := by
  unfold tokEscape at h
  split at h
  · cases h
  · split at h
    · cases h
    · exact ht e h

theorem body_raised_isException {cfg : Cfg} {o : Outcome} {b : Bool} {e : Exc}
    (h : ordinary o = true) (hb : body cfg o = .raised b e) : e.isException = true := by
  unfold ordinary at h
  simp only [Bool.and_eq_true] at h
  obtain ⟨⟨⟨⟨_, hr⟩, ht⟩, hp⟩, hv⟩ := h
  unfold body at hb
  split at hb
  · rename_i e' he; cases hb; simpa [he] using hr
  · split at hb
    · rename_i e' he; cases hb
      exact tokEscape_isException (fun x hx => by simpa [hx] using ht) he
    · split at hb
      · rename_i e' he; cases hb; simpa [he] using hp
      · split at hb
        · rename_i e' he; cases hb
          cases hvis : o.visit with
          | ok => simp [visitEffect, hvis] at he
          | checkRaised e'' =>
            simp only [visitEffect, hvis] at he
            split at he
            · cases he
            · cases he; simpa [hvis] using hv
          | raised e'' =>
            simp only [visitEffect, hvis] at he
            cases he; simpa [hvis] using hv
        · cases hb
        · cases hb

/-- `_parse_file` on an ordinary outcome: never lets an exception out; its effect is `delta`. -/
theorem parseFile_ordinary {α} (cfg : Cfg) (env : Env α) (o : Outcome) (f : Str) (A post : List Str) (st : State α)
    (ho : ordinary o = true) (hopen : o.open_ = none)
    (hst : st.newFiles = A ++ display f :: post) (hA : display f ∉ A) :
    parseFile cfg env o f (display f) st = (applyDelta A post st (delta cfg env o f), none) := by
  unfold parseFile delta
  rw [hopen]
  cases hb : body cfg o with
  | completed d =>
    simp [commit, begin, applyDelta, hst]
  | raised b e =>
    have hex := body_raised_isException ho hb
    have hst1 : (if b then begin (display f) st else st).newFiles = A ++ display f :: post := by
      cases b <;> simp [begin, hst]
    cases e with
    | keyboardInterrupt => simp [Exc.isException] at hex
    | systemExit c => simp [Exc.isException] at hex
    | baseException => simp [Exc.isException] at hex
    | syntaxError =>
      simp only []
      rw [skipFile_middle hst1 hA]
      cases b <;> simp [applyDelta, begin]
    | osError s =>
      simp only [Exc.isException, if_true]
      rw [skipFile_middle hst1 hA]
      cases b <;> simp [applyDelta, begin]
    | tokenError =>
      simp only [Exc.isException, if_true]
      rw [skipFile_middle hst1 hA]
      cases b <;> simp [applyDelta, begin]
    | otherException =>
      simp only [Exc.isException, if_true]
      rw [skipFile_middle hst1 hA]
      cases b <;> simp [applyDelta, begin]

/-- the part of the state of `run_tests` the loop relies on: `new_files_list = A ++ post` where
`post` is still to be processed -/
structure Inv (A post : List Str) : Prop where
  nodup : post.Nodup
  noStdinName : stdinName ∉ post
  fresh : ∀ x ∈ A, x ∉ post
  renamed : stdinName ∈ A → stdinArg ∉ post

theorem Inv.head_not_mem {A post : List Str} {f : Str} (h : Inv A (f :: post)) : f ∉ A :=
  fun hf => h.fresh f hf (List.mem_cons_self ..)

theorem Inv.display_not_mem {A post : List Str} {f : Str} (h : Inv A (f :: post)) : display f ∉ A := by
  by_cases hf : f = stdinArg
  · subst hf
    rw [display_stdin]
    intro hm
    exact h.renamed hm (List.mem_cons_self ..)
  · rw [display_of_ne hf]; exact h.head_not_mem

theorem Inv.tail {A post : List Str} {f : Str} (h : Inv A (f :: post)) : Inv A post where
  nodup := (List.nodup_cons.mp h.nodup).2
  noStdinName := fun hm => h.noStdinName (List.mem_cons_of_mem _ hm)
  fresh := fun x hx hm => h.fresh x hx (List.mem_cons_of_mem _ hm)
  renamed := fun hs hm => h.renamed hs (List.mem_cons_of_mem _ hm)

theorem Inv.snoc {A post : List Str} {f : Str} (h : Inv A (f :: post)) : Inv (A ++ [display f]) post where
  nodup := h.tail.nodup
  noStdinName := h.tail.noStdinName
  fresh := by
    intro x hx hm
    rcases List.mem_append.mp hx with hx | hx
    · exact h.tail.fresh x hx hm
    · simp only [List.mem_singleton] at hx
      subst hx
      by_cases hf : f = stdinArg
      · rw [hf, display_stdin] at hm; exact h.tail.noStdinName hm
      · rw [display_of_ne hf] at hm; exact (List.nodup_cons.mp h.nodup).1 hm
  renamed := by
    intro hs hm
    rcases List.mem_append.mp hs with hs | hs
    · exact h.tail.renamed hs hm
    · simp only [List.mem_singleton] at hs
      by_cases hf : f = stdinArg
      · rw [hf] at h; exact (List.nodup_cons.mp h.nodup).1 hm
      · rw [display_of_ne hf] at hs
        exact h.noStdinName (hs ▸ List.mem_cons_self ..)

/-- One loop iteration on an ordinary outcome. -/
theorem runOne_ordinary {α} (cfg : Cfg) (env : Env α) (o : Outcome) (f : Str) (A post : List Str) (st : State α)
    (ho : ordinary o = true) (hst : st.newFiles = A ++ f :: post) (hinv : Inv A (f :: post)) :
    runOne cfg env o f st = (applyDelta A post st (delta cfg env o f), none) := by
  rcases ordinary_open ho with hopen | ⟨s, hopen⟩
  · unfold runOne
    rw [hopen]
    have hnot := hinv.display_not_mem
    by_cases hf : f = stdinArg
    · subst hf
      simp only [if_true]
      have hAp : stdinArg ∉ A := hinv.head_not_mem
      have hpp : stdinArg ∉ post := (List.nodup_cons.mp hinv.nodup).1
      have h1 := parseFile_ordinary cfg env o stdinArg A post
        { st with newFiles := st.newFiles.map fun x => if x = stdinArg then stdinName else x } ho hopen
        (by simp only [hst, display_stdin]; exact rename_middle hAp hpp) hnot
      rw [display_stdin] at h1
      rw [h1]
      simp [applyDelta]
    · simp only [hf, if_false]
      have h1 := parseFile_ordinary cfg env o f A post st ho hopen (by rw [display_of_ne hf]; exact hst) hnot
      rw [display_of_ne hf] at h1
      rw [h1]
  · unfold runOne
    rw [hopen]
    simp only []
    rw [skipFile_middle hst hinv.head_not_mem]
    simp [applyDelta, delta, hopen]

/-- closed form of the lists the loop builds -/
def scannedOf {α} (cfg : Cfg) (env : Env α) (out : Str → Outcome) (fs : List Str) : List Str :=
  fs.flatMap fun f => (delta cfg env (out f) f).scanned
def skippedOf {α} (cfg : Cfg) (env : Env α) (out : Str → Outcome) (fs : List Str) : List (Str × Option Str) :=
  fs.flatMap fun f => (delta cfg env (out f) f).skipped
def resultsOf {α} (cfg : Cfg) (env : Env α) (out : Str → Outcome) (fs : List Str) : List (Str × α) :=
  fs.flatMap fun f => (delta cfg env (out f) f).results
def begunOf {α} (cfg : Cfg) (env : Env α) (out : Str → Outcome) (fs : List Str) : List Str :=
  fs.flatMap fun f => (delta cfg env (out f) f).begun

theorem loop_closed {α} (cfg : Cfg) (env : Env α) (out : Str → Outcome) :
    ∀ (post A rest : List Str) (st : State α),
      (∀ f ∈ post, ordinary (out f) = true) → st.newFiles = A ++ (post ++ rest) → Inv A (post ++ rest) →
      loop cfg env out post st =
        ({ newFiles := A ++ scannedOf cfg env out post ++ rest,
           skipped := st.skipped ++ skippedOf cfg env out post,
           results := st.results ++ resultsOf cfg env out post,
           scores := st.scores ++ scannedOf cfg env out post,
           metricsBegun := st.metricsBegun ++ begunOf cfg env out post,
           metricsCounted := st.metricsCounted ++ scannedOf cfg env out post }, none) := by
  intro post
  induction post with
  | nil =>
    intro A rest st _ hst _
    cases st
    simp_all [loop, scannedOf, skippedOf, resultsOf, begunOf]
  | cons f post ih =>
    intro A rest st hord hst hinv
    have hof := hord f (List.mem_cons_self ..)
    unfold loop
    rw [List.cons_append] at hst hinv
    rw [runOne_ordinary cfg env (out f) f A (post ++ rest) st hof hst hinv]
    simp only []
    have hinv' : Inv (A ++ (delta cfg env (out f) f).scanned) (post ++ rest) := by
      unfold delta
      split
      · simpa using hinv.tail
      · simpa using hinv.tail
      · split
        · simpa using hinv.snoc
        · simpa using hinv.tail
        · simpa using hinv.tail
    rw [ih (A ++ (delta cfg env (out f) f).scanned) rest _ (fun g hg => hord g (List.mem_cons_of_mem _ hg))
      (by simp [applyDelta]) hinv']
    simp [applyDelta, scannedOf, skippedOf, resultsOf, begunOf, List.flatMap_cons, List.append_assoc]

theorem loop_append {α} (cfg : Cfg) (env : Env α) (out : Str → Outcome) :
    ∀ (pre rest : List Str) (st : State α),
      loop cfg env out (pre ++ rest) st =
        match loop cfg env out pre st with
        | (st', none) => loop cfg env out rest st'
        | r => r := by
  intro pre
  induction pre with
  | nil => intro rest st; simp [loop]
  | cons f pre ih =>
    intro rest st
    simp only [List.cons_append, loop]
    cases h : runOne cfg env (out f) f st with
    | mk st' e =>
      cases e with
      | none => simp only []; exact ih rest st'
      | some e => rfl

/-- a KeyboardInterrupt inside `_parse_file` leaves the loop as `SystemExit(2)` whatever the state -/
theorem runOne_interrupt {α} (cfg : Cfg) (env : Env α) (o : Outcome) (f : Str) (st : State α) (b : Bool)
    (hopen : o.open_ = none) (hb : body cfg o = .raised b .keyboardInterrupt) :
    (runOne cfg env o f st).2 = some (.systemExit 2) := by
  unfold runOne
  rw [hopen]
  by_cases hf : f = stdinArg <;> simp [hf, parseFile, hb]

theorem inv_init {files : List Str} (hn : files.Nodup) (hs : stdinName ∉ files) : Inv [] files where
  nodup := hn
  noStdinName := hs
  fresh := by simp
  renamed := by simp

/-- **Closed form of `run`** for ordinary outcomes. -/
theorem run_closed {α} (cfg : Cfg) (env : Env α) (out : Str → Outcome) (files : List Str)
    (hn : files.Nodup) (hs : stdinName ∉ files) (hord : ∀ f ∈ files, ordinary (out f) = true) :
    run cfg env out files =
      { filesList := scannedOf cfg env out files,
        skipped := skippedOf cfg env out files,
        results := resultsOf cfg env out files,
        scores := scannedOf cfg env out files,
        metricsBegun := begunOf cfg env out files,
        metricsCounted := scannedOf cfg env out files,
        aggregated := true, escaped := none } := by
  unfold run
  rw [loop_closed cfg env out files [] [] { newFiles := files } hord (by simp) (by simpa using inv_init hn hs)]
  simp

/-! ### per-file facts about `delta` -/

/-- exactly one of "scanned" / "skipped" per file -/
theorem delta_accounts {α} (cfg : Cfg) (env : Env α) (o : Outcome) (f : Str)
    (ho : ordinary o = true) (hf : f ≠ stdinName) :
    ((delta cfg env o f).scanned ++ (delta cfg env o f).skipped.map (·.1)).map target = [f] := by
  rcases ordinary_open ho with hopen | ⟨s, hopen⟩
  · unfold delta
    rw [hopen]
    simp only []
    split <;> simp [target_display hf]
  · simp [delta, hopen, target_of_ne hf]

theorem delta_results_name {α} (cfg : Cfg) (env : Env α) (o : Outcome) (f : Str) :
    ∀ r ∈ (delta cfg env o f).results, r.1 = display f ∧ (delta cfg env o f).scanned = [display f] := by
  intro r hr
  unfold delta at hr ⊢
  split at hr
  · simp at hr
  · simp at hr
  · split at hr
    · simp only [List.mem_map] at hr
      obtain ⟨a, _, rfl⟩ := hr
      simp
    · simp at hr
    · simp at hr

theorem reasons_nonempty : reasonSyntax ≠ [] ∧ reasonException ≠ [] := by decide

theorem delta_reasoned {α} (cfg : Cfg) (env : Env α) (o : Outcome) (f : Str)
    (hnamed : openErrorsNamed o = true) :
    ∀ e ∈ (delta cfg env o f).skipped, hasReason e.2 = true := by
  intro e he
  unfold delta at he
  split at he
  · rename_i s hopen
    simp only [List.mem_singleton] at he
    subst he
    unfold openErrorsNamed at hnamed
    rw [hopen] at hnamed
    cases s with
    | none => simp at hnamed
    | some s => cases s <;> simp_all [hasReason]
  · simp at he
  · split at he
    · simp at he
    · simp only [List.mem_singleton] at he; subst he; exact (by decide : hasReason (some reasonSyntax) = true)
    · simp only [List.mem_singleton] at he; subst he; exact (by decide : hasReason (some reasonException) = true)

/-! ### list facts -/

theorem perm_flatMap_accounts {α} (cfg : Cfg) (env : Env α) (out : Str → Outcome) :
    ∀ files : List Str, (∀ f ∈ files, ordinary (out f) = true) → stdinName ∉ files →
      ((scannedOf cfg env out files ++ (skippedOf cfg env out files).map (·.1)).map target).Perm files := by
  intro files
  induction files with
  | nil => intro _ _; simp [scannedOf, skippedOf]
  | cons f files ih =>
    intro hord hs
    have hf : f ≠ stdinName := fun h => hs (h ▸ List.mem_cons_self ..)
    have h1 := delta_accounts cfg env (out f) f (hord f (List.mem_cons_self ..)) hf
    have h2 := ih (fun g hg => hord g (List.mem_cons_of_mem _ hg)) (fun hm => hs (List.mem_cons_of_mem _ hm))
    simp only [scannedOf, skippedOf, List.flatMap_cons, List.map_append] at h1 h2 ⊢
    rw [List.perm_iff_count] at h2 ⊢
    intro a
    have h2a := h2 a
    have h1a := congrArg (List.count a) h1
    simp only [List.count_append, List.count_cons, List.count_nil] at h1a h2a ⊢
    omega

theorem nodup_of_map {β γ} (g : β → γ) {l : List β} (h : (l.map g).Nodup) : l.Nodup := by
  induction l with
  | nil => exact List.nodup_nil
  | cons a l ih =>
    simp only [List.map_cons, List.nodup_cons, List.mem_map, not_exists, not_and] at h ⊢
    exact ⟨fun hm => h.1 a hm rfl, ih h.2⟩

/-- findings reported under `display f` come from `f` alone -/
theorem results_filter {α} (cfg : Cfg) (env : Env α) (out : Str → Outcome) (f : Str) (hf : f ≠ stdinName) :
    ∀ files : List Str, files.Nodup → stdinName ∉ files → f ∈ files →
      (resultsOf cfg env out files).filter (·.1 = display f) = (delta cfg env (out f) f).results := by
  have hnot : ∀ files : List Str, stdinName ∉ files → f ∉ files →
      (resultsOf cfg env out files).filter (·.1 = display f) = [] := by
    intro files hs hnf
    rw [List.filter_eq_nil_iff]
    intro r hr
    simp only [resultsOf, List.mem_flatMap] at hr
    obtain ⟨g, hg, hr⟩ := hr
    have := (delta_results_name cfg env (out g) g r hr).1
    simp only [decide_eq_true_eq]
    intro heq
    rw [this] at heq
    have hgs : g ≠ stdinName := fun h => hs (h ▸ hg)
    exact hnf (display_inj hgs hf heq ▸ hg)
  intro files
  induction files with
  | nil => intro _ _ h; simp at h
  | cons g files ih =>
    intro hn hs hmem
    have hn' := List.nodup_cons.mp hn
    have hs' : stdinName ∉ files := fun hm => hs (List.mem_cons_of_mem _ hm)
    simp only [resultsOf, List.flatMap_cons, List.filter_append]
    by_cases hgf : g = f
    · subst hgf
      have hall : (delta cfg env (out g) g).results.filter (·.1 = display g) = (delta cfg env (out g) g).results := by
        rw [List.filter_eq_self]
        intro r hr
        simp [(delta_results_name cfg env (out g) g r hr).1]
      have := hnot files hs' hn'.1
      simp only [resultsOf] at this
      rw [hall, this, List.append_nil]
    · have hfm : f ∈ files := by
        rcases List.mem_cons.mp hmem with h | h
        · exact absurd h.symm hgf
        · exact h
      have hnone : (delta cfg env (out g) g).results.filter (·.1 = display f) = [] := by
        rw [List.filter_eq_nil_iff]
        intro r hr
        have := (delta_results_name cfg env (out g) g r hr).1
        simp only [decide_eq_true_eq]
        intro heq
        rw [this] at heq
        have hgs : g ≠ stdinName := fun h => hs (h ▸ List.mem_cons_self ..)
        exact hgf (display_inj hgs hf heq)
      have := ih hn'.2 hs' hfm
      simp only [resultsOf] at this
      rw [hnone, this, List.nil_append]


/-! ### fixtures for the non-vacuity examples of `Props/C04.lean` -/
namespace Example

def a : Str := "./a.py".toList
def b : Str := "./b.py".toList
def c : Str := "./c.py".toList
def d : Str := "./d.py".toList

def env0 : Env Nat := ⟨fun f => [f.length, 7], fun f => [f.length]⟩

/-- `b` does not parse, `c` cannot be opened, `-` hits a RecursionError in the visitor, a check
raises in `d`; `a` is healthy. -/
def out0 (f : Str) : Outcome :=
  if f = b then { tok := some .tokenError, parse := some .syntaxError }
  else if f = c then { open_ := some (.osError (some "Permission denied".toList)) }
  else if f = stdinArg then { visit := .raised .otherException }
  else if f = d then { visit := .checkRaised .otherException }
  else {}

def files0 : List Str := [stdinArg, a, b, c, d]

end Example

end Bandit.Manager
