import Bandit.Metrics
/-!
# Lemmas for C12 (metrics)
-/
namespace Bandit.Metrics
open Bandit

def firstNonWs (l : Bytes) : Option Nat := (l.dropWhile isWs).head?

theorem dropWhile_append_nonws (a : Bytes) (h : Nat) (hh : isWs h = false) :
    (a ++ [h]).dropWhile isWs = a.dropWhile isWs ++ [h] := by
  induction a with
  | nil => simp [List.dropWhile, hh]
  | cons x xs ih =>
    by_cases hx : isWs x = true
    · simp [List.dropWhile_cons, hx, ih]
    · simp [List.dropWhile_cons, hx]

theorem mem_takeWhile_prop {p : Nat → Bool} : ∀ {l : List Nat} {x : Nat}, x ∈ l.takeWhile p → p x = true
  | [], _, h => by simp at h
  | a :: as, x, h => by
    by_cases ha : p a = true
    · simp only [List.takeWhile_cons, ha, if_true, List.mem_cons] at h
      rcases h with rfl | h
      · exact ha
      · exact mem_takeWhile_prop h
    · simp [List.takeWhile_cons, ha] at h

theorem dropWhile_all {p : Nat → Bool} : ∀ {l : List Nat}, (∀ x ∈ l, p x = true) → l.dropWhile p = []
  | [], _ => rfl
  | a :: as, h => by
    have ha := h a (by simp)
    simp only [List.dropWhile_cons, ha, if_true]
    exact dropWhile_all (fun x hx => h x (by simp [hx]))

def rstrip (l : Bytes) : Bytes := (l.reverse.dropWhile isWs).reverse

theorem strip_eq (l : Bytes) : strip l = rstrip (lstrip l) := rfl

/-- `rstrip L` is a prefix of `L`; what is cut off is whitespace -/
theorem rstrip_decomp (l : Bytes) : ∃ tail, l = rstrip l ++ tail ∧ tail.all isWs = true := by
  unfold rstrip
  refine ⟨(l.reverse.takeWhile isWs).reverse, ?_, ?_⟩
  · have := List.takeWhile_append_dropWhile (p := isWs) (l := l.reverse)
    have h2 := congrArg List.reverse this
    simp only [List.reverse_append, List.reverse_reverse] at h2
    exact h2.symm
  · simp only [List.all_reverse, List.all_eq_true]
    intro x hx
    exact mem_takeWhile_prop hx

theorem firstNonWs_append_ws (q tail : Bytes) (ht : tail.all isWs = true) :
    firstNonWs (q ++ tail) = firstNonWs q := by
  unfold firstNonWs
  induction q with
  | nil =>
    simp only [List.nil_append, List.dropWhile_nil, List.head?_nil]
    have : tail.dropWhile isWs = [] :=
      dropWhile_all (fun x hx => List.all_eq_true.mp ht x hx)
    simp [this]
  | cons x xs ih =>
    by_cases hx : isWs x = true
    · simp [List.dropWhile_cons, hx, ih]
    · simp [List.dropWhile_cons, hx]

theorem firstNonWs_lstrip (l : Bytes) : firstNonWs (lstrip l) = firstNonWs l := by
  unfold firstNonWs lstrip
  induction l with
  | nil => rfl
  | cons x xs ih =>
    by_cases hx : isWs x = true
    · simp [List.dropWhile_cons, hx, ih]
    · simp [List.dropWhile_cons, hx]

theorem firstNonWs_rstrip (l : Bytes) : firstNonWs (rstrip l) = firstNonWs l := by
  obtain ⟨tail, h1, h2⟩ := rstrip_decomp l
  conv => rhs; rw [h1]
  exact (firstNonWs_append_ws _ _ h2).symm

theorem firstNonWs_strip (l : Bytes) : firstNonWs (strip l) = firstNonWs l := by
  rw [strip_eq, firstNonWs_rstrip, firstNonWs_lstrip]

/-- a stripped line starts with its first non-blank byte -/
theorem lstrip_head (l : Bytes) : (lstrip l).head? = firstNonWs l := rfl

theorem lstrip_head_nonws (l : Bytes) (b : Nat) (rest : Bytes) (h : lstrip l = b :: rest) : isWs b = false := by
  have := List.head_dropWhile_not (p := isWs) (l := l) (w := by unfold lstrip at h; simp [h])
  unfold lstrip at h
  simp only [h, List.head_cons] at this
  simpa using this

/-- `rstrip` keeps the head of a list whose head is not whitespace -/
theorem rstrip_cons_nonws (b : Nat) (rest : Bytes) (hb : isWs b = false) :
    ∃ rest', rstrip (b :: rest) = b :: rest' := by
  unfold rstrip
  rw [List.reverse_cons, dropWhile_append_nonws _ _ hb, List.reverse_append]
  exact ⟨_, rfl⟩

theorem strip_head (l : Bytes) : (strip l).head? = firstNonWs l := by
  rw [strip_eq]
  cases h : lstrip l with
  | nil =>
    have : firstNonWs l = none := by rw [← lstrip_head, h]; rfl
    rw [this]; rfl
  | cons b rest =>
    obtain ⟨rest', hr⟩ := rstrip_cons_nonws b rest (lstrip_head_nonws l b rest h)
    rw [hr, ← lstrip_head, h]; rfl

theorem strip_isEmpty (l : Bytes) : (strip l).isEmpty = (firstNonWs l).isNone := by
  have := strip_head l
  cases hs : strip l with
  | nil => rw [hs] at this; simp at this; rw [← this]; rfl
  | cons a as => rw [hs] at this; simp at this; rw [← this]; rfl

end Bandit.Metrics

namespace Bandit.Metrics

theorem bom_nonws : ∀ b ∈ bom, isWs b = false := by decide

/-- the BOM test sees the same on the stripped and on the left-stripped line -/
theorem bom_prefix_rstrip (l : Bytes) : bom.isPrefixOf (rstrip l) = bom.isPrefixOf l := by
  obtain ⟨tail, h1, h2⟩ := rstrip_decomp l
  generalize rstrip l = p at h1
  subst h1
  -- p ++ tail with tail all whitespace
  match p, tail with
  | a :: b :: c :: rest, tail => simp [bom, List.isPrefixOf]
  | [], tail =>
    cases tail with
    | nil => rfl
    | cons t ts =>
      have ht : isWs t = true := by simpa using (List.all_eq_true.mp h2 t (by simp))
      simp only [List.nil_append, bom, List.isPrefixOf]
      have : (0xEF == t) = false := by
        cases h : (0xEF == t) with
        | false => rfl
        | true => have := (beq_iff_eq.mp h); subst this; simp [isWs] at ht
      simp [this]
  | [a], tail =>
    cases tail with
    | nil => simp [bom, List.isPrefixOf]
    | cons t ts =>
      have ht : isWs t = true := by simpa using (List.all_eq_true.mp h2 t (by simp))
      have : (0xBB == t) = false := by
        cases h : (0xBB == t) with
        | false => rfl
        | true => have := (beq_iff_eq.mp h); subst this; simp [isWs] at ht
      simp [bom, List.isPrefixOf, this]
  | [a, b], tail =>
    cases tail with
    | nil => simp [bom, List.isPrefixOf]
    | cons t ts =>
      have ht : isWs t = true := by simpa using (List.all_eq_true.mp h2 t (by simp))
      have : (0xBF == t) = false := by
        cases h : (0xBF == t) with
        | false => rfl
        | true => have := (beq_iff_eq.mp h); subst this; simp [isWs] at ht
      simp [bom, List.isPrefixOf, this]

theorem firstNonWs_drop3_rstrip (l : Bytes) (h : bom.isPrefixOf (rstrip l) = true) :
    firstNonWs ((rstrip l).drop 3) = firstNonWs (l.drop 3) := by
  obtain ⟨tail, h1, h2⟩ := rstrip_decomp l
  generalize rstrip l = p at h1 h
  subst h1
  match p, h with
  | a :: b :: c :: rest, _ =>
    simp only [List.drop_succ_cons, List.drop_zero, List.cons_append]
    exact (firstNonWs_append_ws rest tail h2).symm
  | [], h => simp [bom, List.isPrefixOf] at h
  | [a], h => simp [bom, List.isPrefixOf] at h
  | [a, b], h => simp [bom, List.isPrefixOf] at h

/-- **`proc(line)` = the specification**, for every byte string -/
theorem isLoc_eq_spec (line : Bytes) : isLoc line = Spec.isCode line := by
  unfold isLoc Spec.isCode
  have hb : bom.isPrefixOf (strip line) = bom.isPrefixOf (lstrip line) := by
    rw [strip_eq]; exact bom_prefix_rstrip _
  simp only [hb]
  cases hl : lstrip line with
  | nil =>
    have hf : firstNonWs line = none := by rw [← lstrip_head, hl]; rfl
    have he := strip_isEmpty line
    rw [hf] at he
    simp [bom, List.isPrefixOf, he]
  | cons b rest =>
    have hf : firstNonWs line = some b := by rw [← lstrip_head, hl]; rfl
    by_cases hbom : bom.isPrefixOf (b :: rest) = true
    · simp only [hbom, if_true]
      have hb' : bom.isPrefixOf (rstrip (lstrip line)) = true := by
        rw [bom_prefix_rstrip, hl]; exact hbom
      have h3 := firstNonWs_drop3_rstrip (lstrip line) hb'
      rw [← strip_eq, hl] at h3
      have e1 := strip_isEmpty ((strip line).drop 3)
      have e2 := strip_head ((strip line).drop 3)
      rw [h3] at e1 e2
      rw [e1, e2]
      cases hq : lstrip ((b :: rest).drop 3) with
      | nil =>
        have : firstNonWs ((b :: rest).drop 3) = none := by rw [← lstrip_head, hq]; rfl
        rw [this]; rfl
      | cons c cs =>
        have : firstNonWs ((b :: rest).drop 3) = some c := by rw [← lstrip_head, hq]; rfl
        rw [this]
        cases h : (c == 35) <;> simp [bne, h]
    · simp only [hbom, Bool.false_eq_true, if_false]
      have e1 := strip_isEmpty line
      have e2 := strip_head line
      rw [hf] at e1 e2
      rw [e1, e2]
      cases h : (b == 35) <;> simp [bne, h]

/-! ### counts -/

theorem score_eq (w : Weights) (fs : List Finding) (c : Criterion) (r : Rank) :
    score w fs c r = (fs.filter (fun f => rankOf c f = r)).length * w r := by
  unfold score
  induction fs with
  | nil => simp
  | cons f fs ih =>
    by_cases h : rankOf c f = r
    · simp only [List.map_cons, List.sum_cons, h, if_true, List.filter_cons, decide_true, List.length_cons, ih]
      rw [Nat.succ_mul]; omega
    · simp only [List.map_cons, List.sum_cons, h, if_false, List.filter_cons, decide_false, ih]
      simp

end Bandit.Metrics
