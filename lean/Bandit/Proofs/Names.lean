import Bandit.Tester
/-!
# Lemmas about qualified-name resolution
-/
namespace Bandit

theorem valueQual_eq (al : Aliases) (ks : List (Str × Bool × List Node)) :
    attrQualName.valueQual al ks =
      match ks.find? (·.1 == "value".toList) with
      | some (_, _, ns) => (match ns.head? with | some x => attrQualName al x | none => [])
      | none => [] := by
  induction ks with
  | nil => simp [attrQualName.valueQual]
  | cons s rest ih =>
    obtain ⟨f, l, ns⟩ := s
    simp only [attrQualName.valueQual, List.find?_cons]
    by_cases h : (f == "value".toList) = true
    · simp only [h, if_true]
      cases ns <;> simp [attrQualName.firstQual]
    · simp only [h, Bool.false_eq_true, if_false]
      exact ih

/-- `n` is `Name(id=x)` -/
def IsName (n : Node) (x : Str) : Prop := n.isKind "Name" = true ∧ n.strAttr "id" = some x
/-- `n` is `Attribute(value=base, attr=a)` -/
def IsAttr (n base : Node) (a : Str) : Prop :=
  n.isKind "Attribute" = true ∧ n.strAttr "attr" = some a ∧ n.kid? "value" = some base

theorem attrQualName_name {al : Aliases} {n : Node} {x : Str} (h : IsName n x) :
    attrQualName al n = al.resolve x := by
  obtain ⟨k, p, a, ks⟩ := n
  simp only [attrQualName, h.1, if_true, h.2, Option.getD_some]

theorem attrQualName_attr {al : Aliases} {n base : Node} {a : Str} (h : IsAttr n base a) :
    attrQualName al n = al.resolve (attrQualName al base ++ '.' :: a) := by
  obtain ⟨k, p, at', ks⟩ := n
  obtain ⟨hk, ha, hv⟩ := h
  have hnn : (Node.mk k p at' ks).isKind "Name" = false := by
    simp only [Node.isKind, Node.kind] at hk ⊢
    have : k = "Attribute".toList := by simpa using hk
    subst this; decide
  simp only [attrQualName, hnn, Bool.false_eq_true, if_false, hk, if_true, ha, Option.getD_some]
  rw [valueQual_eq]
  have hv' : (match ks.find? (·.1 == "value".toList) with
      | some (_, _, ns) => ns.head?
      | none => none) = some base := hv
  cases hf : ks.find? (·.1 == "value".toList) with
  | none => rw [hf] at hv'; cases hv'
  | some s =>
    obtain ⟨f, l, ns⟩ := s
    rw [hf] at hv'
    simp only [] at hv' ⊢
    rw [hv']

/-- An attribute chain `x.a₁.a₂…aₙ` (components listed innermost first). -/
inductive Chain : Node → Str → List Str → Prop
  | name {n x} : IsName n x → Chain n x []
  | attr {n base x as a} : Chain base x as → IsAttr n base a → Chain n x (as ++ [a])

/-- alias keys never contain a dot (asnames and `from`-imported names are identifiers) -/
def KeysNoDot (al : Aliases) : Prop := ∀ kv ∈ al, '.' ∉ kv.1

theorem resolve_dotted {al : Aliases} (h : KeysNoDot al) {s : Str} (hs : '.' ∈ s) : al.resolve s = s := by
  unfold Aliases.resolve Aliases.get?
  cases hf : al.find? (·.1 == s) with
  | none => simp
  | some kv =>
    have hm := List.mem_of_find?_eq_some hf
    have he := List.find?_some hf
    simp only [beq_iff_eq] at he
    exact absurd (he ▸ hs) (h kv hm)

def dotted (base : Str) (as : List Str) : Str := as.foldl (fun acc a => acc ++ '.' :: a) base

theorem dotted_snoc (base : Str) (as : List Str) (a : Str) : dotted base (as ++ [a]) = dotted base as ++ '.' :: a := by
  simp [dotted, List.foldl_append]

/-- **Spelling resolution.** With dot-free alias keys, an attribute chain rooted in name `x`
resolves to (what `x` is bound to) followed by the attribute path. -/
theorem chain_resolves {al : Aliases} (h : KeysNoDot al) {n : Node} {x : Str} {as : List Str}
    (hc : Chain n x as) : attrQualName al n = dotted (al.resolve x) as := by
  induction hc with
  | name hn => simp [attrQualName_name hn, dotted]
  | attr _ ha ih =>
    rw [attrQualName_attr ha, ih, dotted_snoc]
    apply resolve_dotted h
    simp

/-! ### the alias table built by the traversal keeps dot-free keys -/

/-- identifiers bound by an import statement are dot-free (CPython grammar; asserted by `astser.py`) -/
def ImportWF (n : Node) : Prop :=
  ∀ na ∈ importNames n, (∀ a, na.2 = some a → '.' ∉ a) ∧
    ((n.isKind "ImportFrom" = true ∧ (importModule? n).isSome) → '.' ∉ na.1)

theorem update_keysNoDot {s : VState} {n : Node} (h : KeysNoDot s.aliases) (hw : ImportWF n) :
    KeysNoDot (s.update n).aliases := by
  unfold VState.update
  split
  · -- Import / ImportFrom without module
    have : ∀ (l : List (Str × Option Str)) (s : VState), KeysNoDot s.aliases →
        (∀ na ∈ l, ∀ a, na.2 = some a → '.' ∉ a) →
        KeysNoDot (l.foldl (fun s (x : Str × Option Str) =>
          { aliases := (match asnameSet x.2 with | some a => (a, x.1) :: s.aliases | none => s.aliases),
            imports := x.1 :: s.imports }) s).aliases := by
      intro l
      induction l with
      | nil => intro s hs _; simpa using hs
      | cons na l ih =>
        intro s hs hl
        simp only [List.foldl_cons]
        apply ih
        · cases hx : asnameSet na.2 with
          | none => simpa [hx] using hs
          | some a =>
            simp only []
            intro kv hkv
            simp only [List.mem_cons] at hkv
            rcases hkv with rfl | hkv
            · unfold asnameSet at hx
              cases hn : na.2 with
              | none => simp [hn] at hx
              | some a' =>
                simp only [hn, Option.bind_some] at hx
                split at hx
                · cases hx
                · have e := Option.some.inj hx
                  rw [← e]; exact hl na (by simp) a' hn
            · exact hs kv hkv
        · intro na' hna'; exact hl na' (by simp [hna'])
    exact this _ s h (fun na hna => (hw na hna).1)
  · split
    · rename_i hnot hfrom
      have hmod : (importModule? n).isSome = true := by
        simp only [Bool.or_eq_true, Bool.and_eq_true, not_or, not_and] at hnot
        have := hnot.2 hfrom
        cases hm : importModule? n <;> simp_all
      have : ∀ (l : List (Str × Option Str)) (s : VState), KeysNoDot s.aliases →
          (∀ na ∈ l, (∀ a, na.2 = some a → '.' ∉ a) ∧ '.' ∉ na.1) →
          KeysNoDot (l.foldl (fun s (x : Str × Option Str) =>
            { aliases := ((asnameSet x.2).getD x.1, (importModule? n).getD [] ++ '.' :: x.1) :: s.aliases,
              imports := ((importModule? n).getD [] ++ '.' :: x.1) :: s.imports }) s).aliases := by
        intro l
        induction l with
        | nil => intro s hs _; simpa using hs
        | cons na l ih =>
          intro s hs hl
          simp only [List.foldl_cons]
          apply ih
          · intro kv hkv
            simp only [List.mem_cons] at hkv
            rcases hkv with rfl | hkv
            · simp only []
              have h1 := hl na (by simp)
              unfold asnameSet
              cases hn : na.2 with
              | none => simpa using h1.2
              | some a' =>
                simp only [Option.bind_some]
                split
                · simpa using h1.2
                · simpa using h1.1 a' hn
            · exact hs kv hkv
          · intro na' hna'; exact hl na' (by simp [hna'])
      exact this _ s h (fun na hna => ⟨(hw na hna).1, (hw na hna).2 ⟨hfrom, hmod⟩⟩)
    · exact h

end Bandit

namespace Bandit
theorem stateAfter_keysNoDot {s : VState} {vs : List Visit} (h : KeysNoDot s.aliases)
    (hw : ∀ v ∈ vs, ImportWF v.node) : KeysNoDot (stateAfter s vs).aliases := by
  induction vs generalizing s with
  | nil => simpa [stateAfter] using h
  | cons v vs ih =>
    simp only [stateAfter]
    exact ih (update_keysNoDot h (hw v (by simp))) (fun v' hv' => hw v' (by simp [hv']))

theorem keysNoDot_nil : KeysNoDot ([] : Aliases) := by intro kv h; cases h

theorem callName_name {al : Aliases} {c : CallView} {x : Str} (h : IsName c.func x) :
    callName al c = al.resolve x := by
  simp [callName, h.1, h.2]

theorem callName_chain {al : Aliases} (hk : KeysNoDot al) {c : CallView} {x : Str} {as : List Str}
    (h : Chain c.func x as) : callName al c = dotted (al.resolve x) as := by
  cases h with
  | name hn => simp [callName_name hn, dotted]
  | attr hb ha =>
    have hnn : c.func.isKind "Name" = false := by
      have := ha.1
      simp only [Node.isKind] at this ⊢
      have e : c.func.kind = "Attribute".toList := by simpa using this
      rw [e]; decide
    simp only [callName, hnn, Bool.false_eq_true, if_false, ha.1, if_true]
    exact chain_resolves hk (Chain.attr hb ha)
end Bandit
