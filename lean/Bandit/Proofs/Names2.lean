import Bandit.Plugins.Misc
import Bandit.Spec.Names
/-!
# The matcher `isCandidate` is the pattern `RE_CANDIDATES` (helper lemmas for `Props/C16.lean`)
-/
namespace Bandit.Plugins
open Bandit Bandit.Spec

/-! ## suffixes, prefixes -/

theorem mem_suffixes {t s : Str} : t ∈ suffixes s ↔ ∃ pre, s = pre ++ t := by
  induction s with
  | nil => simp [suffixes, eq_comm]
  | cons c cs ih =>
    simp only [suffixes, List.mem_cons, ih]
    constructor
    · rintro (rfl | ⟨pre, rfl⟩)
      · exact ⟨[], rfl⟩
      · exact ⟨c :: pre, rfl⟩
    · rintro ⟨pre, h⟩
      cases pre with
      | nil => left; exact h.symm
      | cons a pre => right; simp at h; exact ⟨pre, h.2⟩

theorem stripPrefix?_eq_some {p : String} {s r : Str} : stripPrefix? p s = some r ↔ s = p.toList ++ r := by
  unfold stripPrefix?
  by_cases h : p.toList.isPrefixOf s = true
  · rw [if_pos h]
    obtain ⟨t, rfl⟩ := List.isPrefixOf_iff_prefix.mp h
    simp
  · rw [if_neg h]
    simp only [reduceCtorEq, false_iff]
    intro hs
    exact h (List.isPrefixOf_iff_prefix.mpr ⟨r, hs.symm⟩)

theorem stripPrefix?_eq_none {p : String} {s : Str} : stripPrefix? p s = none ↔ ∀ r, s ≠ p.toList ++ r := by
  constructor
  · intro h r hr
    rw [stripPrefix?_eq_some.mpr hr] at h; cases h
  · intro h
    cases hs : stripPrefix? p s with
    | none => rfl
    | some r => exact absurd (stripPrefix?_eq_some.mp hs) (h r)

theorem mem_stripPrefix?_toList {p : String} {s r : Str} : r ∈ (stripPrefix? p s).toList ↔ s = p.toList ++ r := by
  rw [Option.mem_toList, stripPrefix?_eq_some]

/-! ## the five alternatives of `W`, named -/

def tailW (t : Str) : List Str :=
  match t with
  | 'w' :: t1 =>
    let o := match t1 with | 'o' :: t2 => [t1, t2] | _ => [t1]
    let rr := o.flatMap fun u => match u with | 'r' :: u2 => [u, u2] | _ => [u]
    rr.filterMap fun u => match u with | 'd' :: u2 => some u2 | _ => none
  | _ => []

def afterS (r : Str) : List Str :=
  (List.range (r.takeWhile (· = 's')).length.succ).map (fun k => r.drop k)

def alt1 (s : Str) : List Str :=
  match stripPrefix? "pas" s with
  | none => []
  | some r => (afterS r).flatMap tailW
def alt2 (s : Str) : List Str :=
  match stripPrefix? "pass" s with
  | none => []
  | some r => r :: (match stripPrefix? "phrase" r with | some r2 => [r2] | none => [])
def alt5 (s : Str) : List Str :=
  match stripPrefix? "secret" s with
  | none => []
  | some r => r :: (match r with | 'e' :: r2 => [r2] | _ => [])

theorem wordRests_eq (s : Str) :
    wordRests s = alt1 s ++ alt2 s ++ (stripPrefix? "pwd" s).toList ++ (stripPrefix? "token" s).toList ++ alt5 s := rfl

/-- `o? r? d` after the `w`: what `tailW` leaves -/
theorem mem_tailW {t r : Str} :
    r ∈ tailW t ↔ ∃ o r', (o = [] ∨ o = ['o']) ∧ (r' = [] ∨ r' = ['r']) ∧ t = 'w' :: (o ++ r' ++ 'd' :: r) := by
  constructor
  · intro h
    unfold tailW at h
    split at h
    · rename_i t1
      simp only [List.mem_filterMap, List.mem_flatMap] at h
      obtain ⟨u, ⟨v, hv, hu⟩, hd⟩ := h
      split at hd
      · rename_i u2
        cases hd
        split at hu
        · rename_i v2
          -- v = 'r' :: v2, u ∈ [v, v2]
          simp only [List.mem_cons, List.not_mem_nil, or_false] at hu
          rcases hu with hu | hu
          · cases hu
          · subst hu
            split at hv
            · rename_i t2
              simp only [List.mem_cons, List.not_mem_nil, or_false] at hv
              rcases hv with hv | hv
              · cases hv
              · subst hv; exact ⟨['o'], ['r'], Or.inr rfl, Or.inr rfl, rfl⟩
            · simp only [List.mem_cons, List.not_mem_nil, or_false] at hv
              subst hv; exact ⟨[], ['r'], Or.inl rfl, Or.inr rfl, rfl⟩
        · simp only [List.mem_cons, List.not_mem_nil, or_false] at hu
          subst hu
          split at hv
          · rename_i t2
            simp only [List.mem_cons, List.not_mem_nil, or_false] at hv
            rcases hv with hv | hv
            · cases hv
            · subst hv; exact ⟨['o'], [], Or.inr rfl, Or.inl rfl, rfl⟩
          · simp only [List.mem_cons, List.not_mem_nil, or_false] at hv
            subst hv; exact ⟨[], [], Or.inl rfl, Or.inl rfl, rfl⟩
      · cases hd
    · cases h
  · rintro ⟨o, r', ho, hr, rfl⟩
    rcases ho with rfl | rfl <;> rcases hr with rfl | rfl <;> simp [tailW]

/-! ## `s+`: any number of further `s` -/

theorem take_of_le_takeWhile : ∀ (r : Str) (k : Nat), k ≤ (r.takeWhile (· = 's')).length →
    r.take k = List.replicate k 's'
  | _, 0, _ => by simp
  | [], k + 1, h => by simp at h
  | c :: cs, k + 1, h => by
    by_cases hc : c = 's'
    · subst hc
      simp only [List.takeWhile_cons, decide_true, if_true, List.length_cons, Nat.add_le_add_iff_right] at h
      simp only [List.take_succ_cons, List.replicate_succ, take_of_le_takeWhile cs k h]
    · simp [hc] at h

theorem le_takeWhile_replicate (k : Nat) (t : Str) :
    k ≤ ((List.replicate k 's' ++ t).takeWhile (· = 's')).length := by
  induction k with
  | zero => simp
  | succ k ih => simp only [List.replicate_succ, List.cons_append, List.takeWhile_cons, decide_true, if_true,
      List.length_cons, Nat.add_le_add_iff_right]; exact ih

theorem mem_afterS {r t : Str} : t ∈ afterS r ↔ ∃ k, r = List.replicate k 's' ++ t := by
  unfold afterS
  simp only [List.mem_map, List.mem_range, Nat.succ_eq_add_one, Nat.lt_succ_iff]
  constructor
  · rintro ⟨k, hk, rfl⟩
    refine ⟨k, ?_⟩
    rw [← take_of_le_takeWhile r k hk, List.take_append_drop]
  · rintro ⟨k, rfl⟩
    refine ⟨k, le_takeWhile_replicate k t, ?_⟩
    have : (List.replicate k 's').length = k := List.length_replicate
    conv => lhs; arg 1; rw [← this]
    exact List.drop_left

/-! ## each alternative is its language -/

theorem mem_alt1 {s r : Str} : r ∈ alt1 s ↔ ∃ w, PasswordLike w ∧ s = w ++ r := by
  unfold alt1
  constructor
  · intro h
    split at h
    · cases h
    · rename_i q hq
      rw [stripPrefix?_eq_some] at hq
      simp only [List.mem_flatMap] at h
      obtain ⟨t, ht, hr⟩ := h
      obtain ⟨k, rfl⟩ := mem_afterS.mp ht
      obtain ⟨o, r', ho, hr', rfl⟩ := mem_tailW.mp hr
      refine ⟨_, ⟨k + 1, o, r', by omega, ho, hr', rfl⟩, ?_⟩
      rw [hq]
      simp [List.replicate_succ]
  · rintro ⟨w, ⟨k, o, r', hk, ho, hr', rfl⟩, rfl⟩
    obtain ⟨k, rfl⟩ : ∃ k', k = k' + 1 := ⟨k - 1, by omega⟩
    have hq : stripPrefix? "pas"
        ("pa".toList ++ List.replicate (k + 1) 's' ++ "w".toList ++ o ++ r' ++ "d".toList ++ r) =
          some (List.replicate k 's' ++ 'w' :: (o ++ r' ++ 'd' :: r)) := by
      rw [stripPrefix?_eq_some]
      simp [List.replicate_succ]
    rw [hq]
    simp only [List.mem_flatMap]
    exact ⟨_, mem_afterS.mpr ⟨k, rfl⟩, mem_tailW.mpr ⟨o, r', ho, hr', rfl⟩⟩

theorem mem_alt2 {s r : Str} : r ∈ alt2 s ↔ s = "pass".toList ++ r ∨ s = "passphrase".toList ++ r := by
  unfold alt2
  constructor
  · intro h
    split at h
    · cases h
    · rename_i q hq
      rw [stripPrefix?_eq_some] at hq
      simp only [List.mem_cons] at h
      rcases h with rfl | h
      · exact Or.inl hq
      · split at h
        · rename_i r2 h2
          rw [stripPrefix?_eq_some] at h2
          simp only [List.mem_cons, List.not_mem_nil, or_false] at h
          subst h
          right; rw [hq, h2]; simp
        · cases h
  · rintro (rfl | rfl)
    · rw [stripPrefix?_eq_some.mpr rfl]; simp
    · have h1 : stripPrefix? "pass" ("passphrase".toList ++ r) = some ("phrase".toList ++ r) := by
        rw [stripPrefix?_eq_some]; simp
      rw [h1]
      simp only [stripPrefix?_eq_some.mpr rfl, List.mem_cons, List.not_mem_nil, or_false, or_true]

theorem mem_alt5 {s r : Str} : r ∈ alt5 s ↔ s = "secret".toList ++ r ∨ s = "secrete".toList ++ r := by
  unfold alt5
  constructor
  · intro h
    split at h
    · cases h
    · rename_i q hq
      rw [stripPrefix?_eq_some] at hq
      simp only [List.mem_cons] at h
      rcases h with rfl | h
      · exact Or.inl hq
      · split at h
        · simp only [List.mem_cons, List.not_mem_nil, or_false] at h
          subst h
          right; rw [hq]; simp
        · cases h
  · rintro (rfl | rfl)
    · rw [stripPrefix?_eq_some.mpr rfl]; simp
    · have h1 : stripPrefix? "secret" ("secrete".toList ++ r) = some ('e' :: r) := by
        rw [stripPrefix?_eq_some]; simp
      rw [h1]
      simp

/-- **Key lemma.**  The remainders `wordRests` offers are exactly what is left after a word of `W`. -/
theorem mem_wordRests {s r : Str} : r ∈ wordRests s ↔ ∃ w, PwWord w ∧ s = w ++ r := by
  rw [wordRests_eq]
  simp only [List.mem_append, mem_alt1, mem_alt2, mem_alt5, mem_stripPrefix?_toList]
  unfold PwWord
  constructor
  · rintro ((((⟨w, hw, h⟩ | h | h) | h) | h) | h | h)
    · exact ⟨w, Or.inl hw, h⟩
    · exact ⟨_, Or.inr (Or.inl rfl), h⟩
    · exact ⟨_, Or.inr (Or.inr (Or.inl rfl)), h⟩
    · exact ⟨_, Or.inr (Or.inr (Or.inr (Or.inl rfl))), h⟩
    · exact ⟨_, Or.inr (Or.inr (Or.inr (Or.inr (Or.inl rfl)))), h⟩
    · exact ⟨_, Or.inr (Or.inr (Or.inr (Or.inr (Or.inr (Or.inl rfl))))), h⟩
    · exact ⟨_, Or.inr (Or.inr (Or.inr (Or.inr (Or.inr (Or.inr rfl))))), h⟩
  · rintro ⟨w, hw | rfl | rfl | rfl | rfl | rfl | rfl, h⟩
    · exact Or.inl (Or.inl (Or.inl (Or.inl ⟨w, hw, h⟩)))
    · exact Or.inl (Or.inl (Or.inl (Or.inr (Or.inl h))))
    · exact Or.inl (Or.inl (Or.inl (Or.inr (Or.inr h))))
    · exact Or.inl (Or.inl (Or.inr h))
    · exact Or.inl (Or.inr h)
    · exact Or.inr (Or.inl h)
    · exact Or.inr (Or.inr h)

/-! ## the anchors -/

/-- a word of `W` is a prefix of `t`, followed by the end, a final newline or `_` -/
def hit (t : Str) : Bool :=
  (wordRests t).any atEnd || (wordRests t).any (fun r => r.head? == some '_')

theorem atEnd_iff {r : Str} : atEnd r = true ↔ r = [] ∨ r = ['\n'] := by
  simp [atEnd, List.isEmpty_iff]

theorem hit_iff {t : Str} :
    hit t = true ↔ ∃ w post, t = w ++ post ∧ PwWord w ∧ (post = [] ∨ post = ['\n'] ∨ post.head? = some '_') := by
  simp only [hit, Bool.or_eq_true, List.any_eq_true, mem_wordRests, atEnd_iff, beq_iff_eq]
  constructor
  · rintro (⟨r, ⟨w, hw, rfl⟩, h⟩ | ⟨r, ⟨w, hw, rfl⟩, h⟩)
    · exact ⟨w, r, rfl, hw, by rcases h with h | h <;> simp [h]⟩
    · exact ⟨w, r, rfl, hw, Or.inr (Or.inr h)⟩
  · rintro ⟨w, post, rfl, hw, h | h | h⟩
    · exact Or.inl ⟨post, ⟨w, hw, rfl⟩, Or.inl h⟩
    · exact Or.inl ⟨post, ⟨w, hw, rfl⟩, Or.inr h⟩
    · exact Or.inr ⟨post, ⟨w, hw, rfl⟩, h⟩

theorem isCandidate_eq (s0 : Str) :
    isCandidate s0 = (hit (s0.map foldCase) ||
      (suffixes (s0.map foldCase)).any fun t => match t with | '_' :: t' => hit t' | _ => false) := rfl

/-- **The matcher is the pattern**: `isCandidate` succeeds iff the case-folded string contains a word of
`W` that starts at the beginning or after `_` and stops at the end, before a final newline, or before `_`. -/
theorem isCandidate_iff_spec (s0 : Str) : isCandidate s0 = true ↔ CandidateSpec (s0.map foldCase) := by
  rw [isCandidate_eq]
  generalize s0.map foldCase = s
  simp only [Bool.or_eq_true, List.any_eq_true, mem_suffixes]
  unfold CandidateSpec
  constructor
  · rintro (h | ⟨t, ⟨pre, rfl⟩, h⟩)
    · obtain ⟨w, post, rfl, hw, hp⟩ := hit_iff.mp h
      exact ⟨[], w, post, rfl, hw, Or.inl rfl, hp⟩
    · split at h
      · rename_i t'
        obtain ⟨w, post, rfl, hw, hp⟩ := hit_iff.mp h
        exact ⟨pre ++ ['_'], w, post, by simp, hw, Or.inr (by simp), hp⟩
      · cases h
  · rintro ⟨pre, w, post, rfl, hw, hpre, hp⟩
    rcases hpre with rfl | hpre
    · exact Or.inl (hit_iff.mpr ⟨w, post, by simp, hw, hp⟩)
    · obtain ⟨ys, rfl⟩ := List.getLast?_eq_some_iff.mp hpre
      refine Or.inr ⟨'_' :: (w ++ post), ⟨ys, by simp⟩, ?_⟩
      exact hit_iff.mpr ⟨w, post, rfl, hw, hp⟩

/-! ## corollaries -/

/-- the documented spellings are words of `W` -/
theorem documented_words_in_language :
    ∀ w ∈ ["password", "passwd", "pasword", "pass", "passphrase", "pwd", "token", "secret", "secrete"],
      PwWord w.toList := by
  intro w hw
  simp only [List.mem_cons, List.not_mem_nil, or_false] at hw
  rcases hw with rfl | rfl | rfl | rfl | rfl | rfl | rfl | rfl | rfl
  · exact Or.inl ⟨2, ['o'], ['r'], by omega, Or.inr rfl, Or.inr rfl, by decide⟩
  · exact Or.inl ⟨2, [], [], by omega, Or.inl rfl, Or.inl rfl, by decide⟩
  · exact Or.inl ⟨1, ['o'], ['r'], by omega, Or.inr rfl, Or.inr rfl, by decide⟩
  · exact Or.inr (Or.inl rfl)
  · exact Or.inr (Or.inr (Or.inl rfl))
  · exact Or.inr (Or.inr (Or.inr (Or.inl rfl)))
  · exact Or.inr (Or.inr (Or.inr (Or.inr (Or.inl rfl))))
  · exact Or.inr (Or.inr (Or.inr (Or.inr (Or.inr (Or.inl rfl)))))
  · exact Or.inr (Or.inr (Or.inr (Or.inr (Or.inr (Or.inr rfl)))))

/-- every word of `W` contains one of the four stems -/
theorem PwWord_has_stem {w : Str} (h : PwWord w) :
    "pas".toList <:+: w ∨ "pwd".toList <:+: w ∨ "token".toList <:+: w ∨ "secret".toList <:+: w := by
  rcases h with ⟨k, o, r, hk, _, _, rfl⟩ | rfl | rfl | rfl | rfl | rfl | rfl
  · obtain ⟨k, rfl⟩ : ∃ k', k = k' + 1 := ⟨k - 1, by omega⟩
    exact Or.inl ⟨[], List.replicate k 's' ++ "w".toList ++ o ++ r ++ "d".toList, by simp [List.replicate_succ]⟩
  · exact Or.inl ⟨[], "s".toList, by decide⟩
  · exact Or.inl ⟨[], "sphrase".toList, by decide⟩
  · exact Or.inr (Or.inl ⟨[], [], by decide⟩)
  · exact Or.inr (Or.inr (Or.inl ⟨[], [], by decide⟩))
  · exact Or.inr (Or.inr (Or.inr ⟨[], [], by decide⟩))
  · exact Or.inr (Or.inr (Or.inr ⟨[], "e".toList, by decide⟩))

theorem CandidateSpec_has_stem {s : Str} (h : CandidateSpec s) :
    "pas".toList <:+: s ∨ "pwd".toList <:+: s ∨ "token".toList <:+: s ∨ "secret".toList <:+: s := by
  obtain ⟨pre, w, post, rfl, hw, _, _⟩ := h
  have hin : w <:+: pre ++ w ++ post := ⟨pre, post, rfl⟩
  rcases PwWord_has_stem hw with h | h | h | h
  · exact Or.inl (h.trans hin)
  · exact Or.inr (Or.inl (h.trans hin))
  · exact Or.inr (Or.inr (Or.inl (h.trans hin)))
  · exact Or.inr (Or.inr (Or.inr (h.trans hin)))

end Bandit.Plugins
