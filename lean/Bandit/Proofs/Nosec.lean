import Bandit.Proofs.Scan
/-!
# Lemmas about nosec handling in the tester
-/
namespace Bandit

/-- the record the tester builds from a raw result, given resolved line and column -/
def mkFinding (raw : Raw) (ctx : Ctx) (line col : Nat) : Finding :=
  ⟨raw.id, raw.sev, raw.conf, line, raw.range.getD ctx.linerange, col⟩

/-- resolved line/col of a raw result in a context (`none` = KeyError in the tester) -/
def resolveLoc (raw : Raw) (ctx : Ctx) : Option (Nat × Nat) :=
  match (raw.lineno <|> ctx.lineno), (raw.col <|> ctx.col) with
  | some l, some c => some (l, c)
  | _, _ => none

def Event.asFinding : Event → Event
  | .nosec f => .finding f
  | .skipped f => .finding f
  | e => e

theorem emit_eq (nm : NosecMap) (ctx : Ctx) (raw : Raw) :
    emit nm ctx raw =
      match resolveLoc raw ctx with
      | none => .error .keyError
      | some (l, c) =>
        match nosecsFor nm raw ctx with
        | some [] => .ok (.nosec (mkFinding raw ctx l c))
        | some s => if s.contains raw.id then .ok (.skipped (mkFinding raw ctx l c)) else .ok (.finding (mkFinding raw ctx l c))
        | none => .ok (.finding (mkFinding raw ctx l c)) := by
  unfold emit resolveLoc mkFinding
  cases h1 : raw.lineno <;> cases h2 : ctx.lineno <;> cases h3 : raw.col <;> cases h4 : ctx.col <;>
    simp [bind, Except.bind, pure, Except.pure, throw, throwThe, MonadExceptOf.throw, HOrElse.hOrElse, OrElse.orElse, Option.orElse] <;>
    (cases nosecsFor nm raw ctx with
     | none => rfl
     | some s => cases s <;> rfl)

theorem nosecsFor_nil (raw : Raw) (ctx : Ctx) : nosecsFor [] raw ctx = none := by
  have h1 : ∀ l, NosecMap.get [] l = none := fun l => rfl
  have h2 : getNosec [] ctx.linerange = none := by
    unfold getNosec
    induction ctx.linerange with
    | nil => rfl
    | cons a as ih => simp [List.findSome?_cons, h1, ih]
  unfold nosecsFor
  cases raw.lineno <;> simp [h1, h2]

/-- with nosec handling off, the tester reports exactly what it would have reported or withheld -/
theorem emit_ignore (nm : NosecMap) (ctx : Ctx) (raw : Raw) :
    emit [] ctx raw = (emit nm ctx raw).map Event.asFinding := by
  rw [emit_eq, emit_eq, nosecsFor_nil]
  cases resolveLoc raw ctx with
  | none => rfl
  | some lc =>
    obtain ⟨l, c⟩ := lc
    simp only []
    cases nosecsFor nm raw ctx with
    | none => rfl
    | some s =>
      cases s with
      | nil => rfl
      | cons a as =>
        simp only []
        split <;> rfl

theorem runCheck_ignore (nm : NosecMap) (env : Env) (c : Check) :
    runCheck [] env c = (runCheck nm env c).map Event.asFinding := by
  unfold runCheck
  cases c.run (env.forCheck c) with
  | error _ => rfl
  | ok r =>
    cases r with
    | none => rfl
    | some raw =>
      simp only []
      rw [emit_ignore nm]
      cases emit nm env.ctx (fillId c (raw.resolve env.v)) <;> rfl

theorem runVisit_ignore (checks : List Check) (nm : NosecMap) (lines : List Str) (s : VState) (v : Visit) :
    runVisit checks [] lines s v = (runVisit checks nm lines s v).map Event.asFinding := by
  unfold runVisit
  cases dispatch v with
  | none => rfl
  | some kc =>
    obtain ⟨kind, ctx⟩ := kc
    simp only []
    induction checksFor checks kind with
    | nil => rfl
    | cons c cs ih =>
      simp only [List.flatMap_cons, List.map_append, ih]
      rw [runCheck_ignore nm]

theorem scanVisits_ignore (checks : List Check) (nm : NosecMap) (lines : List Str) (s : VState) (vs : List Visit) :
    scanVisits checks [] lines s vs = (scanVisits checks nm lines s vs).map Event.asFinding := by
  induction vs generalizing s with
  | nil => rfl
  | cons v vs ih =>
    simp only [scanVisits, List.map_append, ih, runVisit_ignore checks nm]

theorem flatMap_runCheck_ignore (nm : NosecMap) (env : Env) (cs : List Check) :
    cs.flatMap (runCheck [] env) = (cs.flatMap (runCheck nm env)).map Event.asFinding := by
  induction cs with
  | nil => rfl
  | cons c cs ih => simp only [List.flatMap_cons, List.map_append, ih]; rw [runCheck_ignore nm]

end Bandit

namespace Bandit

theorem getNosec_some {nm : NosecMap} {r : List Nat} {t : List Str} (h : getNosec nm r = some t) :
    ∃ l ∈ r, nm.get l = some t := by
  unfold getNosec at h
  obtain ⟨l, hl, he⟩ := List.exists_of_findSome?_eq_some h
  exact ⟨l, hl, he⟩

theorem getNosec_none_iff {nm : NosecMap} {r : List Nat} :
    getNosec nm r = none ↔ ∀ l ∈ r, nm.get l = none := by
  unfold getNosec
  simp [List.findSome?_eq_none_iff]

theorem getNosec_unique {nm : NosecMap} {r : List Nat} {l : Nat} {t : List Str}
    (hu : ∀ l' ∈ r, (nm.get l').isSome → l' = l) (hl : l ∈ r) (ht : nm.get l = some t) :
    getNosec nm r = some t := by
  cases h : getNosec nm r with
  | none => rw [getNosec_none_iff] at h; rw [h l hl] at ht; cases ht
  | some t' =>
    obtain ⟨l', hl', ht'⟩ := getNosec_some h
    have := hu l' hl' (by simp [ht'])
    subst this
    rw [ht] at ht'; exact ht'.symm ▸ rfl

end Bandit

namespace Bandit
theorem resolveLoc_some {raw : Raw} {ctx : Ctx} {l c : Nat} (h : resolveLoc raw ctx = some (l, c)) :
    raw.lineno = some l ∨ (raw.lineno = none ∧ ctx.lineno = some l) := by
  unfold resolveLoc at h
  cases h1 : raw.lineno <;> cases h2 : ctx.lineno <;> cases h3 : raw.col <;> cases h4 : ctx.col <;>
    simp_all [HOrElse.hOrElse, OrElse.orElse, Option.orElse]
end Bandit
