import Bandit.Nosec
import Bandit.Spec.NosecGrammar
/-!
# `Nosec.parse` reads comments by the grammar of `Bandit/Spec/NosecGrammar.lean` (helper lemmas for `Props/C02.lean`)
-/
namespace Bandit.Nosec
open Bandit Bandit.Spec

/-! ## greedy runs -/

theorem all_takeWhile (p : Char → Bool) : ∀ (s : Str), ∀ c ∈ s.takeWhile p, p c = true
  | [], c, h => by simp at h
  | a :: s, c, h => by
    by_cases ha : p a = true
    · simp only [List.takeWhile_cons, ha, if_true, List.mem_cons] at h
      rcases h with rfl | h
      · exact ha
      · exact all_takeWhile p s c h
    · simp [ha] at h

theorem head_dropWhile (p : Char → Bool) : ∀ (s : Str) (d : Char), (s.dropWhile p).head? = some d → p d = false
  | [], d, h => by simp at h
  | a :: s, d, h => by
    by_cases ha : p a = true
    · simp only [List.dropWhile_cons, ha, if_true] at h
      exact head_dropWhile p s d h
    · simp only [List.dropWhile_cons, ha, Bool.false_eq_true, if_false, List.head?_cons, Option.some.injEq] at h
      subst h; simpa using ha

/-- a split `s = t ++ r` with `t` inside the class and `r` not continuing it is *the* greedy split -/
theorem span_iff (p : Char → Bool) {s t r : Str} :
    (s = t ++ r ∧ (∀ c ∈ t, p c = true) ∧ (∀ d, r.head? = some d → p d = false)) ↔
      (t = s.takeWhile p ∧ r = s.dropWhile p) := by
  constructor
  · rintro ⟨rfl, ht, hr⟩
    induction t with
    | nil =>
      cases r with
      | nil => simp
      | cons d r => have := hr d rfl; simp [this]
    | cons c t ih =>
      have hc := ht c (by simp)
      have := ih (fun x hx => ht x (by simp [hx]))
      simp only [List.cons_append, List.takeWhile_cons, hc, if_true, List.dropWhile_cons]
      exact ⟨by rw [← this.1], this.2⟩
  · rintro ⟨rfl, rfl⟩
    exact ⟨List.takeWhile_append_dropWhile.symm, all_takeWhile p s, head_dropWhile p s⟩

/-! ## one token -/
variable (cc : CharClasses)

theorem startsBId_iff (c : Char) (rest : Str) :
    StartsBId cc (c :: rest) ↔ ((c = 'B' ∨ c = 'b') ∧ (rest.head?.map cc.isDecimal).getD false = true) := by
  unfold StartsBId
  constructor
  · rintro ⟨b, d, r, h, hb, hd⟩
    simp only [List.cons.injEq] at h
    obtain ⟨rfl, rfl⟩ := h
    exact ⟨hb, by simpa using hd⟩
  · rintro ⟨hb, hd⟩
    cases rest with
    | nil => simp at hd
    | cons d r => exact ⟨c, d, r, rfl, hb, by simpa using hd⟩

theorem isBId_startsBId {t r : Str} (h : IsBId cc t) : StartsBId cc (t ++ r) := by
  obtain ⟨b, ds, rfl, hb, hne, hds⟩ := h
  cases ds with
  | nil => exact absurd rfl hne
  | cons d ds => exact ⟨b, d, ds ++ r, rfl, hb, hds d (by simp)⟩

/-- **One token.**  `oneRep` returns exactly the prefix `(B\d+|[a-z\d_]+)` matches, and what is left -/
theorem firstTok_iff {s t r : Str} : FirstTok cc s t r ↔ oneRep cc s = some (t, r) := by
  cases s with
  | nil =>
    simp only [oneRep, reduceCtorEq, iff_false]
    rintro ⟨h, hh⟩
    have ht : t = [] := (List.append_eq_nil_iff.mp h.symm).1
    subst ht
    rcases hh with ⟨⟨b, ds, h, _⟩, _⟩ | ⟨_, ⟨hne, _⟩, _⟩
    · cases h
    · exact hne rfl
  | cons c rest =>
    by_cases hB : StartsBId cc (c :: rest)
    · have hB' := (startsBId_iff cc c rest).mp hB
      have hone : oneRep cc (c :: rest) = some (c :: rest.takeWhile cc.isDecimal, rest.dropWhile cc.isDecimal) := by
        simp only [oneRep, hB', and_self, if_true]
      rw [hone]
      constructor
      · rintro ⟨hs, hh⟩
        rcases hh with ⟨⟨b, ds, rfl, _, _, hds⟩, hr⟩ | ⟨hnb, _⟩
        · simp only [List.cons_append, List.cons.injEq] at hs
          obtain ⟨rfl, hs⟩ := hs
          obtain ⟨h1, h2⟩ := (span_iff cc.isDecimal).mp ⟨hs, hds, hr⟩
          rw [h1, h2]
        · exact absurd hB hnb
      · intro h
        simp only [Option.some.injEq, Prod.mk.injEq] at h
        obtain ⟨rfl, rfl⟩ := h
        refine ⟨by simp [List.takeWhile_append_dropWhile], Or.inl ⟨⟨c, _, rfl, hB'.1, ?_, all_takeWhile _ rest⟩, head_dropWhile _ rest⟩⟩
        cases rest with
        | nil => simp at hB'
        | cons d r =>
          have hd : cc.isDecimal d = true := by simpa using hB'.2
          simp [hd]
    · have hB' : ¬ ((c = 'B' ∨ c = 'b') ∧ (rest.head?.map cc.isDecimal).getD false = true) :=
        fun h => hB ((startsBId_iff cc c rest).mpr h)
      by_cases hc : cc.isTok c = true
      · have hone : oneRep cc (c :: rest) = some ((c :: rest).takeWhile cc.isTok, (c :: rest).dropWhile cc.isTok) := by
          simp only [oneRep, hB', if_false, hc, if_true]
        rw [hone]
        constructor
        · rintro ⟨hs, hh⟩
          rcases hh with ⟨hb, _⟩ | ⟨_, ⟨_, ht⟩, hr⟩
          · exact absurd (hs ▸ isBId_startsBId cc hb) hB
          · obtain ⟨h1, h2⟩ := (span_iff cc.isTok).mp ⟨hs, ht, hr⟩
            rw [h1, h2]
        · intro h
          simp only [Option.some.injEq, Prod.mk.injEq] at h
          obtain ⟨rfl, rfl⟩ := h
          refine ⟨List.takeWhile_append_dropWhile.symm, Or.inr ⟨hB, ⟨?_, all_takeWhile _ _⟩, head_dropWhile _ _⟩⟩
          simp [hc]
      · have hone : oneRep cc (c :: rest) = none := by
          simp only [oneRep, hB', if_false, hc, Bool.false_eq_true]
        rw [hone]
        simp only [reduceCtorEq, iff_false]
        rintro ⟨hs, hh⟩
        rcases hh with ⟨hb, _⟩ | ⟨_, ⟨hne, ht⟩, _⟩
        · exact absurd (hs ▸ isBId_startsBId cc hb) hB
        · cases t with
          | nil => exact hne rfl
          | cons c' t' =>
            simp only [List.cons_append, List.cons.injEq] at hs
            exact hc (hs.1 ▸ ht c' (by simp))

/-- no token starts here -/
theorem oneRep_eq_none_iff (c : Char) (rest : Str) :
    oneRep cc (c :: rest) = none ↔ (cc.isTok c = false ∧ ¬ StartsBId cc (c :: rest)) := by
  rw [startsBId_iff]
  by_cases hB : ((c = 'B' ∨ c = 'b') ∧ (rest.head?.map cc.isDecimal).getD false = true)
  · simp [oneRep, hB]
  · by_cases hc : cc.isTok c = true
    · simp [oneRep, hB, hc]
    · simp only [oneRep, hB, if_false, hc, Bool.false_eq_true, true_iff]
      exact ⟨by simp, fun h => h⟩

/-- a token is never empty: the scan advances -/
theorem oneRep_length {s t r : Str} (h : oneRep cc s = some (t, r)) : r.length < s.length := by
  have hf := (firstTok_iff cc).mpr h
  obtain ⟨rfl, hh⟩ := hf
  have : t ≠ [] := by
    rcases hh with ⟨⟨b, ds, rfl, _⟩, _⟩ | ⟨_, ⟨hne, _⟩, _⟩
    · simp
    · exact hne
  cases t with
  | nil => exact absurd rfl this
  | cons a t => simp; omega

/-! ## all tokens -/

/-- `,?` -/
def dropComma (r : Str) : Str := match r with | ',' :: r' => r' | _ => r

theorem dropComma_iff {r r' : Str} :
    (r = ',' :: r' ∨ (r = r' ∧ r.head? ≠ some ',')) ↔ dropComma r = r' := by
  unfold dropComma
  split
  · rename_i q
    constructor
    · rintro (h | ⟨_, h⟩)
      · simp only [List.cons.injEq, true_and] at h; exact h
      · simp at h
    · intro h; exact Or.inl (by rw [h])
  · rename_i hnc
    constructor
    · rintro (h | ⟨h, _⟩)
      · exact absurd h (hnc r')
      · exact h
    · intro h
      refine Or.inr ⟨h, ?_⟩
      cases r with
      | nil => simp
      | cons a q =>
        simp only [List.head?_cons, ne_eq, Option.some.injEq]
        intro ha; subst ha; exact hnc q rfl

theorem dropComma_length (r : Str) : (dropComma r).length ≤ r.length := by
  unfold dropComma
  split <;> simp

theorem captures_nil (fuel : Nat) : captures cc fuel [] = [] := by
  cases fuel <;> rfl

theorem captures_cons (fuel : Nat) (c : Char) (rest : Str) :
    captures cc (fuel + 1) (c :: rest) =
      match oneRep cc (c :: rest) with
      | some (cap, r) => cap :: captures cc fuel (dropComma r)
      | none => captures cc fuel rest := rfl

/-- **Tokenisation.**  With enough fuel (more than the length of the text) `captures` returns exactly the
token list the grammar assigns to the text — in particular that list exists and is unique. -/
theorem tokens_iff_captures : ∀ (fuel : Nat) (s : Str) (ts : List Str), s.length < fuel →
    (Tokens cc s ts ↔ captures cc fuel s = ts)
  | 0, s, ts, h => by omega
  | fuel + 1, [], ts, _ => by
    rw [captures_nil]
    constructor
    · intro h
      cases h with
      | done => rfl
      | tok hf _ _ => have := (firstTok_iff cc).mp hf; simp [oneRep] at this
    · rintro rfl; exact Tokens.done
  | fuel + 1, c :: rest, ts, hlen => by
    rw [captures_cons]
    simp only [List.length_cons, Nat.add_lt_add_iff_right] at hlen
    cases hone : oneRep cc (c :: rest) with
    | none =>
      simp only []
      rw [← tokens_iff_captures fuel rest ts hlen]
      constructor
      · intro h
        cases h with
        | sep _ _ ht => exact ht
        | tok hf _ _ => have := (firstTok_iff cc).mp hf; rw [hone] at this; cases this
      · intro h
        have hn := (oneRep_eq_none_iff cc c rest).mp hone
        exact Tokens.sep hn.1 hn.2 h
    | some capr =>
      obtain ⟨cap, r⟩ := capr
      simp only []
      have hr : r.length < (c :: rest).length := oneRep_length cc hone
      have hr' : (dropComma r).length < fuel := by
        have := dropComma_length r
        simp only [List.length_cons] at hr
        omega
      constructor
      · intro h
        cases h with
        | sep h1 h2 _ =>
          have := (oneRep_eq_none_iff cc c rest).mpr ⟨h1, h2⟩
          rw [hone] at this; cases this
        | tok hf hcomma ht =>
          have := (firstTok_iff cc).mp hf
          rw [hone] at this
          simp only [Option.some.injEq, Prod.mk.injEq] at this
          obtain ⟨rfl, rfl⟩ := this
          rw [← dropComma_iff.mp hcomma] at ht
          rw [(tokens_iff_captures fuel _ _ hr').mp ht]
      · rintro rfl
        exact Tokens.tok ((firstTok_iff cc).mpr hone) (dropComma_iff.mpr rfl)
          ((tokens_iff_captures fuel _ _ hr').mpr rfl)

/-! ## the marker -/

/-- `#\s*nosec` tried at one position -/
def markerHere : Str → Option Str
  | '#' :: u =>
    if nosecWord.isPrefixOf (u.dropWhile cc.isSpace) then some ((u.dropWhile cc.isSpace).drop 5) else none
  | _ => none

theorem afterMarker_cons (c : Char) (cs : Str) :
    afterMarker cc (c :: cs) =
      match markerHere cc (c :: cs) with
      | some r => some r
      | none => afterMarker cc cs := by
  by_cases hc : c = '#'
  · subst hc
    simp only [afterMarker, if_true, markerHere]
    split <;> rfl
  · have : markerHere cc (c :: cs) = none := by
      unfold markerHere
      split
      · rename_i h; simp only [List.cons.injEq] at h; exact absurd h.1 hc
      · rfl
    rw [this]
    simp only [afterMarker, hc, if_false]

theorem dropWhile_allSpace {ws : Str} (h : AllSpace cc ws) (hn : cc.isSpace 'n' = false) (r : Str) :
    (ws ++ 'n' :: r).dropWhile cc.isSpace = 'n' :: r := by
  induction ws with
  | nil => simp [hn]
  | cons a ws ih =>
    have ha := h a (by simp)
    simp only [List.cons_append, List.dropWhile_cons, ha, if_true]
    exact ih (fun c hc => h c (by simp [hc]))

/-- the marker at one position, declaratively (`\s` must not contain `n`: otherwise `\s*` would have to
give characters back, which the model does not try) -/
theorem markerAt_iff (hn : cc.isSpace 'n' = false) {t rest : Str} :
    MarkerAt cc t rest ↔ markerHere cc t = some rest := by
  constructor
  · rintro ⟨ws, hws, rfl⟩
    have hd := dropWhile_allSpace cc hws hn ('o' :: 's' :: 'e' :: 'c' :: rest)
    simp [markerHere, nosecWord, hd]
  · intro h
    unfold markerHere at h
    split at h
    · rename_i u
      split at h
      · rename_i hp
        simp only [Option.some.injEq] at h
        obtain ⟨q, hq⟩ := List.isPrefixOf_iff_prefix.mp hp
        refine ⟨u.takeWhile cc.isSpace, all_takeWhile _ u, ?_⟩
        have hrest : rest = q := by
          rw [← h, ← hq]
          simp [nosecWord]
        subst hrest
        have : u = u.takeWhile cc.isSpace ++ u.dropWhile cc.isSpace := List.takeWhile_append_dropWhile.symm
        rw [← hq] at this
        simp only [nosecWord] at this
        conv => lhs; rw [this]
        simp
      · cases h
    · cases h

/-- **Leftmost marker.**  `afterMarker` returns what follows the first position at which `#\s*nosec` matches -/
theorem afterMarker_iff (hn : cc.isSpace 'n' = false) : ∀ (s rest : Str),
    afterMarker cc s = some rest ↔ FirstMarker cc s rest
  | [], rest => by
    simp only [afterMarker, reduceCtorEq, false_iff]
    rintro ⟨pre, t, h, hm, _⟩
    have ht : t = [] := (List.append_eq_nil_iff.mp h.symm).2
    subst ht
    have := (markerAt_iff cc hn).mp hm
    simp [markerHere] at this
  | c :: cs, rest => by
    rw [afterMarker_cons]
    cases hm : markerHere cc (c :: cs) with
    | some r0 =>
      simp only [Option.some.injEq]
      constructor
      · rintro rfl
        exact ⟨[], c :: cs, rfl, (markerAt_iff cc hn).mpr hm, fun _ _ _ _ _ => Nat.zero_le _⟩
      · rintro ⟨pre, t, h, hmt, hmin⟩
        have h0 := hmin [] (c :: cs) r0 rfl ((markerAt_iff cc hn).mpr hm)
        have hpre : pre = [] := List.eq_nil_of_length_eq_zero (by simpa using h0)
        subst hpre
        simp only [List.nil_append] at h
        subst h
        have := (markerAt_iff cc hn).mp hmt
        rw [hm] at this
        exact Option.some.inj this
    | none =>
      simp only []
      rw [afterMarker_iff hn cs rest]
      have hno : ∀ r, ¬ MarkerAt cc (c :: cs) r := by
        intro r hr
        have := (markerAt_iff cc hn).mp hr
        rw [hm] at this; cases this
      constructor
      · rintro ⟨pre, t, rfl, hmt, hmin⟩
        refine ⟨c :: pre, t, rfl, hmt, ?_⟩
        intro pre' t' rest' h' hm'
        cases pre' with
        | nil => simp only [List.nil_append] at h'; subst h'; exact absurd hm' (hno _)
        | cons a pre'' =>
          simp only [List.cons_append, List.cons.injEq] at h'
          have := hmin pre'' t' rest' h'.2 hm'
          simp only [List.length_cons]; omega
      · rintro ⟨pre, t, h, hmt, hmin⟩
        cases pre with
        | nil => simp only [List.nil_append] at h; subst h; exact absurd hmt (hno _)
        | cons a pre2 =>
          simp only [List.cons_append, List.cons.injEq] at h
          obtain ⟨rfl, rfl⟩ := h
          refine ⟨pre2, t, rfl, hmt, ?_⟩
          intro pre' t' rest' h' hm'
          have := hmin (c :: pre') t' rest' (by rw [h']; rfl) hm'
          simp only [List.length_cons] at this; omega

theorem afterMarker_none_iff (hn : cc.isSpace 'n' = false) (s : Str) :
    afterMarker cc s = none ↔ ¬ HasMarker cc s := by
  induction s with
  | nil =>
    simp only [afterMarker, true_iff]
    rintro ⟨pre, t, rest, h, hm⟩
    have ht : t = [] := (List.append_eq_nil_iff.mp h.symm).2
    subst ht
    have := (markerAt_iff cc hn).mp hm
    simp [markerHere] at this
  | cons c cs ih =>
    rw [afterMarker_cons]
    cases hm : markerHere cc (c :: cs) with
    | some r0 =>
      simp only [reduceCtorEq, false_iff, Classical.not_not]
      exact ⟨[], c :: cs, r0, rfl, (markerAt_iff cc hn).mpr hm⟩
    | none =>
      simp only []
      rw [ih]
      constructor
      · rintro hno ⟨pre, t, rest, h, hmt⟩
        cases pre with
        | nil =>
          simp only [List.nil_append] at h; subst h
          have := (markerAt_iff cc hn).mp hmt
          rw [hm] at this; cases this
        | cons a pre2 =>
          simp only [List.cons_append, List.cons.injEq] at h
          exact hno ⟨pre2, t, rest, h.2, hmt⟩
      · rintro hno ⟨pre, t, rest, rfl, hmt⟩
        exact hno ⟨c :: pre, t, rest, rfl, hmt⟩

/-! ## the `tests` group -/

/-- `:?` -/
def stripColon (s : Str) : Str := match s with | ':' :: r => r | _ => s

theorem stripColon_iff {rest colon x : Str} (h : rest = colon ++ x)
    (hc : colon = [':'] ∨ (colon = [] ∧ rest.head? ≠ some ':')) : stripColon rest = x := by
  rcases hc with rfl | ⟨rfl, hh⟩
  · subst h; rfl
  · simp only [List.nil_append] at h
    subst h
    unfold stripColon
    split
    · simp at hh
    · rfl

theorem stripColon_spec (rest : Str) :
    ∃ colon, rest = colon ++ stripColon rest ∧ (colon = [':'] ∨ (colon = [] ∧ rest.head? ≠ some ':')) := by
  unfold stripColon
  split
  · rename_i r; exact ⟨[':'], rfl, Or.inl rfl⟩
  · rename_i hnc
    refine ⟨[], rfl, Or.inr ⟨rfl, ?_⟩⟩
    cases rest with
    | nil => simp
    | cons a q =>
      simp only [List.head?_cons, ne_eq, Option.some.injEq]
      intro ha; subst ha; exact hnc q rfl

theorem testsGroup_eq (s : Str) :
    testsGroup cc s = ((stripColon s).dropWhile cc.isSpace).takeWhile (fun c => decide (c ≠ '#')) := rfl

/-- **The `tests` group.**  `testsGroup` returns exactly the text the regex captures -/
theorem testsGroup_iff {rest tests : Str} : TestsOf cc rest tests ↔ testsGroup cc rest = tests := by
  rw [testsGroup_eq]
  constructor
  · rintro ⟨colon, ws, tail, h, hc, hws, hhead, hno, htail⟩
    have h1 : stripColon rest = ws ++ (tests ++ tail) := stripColon_iff (by simpa using h) hc
    have h2 := (span_iff cc.isSpace).mp ⟨h1, hws, hhead⟩
    rw [← h2.2]
    have h3 := (span_iff (fun c => decide (c ≠ '#')) (s := tests ++ tail) (t := tests) (r := tail)).mp
      ⟨rfl, fun c hcm => by
          have : c ≠ '#' := fun e => hno (e ▸ hcm)
          simpa using this,
        fun d hd => by
          rcases htail with rfl | ht
          · simp at hd
          · rw [ht] at hd; cases hd; simp⟩
    exact h3.1.symm
  · rintro rfl
    obtain ⟨colon, hcolon, hc⟩ := stripColon_spec rest
    refine ⟨colon, (stripColon rest).takeWhile cc.isSpace,
      ((stripColon rest).dropWhile cc.isSpace).dropWhile (fun c => decide (c ≠ '#')), ?_, hc,
      all_takeWhile _ _, ?_, ?_, ?_⟩
    · simp only [List.append_assoc, List.takeWhile_append_dropWhile]
      exact hcolon
    · intro c hcm
      rw [List.takeWhile_append_dropWhile] at hcm
      exact head_dropWhile _ _ c hcm
    · intro hm
      have := all_takeWhile _ _ '#' hm
      simp at this
    · cases hd : (((stripColon rest).dropWhile cc.isSpace).dropWhile (fun c => decide (c ≠ '#'))) with
      | nil => exact Or.inl rfl
      | cons d q =>
        right
        have := head_dropWhile (fun c => decide (c ≠ '#')) _ d (by rw [hd]; rfl)
        simp only [ne_eq, decide_not, Bool.not_eq_eq_eq_not, Bool.not_false, decide_eq_true_eq] at this
        subst this; rfl

/-- **`Nosec.parse` reads by the grammar.** -/
theorem parse_iff_reads (hn : cc.isSpace 'n' = false) (reg : Registry) (comment : Str) (ids : List Str) :
    parse cc reg comment = some ids ↔ NosecReads cc reg comment ids := by
  unfold parse NosecReads
  cases ha : afterMarker cc comment with
  | none =>
    simp only [reduceCtorEq, false_iff]
    rintro ⟨rest, tests, toks, hm, _⟩
    rw [(afterMarker_iff cc hn _ _).mpr hm] at ha; cases ha
  | some rest =>
    simp only [Option.some.injEq]
    have hm := (afterMarker_iff cc hn _ _).mp ha
    constructor
    · rintro rfl
      exact ⟨rest, testsGroup cc rest, _, hm, (testsGroup_iff cc).mpr rfl,
        (tokens_iff_captures cc _ _ _ (Nat.lt_succ_self _)).mpr rfl, rfl⟩
    · rintro ⟨rest', tests, toks, hm', ht, htok, rfl⟩
      have hr : rest' = rest := by
        have := (afterMarker_iff cc hn _ _).mpr hm'
        rw [ha] at this; exact (Option.some.inj this).symm
      subst hr
      have h1 := (testsGroup_iff cc).mp ht
      subst h1
      have h2 := (tokens_iff_captures cc _ _ _ (Nat.lt_succ_self _)).mp htok
      rw [h2]; rfl

theorem parse_none_iff (hn : cc.isSpace 'n' = false) (reg : Registry) (comment : Str) :
    parse cc reg comment = none ↔ ¬ HasMarker cc comment := by
  rw [← afterMarker_none_iff cc hn]
  unfold parse
  cases afterMarker cc comment <;> simp

end Bandit.Nosec
