import Bandit.Proofs.RelLoc
import Bandit.Proofs.C17Xss
/-!
# The two position-using checks (B608, B703) decide the same on a renumbered environment

B608 uses positions only as node identity (`sameNode`: equality of spans, preserved and reflected by an
injective renumbering of lines); B703 compares line numbers with `<` / `≥` only.
-/
set_option linter.unusedSimpArgs false
namespace Bandit
open Plugins

/-! ## Accessors under position maps -/

variable (g : Option Pos → Option Pos)

@[simp] theorem Node.nameId?_mapPos (n : Node) : (n.mapPos g).nameId? = n.nameId? := by simp [Node.nameId?]
@[simp] theorem Node.attrName?_mapPos (n : Node) : (n.mapPos g).attrName? = n.attrName? := by simp [Node.attrName?]
@[simp] theorem Node.strConst?_mapPos (n : Node) : (n.mapPos g).strConst? = n.strConst? := by simp [Node.strConst?]

/-! ## `Node.para` under position maps -/

/-- the children-with-values of a mapped node -/
def mapRes {α β : Type} (φ : α → β) (kids : List (Str × Bool × List (Node × α))) : List (Str × Bool × List (Node × β)) :=
  kids.map (fun s => (s.1, s.2.1, s.2.2.map (fun cr => (cr.1.mapPos g, φ cr.2))))

theorem para_mapPos {α β : Type} (f : Node → List (Str × Bool × List (Node × α)) → α)
    (f' : Node → List (Str × Bool × List (Node × β)) → β) (φ : α → β)
    (h : ∀ n kids, f' (n.mapPos g) (mapRes g φ kids) = φ (f n kids)) :
    ∀ n : Node, Node.para f' (n.mapPos g) = φ (Node.para f n) := by
  intro n
  refine Node.rec
    (motive_1 := fun n => Node.para f' (n.mapPos g) = φ (Node.para f n))
    (motive_2 := fun ks => paraSlots f' (Node.mapPos.mapSlots g ks) = mapRes g φ (paraSlots f ks))
    (motive_3 := fun s => paraList f' (Node.mapPos.mapList g s.2.2) = (paraList f s.2.2).map (fun cr => (cr.1.mapPos g, φ cr.2)))
    (motive_4 := fun s => paraList f' (Node.mapPos.mapList g s.2) = (paraList f s.2).map (fun cr => (cr.1.mapPos g, φ cr.2)))
    (motive_5 := fun ns => paraList f' (Node.mapPos.mapList g ns) = (paraList f ns).map (fun cr => (cr.1.mapPos g, φ cr.2)))
    ?_ ?_ ?_ ?_ ?_ ?_ ?_ n
  · intro k p a ks ih
    simp only [Node.mapPos, Node.para, ih]
    exact h (Node.mk k p a ks) _
  · rfl
  · intro head tail ih1 ih2
    obtain ⟨fl, l, ns⟩ := head
    simp only [Node.mapPos.mapSlots, paraSlots, mapRes, List.map_cons] at ih1 ih2 ⊢
    rw [ih1, ih2]
  · intro fl snd ih; exact ih
  · intro l ns ih; exact ih
  · rfl
  · intro head tail ih1 ih2
    simp only [Node.mapPos.mapList, paraList, List.map_cons, ih1, ih2]

theorem slotRes_mapRes {α β : Type} (φ : α → β) (kids : List (Str × Bool × List (Node × α))) (f : String) :
    slotRes (mapRes g φ kids) f = (slotRes kids f).map (fun cr => (cr.1.mapPos g, φ cr.2)) := by
  unfold slotRes mapRes
  induction kids with
  | nil => rfl
  | cons s ks ih =>
    simp only [List.map_cons, List.find?_cons]
    cases hs : (s.1 == f.toList)
    · simpa using ih
    · obtain ⟨a, b, c⟩ := s; rfl

/-! ## B608: spans as node identity -/

theorem Pos.renum_inj {ρ : Nat → Nat} (h : StrictMonoNat ρ) {p q : Pos} (e : Pos.renum ρ p = Pos.renum ρ q) : p = q := by
  cases p; cases q
  simp only [Pos.renum, Pos.mk.injEq] at e ⊢
  exact ⟨h.inj e.1, h.inj e.2.1, e.2.2.1, e.2.2.2⟩

theorem optPos_renum_beq {ρ : Nat → Nat} (h : StrictMonoNat ρ) (p q : Option Pos) :
    (p.map (Pos.renum ρ) == q.map (Pos.renum ρ)) = (p == q) := by
  rw [Bool.eq_iff_iff, beq_iff_eq, beq_iff_eq]
  constructor
  · intro e
    cases p <;> cases q <;> simp_all
    exact Pos.renum_inj h e
  · intro e; rw [e]

theorem sameNode_renum {ρ : Nat → Nat} (h : StrictMonoNat ρ) (a b : Node) :
    sameNode (a.renum ρ) (b.renum ρ) = sameNode a b := by
  simp only [sameNode, Node.renum_kind, Node.renum_pos, optPos_renum_beq h]

theorem getBits_renum {ρ : Nat → Nat} (h : StrictMonoNat ρ) (stop n : Node) :
    getBits (stop.renum ρ) (n.renum ρ) = getBits stop n := by
  unfold getBits Node.renum
  refine para_mapPos _ _ _ id ?_ n
  intro n kids
  have hs := sameNode_renum h n stop
  unfold Node.renum at hs
  simp only [hs, slotRes_mapRes, List.head?_map, id]
  split
  · rfl
  · congr 1 <;> (cases (slotRes kids _).head? <;> simp)


def resRenum (ρ : Nat → Nat) (r : Option Node × Str × Bool) : Option Node × Str × Bool := (r.1.map (Node.renum ρ), r.2)

@[simp] theorem Node.renum_strConst? (ρ : Nat → Nat) (n : Node) : (n.renum ρ).strConst? = n.strConst? := by simp [Node.renum]
@[simp] theorem Node.renum_strAttr (ρ : Nat → Nat) (n : Node) (f : String) : (n.renum ρ).strAttr f = n.strAttr f := by simp [Node.renum]
@[simp] theorem Node.renum_kidList (ρ : Nat → Nat) (n : Node) (f : String) : (n.renum ρ).kidList f = (n.kidList f).map (Node.renum ρ) := by
  simp [Node.renum]
@[simp] theorem Node.renum_kid? (ρ : Nat → Nat) (n : Node) (f : String) : (n.renum ρ).kid? f = (n.kid? f).map (Node.renum ρ) := by
  simp only [Node.renum, Node.kid?_mapPos]; rfl
@[simp] theorem Node.renum_nameId? (ρ : Nat → Nat) (n : Node) : (n.renum ρ).nameId? = n.nameId? := by simp [Node.renum]
@[simp] theorem Node.renum_attrName? (ρ : Nat → Nat) (n : Node) : (n.renum ρ).attrName? = n.attrName? := by simp [Node.renum]

theorem isKind_comp_renum (ρ : Nat → Nat) (k : String) : ((fun n : Node => n.isKind k) ∘ Node.renum ρ) = (fun n : Node => n.isKind k) := by
  funext n; simp

theorem evaluateAst_renum {ρ : Nat → Nat} (h : StrictMonoNat ρ) (T : InjTables) (e : Env) :
    evaluateAst T (e.renum ρ) = (evaluateAst T e).map (resRenum ρ) := by
  unfold evaluateAst
  have hnode : (e.renum ρ).node = e.node.renum ρ := rfl
  have hanc : (e.renum ρ).v.anc = e.v.anc.map (Node.renum ρ) := rfl
  simp only [hnode, Visit.parent?, hanc, Node.renum_strConst?, List.head?_map]
  cases hs : e.node.strConst? with
  | none => rfl
  | some s =>
    cases hp : e.v.anc with
    | nil => rfl
    | cons par rest =>
      simp only [List.map_cons, List.head?_cons, Option.map_some, Node.renum_isKind, Node.renum_strAttr, bind, Except.bind,
        pure, Except.pure, throw, throwThe, MonadExceptOf.throw]
      rw [← List.map_cons]
      generalize par :: rest = L
      have hK : ∀ k : String, ((fun x : Node => x.isKind k) ∘ Node.renum ρ) = (fun x : Node => x.isKind k) := isKind_comp_renum ρ
      have hS : (Node.isStrConst ∘ Node.renum ρ) = Node.isStrConst := by funext n; simp
      have hC : (Node.strConst? ∘ Node.renum ρ) = Node.strConst? := by funext n; simp
      by_cases h1 : par.isKind "BinOp" = true
      · simp only [h1, if_true, List.dropWhile_map, List.takeWhile_map, hK, List.head?_map, List.getLast?_map, Except.map, resRenum]
        congr 3
        cases (List.takeWhile (fun x => x.isKind "BinOp") L).getLast? with
        | none => simp only [Option.map_none, Option.getD_none]; rw [getBits_renum h]
        | some t => simp only [Option.map_some, Option.getD_some]; rw [getBits_renum h]
      · simp only [h1, Bool.false_eq_true, if_false]
        by_cases h2 : (par.isKind "Attribute" && T.strMethods.contains ((par.strAttr "attr").getD [])) = true
        · simp only [h2, if_true, List.getElem?_map]
          cases L[2]? <;> rfl
        · simp only [h2, Bool.false_eq_true, if_false]
          by_cases h3 : par.isKind "JoinedStr" = true
          · simp only [h3, if_true, Node.renum_kidList, List.filter_map, hS, List.head?_map, List.filterMap_map, hC]
            cases hf : (List.filter Node.isStrConst (par.kidList "values")).head? with
            | none => rfl
            | some first =>
              simp only [Option.map_some, sameNode_renum h, Node.renum_strConst?, List.getElem?_map]
              split
              · cases L[1]? <;> rfl
              · rfl
          · simp only [h3, Bool.false_eq_true, if_false]; rfl

theorem calledName_renum (ρ : Nat → Nat) (n : Node) : calledName (n.renum ρ) = calledName n := by
  unfold calledName
  rw [Node.renum_kid?]
  cases n.kid? "func" <;> simp

theorem insideExecute_renum (ρ : Nat → Nat) (T : InjTables) (w : Option Node) :
    insideExecute T (w.map (Node.renum ρ)) = insideExecute T w := by
  cases w <;> simp [insideExecute, calledName_renum]

theorem b608_renum {ρ : Nat → Nat} (h : StrictMonoNat ρ) (T : InjTables) (e : Env) : b608 T (e.renum ρ) = b608 T e := by
  unfold b608
  rw [evaluateAst_renum h]
  cases evaluateAst T e with
  | error c => rfl
  | ok r =>
    obtain ⟨w, s, b⟩ := r
    simp only [Except.map, resRenum, bind, Except.bind, insideExecute_renum]

theorem pluginPos_posInvariant {id name : String} {kinds : List Str} {f : Env → M (Option PRaw)}
    (hf : ∀ ρ, StrictMonoNat ρ → ∀ e : Env, f (e.renum ρ) = f e) : PosInvariant (Check.pluginPos id name kinds f) := by
  intro ρ h env
  simp only [Check.pluginPos, Check.plugin, hf ρ h env]

theorem pluginPos_ok {id name : String} {kinds : List Str} {f : Env → M (Option PRaw)} (hf : NoAbsF f)
    (hp : ∀ ρ, StrictMonoNat ρ → ∀ e : Env, f (e.renum ρ) = f e) : CheckOK (Check.pluginPos id name kinds f) :=
  ⟨Or.inr (pluginPos_posInvariant hp), (plugin_ok (id := id) (name := name) (kinds := kinds) hf).rel⟩

theorem b608_posInvariant (T : InjTables) :
    PosInvariant (Check.pluginPos "B608" "hardcoded_sql_expressions" ["Str".toList] (b608 T)) :=
  pluginPos_posInvariant (fun _ h e => b608_renum h T e)

/-! ## Qualified names under position maps -/

theorem attrQualName_mapPos (g : Option Pos → Option Pos) (al : Aliases) : ∀ n : Node, attrQualName al (n.mapPos g) = attrQualName al n := by
  intro n
  refine Node.rec
    (motive_1 := fun n => attrQualName al (n.mapPos g) = attrQualName al n)
    (motive_2 := fun ks => attrQualName.valueQual al (Node.mapPos.mapSlots g ks) = attrQualName.valueQual al ks)
    (motive_3 := fun s => attrQualName.firstQual al (Node.mapPos.mapList g s.2.2) = attrQualName.firstQual al s.2.2)
    (motive_4 := fun s => attrQualName.firstQual al (Node.mapPos.mapList g s.2) = attrQualName.firstQual al s.2)
    (motive_5 := fun ns => attrQualName.firstQual al (Node.mapPos.mapList g ns) = attrQualName.firstQual al ns)
    ?_ ?_ ?_ ?_ ?_ ?_ ?_ n
  · intro k p a ks ih
    simp only [Node.mapPos, attrQualName, ih]
    rfl
  · rfl
  · intro head tail ih1 ih2
    obtain ⟨f, l, ns⟩ := head
    simp only [Node.mapPos.mapSlots, attrQualName.valueQual]
    rw [ih1, ih2]
  · intro f snd ih; exact ih
  · intro l ns ih; exact ih
  · rfl
  · intro head tail ih1 ih2
    simp only [Node.mapPos.mapList, attrQualName.firstQual, ih1]

theorem callName_mapPos (g : Option Pos → Option Pos) (al : Aliases) (c : CallView) : callName al (c.mapPos g) = callName al c := by
  simp only [callName, CallView.mapPos, Node.mapPos_isKind, Node.strAttr_mapPos, attrQualName_mapPos]

theorem Env.call?_renum (ρ : Nat → Nat) (e : Env) : (e.renum ρ).call? = e.call?.map (CallView.mapPos (Option.map (Pos.renum ρ))) := by
  simp only [Env.call?, Env.renum, Visit.renum_node, Node.renum, Node.asCall?_mapPos]

theorem Env.qual_renum (ρ : Nat → Nat) (e : Env) : (e.renum ρ).qual = e.qual := by
  unfold Env.qual
  rw [Env.call?_renum]
  cases e.call? with
  | none => rfl
  | some c => exact callName_mapPos _ _ c

theorem Env.name_renum (ρ : Nat → Nat) (e : Env) : (e.renum ρ).name = e.name := by
  simp only [Env.name, Env.qual_renum]

end Bandit

namespace Bandit.Plugins.DjangoXss
open Bandit Plugins

/-! ## B703: `is_assigned` and the linearised calls under renumbering -/

section

variable (g : Option Pos → Option Pos)

def Asg.mapPos : Asg → Asg
  | .no => .no
  | .one n => .one (n.mapPos g)
  | .many ns => .many (ns.map (Node.mapPos g))

theorem assignedIn_mapPos (l : List (Node × M Asg)) :
    assignedIn (l.map (fun cr => (cr.1.mapPos g, Except.map (Asg.mapPos g) cr.2))) = (assignedIn l).map (List.map (Node.mapPos g)) := by
  induction l with
  | nil => rfl
  | cons x rest ih =>
    obtain ⟨c, r⟩ := x
    simp only [List.map_cons, assignedIn, ih]
    cases r with
    | error e => rfl
    | ok a =>
      cases assignedIn rest with
      | error e => rfl
      | ok more => cases a <;> simp [Except.map, bind, Except.bind, pure, Except.pure, Asg.mapPos]

theorem tupleTarget_mapPos (var : Str) (vs : List Node) : ∀ (ts : List Node) (pos : Nat),
    tupleTarget var (vs.map (Node.mapPos g)) (ts.map (Node.mapPos g)) pos = (tupleTarget var vs ts pos).map (Asg.mapPos g) := by
  intro ts
  induction ts with
  | nil => intro pos; rfl
  | cons t ts ih =>
    intro pos
    simp only [List.map_cons, tupleTarget, Node.nameId?_mapPos, List.getElem?_map]
    cases t.nameId? with
    | none => simp only [ih]
    | some i =>
      cases vs[pos]? with
      | none => simp only [Option.map_none, ih]
      | some v =>
        simp only [Option.map_some]
        split
        · rfl
        · exact ih _



theorem kidBindNameId_mapPos (it : Node) (f : String) :
    ((it.mapPos g).kid? f).bind Node.nameId? = (it.kid? f).bind Node.nameId? := by
  rw [Node.kid?_mapPos]
  cases it.kid? f <;> simp

theorem isAssigned_mapPos (var : Str) (n : Node) :
    isAssigned var (n.mapPos g) = (isAssigned var n).map (Asg.mapPos g) := by
  unfold isAssigned
  refine para_mapPos g _ _ (Except.map (Asg.mapPos g)) ?_ n
  intro n kids
  simp only [Node.mapPos_isKind, slotRes_mapRes, assignedIn_mapPos, List.head?_map, Node.kidList_mapPos, Node.kid?_mapPos,
    List.getLast?_map, Node.nameId?_mapPos]
  generalize assignedIn (slotRes kids "body") = A
  generalize assignedIn (slotRes kids "handlers") = B
  generalize assignedIn (slotRes kids "orelse") = C
  generalize assignedIn (slotRes kids "finalbody") = D
  by_cases h1 : n.isKind "Expr" = true
  · simp only [h1, if_true]
    cases (slotRes kids "value").head? with
    | none => rfl
    | some cr => rfl
  simp only [h1, Bool.false_eq_true, if_false]
  by_cases h2 : n.isKind "FunctionDef" = true
  · simp only [h2, if_true]
    cases A <;> rfl
  simp only [h2, Bool.false_eq_true, if_false]
  by_cases h3 : n.isKind "With" = true
  · simp only [h3, if_true, List.any_map]
    have hc : ((fun it : Node => !((it.kid? "optional_vars").bind Node.nameId? == some var)) ∘ Node.mapPos g)
        = (fun it : Node => !((it.kid? "optional_vars").bind Node.nameId? == some var)) := by
      funext it; simp only [Function.comp, kidBindNameId_mapPos]
    rw [hc]
    cases (n.kidList "items").getLast? with
    | none => rfl
    | some last =>
      simp only [Option.map_some, kidBindNameId_mapPos]
      split
      · cases A with
        | error e => rfl
        | ok a => simp only [Except.map, bind, Except.bind]; split <;> rfl
      · simp only [Except.map, bind, Except.bind, pure, Except.pure]; split <;> rfl
  simp only [h3, Bool.false_eq_true, if_false]
  by_cases h4 : n.isKind "Try" = true
  · simp only [h4, if_true]
    cases A <;> cases B <;> cases C <;> cases D <;> simp [Except.map, bind, Except.bind, pure, Except.pure, Asg.mapPos]
  simp only [h4, Bool.false_eq_true, if_false]
  by_cases h5 : n.isKind "ExceptHandler" = true
  · simp only [h5, if_true]
    cases A <;> rfl
  simp only [h5, Bool.false_eq_true, if_false]
  by_cases h6 : (n.isKind "If" || n.isKind "For" || n.isKind "While") = true
  · simp only [h6, if_true]
    cases A <;> cases C <;> simp [Except.map, bind, Except.bind, pure, Except.pure, Asg.mapPos]
  simp only [h6, Bool.false_eq_true, if_false]
  by_cases h7 : n.isKind "AugAssign" = true
  · simp only [h7, if_true]
    cases n.kid? "target" with
    | none => rfl
    | some t =>
      cases n.kid? "value" with
      | none => rfl
      | some v => simp only [Option.map_some, Node.nameId?_mapPos]; split <;> rfl
  simp only [h7, Bool.false_eq_true, if_false]
  by_cases h8 : n.isKind "Assign" = true
  · simp only [h8, if_true]
    cases (n.kidList "targets").head? with
    | none => rfl
    | some t =>
      cases n.kid? "value" with
      | none => rfl
      | some v =>
        simp only [Option.map_some, Node.nameId?_mapPos, Node.mapPos_isKind, Node.kidList_mapPos, tupleTarget_mapPos]
        split
        · split <;> rfl
        · split <;> rfl
  simp only [h8, Bool.false_eq_true, if_false]
  rfl

end

section

def Item.renum (ρ : Nat → Nat) : Item → Item
  | .ref i t => .ref i (t.map ρ)
  | .bad => .bad
def Pre.renum (ρ : Nat → Nat) : Pre → Pre
  | .name i => .name i
  | .done its => .done (its.map (Item.renum ρ))
  | .bad => .bad
def Info.renum (ρ : Nat → Nat) (x : Info) : Info :=
  ⟨x.asCall.map (Item.renum ρ), x.asArg.map (List.map (Pre.renum ρ)), x.eltArgs.map (List.map (List.map (Pre.renum ρ)))⟩

variable (ρ : Nat → Nat)

theorem merge_renum : ∀ (xs ys : List (List Pre)),
    zipLevels.merge (xs.map (List.map (Pre.renum ρ))) (ys.map (List.map (Pre.renum ρ)))
      = (zipLevels.merge xs ys).map (List.map (Pre.renum ρ)) := by
  intro xs
  induction xs with
  | nil => intro ys; simp [zipLevels.merge]
  | cons x xs ih =>
    intro ys
    cases ys with
    | nil => simp [zipLevels.merge]
    | cons y ys => simp [zipLevels.merge, ih]

theorem zipLevels_renum (ls : List (List (List Pre))) :
    zipLevels (ls.map (List.map (List.map (Pre.renum ρ)))) = (zipLevels ls).map (List.map (Pre.renum ρ)) := by
  induction ls with
  | nil => rfl
  | cons l ls ih => simp only [List.map_cons, zipLevels, ih, merge_renum]

theorem resolvePre_renum (line : Option Nat) (p : Pre) :
    resolvePre (line.map ρ) (Pre.renum ρ p) = (resolvePre line p).map (Item.renum ρ) := by
  cases p <;> rfl

theorem itemsOfArgs_renum (line : Option Nat) (args : List (List (List Pre))) :
    itemsOfArgs (line.map ρ) (args.map (List.map (List.map (Pre.renum ρ)))) = (itemsOfArgs line args).map (Item.renum ρ) := by
  unfold itemsOfArgs
  rw [zipLevels_renum]
  generalize zipLevels args = z
  induction z with
  | nil => rfl
  | cons l ls ih =>
    simp only [List.map_cons, List.flatten_cons, List.flatMap_append, List.map_append, ih]
    congr 1
    induction l with
    | nil => rfl
    | cons p ps ihp => simp only [List.map_cons, List.flatMap_cons, List.map_append, resolvePre_renum, ihp]

theorem isLiteralFormat_mapPos (g : Option Pos → Option Pos) (n : Node) : isLiteralFormat (n.mapPos g) = isLiteralFormat n := by
  unfold isLiteralFormat
  simp only [Node.mapPos_isKind, Node.kid?_mapPos, Node.kidList_mapPos, List.isEmpty_map]
  cases n.kid? "func" with
  | none => rfl
  | some f =>
    simp only [Option.map_some, Node.mapPos_isKind, Node.strAttr_mapPos, Node.kid?_mapPos]
    cases f.kid? "value" <;> simp

theorem info_renum (n : Node) : info (n.renum ρ) = (info n).renum ρ := by
  unfold info Node.renum
  refine para_mapPos _ _ _ (Info.renum ρ) ?_ n
  intro n kids
  simp only [slotRes_mapRes, List.map_map, List.head?_map, isLiteralFormat_mapPos, Node.isStrConst_mapPos, Node.nameId?_mapPos,
    Node.mapPos_isKind]
  have hA : ∀ L : List (Node × Info),
      L.map ((fun x => x.snd.asArg) ∘ fun cr => (Node.mapPos (Option.map (Pos.renum ρ)) cr.fst, Info.renum ρ cr.snd))
        = (L.map (fun x => x.snd.asArg)).map (List.map (List.map (Pre.renum ρ))) := by
    intro L; simp [List.map_map, Function.comp_def, Info.renum]
  have hL : (Node.mapPos (Option.map (Pos.renum ρ)) n).line? = n.line?.map ρ := Node.renum_line? ρ n
  simp only [hA, hL, itemsOfArgs_renum]
  generalize itemsOfArgs n.line? (List.map (fun x => x.snd.asArg) (slotRes kids "args")) = its
  have hC : (if isLiteralFormat n = true then its.map (Item.renum ρ) else [Item.bad])
      = (if isLiteralFormat n = true then its else [Item.bad]).map (Item.renum ρ) := by
    split <;> rfl
  rw [hC]
  generalize (if isLiteralFormat n = true then its else [Item.bad]) = ac
  simp only [Info.renum, Info.mk.injEq, true_and, and_true]
  by_cases h1 : n.isStrConst = true
  · simp [h1]
  simp only [h1, Bool.false_eq_true, if_false]
  cases n.nameId? with
  | some i => rfl
  | none =>
    simp only
    by_cases h2 : n.isKind "Call" = true
    · simp only [h2, if_true]; rfl
    simp only [h2, Bool.false_eq_true, if_false]
    by_cases h3 : n.isKind "Starred" = true
    · simp only [h3, if_true]
      cases (slotRes kids "value").head? with
      | none => rfl
      | some cr =>
        obtain ⟨v, vi⟩ := cr
        simp only [Option.map_some, Node.mapPos_isKind]
        split
        · simp only [List.map_cons, List.map_nil, zipLevels_renum]
        · rfl
    · simp only [h3, Bool.false_eq_true, if_false]; rfl

end

/-! ## B703: the evaluators under renumbering (same fuel) -/

section

variable {ρ : Nat → Nat}

/-- `r'` on renumbered lines answers as `r` on the original ones -/
def Moved (ρ : Nat → Nat) (r r' : Str → Nat → X Bool) : Prop := ∀ i l, r' i (ρ l) = r i l

theorem evalItems_renum {r r' : Str → Nat → X Bool} (hr : Moved ρ r r') :
    ∀ its, evalItems r' (its.map (Item.renum ρ)) = evalItems r its := by
  intro its
  induction its with
  | nil => rfl
  | cons it rest ih =>
    match it with
    | .bad => rfl
    | .ref _ none => rfl
    | .ref i (some l) =>
      simp only [List.map_cons, Item.renum, Option.map_some, evalItems, hr i l, ih]

theorem evalMany_renum {r r' : Str → Nat → X Bool} (hr : Moved ρ r r') (line : Nat) :
    ∀ ts, evalMany r' (ρ line) (ts.map (Node.renum ρ)) = evalMany r line ts := by
  intro ts
  induction ts with
  | nil => rfl
  | cons t ts ih =>
    simp only [List.map_cons, evalMany, Node.renum_isStrConst, Node.renum_nameId?, hr _ line, ih]

theorem retill_renum (ρ : Nat → Nat) (ln : Nat) (its : List Item) :
    (its.map (Item.renum ρ)).map (retill (ρ ln)) = (its.map (retill ln)).map (Item.renum ρ) := by
  simp only [List.map_map]
  apply List.map_congr_left
  intro it _
  cases it <;> rfl

theorem isAssigned_renum (ρ : Nat → Nat) (var : Str) (n : Node) :
    isAssigned var (n.renum ρ) = (isAssigned var n).map (Asg.mapPos (Option.map (Pos.renum ρ))) :=
  isAssigned_mapPos _ var n

theorem scanBody_renum (h : StrictMonoNat ρ) {r r' : Str → Nat → X Bool} (hr : Moved ρ r r') (var : Str) (till : Nat) :
    ∀ body secure, scanBody r' var (ρ till) (body.map (Node.renum ρ)) secure = scanBody r var till body secure := by
  intro body
  induction body with
  | nil => intro _; rfl
  | cons node rest ih =>
    intro secure
    simp only [List.map_cons]
    unfold scanBody
    simp only [Node.renum_line?]
    cases hl : node.line? with
    | none => rfl
    | some ln =>
      simp only [Option.map_some, ge_iff_le, h.le_iff]
      split
      · rfl
      · rw [isAssigned_renum]
        cases isAssigned var node with
        | error c => rfl
        | ok to =>
          simp only [Except.map, liftX, bind, Except.bind]
          cases to with
          | no => exact ih _
          | one t =>
            simp only [Asg.mapPos]
            have ht : Node.mapPos (Option.map (Pos.renum ρ)) t = t.renum ρ := rfl
            simp only [ht, Node.renum_isStrConst, Node.renum_nameId?, Node.renum_isKind, info_renum, Info.renum, retill_renum,
              evalItems_renum hr, hr _ ln, ih]
          | many ts =>
            simp only [Asg.mapPos, List.isEmpty_map]
            have ht : ts.map (Node.mapPos (Option.map (Pos.renum ρ))) = ts.map (Node.renum ρ) := rfl
            simp only [ht, evalMany_renum hr, ih]

theorem params_renum (ρ : Nat → Nat) (fn : Node) : params (fn.renum ρ) = params fn := by
  unfold params
  rw [Node.renum_kid?]
  cases fn.kid? "args" with
  | none => rfl
  | some a =>
    simp only [Option.map_some, Option.getD_some, Node.renum_kidList, List.filterMap_map]
    congr 1
    funext x; simp

theorem evalVarStep_renum (h : StrictMonoNat ρ) {r r' : Str → Nat → X Bool} (hr : Moved ρ r r') (parent : Node) (var : Str) (till : Nat) :
    evalVarStep r' (parent.renum ρ) var (ρ till) = evalVarStep r parent var till := by
  unfold evalVarStep
  simp only [Node.renum_isKind, params_renum, Node.renum_kidList, scanBody_renum h hr]

theorem evalVar_renum (h : StrictMonoNat ρ) (parent : Node) : ∀ n, Moved ρ (evalVar n parent) (evalVar n (parent.renum ρ)) := by
  intro n
  induction n with
  | zero => intro i l; rfl
  | succ n ih => intro i l; exact evalVarStep_renum h ih parent i l


end

/-! ### fuel: one activation per statement of the scope is enough, whatever the line numbers -/

theorem evalItems_no_diverge_of {r : Str → Nat → X Bool} {P : Nat → Prop}
    (hr : ∀ i l, P l → r i l ≠ .error .diverge) :
    ∀ its, (∀ i l, Item.ref i (some l) ∈ its → P l) → evalItems r its ≠ .error .diverge := by
  intro its
  induction its with
  | nil => intro _ h; cases h
  | cons it rest ih =>
    intro hl
    match it with
    | .bad => intro h; cases h
    | .ref _ none => intro h; cases h
    | .ref i (some l) =>
      simp only [evalItems]
      have h1 := hr i l (hl i l (by simp))
      have hrest := ih (fun i' l' hm => hl i' l' (by simp [hm]))
      cases hx : r i l with
      | error e =>
        intro h
        have : e = .diverge := by simpa [bind, Except.bind] using h
        exact h1 (by rw [hx, this])
      | ok b =>
        cases b with
        | true => simpa [bind, Except.bind] using hrest
        | false => intro h; cases h

theorem evalMany_no_diverge_of {r : Str → Nat → X Bool} {line : Nat}
    (hr : ∀ i, r i line ≠ .error .diverge) :
    ∀ ts, evalMany r line ts ≠ .error .diverge := by
  intro ts
  induction ts with
  | nil => intro h; cases h
  | cons t ts ih =>
    simp only [evalMany]
    split
    · exact ih
    · split
      · rename_i i _
        have h1 := hr i
        cases hx : r i line with
        | error e =>
          intro h
          have : e = .diverge := by simpa [bind, Except.bind] using h
          exact h1 (by rw [hx, this])
        | ok b =>
          cases b with
          | true => simpa [bind, Except.bind] using ih
          | false => intro h; cases h
      · intro h; cases h

/-- `scanBody` only calls `rec` at the first lines `< till` of the statements it scans -/
theorem scanBody_no_diverge_of {r : Str → Nat → X Bool} {var : Str} {till : Nat} :
    ∀ body, (∀ i l, l < till → (∃ nd ∈ body, nd.line? = some l) → r i l ≠ .error .diverge) →
      ∀ secure, scanBody r var till body secure ≠ .error .diverge := by
  intro body
  induction body with
  | nil => intro _ _ h; cases h
  | cons node rest ih' =>
    intro hr secure
    have ih := ih' (fun i l hl hm => hr i l hl (by obtain ⟨nd, hnd, e⟩ := hm; exact ⟨nd, List.mem_cons_of_mem _ hnd, e⟩))
    unfold scanBody
    split
    · intro h; cases h
    · rename_i ln hln
      split
      · intro h; cases h
      · rename_i hge
        have hlt : ln < till := by omega
        have hrl : ∀ i, r i ln ≠ .error .diverge := fun i => hr i ln hlt ⟨node, List.mem_cons_self, hln⟩
        cases hto : isAssigned var node with
        | error c => intro h; cases h
        | ok to =>
          simp only [liftX, bind, Except.bind]
          cases to with
          | no => exact ih _
          | one t =>
            simp only
            split
            · exact ih _
            · split
              · rename_i i hi
                have h1 := hrl i
                cases hx : r i ln with
                | error e =>
                  intro h
                  have : e = .diverge := by simpa using h
                  exact h1 (by rw [hx, this])
                | ok b => simpa using ih b
              · split
                · have h1 := evalItems_no_diverge_of (P := fun l => l = ln) (fun i l hl => by subst hl; exact hrl i)
                    ((info t).asCall.map (retill ln)) (fun i l hm => retill_refs hm)
                  cases hx : evalItems r ((info t).asCall.map (retill ln)) with
                  | error e =>
                    intro h
                    have : e = .diverge := by simpa using h
                    exact h1 (by rw [hx, this])
                  | ok b => simpa using ih b
                · intro h; cases h
          | many ts =>
            simp only
            split
            · exact ih _
            · have h1 := evalMany_no_diverge_of hrl ts
              cases hx : evalMany r ln ts with
              | error e =>
                intro h
                have : e = .diverge := by simpa using h
                exact h1 (by rw [hx, this])
              | ok b =>
                cases b with
                | true => simpa using ih true
                | false => intro h; cases h

theorem filter_length_lt {α : Type} (p q : α → Bool) (hpq : ∀ x, p x = true → q x = true) :
    ∀ (L : List α), (∃ x ∈ L, q x = true ∧ p x = false) → (L.filter p).length < (L.filter q).length := by
  intro L
  induction L with
  | nil => rintro ⟨x, hx, _⟩; cases hx
  | cons a L ih =>
    rintro ⟨x, hx, hq, hp⟩
    have hle : (L.filter p).length ≤ (L.filter q).length := by
      clear ih hx
      induction L with
      | nil => exact Nat.le_refl _
      | cons b L ihL =>
        simp only [List.filter_cons]
        cases hb : p b
        · cases q b <;> simp <;> omega
        · simp [hpq b hb]; exact ihL
    simp only [List.filter_cons]
    rcases List.mem_cons.mp hx with rfl | hx'
    · simp [hq, hp]; omega
    · have := ih ⟨x, hx', hq, hp⟩
      cases ha : p a
      · cases q a <;> simp <;> omega
      · simp [hpq a ha]; exact this

/-- the statements of the scope that start before `till` -/
def before (body : List Node) (till : Nat) : List Node :=
  body.filter (fun nd => match nd.line? with | some l => decide (l < till) | none => false)

theorem before_lt {body : List Node} {nd : Node} {l till : Nat} (hm : nd ∈ body) (hl : nd.line? = some l) (hlt : l < till) :
    (before body l).length < (before body till).length := by
  unfold before
  apply filter_length_lt
  · intro x
    cases x.line? with
    | none => simp
    | some m => simp only [decide_eq_true_eq]; omega
  · exact ⟨nd, hm, by simp [hl, hlt], by simp [hl]⟩

theorem evalVar_terminates_before (parent : Node) :
    ∀ n var till, (before (parent.kidList "body") till).length < n → evalVar n parent var till ≠ .error .diverge := by
  intro n
  induction n with
  | zero => intro _ _ h; omega
  | succ n ih =>
    intro var till hn
    show evalVarStep (evalVar n parent) parent var till ≠ _
    unfold evalVarStep
    split
    · intro h; cases h
    · apply scanBody_no_diverge_of
      intro i l hl hm
      obtain ⟨nd, hnd, e⟩ := hm
      have := before_lt hnd e hl
      exact ih i l (by omega)

theorem evalVar_terminates_body (parent : Node) (n : Nat) (var : Str) (till : Nat)
    (hn : (parent.kidList "body").length < n) : evalVar n parent var till ≠ .error .diverge := by
  apply evalVar_terminates_before
  have : (before (parent.kidList "body") till).length ≤ (parent.kidList "body").length := List.length_filter_le _ _
  omega

/-- with more activations than statements in the scope, the amount of fuel does not matter -/
theorem evalVar_fuel_irrelevant (parent : Node) (n m : Nat) (hn : (parent.kidList "body").length < n)
    (hm : (parent.kidList "body").length < m) : evalVar n parent = evalVar m parent := by
  have key : ∀ a b, (parent.kidList "body").length < a → a ≤ b → evalVar b parent = evalVar a parent := by
    intro a b ha hab
    funext i l
    have := evalVar_add parent a (b - a) i l (evalVar_terminates_body parent a i l ha)
    rwa [show a + (b - a) = b by omega] at this
  rcases Nat.le_total n m with h | h
  · exact (key n m hn h).symm
  · exact key m n hm h


end Bandit.Plugins.DjangoXss

namespace Bandit

/-! ## The recursion budget exceeds the number of statements of the scope -/

theorem Node.size_pos (n : Node) : 0 < n.size := by cases n; simp [Node.size]

theorem length_le_sizeList (ns : List Node) : ns.length ≤ sizeList ns := by
  induction ns with
  | nil => exact Nat.le_refl _
  | cons n ns ih => simp only [List.length_cons, sizeList]; have := Node.size_pos n; omega

theorem sizeList_le_sizeSlots {ks : List (Str × Bool × List Node)} {s : Str × Bool × List Node} (h : s ∈ ks) :
    sizeList s.2.2 ≤ sizeSlots ks := by
  induction ks with
  | nil => cases h
  | cons a ks ih =>
    obtain ⟨f, b, ns⟩ := a
    simp only [sizeSlots]
    rcases List.mem_cons.mp h with rfl | h'
    · simp
    · have := ih h'; omega

theorem Node.kidList_length_lt_size (n : Node) (f : String) : (n.kidList f).length < n.size := by
  cases n with
  | mk k p a ks =>
    simp only [Node.kidList, Node.kids, Node.size]
    cases hf : ks.find? (·.1 == f.toList) with
    | none => simp
    | some s =>
      obtain ⟨a1, a2, ns⟩ := s
      have hm := List.mem_of_find?_eq_some hf
      have h1 := sizeList_le_sizeSlots hm
      have h2 := length_le_sizeList ns
      simp only at h1 ⊢
      omega
end Bandit

namespace Bandit.Plugins.DjangoXss
open Bandit Plugins

/-! ## B703: `check_risk` under renumbering -/

theorem enclosing_renum (ρ : Nat → Nat) (anc : List Node) : enclosing (anc.map (Node.renum ρ)) = (enclosing anc).map (Node.renum ρ) := by
  unfold enclosing
  rw [List.find?_map]
  have : ((fun a : Node => a.isKind "Module" || a.isKind "FunctionDef") ∘ Node.renum ρ) = (fun a : Node => a.isKind "Module" || a.isKind "FunctionDef") := by
    funext a; simp
  rw [this]

theorem modArgs_renum (ρ : Nat → Nat) (x : Node) : modArgs (x.renum ρ) = (modArgs x).map (List.map (Node.renum ρ)) := by
  unfold modArgs
  simp only [Node.renum_isKind, Node.renum_kid?, Option.map_map]
  have h1 : ((fun n : Node => n.isKind "Mod") ∘ Node.renum ρ) = (fun n : Node => n.isKind "Mod") := by funext n; simp
  have h2 : (Node.isStrConst ∘ Node.renum ρ) = Node.isStrConst := by funext n; simp
  rw [h1, h2]
  split
  · cases x.kid? "right" with
    | none => rfl
    | some r =>
      simp only [Option.map_some, Node.renum_isKind, Node.renum_kidList]
      split <;> rfl
  · rfl

variable {ρ : Nat → Nat}

theorem secureArg_renum (h : StrictMonoNat ρ) (n : Nat) (anc : List Node) (cl : Option Nat) (x : Node) :
    secureArg n (anc.map (Node.renum ρ)) (cl.map ρ) (x.renum ρ) = secureArg n anc cl x := by
  unfold secureArg
  simp only [enclosing_renum, Node.renum_nameId?, Node.renum_isKind, modArgs_renum, info_renum, Info.renum]
  cases x.nameId? with
  | some i =>
    simp only
    cases enclosing anc with
    | none => rfl
    | some p =>
      simp only [Option.map_some, Node.renum_isKind, params_renum]
      split
      · rfl
      · cases cl with
        | none => rfl
        | some l => exact evalVar_renum h p n i l
  | none =>
    simp only
    split
    · cases enclosing anc with
      | none => rfl
      | some p => exact evalItems_renum (evalVar_renum h p n) _
    · cases modArgs x with
      | none => rfl
      | some args =>
        simp only [Option.map_some]
        cases enclosing anc with
        | none => rfl
        | some p =>
          simp only [Option.map_some, Node.renum_line?, List.map_map]
          have : ((fun a => (info a).asArg) ∘ Node.renum ρ) = (fun a => ((info a).asArg).map (List.map (Pre.renum ρ))) := by
            funext a; simp only [Function.comp, info_renum, Info.renum]
          rw [this]
          have h2 : args.map (fun a => ((info a).asArg).map (List.map (Pre.renum ρ)))
              = (args.map (fun a => (info a).asArg)).map (List.map (List.map (Pre.renum ρ))) := by
            simp [List.map_map, Function.comp_def]
          rw [h2, itemsOfArgs_renum]
          exact evalItems_renum (evalVar_renum h p n) _

theorem secureArg_fuel (n m : Nat) (anc : List Node) (cl : Option Nat) (x : Node)
    (hn : ∀ p, enclosing anc = some p → (p.kidList "body").length < n)
    (hm : ∀ p, enclosing anc = some p → (p.kidList "body").length < m) :
    secureArg n anc cl x = secureArg m anc cl x := by
  unfold secureArg
  cases he : enclosing anc with
  | none => rfl
  | some p =>
    simp only [evalVar_fuel_irrelevant p n m (hn p he) (hm p he)]

theorem fuelFor_enough (anc : List Node) : ∀ p, enclosing anc = some p → (p.kidList "body").length < fuelFor anc := by
  intro p hp
  unfold fuelFor
  rw [hp]
  have := Node.kidList_length_lt_size p "body"
  simp only
  omega


theorem b703_renum (h : StrictMonoNat ρ) (T : InjTables) (e : Env) : b703 T (e.renum ρ) = b703 T e := by
  unfold b703 b703With
  have hst : (e.renum ρ).st = e.st := rfl
  have hanc : (e.renum ρ).v.anc = e.v.anc.map (Node.renum ρ) := rfl
  have hnode : (e.renum ρ).node = e.node.renum ρ := rfl
  simp only [hst, Env.name_renum, Env.call?_renum, hanc, hnode, Node.renum_line?]
  split
  · split
    · cases e.call? with
      | none => rfl
      | some c =>
        simp only [Option.map_some, CallView.mapPos]
        cases c.args with
        | nil => rfl
        | cons x rest =>
          simp only [List.map_cons, Node.isStrConst_mapPos]
          have hx : Node.mapPos (Option.map (Pos.renum ρ)) x = x.renum ρ := rfl
          have hs : secureArg (fuelFor (e.v.anc.map (Node.renum ρ))) (e.v.anc.map (Node.renum ρ)) (e.node.line?.map ρ) (x.renum ρ)
              = secureArg (fuelFor e.v.anc) e.v.anc e.node.line? x := by
            rw [secureArg_renum h]
            apply secureArg_fuel
            · intro p hp
              have h1 := fuelFor_enough (e.v.anc.map (Node.renum ρ)) (p.renum ρ) (by rw [enclosing_renum, hp]; rfl)
              simpa using h1
            · exact fuelFor_enough _
          rw [hx, hs]
    · rfl
  · rfl

theorem b703_posInvariant (T : InjTables) :
    PosInvariant (Check.pluginPos "B703" "django_mark_safe" ["Call".toList] (b703 T)) :=
  pluginPos_posInvariant (fun _ h e => b703_renum h T e)
end Bandit.Plugins.DjangoXss

namespace Bandit
open Plugins

/-! ## The injection family -/

theorem injectChecks_ok (T : InjTables) (pc : PluginCfg) : ∀ c ∈ injectChecksWith T pc, CheckOK c := by
  intro c hc
  simp only [injectChecksWith, List.mem_cons, List.mem_nil_iff, or_false] at hc
  rcases hc with rfl | rfl | rfl | rfl | rfl | rfl | rfl | rfl | rfl
  · exact pluginPos_ok (b608_rel T) (fun _ h e => b608_renum h T e)
  · exact plugin_ok (b610_rel _)
  · exact plugin_ok b611_rel
  · exact plugin_ok b701_rel
  · exact pluginPos_ok (b703_rel T) (fun _ h e => DjangoXss.b703_renum h T e)
  · exact plugin_ok (b704_rel _ _)
  · exact plugin_ok b506_rel
  · exact plugin_ok b614_rel
  · exact plugin_ok b202_rel

end Bandit
