import Bandit.RegistrySpec
/-!
# Generic lemmas about the registry lookups (for *arbitrary* tables)

What the decidable table facts of `Spec` (unique IDs, unique names, names are not IDs) imply for the
lookups bandit performs: `get_test_id`, `check_id`, the nosec resolver, `convert_names_to_ids`,
`_get_filter`.
-/
namespace Bandit
namespace Registry

theorem find?_snd_of_mem {l : List (Str × Str)} {i n : Str}
    (hn : (l.map (·.2)).Nodup) (h : (i, n) ∈ l) : l.find? (·.2 == n) = some (i, n) := by
  induction l with
  | nil => cases h
  | cons a l ih =>
    simp only [List.map_cons, List.nodup_cons] at hn
    rcases List.mem_cons.1 h with rfl | h
    · simp
    · have hne : a.2 ≠ n := fun e => hn.1 (e ▸ List.mem_map.2 ⟨(i, n), h, rfl⟩)
      simp [hne, ih hn.2 h]

theorem find?_fst_of_mem {l : List (Str × Str)} {i n : Str}
    (hn : (l.map (·.1)).Nodup) (h : (i, n) ∈ l) : l.find? (·.1 == i) = some (i, n) := by
  induction l with
  | nil => cases h
  | cons a l ih =>
    simp only [List.map_cons, List.nodup_cons] at hn
    rcases List.mem_cons.1 h with rfl | h
    · simp
    · have hne : a.1 ≠ i := fun e => hn.1 (e ▸ List.mem_map.2 ⟨(i, n), h, rfl⟩)
      simp [hne, ih hn.2 h]

theorem find?_snd_none {l : List (Str × Str)} {n : Str} (h : n ∉ l.map (·.2)) :
    l.find? (·.2 == n) = none := by
  rw [List.find?_eq_none]
  intro x hx hb
  exact h (List.mem_map.2 ⟨x, hx, by simpa using hb⟩)

theorem find?_fst_none {l : List (Str × Str)} {i : Str} (h : i ∉ l.map (·.1)) :
    l.find? (·.1 == i) = none := by
  rw [List.find?_eq_none]
  intro x hx hb
  exact h (List.mem_map.2 ⟨x, hx, by simpa using hb⟩)

theorem nodup_map_reverse {α β} {f : α → β} {l : List α} (h : (l.map f).Nodup) : (l.reverse.map f).Nodup := by
  rw [List.map_reverse]
  unfold List.Nodup at h ⊢
  rw [List.pairwise_reverse]
  exact h.imp fun hab => Ne.symm hab

/-- `check_id` is membership in the ID set -/
theorem checkId_iff (r : Registry) (t : Str) : r.checkId t = true ↔ t ∈ r.allIds := by
  simp only [checkId, allIds, Bool.or_eq_true, List.any_eq_true, beq_iff_eq, List.contains_iff_mem,
    List.mem_append, List.mem_map]

/-- **Unique names ⇒ `get_test_id` finds the entry's ID.** -/
theorem getTestId_of_mem {r : Registry} {i n : Str}
    (hn : (r.entries.map (·.2)).Nodup) (h : (i, n) ∈ r.entries) : r.getTestId n = some i := by
  unfold entries at hn h
  rw [List.map_append] at hn
  have hp := (List.nodup_append.1 hn).1
  have hb := (List.nodup_append.1 hn).2.1
  have hdisj := (List.nodup_append.1 hn).2.2
  rcases List.mem_append.1 h with h | h
  · simp [getTestId, find?_snd_of_mem hp h]
  · have hnot : n ∉ r.plugins.map (·.2) := fun hm =>
      hdisj n hm n (List.mem_map.2 ⟨(i, n), h, rfl⟩) rfl
    have h2 := find?_snd_of_mem (nodup_map_reverse hb) (List.mem_reverse.2 h)
    simp [getTestId, find?_snd_none hnot, h2]

/-- **Unique IDs ⇒ the by-ID dictionaries show the entry's name.** -/
theorem nameOf_of_mem {r : Registry} {i n : Str}
    (hi : (r.entries.map (·.1)).Nodup) (h : (i, n) ∈ r.entries) : r.nameOf i = some n := by
  unfold entries at hi h
  rw [List.map_append] at hi
  have hp := (List.nodup_append.1 hi).1
  have hb := (List.nodup_append.1 hi).2.1
  have hdisj := (List.nodup_append.1 hi).2.2
  rcases List.mem_append.1 h with h | h
  · have h2 := find?_fst_of_mem (nodup_map_reverse hp) (List.mem_reverse.2 h)
    simp [nameOf, h2]
  · have hnot : i ∉ r.plugins.reverse.map (·.1) := fun hm => by
      rw [List.map_reverse, List.mem_reverse] at hm
      exact hdisj i hm i (List.mem_map.2 ⟨(i, n), h, rfl⟩) rfl
    have h2 := find?_fst_of_mem (nodup_map_reverse hb) (List.mem_reverse.2 h)
    simp [nameOf, find?_fst_none hnot, h2]

theorem entry_id_mem_allIds {r : Registry} {i n : Str} (h : (i, n) ∈ r.entries) : i ∈ r.allIds := by
  unfold entries at h
  simp only [allIds, List.mem_append, List.mem_map]
  rcases List.mem_append.1 h with h | h
  · exact Or.inl (Or.inl ⟨_, h, rfl⟩)
  · exact Or.inl (Or.inr ⟨_, h, rfl⟩)

/-- an ID resolves to itself -/
theorem resolve_id {r : Registry} {i : Str} (h : i ∈ r.allIds) : r.resolve i = some i := by
  simp [resolve, (checkId_iff r i).2 h]

/-- a name that is nobody's ID resolves to its entry's ID (given unique names) -/
theorem resolve_name {r : Registry} {i n : Str}
    (hn : (r.entries.map (·.2)).Nodup) (hd : n ∉ r.allIds) (h : (i, n) ∈ r.entries) :
    r.resolve n = some i := by
  have : r.checkId n = false := by
    cases hc : r.checkId n with
    | false => rfl
    | true => exact absurd ((checkId_iff r n).1 hc) hd
  simp [resolve, this, getTestId_of_mem hn h]

/-- **Unique names + names are not IDs ⇒ naming by ID or by name is interchangeable** wherever
bandit resolves through `_find_test_id_from_nosec_string` -/
theorem interchangeable_of_unique {r : Registry}
    (hn : (r.entries.map (·.2)).Nodup) (hd : ∀ e ∈ r.entries, e.2 ∉ r.allIds) :
    Spec.Interchangeable r := by
  intro e he
  exact ⟨resolve_name hn (hd e he) he, resolve_id (entry_id_mem_allIds (n := e.2) he)⟩

/-- **Unique IDs + unique names ⇒ the three lookups form a bijection.** -/
theorem bijection_of_unique {r : Registry}
    (hi : (r.entries.map (·.1)).Nodup) (hn : (r.entries.map (·.2)).Nodup) : Spec.Bijection r := by
  intro e he
  exact ⟨getTestId_of_mem hn he, (checkId_iff r e.1).2 (entry_id_mem_allIds (n := e.2) he), nameOf_of_mem hi he⟩

/-- **Unique IDs ⇒ name resolution is injective**: two registered names that resolve to the same ID
are the same name (no two checks can be confused by naming them). -/
theorem resolve_name_injective {r : Registry}
    (hi : (r.entries.map (·.1)).Nodup) (hn : (r.entries.map (·.2)).Nodup)
    (hd : ∀ e ∈ r.entries, e.2 ∉ r.allIds)
    {e₁ e₂ : Str × Str} (h₁ : e₁ ∈ r.entries) (h₂ : e₂ ∈ r.entries)
    (h : r.resolve e₁.2 = r.resolve e₂.2) : e₁ = e₂ := by
  rw [resolve_name hn (hd _ h₁) h₁, resolve_name hn (hd _ h₂) h₂] at h
  have hid : e₁.1 = e₂.1 := Option.some.inj h
  have n₁ := nameOf_of_mem hi (i := e₁.1) (n := e₁.2) h₁
  have n₂ := nameOf_of_mem hi (i := e₂.1) (n := e₂.2) h₂
  rw [hid, n₂] at n₁
  exact Prod.ext hid (Option.some.inj n₁).symm

/-- legacy profiles: a registered name is converted to its ID -/
theorem convertNames_name {r : Registry} {i n : Str}
    (hn : (r.entries.map (·.2)).Nodup) (h : (i, n) ∈ r.entries) (hne : i ≠ []) :
    r.convertNames [n] = [i] := by
  have : i.isEmpty = false := by cases i with | nil => exact absurd rfl hne | cons _ _ => rfl
  simp [convertNames, getTestId_of_mem hn h, hne]

/-- legacy profiles: an ID that is nobody's name is left alone -/
theorem convertNames_id {r : Registry} {i : Str} (h : i ∉ r.entries.map (·.2)) :
    r.convertNames [i] = [i] := by
  have hp : i ∉ r.plugins.map (·.2) := fun hm => h (by
    unfold entries; rw [List.map_append]; exact List.mem_append_left _ hm)
  have hb : i ∉ r.blacklist.reverse.map (·.2) := fun hm => h (by
    unfold entries; rw [List.map_append]
    rw [List.map_reverse, List.mem_reverse] at hm
    exact List.mem_append_right _ hm)
  simp [convertNames, getTestId, find?_snd_none hp, find?_snd_none hb]

/-- **`-t <name>` on the unchanged code selects no registered check at all**: whatever is not an ID
passes through `_get_filter` untouched and then matches no plugin and no blacklist row. -/
theorem getFilter_unknown_selects_nothing (r : Registry) {n : Str} (exc : List Str)
    (hn : n ∉ r.allIds) (hb : n ≠ b001) : ∀ x ∈ r.getFilter [n] exc, x ∉ r.allIds := by
  intro x hx
  have hc : ([n] : List Str).contains b001 = false := by
    simp [Ne.symm hb]
  have he : r.expandB001 [n] = [n] := by simp only [expandB001, hc, Bool.false_eq_true, if_false]
  simp only [getFilter, he, List.isEmpty_cons, Bool.false_eq_true, if_false, List.mem_filter,
    List.mem_singleton] at hx
  rw [hx.1]; exact hn

/-- **`-s <name>` on the unchanged code skips nothing**: the run is the one without `-s`. -/
theorem getFilter_skip_unknown (r : Registry) {n : Str}
    (hn : n ∉ r.allIds) (hb : n ≠ b001) : r.getFilter [] [n] = r.getFilter [] [] := by
  have hc : ([n] : List Str).contains b001 = false := by
    simp [Ne.symm hb]
  have he : r.expandB001 [n] = [n] := by simp only [expandB001, hc, Bool.false_eq_true, if_false]
  have he0 : r.expandB001 [] = [] := by simp [expandB001]
  simp only [getFilter, he, he0, List.isEmpty_nil, if_true]
  apply List.filter_congr
  intro x hx
  have hx' : x ∈ r.allIds := by
    simp only [allIds, List.mem_append] at hx ⊢
    rcases hx with (h | h) | h
    · exact Or.inl (Or.inl h)
    · exact Or.inr h
    · exact Or.inl (Or.inr h)
  have : x ≠ n := fun e => hn (e ▸ hx')
  simp [this]

/-- with the proposed fix, `-t`/`-s` tokens are resolved like profile entries, so a registered
name and its ID select the same tests -/
theorem getFilterFixed_name_eq_id {r : Registry} {i n : Str}
    (hn : (r.entries.map (·.2)).Nodup) (h : (i, n) ∈ r.entries) (hne : i ≠ [])
    (hid : i ∉ r.entries.map (·.2)) :
    r.getFilterFixed [n] [] = r.getFilterFixed [i] [] ∧ r.getFilterFixed [] [n] = r.getFilterFixed [] [i] := by
  have h1 : r.convertNames [] = [] := rfl
  simp only [getFilterFixed, convertNames_name hn h hne, convertNames_id hid, h1, and_self]

end Registry

/-! ### From the table-level clauses to the registry-level hypotheses -/
namespace RegTables

theorem names_eq (t : RegTables) : t.registry.entries.map (·.2) = t.names := by
  simp [RegTables.registry, RegTables.names, Registry.entries, List.map_append, List.map_map, Function.comp_def]

theorem entries_ids_nodup (t : RegTables) (h : Spec.IdsUnique t) : (t.registry.entries.map (·.1)).Nodup := by
  have : t.allIds = t.registry.entries.map (·.1) ++ t.registry.builtin := by
    simp [RegTables.allIds, Registry.allIds, Registry.entries, List.map_append]
  unfold Spec.IdsUnique at h
  rw [this] at h
  exact (List.nodup_append.1 h).1

theorem names_not_ids (t : RegTables) (h : Spec.NamesAreNotIds t) : ∀ e ∈ t.registry.entries, e.2 ∉ t.registry.allIds := by
  intro e he
  have : e.2 ∈ t.names := by rw [← names_eq]; exact List.mem_map.2 ⟨e, he, rfl⟩
  exact (h e.2 this).1

end RegTables
end Bandit
