import Bandit.Proofs.Renum
import Bandit.Proofs.C01
/-!
# Every modelled AST check locates its finding relative to the visited node

(`LocSel.ctx`, `.node` or `.kw`; only the file-level B613 reports at an absolute line), and every check
except B608 / B703 decides position-blind (those two are shown position-invariant in
`Bandit.Proofs.PosInv`).  Together: `CheckCovered` for the real check list
(`Props.C10.all_checks_covered`), the hypothesis of `Props.C10.equivariant`.
-/
set_option linter.unusedSimpArgs false
namespace Bandit
open Plugins

def NoAbsF (f : Env → M (Option PRaw)) : Prop := ∀ env p, f env = .ok (some p) → ∀ a b, p.loc ≠ .abs a b

macro "noabs" : tactic => `(tactic| (
  intro env p h a b hl
  simp only [bind, Except.bind, pure, Except.pure, throw, throwThe, MonadExceptOf.throw] at h
  repeat' split at h
  all_goals first | (cases h; cases hl) | (cases h) | skip))

theorem b101_rel (cfg : CfgVal) (fn : Str) : NoAbsF (b101 cfg fn) := by unfold NoAbsF b101; noabs
theorem b102_rel : NoAbsF b102 := by unfold NoAbsF b102; noabs
theorem b103_rel : NoAbsF b103 := by unfold NoAbsF b103; noabs
theorem b104_rel : NoAbsF b104 := by unfold NoAbsF b104; noabs
theorem b105_rel : NoAbsF b105 := by unfold NoAbsF b105; noabs
theorem b106_go_rel : ∀ (l : List Node) (p : PRaw), b106.go l = .ok (some p) → ∀ a b, p.loc ≠ .abs a b := by
  intro l
  induction l with
  | nil => intro p h; cases h
  | cons kw rest ih =>
    intro p h a b hl
    unfold b106.go at h
    simp only [pure, Except.pure] at h
    repeat' split at h
    all_goals first | exact ih p h a b hl | (cases h; cases hl)
theorem b106_rel : NoAbsF b106 := by
  unfold NoAbsF b106
  intro env p h a b hl
  simp only [bind, Except.bind, pure, Except.pure, throw, throwThe, MonadExceptOf.throw] at h
  split at h
  · exact b106_go_rel _ p h a b hl
  · cases h
theorem b107_go_rel : ∀ (l : List (Node × Option Node)) (p : PRaw), b107.go l = .ok (some p) → ∀ a b, p.loc ≠ .abs a b := by
  intro l
  induction l with
  | nil => intro p h; cases h
  | cons kv rest ih =>
    intro p h a b hl
    obtain ⟨key, val⟩ := kv
    unfold b107.go at h
    simp only [pure, Except.pure] at h
    repeat' split at h
    all_goals first | exact ih p h a b hl | (cases h; cases hl)
theorem b107_rel : NoAbsF b107 := by
  unfold NoAbsF b107
  intro env p h a b hl
  simp only [bind, Except.bind, pure, Except.pure, throw, throwThe, MonadExceptOf.throw] at h
  split at h
  · exact b107_go_rel _ p h a b hl
  · cases h
theorem b108_rel (cfg : CfgVal) : NoAbsF (b108 cfg) := by unfold NoAbsF b108; noabs
theorem b110_rel (cfg : CfgVal) : NoAbsF (b110 cfg) := by unfold NoAbsF b110 exceptHandler; noabs
theorem b112_rel (cfg : CfgVal) : NoAbsF (b112 cfg) := by unfold NoAbsF b112 exceptHandler; noabs
theorem b201_rel : NoAbsF b201 := by unfold NoAbsF b201; noabs
theorem b601_rel : NoAbsF b601 := by unfold NoAbsF b601; noabs
theorem b612_rel : NoAbsF b612 := by unfold NoAbsF b612; noabs
theorem b702_rel : NoAbsF b702 := by unfold NoAbsF b702; noabs

theorem b602_rel (cfg : ShellCfg) : NoAbsF (b602 cfg) := by unfold NoAbsF b602; noabs
theorem b603_rel (cfg : ShellCfg) : NoAbsF (b603 cfg) := by unfold NoAbsF b603; noabs
theorem b604_rel (cfg : ShellCfg) : NoAbsF (b604 cfg) := by unfold NoAbsF b604; noabs
theorem b605_rel (cfg : ShellCfg) : NoAbsF (b605 cfg) := by unfold NoAbsF b605; noabs
theorem b606_rel (cfg : ShellCfg) : NoAbsF (b606 cfg) := by unfold NoAbsF b606; noabs
theorem b607_rel (cfg : ShellCfg) : NoAbsF (b607 cfg) := by unfold NoAbsF b607; noabs
theorem b609_rel (cfg : ShellCfg) : NoAbsF (b609 cfg) := by unfold NoAbsF b609; noabs

theorem b113_rel (T : CryptoTables) : NoAbsF (b113 T) := by unfold NoAbsF b113; noabs
theorem b501_rel (T : CryptoTables) : NoAbsF (b501 T) := by unfold NoAbsF b501; noabs
theorem b502_rel (cfg : CfgVal) : NoAbsF (b502 cfg) := by unfold NoAbsF b502; noabs
theorem b504_rel : NoAbsF b504 := by unfold NoAbsF b504; noabs
theorem b507_rel : NoAbsF b507 := by unfold NoAbsF b507; noabs
theorem b508_rel : NoAbsF b508 := by unfold NoAbsF b508; noabs
theorem b509_rel : NoAbsF b509 := by unfold NoAbsF b509; noabs

/-! ### crypto family: B324, B503, B505 -/

theorem b324Hashlib_rel (T : CryptoTables) (c : CallView) (func : Str) :
    ∀ p, b324Hashlib T c func = .ok (some p) → ∀ a b, p.loc ≠ .abs a b := by
  intro p h a b hl
  unfold b324Hashlib at h
  simp only [bind, Except.bind, pure, Except.pure, throw, throwThe, MonadExceptOf.throw] at h
  repeat' split at h
  all_goals first | (cases h; cases hl) | (cases h) | skip
theorem b324Crypt_rel (T : CryptoTables) (c : CallView) (func : Str) :
    ∀ p, b324Crypt T c func = .ok (some p) → ∀ a b, p.loc ≠ .abs a b := by
  intro p h a b hl
  unfold b324Crypt at h
  simp only [bind, Except.bind, pure, Except.pure, throw, throwThe, MonadExceptOf.throw] at h
  repeat' split at h
  all_goals first | (cases h; cases hl) | (cases h) | skip
theorem b324_rel (T : CryptoTables) : NoAbsF (b324 T) := by
  unfold NoAbsF b324
  intro env p h a b hl
  simp only [bind, Except.bind, pure, Except.pure, throw, throwThe, MonadExceptOf.throw] at h
  repeat' split at h
  all_goals first | exact b324Hashlib_rel _ _ _ p h a b hl | exact b324Crypt_rel _ _ _ p h a b hl | (cases h; cases hl) | (cases h) | skip


theorem b503_go_rel (e : Env) (bad : CfgVal) : ∀ (l : List Node) (p : PRaw), b503.go e bad l = .ok (some p) → ∀ a b, p.loc ≠ .abs a b := by
  intro l
  induction l with
  | nil => intro p h; cases h
  | cons d rest ih =>
    intro p h a b hl
    unfold b503.go at h
    simp only [bind, Except.bind, pure, Except.pure, throw, throwThe, MonadExceptOf.throw] at h
    repeat' split at h
    all_goals first | exact ih p h a b hl | (cases h; cases hl) | cases h
theorem b503_rel (cfg : CfgVal) : NoAbsF (b503 cfg) := by
  unfold NoAbsF b503
  intro env p h a b hl
  simp only [bind, Except.bind, pure, Except.pure, throw, throwThe, MonadExceptOf.throw] at h
  repeat' split at h
  all_goals first | exact b503_go_rel _ _ _ p h a b hl | cases h

theorem classifyKeySize_rel (cfg : CfgVal) (kt : Str) (ks : PyVal) :
    ∀ p, classifyKeySize cfg kt ks = .ok (some p) → ∀ a b, p.loc ≠ .abs a b := by
  intro p h a b hl
  unfold classifyKeySize at h
  simp only [bind, Except.bind, pure, Except.pure, throw, throwThe, MonadExceptOf.throw] at h
  repeat' split at h
  all_goals first | (cases h; cases hl) | (cases h) | skip
theorem b505Cio_rel (T : CryptoTables) (cfg : CfgVal) (e : Env) (c : CallView) :
    ∀ p, b505Cio T cfg e c = .ok (some p) → ∀ a b, p.loc ≠ .abs a b := by
  intro p h a b hl
  unfold b505Cio at h
  simp only [bind, Except.bind, pure, Except.pure, throw, throwThe, MonadExceptOf.throw] at h
  repeat' split at h
  all_goals first | exact classifyKeySize_rel _ _ _ p h a b hl | (cases h; cases hl) | (cases h) | skip
theorem b505Pyc_rel (T : CryptoTables) (cfg : CfgVal) (e : Env) (c : CallView) :
    ∀ p, b505Pyc T cfg e c = .ok (some p) → ∀ a b, p.loc ≠ .abs a b := by
  intro p h a b hl
  unfold b505Pyc at h
  simp only [bind, Except.bind, pure, Except.pure, throw, throwThe, MonadExceptOf.throw] at h
  repeat' split at h
  all_goals first | exact classifyKeySize_rel _ _ _ p h a b hl | (cases h; cases hl) | (cases h) | skip
theorem b505_rel (T : CryptoTables) (cfg : CfgVal) : NoAbsF (b505 T cfg) := by
  unfold NoAbsF b505
  intro env p h a b hl
  simp only [bind, Except.bind, pure, Except.pure, throw, throwThe, MonadExceptOf.throw] at h
  repeat' split at h
  all_goals first | exact b505Pyc_rel _ _ _ _ p h a b hl | (cases h; rename_i h'; exact b505Cio_rel _ _ _ _ _ h' a b hl) | (cases h) | skip

/-! ### injection family -/

theorem b608_rel (T : InjTables) : NoAbsF (b608 T) := by unfold NoAbsF b608; noabs
theorem b610_rel (T : InjTables) : NoAbsF (b610 T) := by unfold NoAbsF b610; noabs
theorem b611_rel : NoAbsF b611 := by unfold NoAbsF b611; noabs
theorem b701_rel : NoAbsF b701 := by unfold NoAbsF b701; noabs
theorem b703_rel (T : InjTables) : NoAbsF (DjangoXss.b703 T) := by unfold NoAbsF DjangoXss.b703 DjangoXss.b703With; noabs
theorem b704_rel (T : InjTables) (cfg : CfgVal) : NoAbsF (b704 T cfg) := by unfold NoAbsF b704; noabs
theorem b506_rel : NoAbsF b506 := by unfold NoAbsF b506; noabs
theorem b614_rel : NoAbsF b614 := by unfold NoAbsF b614; noabs
theorem b202_rel : NoAbsF b202 := by unfold NoAbsF b202; noabs

/-! ## From decision functions to checks -/

theorem plugin_ok {id name : String} {kinds : List Str} {f : Env → M (Option PRaw)} (hf : NoAbsF f) :
    CheckOK (Check.plugin id name kinds f) := by
  refine ⟨Or.inl rfl, ?_⟩
  intro env p h a b hl
  simp only [Check.plugin] at h
  cases hr : f env with
  | error e => rw [hr] at h; cases h
  | ok o =>
    rw [hr] at h
    cases o with
    | none => cases h
    | some q =>
      have hq := hf env q hr a b
      cases h
      exact hq hl

theorem blacklistRun_rel (t : BlTables) : NoAbsF (blacklistRun t) := by unfold NoAbsF blacklistRun; noabs

theorem blacklistCheck_ok {t : BlTables} {bc : Check} (h : blacklistCheck t = some bc) : CheckOK bc := by
  obtain ⟨hrun, _, _⟩ := blacklistCheck_run h
  refine ⟨Or.inl (blacklistCheck_usesPos h), ?_⟩
  intro env p hp
  rw [hrun] at hp
  exact blacklistRun_rel t env p hp

theorem miscChecks_ok (pc : PluginCfg) (fn : Str) : ∀ c ∈ miscChecks pc fn, CheckOK c := by
  intro c hc
  simp only [miscChecks, List.mem_cons, List.mem_nil_iff, or_false] at hc
  rcases hc with rfl | rfl | rfl | rfl | rfl | rfl | rfl | rfl | rfl | rfl | rfl | rfl | rfl | rfl
  · exact plugin_ok (b101_rel _ _)
  · exact plugin_ok b102_rel
  · exact plugin_ok b103_rel
  · exact plugin_ok b104_rel
  · exact plugin_ok b105_rel
  · exact plugin_ok b106_rel
  · exact plugin_ok b107_rel
  · exact plugin_ok (b108_rel _)
  · exact plugin_ok (b110_rel _)
  · exact plugin_ok (b112_rel _)
  · exact plugin_ok b201_rel
  · exact plugin_ok b601_rel
  · exact plugin_ok b612_rel
  · exact plugin_ok b702_rel

theorem shellChecks_ok (cfg : ShellCfg) : ∀ c ∈ shellChecks cfg, CheckOK c := by
  intro c hc
  simp only [shellChecks, List.mem_cons, List.mem_nil_iff, or_false] at hc
  rcases hc with rfl | rfl | rfl | rfl | rfl | rfl | rfl
  · exact plugin_ok (b602_rel _)
  · exact plugin_ok (b603_rel _)
  · exact plugin_ok (b604_rel _)
  · exact plugin_ok (b605_rel _)
  · exact plugin_ok (b606_rel _)
  · exact plugin_ok (b607_rel _)
  · exact plugin_ok (b609_rel _)

theorem cryptoChecks_ok (T : CryptoTables) (pc : PluginCfg) : ∀ c ∈ cryptoChecks T pc, CheckOK c := by
  intro c hc
  simp only [cryptoChecks, List.mem_cons, List.mem_nil_iff, or_false] at hc
  rcases hc with rfl | rfl | rfl | rfl | rfl | rfl | rfl | rfl | rfl | rfl
  · exact plugin_ok (b113_rel _)
  · exact plugin_ok (b324_rel _)
  · exact plugin_ok (b501_rel _)
  · exact plugin_ok (b502_rel _)
  · exact plugin_ok (b503_rel _)
  · exact plugin_ok b504_rel
  · exact plugin_ok (b505_rel _ _)
  · exact plugin_ok b507_rel
  · exact plugin_ok b508_rel
  · exact plugin_ok b509_rel

end Bandit
