import Bandit.Checks
import Bandit.Proofs.Erase
import Bandit.Proofs.Loc
import Bandit.Proofs.Nosec
/-!
# Renumbering of lines (C10, equivariance)

`Node.renum ρ` replaces every line number `l` of a tree by `ρ l`.  For a strictly monotone `ρ`
(inserting blank / comment lines is the instance `l ↦ if l < L then l else l + k`) the traversal,
the contexts, the nosec look-ups and the tester commute with it.
-/
namespace Bandit

/-! ## Generic position maps -/

def Node.mapPos (g : Option Pos → Option Pos) : Node → Node
  | .mk k p a ks => .mk k (g p) a (mapSlots ks)
where
  mapSlots : List (Str × Bool × List Node) → List (Str × Bool × List Node)
    | [] => []
    | (f, l, ns) :: rest => (f, l, mapList ns) :: mapSlots rest
  mapList : List Node → List Node
    | [] => []
    | n :: ns => Node.mapPos g n :: mapList ns

variable (g : Option Pos → Option Pos)

theorem mapList_eq_map (ns : List Node) : Node.mapPos.mapList g ns = ns.map (Node.mapPos g) := by
  induction ns with
  | nil => rfl
  | cons n ns ih => simp [Node.mapPos.mapList, ih]

theorem mapSlots_eq_map (ks : List (Str × Bool × List Node)) :
    Node.mapPos.mapSlots g ks = ks.map (fun s => (s.1, s.2.1, s.2.2.map (Node.mapPos g))) := by
  induction ks with
  | nil => rfl
  | cons s ks ih =>
    obtain ⟨f, l, ns⟩ := s
    simp [Node.mapPos.mapSlots, ih, mapList_eq_map]

@[simp] theorem Node.mapPos_kind (n : Node) : (n.mapPos g).kind = n.kind := by cases n; rfl
@[simp] theorem Node.mapPos_attrs (n : Node) : (n.mapPos g).attrs = n.attrs := by cases n; rfl
@[simp] theorem Node.mapPos_pos (n : Node) : (n.mapPos g).pos = g n.pos := by cases n; rfl
@[simp] theorem Node.mapPos_isKind (n : Node) (k : String) : (n.mapPos g).isKind k = n.isKind k := by
  simp [Node.isKind]
@[simp] theorem Node.mapPos_isAtomNode (n : Node) : (n.mapPos g).isAtomNode = n.isAtomNode := by
  simp [Node.isAtomNode]

theorem Node.mapPos_kids (n : Node) :
    (n.mapPos g).kids = n.kids.map (fun s => (s.1, s.2.1, s.2.2.map (Node.mapPos g))) := by
  cases n; simp [Node.mapPos, Node.kids, mapSlots_eq_map]

theorem find?_slot_mapPos (ks : List (Str × Bool × List Node)) (f : Str) :
    (ks.map (fun s => (s.1, s.2.1, s.2.2.map (Node.mapPos g)))).find? (·.1 == f)
      = (ks.find? (·.1 == f)).map (fun s => (s.1, s.2.1, s.2.2.map (Node.mapPos g))) := by
  induction ks with
  | nil => rfl
  | cons s ks ih =>
    simp only [List.map_cons, List.find?_cons]
    cases (s.1 == f) <;> simp [ih]

@[simp] theorem Node.kidList_mapPos (n : Node) (f : String) :
    (n.mapPos g).kidList f = (n.kidList f).map (Node.mapPos g) := by
  simp only [Node.kidList, Node.mapPos_kids, find?_slot_mapPos]
  cases n.kids.find? (·.1 == f.toList) with
  | none => rfl
  | some s => obtain ⟨a, b, c⟩ := s; rfl

@[simp] theorem Node.kid?_mapPos (n : Node) (f : String) :
    (n.mapPos g).kid? f = (n.kid? f).map (Node.mapPos g) := by
  simp only [Node.kid?, Node.mapPos_kids, find?_slot_mapPos]
  cases n.kids.find? (·.1 == f.toList) with
  | none => rfl
  | some s => obtain ⟨a, b, c⟩ := s; cases c <;> rfl

@[simp] theorem Node.attr_mapPos (n : Node) (f : String) : (n.mapPos g).attr f = n.attr f := by
  simp [Node.attr]
@[simp] theorem Node.strAttr_mapPos (n : Node) (f : String) : (n.mapPos g).strAttr f = n.strAttr f := by
  simp [Node.strAttr]

/-- erasing positions forgets any position map -/
theorem Node.erase_mapPos : ∀ n : Node, (n.mapPos g).erase = n.erase := by
  intro n
  refine Node.rec
    (motive_1 := fun n => (n.mapPos g).erase = n.erase)
    (motive_2 := fun ks => Node.erase.eraseSlots (Node.mapPos.mapSlots g ks) = Node.erase.eraseSlots ks)
    (motive_3 := fun s => Node.erase.eraseList (Node.mapPos.mapList g s.2.2) = Node.erase.eraseList s.2.2)
    (motive_4 := fun s => Node.erase.eraseList (Node.mapPos.mapList g s.2) = Node.erase.eraseList s.2)
    (motive_5 := fun ns => Node.erase.eraseList (Node.mapPos.mapList g ns) = Node.erase.eraseList ns)
    ?_ ?_ ?_ ?_ ?_ ?_ ?_ n
  · intro k p a ks ih
    simp only [Node.mapPos, Node.erase, ih]
  · rfl
  · intro head tail ih1 ih2
    obtain ⟨f, l, ns⟩ := head
    simp only [Node.mapPos.mapSlots, Node.erase.eraseSlots]
    rw [ih1, ih2]
  · intro f snd ih; exact ih
  · intro l ns ih; exact ih
  · rfl
  · intro head tail ih1 ih2
    simp only [Node.mapPos.mapList, Node.erase.eraseList, ih1, ih2]

def Visit.mapPos (v : Visit) : Visit := ⟨v.anc.map (Node.mapPos g), v.node.mapPos g, v.sib.map (Node.mapPos g)⟩

theorem Visit.erase_mapPos (v : Visit) : (v.mapPos g).erase = v.erase := by
  cases v with
  | mk anc node sib =>
    simp only [Visit.mapPos, Visit.erase, Node.erase_mapPos, List.map_map, Option.map_map, Visit.mk.injEq, true_and]
    constructor
    · apply List.map_congr_left; intro n _; exact Node.erase_mapPos g n
    · cases sib <;> simp [Node.erase_mapPos]

/-- the traversal commutes with any position map -/
theorem visitsBelow_mapPos : ∀ (n : Node) (anc : List Node),
    visitsBelow (anc.map (Node.mapPos g)) (n.mapPos g) = (visitsBelow anc n).map (Visit.mapPos g) := by
  intro n
  refine Node.rec
    (motive_1 := fun n => ∀ anc, visitsBelow (anc.map (Node.mapPos g)) (n.mapPos g) = (visitsBelow anc n).map (Visit.mapPos g))
    (motive_2 := fun ks => ∀ anc, visitsSlots (anc.map (Node.mapPos g)) (Node.mapPos.mapSlots g ks) = (visitsSlots anc ks).map (Visit.mapPos g))
    (motive_3 := fun s => ∀ anc l, visitsList (anc.map (Node.mapPos g)) l (Node.mapPos.mapList g s.2.2) = (visitsList anc l s.2.2).map (Visit.mapPos g))
    (motive_4 := fun s => ∀ anc l, visitsList (anc.map (Node.mapPos g)) l (Node.mapPos.mapList g s.2) = (visitsList anc l s.2).map (Visit.mapPos g))
    (motive_5 := fun ns => ∀ anc l, visitsList (anc.map (Node.mapPos g)) l (Node.mapPos.mapList g ns) = (visitsList anc l ns).map (Visit.mapPos g))
    ?_ ?_ ?_ ?_ ?_ ?_ ?_ n
  · intro k p a ks ih anc
    simp only [Node.mapPos, visitsBelow]
    have := ih (Node.mk k p a ks :: anc)
    simpa [Node.mapPos] using this
  · intro anc; rfl
  · intro head tail ih1 ih2 anc
    obtain ⟨f, l, ns⟩ := head
    simp only [Node.mapPos.mapSlots, visitsSlots, List.map_append]
    rw [ih1 anc l, ih2 anc]
  · intro f snd ih; exact ih
  · intro l ns ih; exact ih
  · intro anc l; rfl
  · intro head tail ih1 ih2 anc l
    simp only [Node.mapPos.mapList, visitsList, List.map_append, Node.mapPos_isAtomNode]
    rw [ih2 anc l]
    congr 1
    by_cases ha : head.isAtomNode = true
    · simp [ha]
    · simp only [ha, Bool.false_eq_true, if_false, List.map_cons]
      rw [ih1 anc]
      congr 1
      simp only [Visit.mapPos, Visit.mk.injEq, true_and]
      cases l
      · simp
      · simp only [if_true]
        rw [mapList_eq_map]
        cases tail <;> simp

theorem visits_mapPos (root : Node) : visits (root.mapPos g) = (visits root).map (Visit.mapPos g) := by
  simpa [visits] using visitsBelow_mapPos g root []

/-- the visitor state only reads names: it ignores positions -/
theorem VState.update_erase (s : VState) (n : Node) : s.update n.erase = s.update n := by
  simp [VState.update]

theorem VState.update_mapPos (s : VState) (n : Node) : s.update (n.mapPos g) = s.update n := by
  rw [← VState.update_erase, Node.erase_mapPos, VState.update_erase]

theorem stateAfter_mapPos (s : VState) (vs : List Visit) :
    stateAfter s (vs.map (Visit.mapPos g)) = stateAfter s vs := by
  induction vs generalizing s with
  | nil => rfl
  | cons v vs ih => simp [stateAfter, Visit.mapPos, VState.update_mapPos, ih]

end Bandit

namespace Bandit

/-! ## Strictly monotone renumberings -/

def StrictMonoNat (ρ : Nat → Nat) : Prop := ∀ a b, a < b → ρ a < ρ b

namespace StrictMonoNat
variable {ρ : Nat → Nat} (h : StrictMonoNat ρ)
include h

theorem mono {a b : Nat} (hab : a ≤ b) : ρ a ≤ ρ b := by
  rcases Nat.lt_or_ge a b with hlt | hge
  · exact Nat.le_of_lt (h a b hlt)
  · have : a = b := Nat.le_antisymm hab hge
    subst this; exact Nat.le_refl _

theorem lt_iff {a b : Nat} : ρ a < ρ b ↔ a < b := by
  constructor
  · intro hlt
    rcases Nat.lt_or_ge a b with h1 | h1
    · exact h1
    · have := h.mono h1; omega
  · exact h a b

theorem le_iff {a b : Nat} : ρ a ≤ ρ b ↔ a ≤ b := by
  constructor
  · intro hle
    rcases Nat.lt_or_ge b a with h1 | h1
    · have := h b a h1; omega
    · exact h1
  · exact h.mono

theorem inj {a b : Nat} (e : ρ a = ρ b) : a = b := by
  have h1 : a ≤ b := h.le_iff.mp (by omega)
  have h2 : b ≤ a := h.le_iff.mp (by omega)
  omega

theorem map_min (a b : Nat) : ρ (min a b) = min (ρ a) (ρ b) := by
  rcases Nat.le_total a b with hab | hab
  · rw [Nat.min_eq_left hab, Nat.min_eq_left (h.mono hab)]
  · rw [Nat.min_eq_right hab, Nat.min_eq_right (h.mono hab)]

theorem map_max (a b : Nat) : ρ (max a b) = max (ρ a) (ρ b) := by
  rcases Nat.le_total a b with hab | hab
  · rw [Nat.max_eq_right hab, Nat.max_eq_right (h.mono hab)]
  · rw [Nat.max_eq_left hab, Nat.max_eq_left (h.mono hab)]
end StrictMonoNat

/-- inserting `k` lines before line `L` -/
def insertLines (L k : Nat) : Nat → Nat := fun l => if l < L then l else l + k

theorem insertLines_strictMono (L k : Nat) : StrictMonoNat (insertLines L k) := by
  intro a b hab
  simp only [insertLines]
  split <;> split <;> omega

/-! ## Renumbering trees -/

def Pos.renum (ρ : Nat → Nat) (p : Pos) : Pos := { p with line := ρ p.line, endLine := ρ p.endLine }

def Node.renum (ρ : Nat → Nat) (n : Node) : Node := n.mapPos (Option.map (Pos.renum ρ))
def Visit.renum (ρ : Nat → Nat) (v : Visit) : Visit := v.mapPos (Option.map (Pos.renum ρ))

variable (ρ : Nat → Nat)

@[simp] theorem Node.renum_pos (n : Node) : (n.renum ρ).pos = n.pos.map (Pos.renum ρ) := by simp [Node.renum]
@[simp] theorem Node.renum_line? (n : Node) : (n.renum ρ).line? = n.line?.map ρ := by
  simp [Node.line?, Option.map_map, Function.comp_def, Pos.renum]
@[simp] theorem Node.renum_col? (n : Node) : (n.renum ρ).col? = n.col? := by
  simp [Node.col?, Option.map_map, Function.comp_def, Pos.renum]
@[simp] theorem Node.renum_kind (n : Node) : (n.renum ρ).kind = n.kind := by simp [Node.renum]
@[simp] theorem Node.renum_isKind (n : Node) (k : String) : (n.renum ρ).isKind k = n.isKind k := by simp [Node.renum]
@[simp] theorem Node.renum_isAtomNode (n : Node) : (n.renum ρ).isAtomNode = n.isAtomNode := by simp [Node.renum]
theorem Node.erase_renum (n : Node) : (n.renum ρ).erase = n.erase := Node.erase_mapPos _ n
theorem Visit.erase_renum (v : Visit) : (v.renum ρ).erase = v.erase := Visit.erase_mapPos _ v
theorem visits_renum (root : Node) : visits (root.renum ρ) = (visits root).map (Visit.renum ρ) := visits_mapPos _ root

/-! ## `rangeList` -/

theorem rangeList_eq_nil {lo hi : Nat} (h : hi < lo) : rangeList lo hi = [] := by
  have : hi + 1 - lo = 0 := by omega
  simp [rangeList, this]

theorem rangeList_cons {lo hi : Nat} (h : lo ≤ hi) : rangeList lo hi = lo :: rangeList (lo + 1) hi := by
  apply List.ext_getElem
  · simp [rangeList_length]; omega
  · intro i h1 h2
    rw [rangeList_getElem]
    cases i with
    | zero => simp
    | succ j =>
      simp only [List.getElem_cons_succ]
      rw [rangeList_getElem]; omega

theorem rangeList_head? {lo hi : Nat} (h : lo ≤ hi) : (rangeList lo hi).head? = some lo := by
  rw [rangeList_cons h]; rfl

theorem rangeList_getLast? {lo hi : Nat} (h : lo ≤ hi) : (rangeList lo hi).getLast? = some hi := by
  rw [List.getLast?_eq_getElem?]
  have hl : (rangeList lo hi).length = hi + 1 - lo := rangeList_length lo hi
  have hlt : (rangeList lo hi).length - 1 < (rangeList lo hi).length := by omega
  rw [List.getElem?_eq_getElem hlt, rangeList_getElem]
  congr 1; omega

/-- a range as the interval between its end points, renumbered -/
def rangeMap (ρ : Nat → Nat) (r : List Nat) : List Nat :=
  match r.head?, r.getLast? with
  | some a, some b => rangeList (ρ a) (ρ b)
  | _, _ => []

theorem rangeMap_rangeList {ρ : Nat → Nat} (h : StrictMonoNat ρ) (lo hi : Nat) :
    rangeMap ρ (rangeList lo hi) = rangeList (ρ lo) (ρ hi) := by
  rcases Nat.lt_or_ge hi lo with hlt | hge
  · rw [rangeList_eq_nil hlt, rangeList_eq_nil (h _ _ hlt)]; rfl
  · simp [rangeMap, rangeList_head? hge, rangeList_getLast? hge]

/-- first hit of a partial function over an interval -/
theorem findSome?_rangeList {α : Type} (f : Nat → Option α) (v : α) :
    ∀ (n lo hi : Nat), hi + 1 - lo = n →
    ((rangeList lo hi).findSome? f = some v ↔
      ∃ l, lo ≤ l ∧ l ≤ hi ∧ f l = some v ∧ ∀ l', lo ≤ l' → l' < l → f l' = none) := by
  intro n
  induction n with
  | zero =>
    intro lo hi hn
    have : hi < lo := by omega
    rw [rangeList_eq_nil this]
    simp only [List.findSome?_nil, reduceCtorEq, false_iff]
    rintro ⟨l, h1, h2, _⟩; omega
  | succ n ih =>
    intro lo hi hn
    have hle : lo ≤ hi := by omega
    rw [rangeList_cons hle, List.findSome?_cons]
    cases hf : f lo with
    | some w =>
      simp only [Option.some.injEq]
      constructor
      · rintro rfl
        exact ⟨lo, Nat.le_refl _, hle, hf, by intro l' a b; omega⟩
      · rintro ⟨l, h1, h2, h3, h4⟩
        rcases Nat.eq_or_lt_of_le h1 with rfl | hlt
        · rw [hf] at h3; exact Option.some.inj h3
        · have := h4 lo (Nat.le_refl _) hlt; rw [hf] at this; cases this
    | none =>
      simp only
      rw [ih (lo + 1) hi (by omega)]
      constructor
      · rintro ⟨l, h1, h2, h3, h4⟩
        refine ⟨l, by omega, h2, h3, ?_⟩
        intro l' a b
        rcases Nat.eq_or_lt_of_le a with rfl | hlt
        · exact hf
        · exact h4 l' (by omega) b
      · rintro ⟨l, h1, h2, h3, h4⟩
        have hne : l ≠ lo := by rintro rfl; rw [hf] at h3; cases h3
        refine ⟨l, by omega, h2, h3, ?_⟩
        intro l' a b
        exact h4 l' (by omega) b

/-! ## nosec look-ups under renumbering -/

/-- `nm'` is `nm` moved along `ρ`: the comment on new line `ρ l` is the comment of old line `l`,
and new lines outside the image of `ρ` (the inserted ones) carry no nosec comment -/
structure NosecMoved (ρ : Nat → Nat) (nm nm' : NosecMap) : Prop where
  image : ∀ l, nm'.get (ρ l) = nm.get l
  fresh : ∀ x, (∀ l, ρ l ≠ x) → nm'.get x = none

theorem getNosec_renum {ρ : Nat → Nat} (h : StrictMonoNat ρ) {nm nm' : NosecMap} (hm : NosecMoved ρ nm nm')
    (lo hi : Nat) : getNosec nm' (rangeList (ρ lo) (ρ hi)) = getNosec nm (rangeList lo hi) := by
  apply Option.ext
  intro v
  simp only [getNosec]
  rw [findSome?_rangeList nm'.get v _ (ρ lo) (ρ hi) rfl, findSome?_rangeList nm.get v _ lo hi rfl]
  constructor
  · rintro ⟨x, h1, h2, h3, h4⟩
    by_cases hx : ∃ l, ρ l = x
    · obtain ⟨l, rfl⟩ := hx
      refine ⟨l, h.le_iff.mp h1, h.le_iff.mp h2, by rw [← hm.image]; exact h3, ?_⟩
      intro l' a b
      rw [← hm.image]
      exact h4 (ρ l') (h.mono a) (h _ _ b)
    · have := hm.fresh x (by intro l e; exact hx ⟨l, e⟩)
      rw [this] at h3; cases h3
  · rintro ⟨l, h1, h2, h3, h4⟩
    refine ⟨ρ l, h.mono h1, h.mono h2, by rw [hm.image]; exact h3, ?_⟩
    intro x a b
    by_cases hx : ∃ l', ρ l' = x
    · obtain ⟨l', rfl⟩ := hx
      rw [hm.image]
      exact h4 l' (h.le_iff.mp a) (h.lt_iff.mp b)
    · exact hm.fresh x (by intro l' e; exact hx ⟨l', e⟩)

end Bandit

namespace Bandit

/-! ## Line ranges under renumbering -/

def pairMap (ρ : Nat → Nat) (x : Nat × Nat) : Nat × Nat := (ρ x.1, ρ x.2)

theorem merge_map {ρ : Nat → Nat} (h : StrictMonoNat ρ) (x y : Option (Nat × Nat)) :
    calcLinerange.merge (x.map (pairMap ρ)) (y.map (pairMap ρ)) = (calcLinerange.merge x y).map (pairMap ρ) := by
  cases x with
  | none => cases y <;> rfl
  | some a =>
    cases y with
    | none => rfl
    | some b =>
      obtain ⟨a1, a2⟩ := a
      obtain ⟨b1, b2⟩ := b
      simp [calcLinerange.merge, pairMap, h.map_min, h.map_max]

theorem calcLinerange_renum {ρ : Nat → Nat} (h : StrictMonoNat ρ) :
    ∀ n : Node, calcLinerange (n.renum ρ) = (calcLinerange n).map (pairMap ρ) := by
  intro n
  unfold Node.renum
  generalize hg : (Option.map (Pos.renum ρ) : Option Pos → Option Pos) = g
  refine Node.rec
    (motive_1 := fun n => calcLinerange (n.mapPos g) = (calcLinerange n).map (pairMap ρ))
    (motive_2 := fun ks => calcLinerange.slots (Node.mapPos.mapSlots g ks) = (calcLinerange.slots ks).map (pairMap ρ))
    (motive_3 := fun s => calcLinerange.nodes (Node.mapPos.mapList g s.2.2) = (calcLinerange.nodes s.2.2).map (pairMap ρ))
    (motive_4 := fun s => calcLinerange.nodes (Node.mapPos.mapList g s.2) = (calcLinerange.nodes s.2).map (pairMap ρ))
    (motive_5 := fun ns => calcLinerange.nodes (Node.mapPos.mapList g ns) = (calcLinerange.nodes ns).map (pairMap ρ))
    ?_ ?_ ?_ ?_ ?_ ?_ ?_ n
  · intro k p a ks ih
    simp only [Node.mapPos, calcLinerange]
    rw [ih, ← merge_map h]
    congr 1
    subst hg
    cases p <;> rfl
  · rfl
  · intro head tail ih1 ih2
    obtain ⟨f, l, ns⟩ := head
    simp only [Node.mapPos.mapSlots, calcLinerange.slots]
    rw [ih1, ih2, merge_map h]
  · intro f snd ih; exact ih
  · intro l ns ih; exact ih
  · rfl
  · intro head tail ih1 ih2
    simp only [Node.mapPos.mapList, calcLinerange.nodes, Node.mapPos_isAtomNode]
    rw [ih2, ← merge_map h]
    congr 1
    split
    · rfl
    · exact ih1

theorem calcSlots_renum {ρ : Nat → Nat} (h : StrictMonoNat ρ) (ks : List (Str × Bool × List Node)) :
    calcLinerange.slots (ks.map (fun s => (s.1, s.2.1, s.2.2.map (Node.renum ρ)))) = (calcLinerange.slots ks).map (pairMap ρ) := by
  induction ks with
  | nil => rfl
  | cons s ks ih =>
    obtain ⟨f, l, ns⟩ := s
    simp only [List.map_cons, calcLinerange.slots]
    rw [ih, ← merge_map h]
    congr 1
    induction ns with
    | nil => rfl
    | cons n ns ihn =>
      simp only [List.map_cons, calcLinerange.nodes, Node.renum_isAtomNode]
      rw [ihn, ← merge_map h]
      congr 1
      split
      · rfl
      · exact calcLinerange_renum h n

/-- the part of an unpositioned node's subtree `linerange` looks at -/
def Node.rangeKids (n : Node) : List (Str × Bool × List Node) := n.kids.filter (fun s => !strippedFields.contains s.1)

/-- `linerange` falls back to the constant `[0, 1]`: no position on the node and none below it -/
def Node.defaulted (n : Node) : Prop := n.pos = none ∧ calcLinerange.slots n.rangeKids = none

theorem linerange_renum {ρ : Nat → Nat} (h : StrictMonoNat ρ) (n : Node) (sib : Option Node)
    (hsib : n.pos = none → sib.bind Node.line? = none)
    (hdef : n.defaulted → ρ 0 = 0 ∧ ρ 1 = 1) :
    linerange (n.renum ρ) (sib.map (Node.renum ρ)) = rangeMap ρ (linerange n sib) := by
  unfold linerange
  rw [Node.renum_pos]
  cases hp : n.pos with
  | some p =>
    simp only [Option.map_some, Pos.renum]
    rw [rangeMap_rangeList h]
  | none =>
    have hs := hsib hp
    have hs' : (sib.map (Node.renum ρ)).bind Node.line? = none := by
      cases sib with
      | none => rfl
      | some s =>
        simp only [Option.map_some, Option.bind_some, Node.renum_line?] at hs ⊢
        simp [hs]
    simp only [Option.map_none, hs, hs']
    have hk : (n.renum ρ).kids.filter (fun s => !strippedFields.contains s.1)
        = (n.rangeKids).map (fun s => (s.1, s.2.1, s.2.2.map (Node.renum ρ))) := by
      unfold Node.renum Node.rangeKids
      rw [Node.mapPos_kids, List.filter_map]
      rfl
    rw [hk, calcSlots_renum h]
    have hrk : List.filter (fun s => !strippedFields.contains s.1) n.kids = n.rangeKids := rfl
    rw [hrk]
    cases hc : calcLinerange.slots n.rangeKids with
    | none =>
      obtain ⟨h0, h1⟩ := hdef ⟨hp, hc⟩
      show rangeList 0 1 = rangeMap ρ (rangeList 0 1)
      rw [rangeMap_rangeList h, h0, h1]
    | some lh =>
      obtain ⟨lo, hi⟩ := lh
      show rangeList (ρ lo) (ρ hi) = rangeMap ρ (rangeList lo hi)
      rw [rangeMap_rangeList h]

theorem linerange_is_rangeList (n : Node) (sib : Option Node) : ∃ lo hi, linerange n sib = rangeList lo hi := by
  unfold linerange
  cases n.pos with
  | some p => exact ⟨_, _, rfl⟩
  | none =>
    simp only
    split
    · split <;> exact ⟨_, _, rfl⟩
    · exact ⟨_, _, rfl⟩

end Bandit

namespace Bandit

/-! ## Contexts, dispatch and the tester under renumbering -/

@[simp] theorem Node.constValue?_mapPos (g : Option Pos → Option Pos) (n : Node) : (n.mapPos g).constValue? = n.constValue? := by
  simp [Node.constValue?]
@[simp] theorem Node.isStrConst_mapPos (g : Option Pos → Option Pos) (n : Node) : (n.mapPos g).isStrConst = n.isStrConst := by
  simp [Node.isStrConst]
@[simp] theorem Node.isBytesConst_mapPos (g : Option Pos → Option Pos) (n : Node) : (n.mapPos g).isBytesConst = n.isBytesConst := by
  simp [Node.isBytesConst]
@[simp] theorem importModule?_mapPos (g : Option Pos → Option Pos) (n : Node) : importModule? (n.mapPos g) = importModule? n := by
  simp [importModule?]

def Ctx.renum (ρ : Nat → Nat) (c : Ctx) : Ctx := ⟨c.lineno.map ρ, c.col, rangeMap ρ c.linerange⟩

def Finding.renum (ρ : Nat → Nat) (f : Finding) : Finding := { f with line := ρ f.line, range := rangeMap ρ f.range }

def Event.renum (ρ : Nat → Nat) : Event → Event
  | .finding f => .finding (f.renum ρ)
  | .nosec f => .nosec (f.renum ρ)
  | .skipped f => .skipped (f.renum ρ)
  | .crash t => .crash t

def Raw.renum (ρ : Nat → Nat) (r : Raw) : Raw := { r with lineno := r.lineno.map ρ }

/-- the conditions on one visit under which its context is renumbered as an interval:
the CPython 3.12 fact that an unpositioned list member has unpositioned list-siblings, and — when the
range is the constant fallback `[0, 1]` (no position on the node nor below it) — `ρ` fixing 0 and 1 -/
structure VisitOK (ρ : Nat → Nat) (v : Visit) : Prop where
  sib : v.node.pos = none → v.sib.bind Node.line? = none
  dflt : v.node.defaulted → ρ 0 = 0 ∧ ρ 1 = 1
  pdflt : ∀ p, v.anc.head? = some p → p.defaulted → ρ 0 = 0 ∧ ρ 1 = 1

@[simp] theorem Visit.renum_node (ρ : Nat → Nat) (v : Visit) : (v.renum ρ).node = v.node.renum ρ := rfl
@[simp] theorem Visit.renum_sib (ρ : Nat → Nat) (v : Visit) : (v.renum ρ).sib = v.sib.map (Node.renum ρ) := rfl
@[simp] theorem Visit.renum_anc (ρ : Nat → Nat) (v : Visit) : (v.renum ρ).anc = v.anc.map (Node.renum ρ) := rfl
@[simp] theorem Node.renum_isStrConst (ρ : Nat → Nat) (n : Node) : (n.renum ρ).isStrConst = n.isStrConst := by simp [Node.renum]
@[simp] theorem Node.renum_isBytesConst (ρ : Nat → Nat) (n : Node) : (n.renum ρ).isBytesConst = n.isBytesConst := by simp [Node.renum]
@[simp] theorem importModule?_renum (ρ : Nat → Nat) (n : Node) : importModule? (n.renum ρ) = importModule? n := by simp [Node.renum]

/-- the check type a visit is dispatched to does not depend on positions -/
theorem dispatch_kind_renum (ρ : Nat → Nat) (v : Visit) :
    (dispatch (v.renum ρ)).map (·.1) = (dispatch v).map (·.1) := by
  obtain ⟨anc, node, sib⟩ := v
  simp only [dispatch, Visit.parent?, Visit.renum_node, Visit.renum_anc, Node.renum_isKind, Node.renum_isStrConst,
    Node.renum_isBytesConst, importModule?_renum, Node.renum_kind, List.head?_map]
  cases anc with
  | nil => simp only [List.head?_nil, Option.map_none, List.map_nil]; (repeat' split) <;> simp_all
  | cons p ps => simp only [List.head?_cons, Option.map_some, Node.renum_isKind, List.map_cons]; (repeat' split) <;> simp_all

theorem dispatch_renum {ρ : Nat → Nat} (h : StrictMonoNat ρ) (v : Visit) (hv : VisitOK ρ v) :
    dispatch (v.renum ρ) = (dispatch v).map (fun kc => (kc.1, kc.2.renum ρ)) := by
  obtain ⟨anc, node, sib⟩ := v
  have hl := linerange_renum h node sib hv.sib hv.dflt
  simp only [dispatch, Visit.parent?, Visit.renum_node, Visit.renum_anc, Visit.renum_sib, Node.renum_isKind, Node.renum_isStrConst,
    Node.renum_isBytesConst, importModule?_renum, Node.renum_kind, List.head?_map, Node.renum_line?, Node.renum_col?, hl]
  cases anc with
  | nil =>
    simp only [List.head?_nil, Option.map_none, List.map_nil]
    (repeat' split) <;> simp_all [Ctx.renum]
  | cons p ps =>
    have hpl := linerange_renum h p none (by intro _; rfl) (hv.pdflt p rfl)
    simp only [Option.map_none] at hpl
    simp only [List.head?_cons, Option.map_some, Node.renum_isKind, List.map_cons, hpl]
    (repeat' split) <;> simp_all [Ctx.renum]

end Bandit

namespace Bandit

/-! ## The tester under renumbering -/

theorem nosecsFor_renum {ρ : Nat → Nat} (h : StrictMonoNat ρ) {nm nm' : NosecMap} (hm : NosecMoved ρ nm nm')
    (raw : Raw) (ctx : Ctx) (lo hi : Nat) (hr : ctx.linerange = rangeList lo hi) :
    nosecsFor nm' (raw.renum ρ) (ctx.renum ρ) = nosecsFor nm raw ctx := by
  have hb : (raw.renum ρ).lineno.bind nm'.get = raw.lineno.bind nm.get := by
    cases hl : raw.lineno <;> simp [Raw.renum, hl, hm.image]
  have hc : getNosec nm' (ctx.renum ρ).linerange = getNosec nm ctx.linerange := by
    simp only [Ctx.renum, hr, rangeMap_rangeList h, getNosec_renum h hm]
  simp only [nosecsFor, hb, hc]

theorem resolveLoc_renum (ρ : Nat → Nat) (raw : Raw) (ctx : Ctx) :
    resolveLoc (raw.renum ρ) (ctx.renum ρ) = (resolveLoc raw ctx).map (fun lc => (ρ lc.1, lc.2)) := by
  unfold resolveLoc
  cases h1 : raw.lineno <;> cases h2 : ctx.lineno <;> cases h3 : raw.col <;> cases h4 : ctx.col <;>
    simp [Raw.renum, Ctx.renum, h1, h2, h3, h4, HOrElse.hOrElse, OrElse.orElse, Option.orElse]

theorem mkFinding_renum (ρ : Nat → Nat) (raw : Raw) (ctx : Ctx) (l c : Nat) (hr : raw.range = none) :
    mkFinding (raw.renum ρ) (ctx.renum ρ) (ρ l) c = (mkFinding raw ctx l c).renum ρ := by
  simp [mkFinding, Finding.renum, Raw.renum, Ctx.renum, hr]

theorem emit_renum {ρ : Nat → Nat} (h : StrictMonoNat ρ) {nm nm' : NosecMap} (hm : NosecMoved ρ nm nm')
    (raw : Raw) (ctx : Ctx) (lo hi : Nat) (hr : ctx.linerange = rangeList lo hi) (hrange : raw.range = none) :
    emit nm' (ctx.renum ρ) (raw.renum ρ) = (emit nm ctx raw).map (Event.renum ρ) := by
  rw [emit_eq, emit_eq, nosecsFor_renum h hm raw ctx lo hi hr, resolveLoc_renum]
  cases resolveLoc raw ctx with
  | none => rfl
  | some lc =>
    obtain ⟨l, c⟩ := lc
    simp only [Option.map_some, mkFinding_renum ρ raw ctx l c hrange]
    have hid : (raw.renum ρ).id = raw.id := rfl
    rw [hid]
    cases nosecsFor nm raw ctx with
    | none => rfl
    | some s =>
      cases s with
      | nil => rfl
      | cons a as =>
        simp only []
        split <;> rfl

theorem fillId_renum (ρ : Nat → Nat) (c : Check) (raw : Raw) : fillId c (raw.renum ρ) = (fillId c raw).renum ρ := by
  unfold fillId
  have : (raw.renum ρ).id = raw.id := rfl
  rw [this]
  split <;> rfl

/-! ### location selectors -/

def CallView.mapPos (g : Option Pos → Option Pos) (c : CallView) : CallView :=
  ⟨c.node.mapPos g, c.func.mapPos g, c.args.map (Node.mapPos g), c.keywords.map (Node.mapPos g)⟩

theorem Node.asCall?_mapPos (g : Option Pos → Option Pos) (n : Node) :
    (n.mapPos g).asCall? = n.asCall?.map (CallView.mapPos g) := by
  simp only [Node.asCall?, Node.mapPos_isKind, Node.kid?_mapPos, Node.kidList_mapPos]
  by_cases h : n.isKind "Call" = true
  · simp only [h, if_true]
    cases n.kid? "func" <;> rfl
  · simp [h]

theorem kwLineno_renum (ρ : Nat → Nat) (c : CallView) (name : String) :
    (c.mapPos (Option.map (Pos.renum ρ))).kwLineno name = (c.kwLineno name).map ρ := by
  simp only [CallView.kwLineno, CallView.mapPos, List.find?_map]
  have hf : ((fun k => CallView.kwName k == some name.toList) ∘ Node.mapPos (Option.map (Pos.renum ρ)))
      = (fun k => CallView.kwName k == some name.toList) := by
    funext k; simp [CallView.kwName]
  rw [hf]
  cases c.keywords.find? (fun k => CallView.kwName k == some name.toList) with
  | none => rfl
  | some k =>
    simp only [Option.map_some, CallView.kwValue, Node.kid?_mapPos]
    cases k.kid? "value" with
    | none => rfl
    | some v =>
      simp only [Option.map_some, Option.bind_some]
      exact Node.renum_line? ρ v

theorem kwLine_renum (ρ : Nat → Nat) (n : Node) (name : String) :
    kwLine (n.renum ρ) name = (kwLine n name).map ρ := by
  unfold kwLine Node.renum
  rw [Node.asCall?_mapPos]
  cases n.asCall? with
  | none => rfl
  | some c => exact kwLineno_renum ρ c name

theorem findSome?_kwLine_renum (ρ : Nat → Nat) (n : Node) (names : List String) :
    names.findSome? (kwLine (n.renum ρ)) = (names.findSome? (kwLine n)).map ρ := by
  induction names with
  | nil => rfl
  | cons a as ih =>
    simp only [List.findSome?_cons, kwLine_renum]
    cases kwLine n a with
    | none => simpa using ih
    | some l => rfl

theorem resolve_renum (ρ : Nat → Nat) (v : Visit) (p : PRaw) (hnabs : ∀ a b, p.loc ≠ .abs a b) :
    p.resolve (v.renum ρ) = (p.resolve v).renum ρ := by
  unfold PRaw.resolve
  cases hl : p.loc with
  | ctx => rfl
  | node => simp [Raw.renum]
  | kw names => simp [Raw.renum, findSome?_kwLine_renum]
  | abs a b => exact absurd hl (hnabs a b)

theorem resolve_range_none (v : Visit) (p : PRaw) (hnabs : ∀ a b, p.loc ≠ .abs a b) : (p.resolve v).range = none := by
  unfold PRaw.resolve
  cases hl : p.loc with
  | ctx => rfl
  | node => rfl
  | kw names => rfl
  | abs a b => exact absurd hl (hnabs a b)

/-! ### checks -/

def Env.renum (ρ : Nat → Nat) (e : Env) : Env := { e with v := e.v.renum ρ, ctx := e.ctx.renum ρ }

/-- a check's verdict is the same on a renumbered environment -/
def PosInvariant (c : Check) : Prop :=
  ∀ (ρ : Nat → Nat), StrictMonoNat ρ → ∀ env : Env, c.run (env.renum ρ) = c.run env

/-- what the equivariance theorem needs of one check: it either runs position-blind (every check but
B608 / B703 does, by construction of `Env.forCheck`) or is shown invariant, and it locates its finding
relative to the visited node (not at an absolute line) -/
structure CheckOK (c : Check) : Prop where
  pos : c.usesPos = false ∨ PosInvariant c
  rel : ∀ env p, c.run env = .ok (some p) → ∀ a b, p.loc ≠ .abs a b

theorem blind_renum (ρ : Nat → Nat) (env : Env) : (env.renum ρ).blind = env.blind := by
  simp [Env.blind, Env.renum, Visit.erase_renum]

theorem run_forCheck_renum {ρ : Nat → Nat} (h : StrictMonoNat ρ) (c : Check) (hc : CheckOK c) (env : Env) :
    c.run ((env.renum ρ).forCheck c) = c.run (env.forCheck c) := by
  unfold Env.forCheck
  by_cases hu : c.usesPos = true
  · simp only [hu, if_true]
    rcases hc.pos with h0 | hp
    · rw [h0] at hu; cases hu
    · exact hp ρ h env
  · simp only [hu, Bool.false_eq_true, if_false, blind_renum]

theorem runCheck_renum {ρ : Nat → Nat} (h : StrictMonoNat ρ) {nm nm' : NosecMap} (hm : NosecMoved ρ nm nm')
    (c : Check) (hc : CheckOK c) (env : Env) (lo hi : Nat) (hr : env.ctx.linerange = rangeList lo hi) :
    runCheck nm' (env.renum ρ) c = (runCheck nm env c).map (Event.renum ρ) := by
  unfold runCheck
  rw [run_forCheck_renum h c hc env]
  cases hrun : c.run (env.forCheck c) with
  | error _ => rfl
  | ok r =>
    cases r with
    | none => rfl
    | some p =>
      have hnabs := hc.rel _ _ hrun
      simp only []
      have h1 : (env.renum ρ).v = env.v.renum ρ := rfl
      have h2 : (env.renum ρ).ctx = env.ctx.renum ρ := rfl
      rw [h1, h2, resolve_renum ρ env.v p hnabs, fillId_renum,
        emit_renum h hm _ env.ctx lo hi hr (by
          unfold fillId; split <;> simp [resolve_range_none env.v p hnabs])]
      cases emit nm env.ctx (fillId c (p.resolve env.v)) <;> rfl

theorem dispatch_rangeList {v : Visit} {k : Str} {ctx : Ctx} (hd : dispatch v = some (k, ctx)) :
    ∃ lo hi, ctx.linerange = rangeList lo hi := by
  obtain ⟨anc, node, sib⟩ := v
  obtain ⟨lo, hi, hl⟩ := linerange_is_rangeList node sib
  cases anc with
  | nil =>
    unfold dispatch at hd
    simp only [Visit.parent?, List.head?_nil] at hd
    (repeat' split at hd) <;> first | (cases hd; exact ⟨lo, hi, hl⟩) | cases hd
  | cons p ps =>
    obtain ⟨lo', hi', hl'⟩ := linerange_is_rangeList p none
    unfold dispatch at hd
    simp only [Visit.parent?, List.head?_cons] at hd
    by_cases hE : p.isKind "Expr" = true <;> simp only [hE, ↓reduceIte, Bool.false_eq_true] at hd <;>
    (repeat' split at hd) <;> first | (cases hd; first | exact ⟨lo, hi, hl⟩ | exact ⟨lo', hi', hl'⟩) | cases hd

/-! ### one visit, the whole traversal -/

theorem flatMap_runCheck_renum {ρ : Nat → Nat} (h : StrictMonoNat ρ) {nm nm' : NosecMap} (hm : NosecMoved ρ nm nm')
    (env : Env) (lo hi : Nat) (hr : env.ctx.linerange = rangeList lo hi) (cs : List Check) (hc : ∀ c ∈ cs, CheckOK c) :
    cs.flatMap (runCheck nm' (env.renum ρ)) = (cs.flatMap (runCheck nm env)).map (Event.renum ρ) := by
  induction cs with
  | nil => rfl
  | cons c cs ih =>
    simp only [List.flatMap_cons, List.map_append]
    rw [ih (fun c hcm => hc c (List.mem_cons_of_mem _ hcm)), runCheck_renum h hm c (hc c List.mem_cons_self) env lo hi hr]

/-- a visit is fine when its context renumbers as an interval and every check that runs on it is
fine, or when no check runs on it at all -/
def VisitFine (ρ : Nat → Nat) (checks : List Check) (v : Visit) : Prop :=
  (VisitOK ρ v ∧ ∀ kc, dispatch v = some kc → ∀ c ∈ checksFor checks kc.1, CheckOK c)
    ∨ ∀ kc, dispatch v = some kc → checksFor checks kc.1 = []

theorem runVisit_renum {ρ : Nat → Nat} (h : StrictMonoNat ρ) {nm nm' : NosecMap} (hm : NosecMoved ρ nm nm')
    (checks : List Check) (lines : List Str) (s : VState) (v : Visit)
    (hv : VisitFine ρ checks v) :
    runVisit checks nm' lines s (v.renum ρ) = (runVisit checks nm lines s v).map (Event.renum ρ) := by
  unfold runVisit
  rcases hv with ⟨hok, hc⟩ | hno
  · rw [dispatch_renum h v hok]
    cases hd : dispatch v with
    | none => rfl
    | some kc =>
      obtain ⟨kind, ctx⟩ := kc
      obtain ⟨lo, hi, hr⟩ := dispatch_rangeList hd
      simp only [Option.map_some]
      exact flatMap_runCheck_renum h hm { v := v, st := s, ctx := ctx } lo hi hr _ (hc _ hd)
  · have hk := dispatch_kind_renum ρ v
    cases hd : dispatch v with
    | none =>
      rw [hd] at hk
      cases hd' : dispatch (v.renum ρ) with
      | none => rfl
      | some kc' => rw [hd'] at hk; cases hk
    | some kc =>
      have hnil := hno kc hd
      rw [hd] at hk
      cases hd' : dispatch (v.renum ρ) with
      | none => rw [hd'] at hk; cases hk
      | some kc' =>
        rw [hd'] at hk
        have hke : kc'.1 = kc.1 := by simpa using hk
        obtain ⟨k', c'⟩ := kc'
        obtain ⟨k, c⟩ := kc
        simp only at hke hnil ⊢
        subst hke
        simp [hnil]

theorem scanVisits_renum {ρ : Nat → Nat} (h : StrictMonoNat ρ) {nm nm' : NosecMap} (hm : NosecMoved ρ nm nm')
    (checks : List Check) (lines : List Str) (s : VState) (vs : List Visit)
    (hv : ∀ v ∈ vs, VisitFine ρ checks v) :
    scanVisits checks nm' lines s (vs.map (Visit.renum ρ)) = (scanVisits checks nm lines s vs).map (Event.renum ρ) := by
  induction vs generalizing s with
  | nil => rfl
  | cons v vs ih =>
    simp only [List.map_cons, scanVisits, List.map_append]
    have hu : s.update (v.renum ρ).node = s.update v.node := VState.update_mapPos _ s v.node
    rw [hu, runVisit_renum h hm checks lines _ v (hv v List.mem_cons_self),
      ih _ (fun w hw => hv w (List.mem_cons_of_mem _ hw))]

/-- the kind a visit is dispatched under is the node's own kind or one of the three synthetic ones -/
theorem dispatch_kind_cases {v : Visit} {kc : Str × Ctx} (hd : dispatch v = some kc) :
    kc.1 = v.node.kind ∨ kc.1 = "Str".toList ∨ kc.1 = "Bytes".toList ∨ kc.1 = "Import".toList := by
  obtain ⟨anc, node, sib⟩ := v
  obtain ⟨k, ctx⟩ := kc
  cases anc with
  | nil =>
    unfold dispatch at hd
    simp only [Visit.parent?, List.head?_nil] at hd
    (repeat' split at hd) <;> first | (cases hd; simp) | cases hd
  | cons p ps =>
    unfold dispatch at hd
    simp only [Visit.parent?, List.head?_cons] at hd
    by_cases hE : p.isKind "Expr" = true <;> simp only [hE, ↓reduceIte, Bool.false_eq_true] at hd <;>
    (repeat' split at hd) <;> first | (cases hd; simp) | cases hd

/-- node contexts do not carry the file's text: the traversal does not depend on it -/
theorem scanVisits_lines_irrelevant (checks : List Check) (nm : NosecMap) (l1 l2 : List Str) (s : VState) (vs : List Visit) :
    scanVisits checks nm l1 s vs = scanVisits checks nm l2 s vs := by
  induction vs generalizing s with
  | nil => rfl
  | cons v vs ih =>
    simp only [scanVisits]
    rw [ih]
    rfl

end Bandit
