import Bandit.Checks
/-!
# Generic lemmas about the traversal fold
-/
namespace Bandit

theorem scanVisits_append (checks : List Check) (nm : NosecMap) (lines : List Str) (s : VState)
    (pre post : List Visit) :
    scanVisits checks nm lines s (pre ++ post) =
      scanVisits checks nm lines s pre ++ scanVisits checks nm lines (stateAfter s pre) post := by
  induction pre generalizing s with
  | nil => simp [scanVisits, stateAfter]
  | cons v vs ih => simp [scanVisits, stateAfter, ih, List.append_assoc]

theorem stateAfter_append (s : VState) (pre post : List Visit) :
    stateAfter s (pre ++ post) = stateAfter (stateAfter s pre) post := by
  induction pre generalizing s with
  | nil => simp [stateAfter]
  | cons v vs ih => simp [stateAfter, ih]

theorem stateAfter_snoc (s : VState) (pre : List Visit) (v : Visit) :
    stateAfter s (pre ++ [v]) = (stateAfter s pre).update v.node := by
  simp [stateAfter_append, stateAfter]

/-- The events a visit produces, in the state reached by the traversal prefix, are part of the scan. -/
theorem runVisit_sub_scanVisits (checks : List Check) (nm : NosecMap) (lines : List Str) (s : VState)
    (pre post : List Visit) (v : Visit) (e : Event)
    (h : e ∈ runVisit checks nm lines (stateAfter s (pre ++ [v])) v) :
    e ∈ scanVisits checks nm lines s (pre ++ v :: post) := by
  rw [scanVisits_append]
  apply List.mem_append_right
  simp only [scanVisits]
  apply List.mem_append_left
  rw [stateAfter_snoc] at h
  exact h

theorem mem_findingsOf {es : List Event} {f : Finding} : f ∈ findingsOf es ↔ Event.finding f ∈ es := by
  simp only [findingsOf, List.mem_filterMap]
  constructor
  · rintro ⟨e, he, h⟩
    cases e <;> simp at h
    subst h; exact he
  · intro h; exact ⟨_, h, rfl⟩

theorem findingsOf_append (a b : List Event) : findingsOf (a ++ b) = findingsOf a ++ findingsOf b := by
  simp [findingsOf, List.filterMap_append]

theorem scanFile_visit_event (checks : List Check) (inp : FileInput) (pre post : List Visit) (v : Visit) (e : Event)
    (hv : visits inp.root = pre ++ v :: post)
    (h : e ∈ runVisit checks inp.nosec inp.lines (stateAfter {} (pre ++ [v])) v) :
    e ∈ scanFile checks inp := by
  simp only [scanFile, hv]
  apply List.mem_append_left
  exact runVisit_sub_scanVisits _ _ _ _ _ _ _ _ h

end Bandit
