import Bandit.Checks
/-!
# Totality: the argument evaluators never raise (C06)
-/
namespace Bandit

/-- `_get_literal_value` never raises, on any node -/
theorem literalValue_total : ∀ n : Node, ∃ v, literalValue n = .ok v := by
  intro n
  refine Node.rec
    (motive_1 := fun n => ∃ v, literalValue n = .ok v)
    (motive_2 := fun ks => ∃ vs, literalValue.litList ks = .ok vs)
    (motive_3 := fun s => ∃ vs, literalValue.litNodes s.2.2 = .ok vs)
    (motive_4 := fun s => ∃ vs, literalValue.litNodes s.2 = .ok vs)
    (motive_5 := fun ns => ∃ vs, literalValue.litNodes ns = .ok vs)
    ?_ ?_ ?_ ?_ ?_ ?_ ?_ n
  · -- node
    intro k p a ks ih
    obtain ⟨vs, hvs⟩ := ih
    unfold literalValue
    simp only [hvs, bind, Except.bind, pure, Except.pure]
    split
    · split <;> exact ⟨_, rfl⟩
    · split
      · exact ⟨_, rfl⟩
      · split
        · exact ⟨_, rfl⟩
        · split
          · split <;> exact ⟨_, rfl⟩
          · split
            · exact ⟨_, rfl⟩
            · split
              · split <;> exact ⟨_, rfl⟩
              · exact ⟨_, rfl⟩
  · exact ⟨[], rfl⟩
  · intro head tail ih1 ih2
    obtain ⟨f, l, ns⟩ := head
    simp only [literalValue.litList]
    split
    · exact ih1
    · exact ih2
  · intro f snd ih; exact ih
  · intro l ns ih; exact ih
  · exact ⟨[], rfl⟩
  · intro head tail ih1 ih2
    obtain ⟨v, hv⟩ := ih1
    obtain ⟨vs, hvs⟩ := ih2
    exact ⟨v :: vs, by simp [literalValue.litNodes, hv, hvs, bind, Except.bind, pure, Except.pure]⟩

theorem attrOrLiteral_total (n : Node) : ∃ v, attrOrLiteral n = .ok v := by
  unfold attrOrLiteral
  split
  · exact ⟨_, rfl⟩
  · exact literalValue_total n

theorem mapM_total {α β : Type} {f : α → M β} (h : ∀ a, ∃ b, f a = .ok b) : ∀ l : List α, ∃ bs, l.mapM f = .ok bs
  | [] => ⟨[], rfl⟩
  | a :: l => by
    obtain ⟨b, hb⟩ := h a
    obtain ⟨bs, hbs⟩ := mapM_total h l
    exact ⟨b :: bs, by rw [List.mapM_cons]; simp [hb, hbs, bind, Except.bind, pure, Except.pure]⟩

/-- `context.call_args` never raises -/
theorem callArgs_total (c : CallView) : ∃ as, c.callArgs = .ok as :=
  mapM_total attrOrLiteral_total c.args

/-- `context.call_keywords` never raises -/
theorem callKeywords_total (c : CallView) : ∃ kws, c.callKeywords = .ok kws := by
  unfold CallView.callKeywords
  apply mapM_total
  intro k
  cases hv : CallView.kwValue k with
  | none => exact ⟨_, rfl⟩
  | some v =>
    obtain ⟨x, hx⟩ := attrOrLiteral_total v
    exact ⟨(CallView.kwName k, x), by simp [hx, bind, Except.bind, pure, Except.pure]⟩

theorem argAt_total (c : CallView) (i : Nat) : ∃ v, c.argAt i = .ok v := by
  unfold CallView.argAt
  split
  · split
    · split
      · exact literalValue_total _
      · exact ⟨_, rfl⟩
    · exact literalValue_total _
  · exact ⟨_, rfl⟩

theorem argValue_total (c : CallView) (name : String) : ∃ v, c.argValue name = .ok v := by
  obtain ⟨kws, h⟩ := callKeywords_total c
  exact ⟨(CallView.lookupKw kws name).getD .none, by simp [CallView.argValue, h, bind, Except.bind, pure, Except.pure]⟩

theorem hasKw_total (c : CallView) (name : String) : ∃ b, c.hasKw name = .ok b := by
  obtain ⟨kws, h⟩ := callKeywords_total c
  exact ⟨(CallView.lookupKw kws name).isSome, by simp [CallView.hasKw, h, bind, Except.bind, pure, Except.pure]⟩

theorem checkArg_total (c : CallView) (name : String) (vals : List PyVal) : ∃ b, c.checkArg name vals = .ok b := by
  obtain ⟨v, h⟩ := argValue_total c name
  unfold CallView.checkArg
  simp only [h, bind, Except.bind]
  split <;> exact ⟨_, rfl⟩

end Bandit
