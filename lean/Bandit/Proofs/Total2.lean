import Bandit.Checks
import Bandit.Proofs.Total
import Bandit.Proofs.Loc
import Bandit.Proofs.C17Xss
import Bandit.Proofs.Crypto
/-!
# Totality of the plugin checks on well-shaped trees (helper lemmas for C06)

* the structure of `visits`: one-step characterisation, "the parent of a visited node is the root or
  visited", "an ancestor's visits contain the node's visit";
* `Node.deepAll`: a predicate holding on a node and on everything the traversal reaches below it;
* `Node.para` unfolded through `kidList` / `kid?`, totality of `isAssigned`, the invariant of `info`;
* B703: no Python exception on positioned trees, no `RecursionError` with the budget `fuelFor`.
-/
set_option linter.unusedSimpArgs false

/-- split every `if`/`match` of the goal; every leaf is a returned value -/
macro "ok_split" : tactic => `(tactic| ((repeat' split) <;> exact ⟨_, rfl⟩))

namespace Bandit

/-- `c` sits in one of the child slots of `n` -/
def Node.IsChild (n c : Node) : Prop := ∃ f l ns, (f, l, ns) ∈ n.kids ∧ c ∈ ns

theorem Node.kidList_isChild {n c : Node} {f : String} (h : c ∈ n.kidList f) : n.IsChild c := by
  obtain ⟨l, ns, hs, hm⟩ := kidList_slot h
  exact ⟨_, l, ns, hs, hm⟩

theorem Node.kid?_isChild {n c : Node} {f : String} (h : n.kid? f = some c) : n.IsChild c := by
  obtain ⟨l, ns, hs, hm⟩ := kid?_slot h
  exact ⟨_, l, ns, hs, hm⟩

/-! ## size -/

theorem size_le_sizeList {ns : List Node} {c : Node} (h : c ∈ ns) : c.size ≤ sizeList ns := by
  induction ns with
  | nil => cases h
  | cons n ns ih =>
    simp only [sizeList]
    rcases List.mem_cons.mp h with rfl | h
    · omega
    · have := ih h; omega

theorem sizeList_le_sizeSlots {ks : List (Str × Bool × List Node)} {f : Str} {l : Bool} {ns : List Node}
    (h : (f, l, ns) ∈ ks) : sizeList ns ≤ sizeSlots ks := by
  induction ks with
  | nil => cases h
  | cons s ks ih =>
    obtain ⟨f', l', ns'⟩ := s
    simp only [sizeSlots]
    rcases List.mem_cons.mp h with h | h
    · cases h; omega
    · have := ih h; omega

theorem Node.IsChild.size_lt {n c : Node} (h : n.IsChild c) : c.size < n.size := by
  obtain ⟨f, l, ns, hs, hc⟩ := h
  cases n with
  | mk k p a ks =>
    have h1 := size_le_sizeList hc
    have h2 := sizeList_le_sizeSlots (ks := ks) hs
    simp only [Node.size]
    omega

/-! ## one step of the traversal -/

theorem mem_visitsSlots {A : List Node} {ks : List (Str × Bool × List Node)} {v : Visit} :
    v ∈ visitsSlots A ks ↔ ∃ f l ns, (f, l, ns) ∈ ks ∧ v ∈ visitsList A l ns := by
  induction ks with
  | nil => simp [visitsSlots]
  | cons s ks ih =>
    obtain ⟨f', l', ns'⟩ := s
    simp only [visitsSlots, List.mem_append, ih, List.mem_cons]
    constructor
    · rintro (h | ⟨f, l, ns, hm, hv⟩)
      · exact ⟨f', l', ns', Or.inl rfl, h⟩
      · exact ⟨f, l, ns, Or.inr hm, hv⟩
    · rintro ⟨f, l, ns, hm | hm, hv⟩
      · cases hm; exact Or.inl hv
      · exact Or.inr ⟨f, l, ns, hm, hv⟩

theorem mem_visitsList {A : List Node} {l : Bool} {ns : List Node} {v : Visit} :
    v ∈ visitsList A l ns ↔ ∃ pre c post, ns = pre ++ c :: post ∧ c.isAtomNode = false ∧
      (v = ⟨A, c, if l then post.head? else none⟩ ∨ v ∈ visitsBelow A c) := by
  induction ns with
  | nil => simp [visitsList]
  | cons n ns ih =>
    simp only [visitsList, List.mem_append, ih]
    constructor
    · rintro (h | ⟨pre, c, post, he, hc, hv⟩)
      · by_cases hn : n.isAtomNode = true
        · simp [hn] at h
        · have hn' : n.isAtomNode = false := by simpa using hn
          simp only [hn', Bool.false_eq_true, if_false, List.mem_cons] at h
          exact ⟨[], n, ns, rfl, hn', h⟩
      · exact ⟨n :: pre, c, post, by simp [he], hc, hv⟩
    · rintro ⟨pre, c, post, he, hc, hv⟩
      cases pre with
      | nil =>
        simp only [List.nil_append, List.cons.injEq] at he
        obtain ⟨rfl, rfl⟩ := he
        left
        simp only [hc, Bool.false_eq_true, if_false, List.mem_cons]
        exact hv
      | cons x pre =>
        simp only [List.cons_append, List.cons.injEq] at he
        obtain ⟨rfl, rfl⟩ := he
        exact Or.inr ⟨pre, c, post, rfl, hc, hv⟩

theorem mem_visitsBelow {anc : List Node} {n : Node} {v : Visit} :
    v ∈ visitsBelow anc n ↔ ∃ f l ns, (f, l, ns) ∈ n.kids ∧ v ∈ visitsList (n :: anc) l ns := by
  cases n with
  | mk k p a ks => simp only [visitsBelow, mem_visitsSlots, Node.kids]

/-- one step: a visit below `n` is the visit of a (real) child `c` of `n` or lies below `c`; the
child's own visit and everything below it are visits below `n` -/
theorem visit_step {anc : List Node} {n : Node} {v : Visit} (h : v ∈ visitsBelow anc n) :
    ∃ c sib, n.IsChild c ∧ c.isAtomNode = false ∧
      (⟨n :: anc, c, sib⟩ : Visit) ∈ visitsBelow anc n ∧
      (∀ w ∈ visitsBelow (n :: anc) c, w ∈ visitsBelow anc n) ∧
      (v = ⟨n :: anc, c, sib⟩ ∨ v ∈ visitsBelow (n :: anc) c) := by
  obtain ⟨f, l, ns, hs, hv⟩ := mem_visitsBelow.mp h
  obtain ⟨pre, c, post, he, hc, hcase⟩ := mem_visitsList.mp hv
  have hcm : c ∈ ns := by rw [he]; simp
  refine ⟨c, if l then post.head? else none, ⟨f, l, ns, hs, hcm⟩, hc, ?_, ?_, hcase⟩
  · exact mem_visitsBelow.mpr ⟨f, l, ns, hs, mem_visitsList.mpr ⟨pre, c, post, he, hc, Or.inl rfl⟩⟩
  · intro w hw
    exact mem_visitsBelow.mpr ⟨f, l, ns, hs, mem_visitsList.mpr ⟨pre, c, post, he, hc, Or.inr hw⟩⟩

/-- every real child is visited, with the parent chain extended by `n` -/
theorem child_visited {anc : List Node} {n c : Node} (h : n.IsChild c) (hc : c.isAtomNode = false) :
    (∃ sib, (⟨n :: anc, c, sib⟩ : Visit) ∈ visitsBelow anc n) ∧
    (∀ w ∈ visitsBelow (n :: anc) c, w ∈ visitsBelow anc n) := by
  obtain ⟨f, l, ns, hs, hm⟩ := h
  obtain ⟨pre, post, he⟩ := List.append_of_mem hm
  constructor
  · exact ⟨_, mem_visitsBelow.mpr ⟨f, l, ns, hs, mem_visitsList.mpr ⟨pre, c, post, he, hc, Or.inl rfl⟩⟩⟩
  · intro w hw
    exact mem_visitsBelow.mpr ⟨f, l, ns, hs, mem_visitsList.mpr ⟨pre, c, post, he, hc, Or.inr hw⟩⟩

theorem Node.size_pos (n : Node) : 0 < n.size := by
  cases n; simp only [Node.size]; omega

/-! ## ancestors -/

/-- the parent of a visit below `n` is `n` itself or a visited node (with its own chain) -/
theorem visitsBelow_anc_cases : ∀ (N : Nat) (n : Node), n.size ≤ N → ∀ (anc : List Node) (v : Visit),
    v ∈ visitsBelow anc n → v.anc = n :: anc ∨ ∃ w ∈ visitsBelow anc n, v.anc = w.node :: w.anc := by
  intro N
  induction N with
  | zero => intro n hn; have := n.size_pos; omega
  | succ N ih =>
    intro n hn anc v hv
    obtain ⟨c, sib, hch, _, hcv, hsub, hcase⟩ := visit_step hv
    rcases hcase with rfl | hb
    · exact Or.inl rfl
    · have hlt := hch.size_lt
      rcases ih c (by omega) (n :: anc) v hb with h | ⟨w, hw, h⟩
      · exact Or.inr ⟨_, hcv, h⟩
      · exact Or.inr ⟨w, hsub w hw, h⟩

/-- the ancestor chain of a visit below `n` ends with `n` and the chain `n` was reached by -/
theorem visitsBelow_anc_suffix : ∀ (N : Nat) (n : Node), n.size ≤ N → ∀ (anc : List Node) (v : Visit),
    v ∈ visitsBelow anc n → ∃ pre, v.anc = pre ++ n :: anc := by
  intro N
  induction N with
  | zero => intro n hn; have := n.size_pos; omega
  | succ N ih =>
    intro n hn anc v hv
    obtain ⟨c, sib, hch, _, _, _, hcase⟩ := visit_step hv
    rcases hcase with rfl | hb
    · exact ⟨[], rfl⟩
    · have hlt := hch.size_lt
      obtain ⟨pre, h⟩ := ih c (by omega) (n :: anc) v hb
      exact ⟨pre ++ [c], by simp [h]⟩

/-- a visit below `n` lies below each of its ancestors that is not an ancestor of `n` -/
theorem visitsBelow_under_anc : ∀ (N : Nat) (n : Node), n.size ≤ N → ∀ (anc : List Node) (v : Visit),
    v ∈ visitsBelow anc n → ∀ a ∈ v.anc, a ∈ anc ∨ ∃ anc', v ∈ visitsBelow anc' a := by
  intro N
  induction N with
  | zero => intro n hn; have := n.size_pos; omega
  | succ N ih =>
    intro n hn anc v hv a ha
    obtain ⟨c, sib, hch, _, _, _, hcase⟩ := visit_step hv
    rcases hcase with rfl | hb
    · rcases List.mem_cons.mp ha with rfl | h
      · exact Or.inr ⟨anc, hv⟩
      · exact Or.inl h
    · have hlt := hch.size_lt
      rcases ih c (by omega) (n :: anc) v hb a ha with h | h
      · rcases List.mem_cons.mp h with rfl | h
        · exact Or.inr ⟨anc, hv⟩
        · exact Or.inl h
      · exact Or.inr h

/-- the visits below a visited node are visits of the whole traversal -/
theorem visitsBelow_sub : ∀ (N : Nat) (n : Node), n.size ≤ N → ∀ (anc : List Node) (v : Visit),
    v ∈ visitsBelow anc n → ∀ w ∈ visitsBelow v.anc v.node, w ∈ visitsBelow anc n := by
  intro N
  induction N with
  | zero => intro n hn; have := n.size_pos; omega
  | succ N ih =>
    intro n hn anc v hv w hw
    obtain ⟨c, sib, hch, _, _, hsub, hcase⟩ := visit_step hv
    rcases hcase with rfl | hb
    · exact hsub w hw
    · have hlt := hch.size_lt
      exact hsub w (ih c (by omega) (n :: anc) v hb w hw)

theorem visits_parent_cases {root : Node} {v : Visit} (h : v ∈ visits root) :
    v.anc = [root] ∨ ∃ w ∈ visits root, v.anc = w.node :: w.anc :=
  visitsBelow_anc_cases _ root (Nat.le_refl _) [] v h

theorem visits_root_last {root : Node} {v : Visit} (h : v ∈ visits root) : ∃ pre, v.anc = pre ++ [root] :=
  visitsBelow_anc_suffix _ root (Nat.le_refl _) [] v h

theorem visits_under_anc {root : Node} {v : Visit} (h : v ∈ visits root) {a : Node} (ha : a ∈ v.anc) :
    ∃ anc', v ∈ visitsBelow anc' a := by
  rcases visitsBelow_under_anc _ root (Nat.le_refl _) [] v h a ha with h | h
  · cases h
  · exact h

theorem visits_sub {root : Node} {v : Visit} (h : v ∈ visits root) :
    ∀ w ∈ visitsBelow v.anc v.node, w ∈ visits root :=
  visitsBelow_sub _ root (Nat.le_refl _) [] v h

/-! ## a predicate on everything the traversal reaches from a node -/

mutual
  /-- `P` holds on `n` and on every node reached from `n` through real (non-pseudo) nodes -/
  def Node.deepAll (P : Node → Bool) : Node → Bool
    | .mk k p a ks => P (.mk k p a ks) && deepAllSlots P ks
  def deepAllSlots (P : Node → Bool) : List (Str × Bool × List Node) → Bool
    | [] => true
    | (_, _, ns) :: r => deepAllList P ns && deepAllSlots P r
  def deepAllList (P : Node → Bool) : List Node → Bool
    | [] => true
    | n :: ns => (n.isAtomNode || n.deepAll P) && deepAllList P ns
end

theorem deepAllList_iff {P : Node → Bool} {ns : List Node} :
    deepAllList P ns = true ↔ ∀ c ∈ ns, c.isAtomNode = false → c.deepAll P = true := by
  induction ns with
  | nil => simp [deepAllList]
  | cons n ns ih =>
    simp only [deepAllList, Bool.and_eq_true, Bool.or_eq_true, ih, List.mem_cons, forall_eq_or_imp]
    constructor
    · rintro ⟨h1, h2⟩
      refine ⟨fun hn => ?_, h2⟩
      rcases h1 with h | h
      · rw [hn] at h; cases h
      · exact h
    · rintro ⟨h1, h2⟩
      refine ⟨?_, h2⟩
      cases hn : n.isAtomNode
      · exact Or.inr (h1 hn)
      · exact Or.inl rfl

theorem deepAllSlots_iff {P : Node → Bool} {ks : List (Str × Bool × List Node)} :
    deepAllSlots P ks = true ↔ ∀ f l ns, (f, l, ns) ∈ ks → deepAllList P ns = true := by
  induction ks with
  | nil => simp [deepAllSlots]
  | cons s ks ih =>
    obtain ⟨f', l', ns'⟩ := s
    simp only [deepAllSlots, Bool.and_eq_true, ih, List.mem_cons]
    constructor
    · rintro ⟨h1, h2⟩ f l ns (h | h)
      · cases h; exact h1
      · exact h2 f l ns h
    · intro h
      exact ⟨h f' l' ns' (Or.inl rfl), fun f l ns hm => h f l ns (Or.inr hm)⟩

theorem Node.deepAll_iff {P : Node → Bool} {n : Node} :
    n.deepAll P = true ↔ P n = true ∧ ∀ c, n.IsChild c → c.isAtomNode = false → c.deepAll P = true := by
  cases n with
  | mk k p a ks =>
    simp only [Node.deepAll, Bool.and_eq_true, deepAllSlots_iff, deepAllList_iff, Node.IsChild, Node.kids]
    constructor
    · rintro ⟨h1, h2⟩
      exact ⟨h1, fun c ⟨f, l, ns, hs, hc⟩ hat => h2 f l ns hs c hc hat⟩
    · rintro ⟨h1, h2⟩
      exact ⟨h1, fun f l ns hs c hc hat => h2 c ⟨f, l, ns, hs, hc⟩ hat⟩

theorem Node.deepAll_self {P : Node → Bool} {n : Node} (h : n.deepAll P = true) : P n = true :=
  (Node.deepAll_iff.mp h).1

theorem Node.deepAll_child {P : Node → Bool} {n c : Node} (h : n.deepAll P = true) (hc : n.IsChild c)
    (hat : c.isAtomNode = false) : c.deepAll P = true :=
  (Node.deepAll_iff.mp h).2 c hc hat

/-- weakening -/
theorem Node.deepAll_mono {P Q : Node → Bool} (hpq : ∀ m, P m = true → Q m = true) :
    ∀ (N : Nat) (n : Node), n.size ≤ N → n.deepAll P = true → n.deepAll Q = true := by
  intro N
  induction N with
  | zero => intro n hn; have := n.size_pos; omega
  | succ N ih =>
    intro n hn h
    obtain ⟨h1, h2⟩ := Node.deepAll_iff.mp h
    refine Node.deepAll_iff.mpr ⟨hpq n h1, fun c hc hat => ?_⟩
    have := hc.size_lt
    exact ih c (by omega) (h2 c hc hat)

/-- a deep fact of a node holds deeply on every node visited below it -/
theorem deepAll_visits {P : Node → Bool} : ∀ (N : Nat) (n : Node), n.size ≤ N → n.deepAll P = true →
    ∀ (anc : List Node) (v : Visit), v ∈ visitsBelow anc n → v.node.deepAll P = true := by
  intro N
  induction N with
  | zero => intro n hn; have := n.size_pos; omega
  | succ N ih =>
    intro n hn h anc v hv
    obtain ⟨c, sib, hch, hat, _, _, hcase⟩ := visit_step hv
    have hc := Node.deepAll_child h hch hat
    rcases hcase with rfl | hb
    · exact hc
    · have := hch.size_lt
      exact ih c (by omega) hc (n :: anc) v hb

/-- conversely: a fact of a node and of every node visited below it is a deep fact -/
theorem deepAll_of_visits {P : Node → Bool} : ∀ (N : Nat) (n : Node), n.size ≤ N → ∀ (anc : List Node),
    P n = true → (∀ v ∈ visitsBelow anc n, P v.node = true) → n.deepAll P = true := by
  intro N
  induction N with
  | zero => intro n hn; have := n.size_pos; omega
  | succ N ih =>
    intro n hn anc hP hall
    refine Node.deepAll_iff.mpr ⟨hP, fun c hc hat => ?_⟩
    obtain ⟨⟨sib, hcv⟩, hsub⟩ := child_visited (anc := anc) hc hat
    have := hc.size_lt
    exact ih c (by omega) (n :: anc) (hall _ hcv) (fun v hv => hall v (hsub v hv))

/-! ## the largest first line below a node (`calcLinerange`) -/

def hiO (o : Option (Nat × Nat)) : Nat := (o.map (·.2)).getD 0
/-- the upper end of `utils.calc_linerange(n)`, `0` when nothing below `n` is positioned -/
def Node.hi (n : Node) : Nat := hiO (calcLinerange n)

theorem hiO_merge_left (a b : Option (Nat × Nat)) : hiO a ≤ hiO (calcLinerange.merge a b) := by
  cases a with
  | none => simp [hiO]
  | some x =>
    cases b with
    | none => simp [calcLinerange.merge]
    | some y => simp only [calcLinerange.merge, hiO, Option.map_some, Option.getD_some]; omega

theorem hiO_merge_right (a b : Option (Nat × Nat)) : hiO b ≤ hiO (calcLinerange.merge a b) := by
  cases a with
  | none => simp [calcLinerange.merge]
  | some x =>
    cases b with
    | none => simp [hiO]
    | some y => simp only [calcLinerange.merge, hiO, Option.map_some, Option.getD_some]; omega

theorem hi_le_nodes {ns : List Node} {c : Node} (h : c ∈ ns) (hat : c.isAtomNode = false) :
    c.hi ≤ hiO (calcLinerange.nodes ns) := by
  induction ns with
  | nil => cases h
  | cons n ns ih =>
    simp only [calcLinerange.nodes]
    rcases List.mem_cons.mp h with rfl | h
    · simp only [hat, Bool.false_eq_true, if_false]
      exact hiO_merge_left _ _
    · exact Nat.le_trans (ih h) (hiO_merge_right _ _)

theorem nodes_le_slots {ks : List (Str × Bool × List Node)} {f : Str} {l : Bool} {ns : List Node}
    (h : (f, l, ns) ∈ ks) : hiO (calcLinerange.nodes ns) ≤ hiO (calcLinerange.slots ks) := by
  induction ks with
  | nil => cases h
  | cons s ks ih =>
    obtain ⟨f', l', ns'⟩ := s
    simp only [calcLinerange.slots]
    rcases List.mem_cons.mp h with h | h
    · cases h; exact hiO_merge_left _ _
    · exact Nat.le_trans (ih h) (hiO_merge_right _ _)

theorem Node.line_le_hi {n : Node} {q : Pos} (h : n.pos = some q) : q.line ≤ n.hi := by
  cases n with
  | mk k p a ks =>
    simp only [Node.pos] at h
    subst h
    simp only [Node.hi, calcLinerange, Option.map_some]
    exact Nat.le_trans (by simp [hiO]) (hiO_merge_left _ _)

theorem Node.IsChild.hi_le {n c : Node} (h : n.IsChild c) (hat : c.isAtomNode = false) : c.hi ≤ n.hi := by
  obtain ⟨f, l, ns, hs, hc⟩ := h
  cases n with
  | mk k p a ks =>
    simp only [Node.kids] at hs
    have h1 := hi_le_nodes hc hat
    have h2 := nodes_le_slots (ks := ks) hs
    have h3 : hiO (calcLinerange.slots ks) ≤ (Node.mk k p a ks).hi := by
      simp only [Node.hi, calcLinerange]; exact hiO_merge_right _ _
    omega

/-- the first line of a positioned node is at most `B` -/
def lineLe (B : Nat) (m : Node) : Bool :=
  match m.pos with
  | some q => decide (q.line ≤ B)
  | none => true

/-- no first line below `n` exceeds the upper end of its line range -/
theorem Node.deepAll_lineLe : ∀ (N : Nat) (n : Node), n.size ≤ N → ∀ B, n.hi ≤ B → n.deepAll (lineLe B) = true := by
  intro N
  induction N with
  | zero => intro n hn; have := n.size_pos; omega
  | succ N ih =>
    intro n hn B hB
    refine Node.deepAll_iff.mpr ⟨?_, fun c hc hat => ?_⟩
    · unfold lineLe
      cases hp : n.pos with
      | none => rfl
      | some q => have := Node.line_le_hi hp; simp only [decide_eq_true_eq]; omega
    · have := hc.size_lt
      have := hc.hi_le hat
      exact ih c (by omega) B (by omega)

/-! ## induction along `Node.para` -/

theorem mem_paraList {α : Type} {F : Node → List (Str × Bool × List (Node × α)) → α} {ns : List Node}
    {x : Node × α} (h : x ∈ paraList F ns) : ∃ c ∈ ns, x = (c, Node.para F c) := by
  induction ns with
  | nil => simp [paraList] at h
  | cons n ns ih =>
    simp only [paraList, List.mem_cons] at h
    rcases h with rfl | h
    · exact ⟨n, by simp, rfl⟩
    · obtain ⟨c, hc, e⟩ := ih h
      exact ⟨c, by simp [hc], e⟩

theorem mem_slotRes_paraSlots {α : Type} {F : Node → List (Str × Bool × List (Node × α)) → α}
    {ks : List (Str × Bool × List Node)} {f : String} {x : Node × α}
    (h : x ∈ slotRes (paraSlots F ks) f) : ∃ fl l ns, (fl, l, ns) ∈ ks ∧ ∃ c ∈ ns, x = (c, Node.para F c) := by
  induction ks with
  | nil => simp [paraSlots, slotRes] at h
  | cons s ks ih =>
    obtain ⟨fl, b, ns⟩ := s
    simp only [paraSlots, slotRes, List.find?_cons] at h
    by_cases hf : (fl == f.toList) = true
    · simp only [hf] at h
      obtain ⟨c, hc, e⟩ := mem_paraList h
      exact ⟨fl, b, ns, by simp, c, hc, e⟩
    · have hf' : (fl == f.toList) = false := by simpa using hf
      simp only [hf'] at h
      obtain ⟨fl', l', ns', hm, hx⟩ := ih (by simpa [slotRes] using h)
      exact ⟨fl', l', ns', by simp [hm], hx⟩

/-- to prove `Q n (Node.para F n)` for all `n` it is enough to prove `Q n (F n kids)` from `Q` on the
children's results -/
theorem para_ind {α : Type} (F : Node → List (Str × Bool × List (Node × α)) → α) (Q : Node → α → Prop)
    (hF : ∀ n kids, (∀ f x, x ∈ slotRes kids f → n.IsChild x.1 ∧ Q x.1 x.2) → Q n (F n kids)) :
    ∀ (N : Nat) (n : Node), n.size ≤ N → Q n (Node.para F n) := by
  intro N
  induction N with
  | zero => intro n hn; have := n.size_pos; omega
  | succ N ih =>
    intro n hn
    cases n with
    | mk k p a ks =>
      rw [Node.para]
      apply hF
      intro f x hx
      obtain ⟨fl, l, ns, hm, c, hc, rfl⟩ := mem_slotRes_paraSlots hx
      have hch : (Node.mk k p a ks).IsChild c := ⟨fl, l, ns, hm, hc⟩
      have := hch.size_lt
      exact ⟨hch, ih c (by omega)⟩

end Bandit

namespace Bandit.Plugins.DjangoXss
open Bandit

/-! ## `DeepAssignation.is_assigned` never raises -/

theorem assignedIn_total : ∀ (l : List (Node × M Asg)), (∀ x ∈ l, ∃ a, x.2 = .ok a) → ∃ r, assignedIn l = .ok r
  | [], _ => ⟨_, rfl⟩
  | (c, r) :: rest, h => by
    obtain ⟨a, ha⟩ := h (c, r) (by simp)
    obtain ⟨more, hm⟩ := assignedIn_total rest (fun x hx => h x (by simp [hx]))
    simp only [] at ha
    simp only [assignedIn, ha, hm, bind, Except.bind, pure, Except.pure]
    cases a <;> exact ⟨_, rfl⟩

theorem tupleTarget_total (var : Str) (vs : List Node) : ∀ (ts : List Node) (pos : Nat),
    ∃ a, tupleTarget var vs ts pos = .ok a
  | [], _ => ⟨_, rfl⟩
  | t :: ts, pos => by
    obtain ⟨a, ha⟩ := tupleTarget_total var vs ts (pos + 1)
    simp only [tupleTarget]
    split
    · split
      · exact ⟨_, rfl⟩
      · exact ⟨a, ha⟩
    · exact ⟨a, ha⟩

theorem isAssigned_total (var : Str) (n : Node) : ∃ a, isAssigned var n = .ok a := by
  unfold isAssigned
  refine para_ind _ (fun (_ : Node) (r : M Asg) => ∃ a, r = Except.ok a) ?_ n.size n (Nat.le_refl _)
  intro n kids hk
  have hin : ∀ f, ∃ r, assignedIn (slotRes kids f) = .ok r :=
    fun f => assignedIn_total _ (fun x hx => (hk f x hx).2)
  obtain ⟨r1, h1⟩ := hin "body"
  obtain ⟨r2, h2⟩ := hin "handlers"
  obtain ⟨r3, h3⟩ := hin "orelse"
  obtain ⟨r4, h4⟩ := hin "finalbody"
  by_cases k1 : n.isKind "Expr" = true
  · simp only [k1, if_true]
    split
    · rename_i x r hh
      exact (hk "value" _ (List.mem_of_mem_head? hh)).2
    · exact ⟨_, rfl⟩
  simp only [k1, Bool.false_eq_true, if_false]
  by_cases k2 : n.isKind "FunctionDef" = true
  · simp only [k2, if_true, h1, bind, Except.bind, pure, Except.pure]; exact ⟨_, rfl⟩
  simp only [k2, Bool.false_eq_true, if_false]
  by_cases k3 : n.isKind "With" = true
  · simp only [k3, if_true, h1, bind, Except.bind, pure, Except.pure]
    ok_split
  simp only [k3, Bool.false_eq_true, if_false]
  by_cases k4 : n.isKind "Try" = true
  · simp only [k4, if_true, h1, h2, h3, h4, bind, Except.bind, pure, Except.pure]; exact ⟨_, rfl⟩
  simp only [k4, Bool.false_eq_true, if_false]
  by_cases k5 : n.isKind "ExceptHandler" = true
  · simp only [k5, if_true, h1, bind, Except.bind, pure, Except.pure]; exact ⟨_, rfl⟩
  simp only [k5, Bool.false_eq_true, if_false]
  by_cases k6 : (n.isKind "If" || n.isKind "For" || n.isKind "While") = true
  · simp only [k6, if_true, h1, h3, bind, Except.bind, pure, Except.pure]; exact ⟨_, rfl⟩
  simp only [k6, Bool.false_eq_true, if_false]
  by_cases k7 : n.isKind "AugAssign" = true
  · simp only [k7, if_true, pure, Except.pure]
    ok_split
  simp only [k7, Bool.false_eq_true, if_false]
  by_cases k8 : n.isKind "Assign" = true
  · simp only [k8, if_true, pure, Except.pure]
    repeat' split
    all_goals first | exact ⟨_, rfl⟩ | exact tupleTarget_total _ _ _ _
  simp only [k8, Bool.false_eq_true, if_false]
  exact ⟨_, rfl⟩

/-! ## the invariant of `info`: every variable reference carries a line, bounded by `B` -/

def ItemOK (B : Nat) : Item → Prop
  | .bad => True
  | .ref _ (some l) => l ≤ B
  | .ref _ none => False

def ItemsOK (B : Nat) (its : List Item) : Prop := ∀ it ∈ its, ItemOK B it

def PreOK (B : Nat) : Pre → Prop
  | .done its => ItemsOK B its
  | _ => True

def LevelsOK (B : Nat) (ls : List (List Pre)) : Prop := ∀ lv ∈ ls, ∀ p ∈ lv, PreOK B p

theorem merge_ok {B : Nat} : ∀ (xs ys : List (List Pre)), LevelsOK B xs → LevelsOK B ys →
    LevelsOK B (zipLevels.merge xs ys)
  | [], ys, _, hy => by simpa [zipLevels.merge] using hy
  | x :: xs, [], hx, _ => by simpa [zipLevels.merge] using hx
  | x :: xs, y :: ys, hx, hy => by
    simp only [zipLevels.merge]
    intro lv hlv p hp
    rcases List.mem_cons.mp hlv with rfl | hlv
    · rcases List.mem_append.mp hp with h | h
      · exact hx x (by simp) p h
      · exact hy y (by simp) p h
    · exact merge_ok xs ys (fun lv h => hx lv (by simp [h])) (fun lv h => hy lv (by simp [h])) lv hlv p hp

theorem zipLevels_ok {B : Nat} : ∀ (ls : List (List (List Pre))), (∀ l ∈ ls, LevelsOK B l) → LevelsOK B (zipLevels ls)
  | [], _ => by intro lv h; simp [zipLevels] at h
  | l :: ls, h => by
    simp only [zipLevels]
    exact merge_ok l _ (h l (by simp)) (zipLevels_ok ls (fun l' h' => h l' (by simp [h'])))

theorem itemsOfArgs_ok {B l : Nat} (hl : l ≤ B) {args : List (List (List Pre))} (h : ∀ a ∈ args, LevelsOK B a) :
    ItemsOK B (itemsOfArgs (some l) args) := by
  intro it hit
  simp only [itemsOfArgs, List.mem_flatMap, List.mem_flatten] at hit
  obtain ⟨p, ⟨lv, hlv, hp⟩, hit⟩ := hit
  have hpre := zipLevels_ok args h lv hlv p hp
  cases p with
  | name i =>
    simp only [resolvePre, List.mem_singleton] at hit
    subst hit; exact hl
  | done its => exact hpre it hit
  | bad =>
    simp only [resolvePre, List.mem_singleton] at hit
    subst hit; trivial

/-- `Call` and `BinOp` nodes are positioned, on a line `≤ B` -/
def exprP (B : Nat) (m : Node) : Bool :=
  !(m.isKind "Call" || m.isKind "BinOp") ||
    (match m.pos with
     | some q => decide (q.line ≤ B)
     | none => false)

theorem exprP_line {B : Nat} {m : Node} (h : exprP B m = true) (hk : (m.isKind "Call" || m.isKind "BinOp") = true) :
    ∃ l, m.line? = some l ∧ l ≤ B := by
  unfold exprP at h
  simp only [hk, Bool.not_true, Bool.false_or] at h
  cases hp : m.pos with
  | none => simp [hp] at h
  | some q =>
    simp only [hp, decide_eq_true_eq] at h
    exact ⟨q.line, by simp [Node.line?, hp], h⟩

theorem atom_isKind {n : Node} (h : n.isAtomNode = true) (k : String) (hk : ("#atom".toList == k.toList) = false) :
    n.isKind k = false := by
  simp only [Node.isAtomNode, beq_iff_eq] at h
  simp only [Node.isKind, h, hk]

theorem atom_of_isKind {n : Node} {k : String} (h : n.isKind k = true) (hk : ("#atom".toList == k.toList) = false) :
    n.isAtomNode = false := by
  cases hat : n.isAtomNode
  · rfl
  · rw [atom_isKind hat k hk] at h; cases h

/-- what the bottom-up pass knows about a node that is a pseudo-node or satisfies `exprP B` deeply -/
def InfoOK (B : Nat) (n : Node) (r : Info) : Prop :=
  (n.isAtomNode = true ∨ n.deepAll (exprP B) = true) →
    ItemsOK B r.asCall ∧ LevelsOK B r.asArg ∧ (n.isAtomNode = false → ∀ a ∈ r.eltArgs, LevelsOK B a)

theorem levels_bad (B : Nat) : LevelsOK B [[Pre.bad]] := by
  intro lv hlv p hp
  simp only [List.mem_singleton] at hlv
  subst hlv
  simp only [List.mem_singleton] at hp
  subst hp; trivial

theorem info_inv (B : Nat) (n : Node) : InfoOK B n (info n) := by
  unfold info
  refine para_ind _ (InfoOK B) ?_ n.size n (Nat.le_refl _)
  intro n kids hk hn
  by_cases hat : n.isAtomNode = true
  · -- a pseudo-node is none of the kinds looked at
    have e1 : isLiteralFormat n = false := by
      simp only [isLiteralFormat, atom_isKind hat "Call" (by decide), Bool.false_and]
    have e2 : n.isStrConst = false := by
      simp only [Node.isStrConst, Node.constValue?, atom_isKind hat "Constant" (by decide), Bool.false_eq_true, if_false]
    have e3 : n.nameId? = none := by
      simp only [Node.nameId?, atom_isKind hat "Name" (by decide), Bool.false_eq_true, if_false]
    simp only [e1, e2, e3, atom_isKind hat "Call" (by decide), atom_isKind hat "Starred" (by decide),
      Bool.false_eq_true, if_false]
    refine ⟨?_, levels_bad B, fun h => by rw [hat] at h; cases h⟩
    intro it hit
    simp only [List.mem_singleton] at hit
    subst hit; trivial
  · have hat' : n.isAtomNode = false := by simpa using hat
    have hdeep : n.deepAll (exprP B) = true := by
      rcases hn with h | h
      · exact absurd h hat
      · exact h
    -- the children's results
    have hkid : ∀ f x, x ∈ slotRes kids f →
        ItemsOK B x.2.asCall ∧ LevelsOK B x.2.asArg ∧ (x.1.isAtomNode = false → ∀ a ∈ x.2.eltArgs, LevelsOK B a) := by
      intro f x hx
      obtain ⟨hch, hq⟩ := hk f x hx
      apply hq
      cases hxa : x.1.isAtomNode
      · exact Or.inr (Node.deepAll_child hdeep hch hxa)
      · exact Or.inl rfl
    have hargs : ∀ f, ∀ a ∈ (slotRes kids f).map (·.2.asArg), LevelsOK B a := by
      intro f a ha
      obtain ⟨x, hx, rfl⟩ := List.mem_map.mp ha
      exact (hkid f x hx).2.1
    have hcall : ItemsOK B (if isLiteralFormat n then itemsOfArgs n.line? ((slotRes kids "args").map (·.2.asArg))
        else [Item.bad]) := by
      by_cases hlf : isLiteralFormat n = true
      · have hkc : n.isKind "Call" = true := by
          simp only [isLiteralFormat, Bool.and_eq_true] at hlf; exact hlf.1.1
        obtain ⟨l, hl, hlB⟩ := exprP_line (Node.deepAll_self hdeep) (by rw [hkc]; rfl)
        simp only [hlf, if_true, hl]
        exact itemsOfArgs_ok hlB (hargs "args")
      · simp only [hlf, Bool.false_eq_true, if_false]
        intro it hit
        simp only [List.mem_singleton] at hit
        subst hit; trivial
    refine ⟨hcall, ?_, fun _ => hargs "elts"⟩
    -- `asArg`
    simp only []
    split
    · intro lv hlv; cases hlv
    · split
      · intro lv hlv p hp
        simp only [List.mem_singleton] at hlv
        subst hlv
        simp only [List.mem_singleton] at hp
        subst hp; trivial
      · split
        · intro lv hlv p hp
          simp only [List.mem_singleton] at hlv
          subst hlv
          simp only [List.mem_singleton] at hp
          subst hp
          exact hcall
        · split
          · split
            · rename_i v vi hh
              split
              · rename_i hvk
                have hva : v.isAtomNode = false := by
                  rcases Bool.or_eq_true _ _ |>.mp hvk with h | h
                  · exact atom_of_isKind h (by decide)
                  · exact atom_of_isKind h (by decide)
                have hv := (hkid "value" (v, vi) (List.mem_of_mem_head? hh)).2.2 hva
                intro lv hlv p hp
                rcases List.mem_cons.mp hlv with rfl | hlv
                · cases hp
                · exact zipLevels_ok _ hv lv hlv p hp
              · exact levels_bad B
            · exact levels_bad B
          · exact levels_bad B

theorem info_ok {B : Nat} {n : Node} (h : n.isAtomNode = true ∨ n.deepAll (exprP B) = true) :
    ItemsOK B (info n).asCall ∧ LevelsOK B (info n).asArg :=
  ⟨(info_inv B n h).1, (info_inv B n h).2.1⟩

/-! ## no Python exception in the data-flow walk -/

def NoCrash {α : Type} (x : X α) : Prop := ∀ c, x ≠ .error (.crash c)

theorem ok_of_noCrash_noDiverge {α : Type} {x : X α} (h1 : NoCrash x) (h2 : x ≠ .error .diverge) :
    ∃ a, x = .ok a := by
  cases x with
  | ok a => exact ⟨a, rfl⟩
  | error e =>
    cases e with
    | crash c => exact absurd rfl (h1 c)
    | diverge => exact absurd rfl h2

theorem evalItems_noCrash {r : Str → Nat → X Bool} (hr : ∀ i l, NoCrash (r i l)) :
    ∀ its, (∀ it ∈ its, ∀ i, it ≠ Item.ref i none) → NoCrash (evalItems r its) := by
  intro its
  induction its with
  | nil => intro _ c h; cases h
  | cons it rest ih =>
    intro hl
    have hrest := ih (fun it' hm => hl it' (by simp [hm]))
    match it with
    | .bad => intro c h; cases h
    | .ref i none => exact absurd rfl (hl _ (by simp) i)
    | .ref i (some l) =>
      simp only [evalItems]
      cases hx : r i l with
      | error e =>
        intro c h
        have : e = .crash c := by simpa [bind, Except.bind] using h
        exact hr i l c (by rw [hx, this])
      | ok b =>
        cases b with
        | true => simpa [bind, Except.bind] using hrest
        | false => intro c h; cases h

theorem evalMany_noCrash {r : Str → Nat → X Bool} (hr : ∀ i l, NoCrash (r i l)) (line : Nat) :
    ∀ ts, NoCrash (evalMany r line ts) := by
  intro ts
  induction ts with
  | nil => intro c h; cases h
  | cons t ts ih =>
    simp only [evalMany]
    split
    · exact ih
    · split
      · rename_i i _
        cases hx : r i line with
        | error e =>
          intro c h
          have : e = .crash c := by simpa [bind, Except.bind] using h
          exact hr i line c (by rw [hx, this])
        | ok b =>
          cases b with
          | true => simpa [bind, Except.bind] using ih
          | false => intro c h; cases h
      · intro c h; cases h

theorem retill_no_none {ln : Nat} {its : List Item} : ∀ it ∈ its.map (retill ln), ∀ i, it ≠ Item.ref i none := by
  intro it hit i e
  obtain ⟨it', _, h⟩ := List.mem_map.mp hit
  subst e
  cases it' <;> simp [retill] at h

theorem scanBody_noCrash {r : Str → Nat → X Bool} {var : Str} {till : Nat} (hr : ∀ i l, NoCrash (r i l)) :
    ∀ body secure, (∀ s ∈ body, s.line?.isSome = true) → NoCrash (scanBody r var till body secure) := by
  intro body
  induction body with
  | nil => intro _ _ c h; cases h
  | cons node rest ih =>
    intro secure hb
    have ih' := fun s => ih s (fun x hx => hb x (by simp [hx]))
    obtain ⟨ln, hln⟩ := Option.isSome_iff_exists.mp (hb node (by simp))
    obtain ⟨to, hto⟩ := isAssigned_total var node
    unfold scanBody
    simp only [hln, hto, liftX, bind, Except.bind]
    split
    · intro c h; cases h
    · cases to with
      | no => exact ih' _
      | one t =>
        simp only
        split
        · exact ih' _
        · split
          · rename_i i hi
            cases hx : r i ln with
            | error e =>
              intro c h
              have : e = .crash c := by simpa using h
              exact hr i ln c (by rw [hx, this])
            | ok b => simpa using ih' b
          · split
            · have h1 := evalItems_noCrash hr ((info t).asCall.map (retill ln)) retill_no_none
              cases hx : evalItems r ((info t).asCall.map (retill ln)) with
              | error e =>
                intro c h
                have : e = .crash c := by simpa using h
                exact h1 c (by rw [hx, this])
              | ok b => simpa using ih' b
            · intro c h; cases h
      | many ts =>
        simp only
        split
        · exact ih' _
        · have h1 := evalMany_noCrash hr ln ts
          cases hx : evalMany r ln ts with
          | error e =>
            intro c h
            have : e = .crash c := by simpa using h
            exact h1 c (by rw [hx, this])
          | ok b =>
            cases b with
            | true => simpa using ih' true
            | false => intro c h; cases h

/-- `evaluate_var` raises nothing when the statements of the scope are positioned -/
theorem evalVar_noCrash (parent : Node) (hb : ∀ s ∈ parent.kidList "body", s.line?.isSome = true) :
    ∀ n var till, NoCrash (evalVar n parent var till) := by
  intro n
  induction n with
  | zero => intro var till c h; cases h
  | succ n ih =>
    intro var till
    show NoCrash (evalVarStep (evalVar n parent) parent var till)
    unfold evalVarStep
    split
    · intro c h; cases h
    · exact scanBody_noCrash (fun i l => ih i l) _ _ hb

theorem itemsOK_no_none {B : Nat} {its : List Item} (h : ItemsOK B its) : ∀ it ∈ its, ∀ i, it ≠ Item.ref i none := by
  intro it hit i e
  subst e
  exact h _ hit

theorem itemsOK_lt {B fuel : Nat} {its : List Item} (h : ItemsOK B its) (hB : B < fuel) :
    ∀ i l, Item.ref i (some l) ∈ its → l < fuel := by
  intro i l hm
  have : l ≤ B := h _ hm
  omega

/-- the items are evaluated to an answer: no exception, and the budget is enough -/
theorem evalItems_total {B fuel : Nat} (parent : Node) (hb : ∀ s ∈ parent.kidList "body", s.line?.isSome = true)
    {its : List Item} (h : ItemsOK B its) (hB : B < fuel) : ∃ b, evalItems (evalVar fuel parent) its = .ok b :=
  ok_of_noCrash_noDiverge
    (evalItems_noCrash (fun i l => evalVar_noCrash parent hb fuel i l) its (itemsOK_no_none h))
    (evalItems_no_diverge (till := fuel) (fun i l hl => evalVar_terminates parent l fuel i hl) its (itemsOK_lt h hB))

theorem modArgs_binop {x : Node} {args : List Node} (h : modArgs x = some args) : x.isKind "BinOp" = true := by
  unfold modArgs at h
  split at h
  · rename_i hc
    simp only [Bool.and_eq_true] at hc
    exact hc.1.1
  · cases h

theorem modArgs_args {B : Nat} {x : Node} {args : List Node} (h : modArgs x = some args)
    (hx : x.deepAll (exprP B) = true) : ∀ a ∈ args, a.isAtomNode = true ∨ a.deepAll (exprP B) = true := by
  unfold modArgs at h
  split at h
  · cases hr : x.kid? "right" with
    | none => simp [hr] at h
    | some r =>
      simp only [hr, Option.some.injEq] at h
      have hrc := Node.kid?_isChild hr
      by_cases hra : r.isAtomNode = true
      · have : r.isKind "Tuple" = false := atom_isKind hra "Tuple" (by decide)
        simp only [this, Bool.false_eq_true, if_false] at h
        subst h
        intro a ha
        simp only [List.mem_singleton] at ha
        subst ha; exact Or.inl hra
      · have hra' : r.isAtomNode = false := by simpa using hra
        have hrd := Node.deepAll_child hx hrc hra'
        split at h
        · subst h
          intro a ha
          cases haa : a.isAtomNode
          · exact Or.inr (Node.deepAll_child hrd (Node.kidList_isChild ha) haa)
          · exact Or.inl rfl
        · subst h
          intro a ha
          simp only [List.mem_singleton] at ha
          subst ha; exact Or.inr hrd
  · cases h

/-- `check_risk` answers: the enclosing scope exists and its statements are positioned, the call is
on line `l`, `Call`/`BinOp` nodes of the argument are positioned on lines `≤ B`, and the budget
exceeds `l` and `B` -/
theorem secureArg_total {B fuel l : Nat} {anc : List Node} {x p : Node}
    (hp : enclosing anc = some p) (hb : ∀ s ∈ p.kidList "body", s.line?.isSome = true)
    (hl : l < fuel) (hB : B < fuel) (hx : x.isAtomNode = true ∨ x.deepAll (exprP B) = true) :
    ∃ b, secureArg fuel anc (some l) x = .ok b := by
  unfold secureArg
  simp only [hp]
  split
  · rename_i i hi
    split
    · exact ⟨_, rfl⟩
    · exact ok_of_noCrash_noDiverge (evalVar_noCrash p hb fuel i l) (evalVar_terminates p l fuel i hl)
  · split
    · exact evalItems_total p hb (info_ok hx).1 hB
    · split
      · rename_i args hm
        have hxk := modArgs_binop hm
        have hxd : x.deepAll (exprP B) = true := by
          rcases hx with h | h
          · rw [atom_isKind h "BinOp" (by decide)] at hxk; cases hxk
          · exact h
        obtain ⟨lx, hlx, hlB⟩ := exprP_line (Node.deepAll_self hxd) (by rw [hxk]; exact Bool.or_true _)
        rw [hlx]
        refine evalItems_total p hb (itemsOfArgs_ok hlB ?_) hB
        intro a ha
        obtain ⟨a', ha', rfl⟩ := List.mem_map.mp ha
        exact (info_ok (modArgs_args hm hxd a' ha')).2
      · exact ⟨_, rfl⟩

/-- whatever the budget: `check_risk` raises no Python exception (running out of budget is the only way not to answer) -/
theorem secureArg_noCrash {B fuel l : Nat} {anc : List Node} {x p : Node}
    (hp : enclosing anc = some p) (hb : ∀ s ∈ p.kidList "body", s.line?.isSome = true)
    (hx : x.isAtomNode = true ∨ x.deepAll (exprP B) = true) :
    NoCrash (secureArg fuel anc (some l) x) := by
  have hev := fun i l => evalVar_noCrash p hb fuel i l
  unfold secureArg
  simp only [hp]
  split
  · rename_i i hi
    split
    · intro c h; cases h
    · exact hev i l
  · split
    · exact evalItems_noCrash hev _ (itemsOK_no_none (info_ok hx).1)
    · split
      · rename_i args hm
        have hxk := modArgs_binop hm
        have hxd : x.deepAll (exprP B) = true := by
          rcases hx with h | h
          · rw [atom_isKind h "BinOp" (by decide)] at hxk; cases hxk
          · exact h
        obtain ⟨lx, hlx, hlB⟩ := exprP_line (Node.deepAll_self hxd) (by rw [hxk]; exact Bool.or_true _)
        rw [hlx]
        refine evalItems_noCrash hev _ (itemsOK_no_none (itemsOfArgs_ok hlB ?_))
        intro a ha
        obtain ⟨a', ha', rfl⟩ := List.mem_map.mp ha
        exact (info_ok (modArgs_args hm hxd a' ha')).2
      · intro c h; cases h

theorem asCall?_kind {n : Node} {c : CallView} (h : n.asCall? = some c) :
    n.isKind "Call" = true ∧ c.args = n.kidList "args" := by
  unfold Node.asCall? at h
  split at h
  · rename_i hk
    split at h
    · simp only [Option.some.injEq] at h
      subst h; exact ⟨hk, rfl⟩
    · cases h
  · cases h

/-- **B703 returns** (any budget function that exceeds `B`): the visited node is a call, the
enclosing `Module`/`FunctionDef` exists and its statements are positioned, and `Call`/`BinOp` nodes
at and below the call are positioned on lines `≤ B` -/
theorem b703With_total (T : InjTables) (fuel : Env → Nat) (e : Env) (c : CallView) (B : Nat) (p : Node)
    (hc : e.call? = some c) (hp : enclosing e.v.anc = some p)
    (hb : ∀ s ∈ p.kidList "body", s.line?.isSome = true)
    (hd : e.node.deepAll (exprP B) = true) (hB : B < fuel e) :
    ∃ r, b703With T fuel e = .ok r := by
  obtain ⟨hk, hargs⟩ := asCall?_kind hc
  obtain ⟨l, hl, hlB⟩ := exprP_line (Node.deepAll_self hd) (by show (e.v.node.isKind "Call" || _) = true; rw [hk]; rfl)
  unfold b703With
  simp only [hc, bind, Except.bind, pure, Except.pure]
  split
  · split
    · cases hca : c.args with
      | nil => exact ⟨_, rfl⟩
      | cons x rest =>
        simp only []
        split
        · exact ⟨_, rfl⟩
        · have hxm : x ∈ e.node.kidList "args" := by
            show x ∈ e.v.node.kidList "args"
            rw [← hargs, hca]; simp
          have hxc := Node.kidList_isChild hxm
          have hx : x.isAtomNode = true ∨ x.deepAll (exprP B) = true := by
            cases hxa : x.isAtomNode
            · exact Or.inr (Node.deepAll_child hd hxc hxa)
            · exact Or.inl rfl
          obtain ⟨b, hb'⟩ := secureArg_total (fuel := fuel e) (l := l) hp hb (by omega) hB hx
          rw [hl, hb']
          cases b <;> exact ⟨_, rfl⟩
    · exact ⟨_, rfl⟩
  · exact ⟨_, rfl⟩

/-- **with any budget, the only way B703 can fail is the budget running out** (`Crash.other`, the
model's `RecursionError`): same hypotheses as `b703With_total` without the bound on the budget -/
theorem b703With_ok_or_recursion (T : InjTables) (fuel : Env → Nat) (e : Env) (c : CallView) (B : Nat) (p : Node)
    (hc : e.call? = some c) (hp : enclosing e.v.anc = some p)
    (hb : ∀ s ∈ p.kidList "body", s.line?.isSome = true)
    (hd : e.node.deepAll (exprP B) = true) :
    (∃ r, b703With T fuel e = .ok r) ∨ b703With T fuel e = .error .other := by
  obtain ⟨hk, hargs⟩ := asCall?_kind hc
  obtain ⟨l, hl, hlB⟩ := exprP_line (Node.deepAll_self hd) (by show (e.v.node.isKind "Call" || _) = true; rw [hk]; rfl)
  unfold b703With
  simp only [hc, bind, Except.bind, pure, Except.pure]
  split
  · split
    · cases hca : c.args with
      | nil => exact Or.inl ⟨_, rfl⟩
      | cons x rest =>
        simp only []
        split
        · exact Or.inl ⟨_, rfl⟩
        · have hxm : x ∈ e.node.kidList "args" := by
            show x ∈ e.v.node.kidList "args"
            rw [← hargs, hca]; simp
          have hxc := Node.kidList_isChild hxm
          have hx : x.isAtomNode = true ∨ x.deepAll (exprP B) = true := by
            cases hxa : x.isAtomNode
            · exact Or.inr (Node.deepAll_child hd hxc hxa)
            · exact Or.inl rfl
          have hnc := secureArg_noCrash (fuel := fuel e) (l := l) hp hb hx
          rw [hl]
          cases hs : secureArg (fuel e) e.v.anc (some l) x with
          | ok b => cases b <;> exact Or.inl ⟨_, rfl⟩
          | error er =>
            cases er with
            | crash cr => exact absurd hs (hnc cr)
            | diverge => exact Or.inr rfl
    · exact Or.inl ⟨_, rfl⟩
  · exact Or.inl ⟨_, rfl⟩

end Bandit.Plugins.DjangoXss

namespace Bandit
open Plugins Plugins.DjangoXss

/-! ## The CPython shape facts (`TreeShapeOK`) and the configuration facts (`configOK`) -/

/-- kinds that always carry `lineno`/`col_offset` (statements, expressions, handlers) — the ones
some check is run on or that B703 reads a line from -/
def positionedKinds : List Str :=
  ["Call", "BinOp", "Constant", "FunctionDef", "ExceptHandler", "Assert", "Import", "ImportFrom"].map String.toList

/-- check types of bandit that are not AST classes of CPython ≥ 3.8 (`ast.parse` never produces
`ast.Str`; `File` is bandit's pseudo-node) -/
def pseudoKinds : List Str := ["Str", "File"].map String.toList

/-- the fields and positions CPython guarantees for a node of this kind -/
def nodeOK (n : Node) : Bool :=
  (!positionedKinds.contains n.kind || n.pos.isSome) &&
  !pseudoKinds.contains n.kind &&
  (!n.isKind "Call" || (n.kid? "func").isSome) &&
  (!n.isKind "FunctionDef" || (n.kid? "args").isSome) &&
  (!n.isKind "Compare" || ((n.kid? "left").isSome && (n.kidList "comparators").head?.isSome)) &&
  (!(n.isKind "FunctionDef" || n.isKind "Module") || (n.kidList "body").all (fun s => s.pos.isSome))

/-- … and for a visited node in its place: an `Attribute` (an expression) is never a direct child of a `Module` -/
def visitOK (v : Visit) : Bool :=
  nodeOK v.node && (!v.node.isKind "Attribute" || !((v.parent?.map (fun p => p.isKind "Module")).getD false))

/-- the root is a `Module` and every visited node has the shape CPython gives it -/
def treeShapeOK (root : Node) : Bool := root.isKind "Module" && nodeOK root && (visits root).all visitOK

def TreeShapeOK (root : Node) : Prop := treeShapeOK root = true

instance (root : Node) : Decidable (TreeShapeOK root) := inferInstanceAs (Decidable (treeShapeOK root = true))

theorem isKind_unique {n : Node} {a b : String} (ha : n.isKind a = true) (hab : (a.toList == b.toList) = false) :
    n.isKind b = false := by
  simp only [Node.isKind, beq_iff_eq] at ha
  simp only [Node.isKind, ha, hab]

structure NodeFacts (n : Node) : Prop where
  pos : positionedKinds.contains n.kind = true → n.pos.isSome = true
  notPseudo : pseudoKinds.contains n.kind = false
  func : n.isKind "Call" = true → (n.kid? "func").isSome = true
  args : n.isKind "FunctionDef" = true → (n.kid? "args").isSome = true
  cmp : n.isKind "Compare" = true → (n.kid? "left").isSome = true ∧ (n.kidList "comparators").head?.isSome = true
  body : (n.isKind "FunctionDef" || n.isKind "Module") = true → ∀ s ∈ n.kidList "body", s.line?.isSome = true

theorem nodeFacts_of_nodeOK {n : Node} (h : nodeOK n = true) : NodeFacts n := by
  simp only [nodeOK, Bool.and_eq_true, Bool.or_eq_true, Bool.not_eq_true', List.all_eq_true] at h
  obtain ⟨⟨⟨⟨⟨h1, h2⟩, h3⟩, h4⟩, h5⟩, h6⟩ := h
  refine ⟨fun hk => ?_, h2, fun hk => ?_, fun hk => ?_, fun hk => ?_, fun hk s hs => ?_⟩
  · rcases h1 with h | h
    · rw [hk] at h; cases h
    · exact h
  · rcases h3 with h | h
    · rw [hk] at h; cases h
    · exact h
  · rcases h4 with h | h
    · rw [hk] at h; cases h
    · exact h
  · rcases h5 with h | h
    · rw [hk] at h; cases h
    · exact h
  · rcases h6 with h | h
    · have : (n.isKind "FunctionDef" || n.isKind "Module") = false := by
        cases h1 : n.isKind "FunctionDef" <;> cases h2 : n.isKind "Module" <;> simp_all
      rw [this] at hk; cases hk
    · have := h s hs
      simpa [Node.line?] using this

section Shape
variable {root : Node} (hwf : TreeShapeOK root)
include hwf

theorem shape_root : root.isKind "Module" = true ∧ NodeFacts root := by
  simp only [TreeShapeOK, treeShapeOK, Bool.and_eq_true] at hwf
  exact ⟨hwf.1.1, nodeFacts_of_nodeOK hwf.1.2⟩

theorem shape_visit {v : Visit} (hv : v ∈ visits root) :
    NodeFacts v.node ∧ (v.node.isKind "Attribute" = true → ∀ p, v.parent? = some p → p.isKind "Module" = false) := by
  simp only [TreeShapeOK, treeShapeOK, Bool.and_eq_true, List.all_eq_true] at hwf
  have h := hwf.2 v hv
  simp only [visitOK, Bool.and_eq_true, Bool.or_eq_true, Bool.not_eq_true'] at h
  refine ⟨nodeFacts_of_nodeOK h.1, fun hk p hp => ?_⟩
  rcases h.2 with h' | h'
  · rw [hk] at h'; cases h'
  · simpa [hp] using h'

omit hwf in
/-- every ancestor of a visited node is the root or a visited node -/
theorem anc_visited_or_root : ∀ (L : Nat) (v : Visit), v ∈ visits root → v.anc.length ≤ L →
    ∀ a ∈ v.anc, a = root ∨ ∃ w ∈ visits root, w.node = a := by
  intro L
  induction L with
  | zero =>
    intro v _ hl a ha
    have : v.anc = [] := List.eq_nil_of_length_eq_zero (by omega)
    rw [this] at ha; cases ha
  | succ L ih =>
    intro v hv hl a ha
    rcases visits_parent_cases hv with h | ⟨w, hw, h⟩
    · rw [h] at ha
      simp only [List.mem_singleton] at ha
      exact Or.inl ha
    · rw [h] at ha hl
      rcases List.mem_cons.mp ha with rfl | ha'
      · exact Or.inr ⟨w, hw, rfl⟩
      · simp only [List.length_cons] at hl
        exact ih w hw (by omega) a ha'

theorem shape_anc {v : Visit} (hv : v ∈ visits root) {a : Node} (ha : a ∈ v.anc) : NodeFacts a := by
  rcases anc_visited_or_root _ v hv (Nat.le_refl _) a ha with rfl | ⟨w, hw, rfl⟩
  · exact (shape_root hwf).2
  · exact (shape_visit hwf hw).1

end Shape

/-! ### what the `Str` checks need -/

structure StrFacts (v : Visit) : Prop where
  str : ∃ s, v.node.strConst? = some s
  par : ∃ p, v.parent? = some p
  sub : ∀ p, v.parent? = some p → p.isKind "Subscript" = true → v.grandparent?.isSome = true
  cmp : ∀ p, v.parent? = some p → p.isKind "Compare" = true →
    (p.kid? "left").isSome = true ∧ (p.kidList "comparators").head?.isSome = true
  attr : ∀ p, v.parent? = some p → p.isKind "Attribute" = true → (v.anc[2]?).isSome = true
  join : ∀ p, v.parent? = some p → p.isKind "JoinedStr" = true → (v.anc[1]?).isSome = true

theorem visit_anc_ne_nil {root : Node} {v : Visit} (hv : v ∈ visits root) : v.anc ≠ [] := by
  rcases visits_parent_cases hv with h | ⟨w, _, h⟩ <;> (rw [h]; exact List.cons_ne_nil _ _)

theorem strFacts_of_shape {root : Node} (hwf : TreeShapeOK root) {v : Visit} (hv : v ∈ visits root)
    (hs : v.node.isStrConst = true) : StrFacts v := by
  have hstr : ∃ s, v.node.strConst? = some s := by
    unfold Node.isStrConst at hs
    unfold Node.strConst?
    split at hs
    · rename_i s h; exact ⟨s, by simp [h]⟩
    · cases hs
  have hmod := (shape_root hwf).1
  rcases visits_parent_cases hv with h | ⟨w, hw, h⟩
  · -- the parent is the module
    have hp : v.parent? = some root := by simp [Visit.parent?, h]
    refine ⟨hstr, ⟨root, hp⟩, ?_, ?_, ?_, ?_⟩ <;> intro p hp' hk <;>
      (rw [hp] at hp'; cases hp')
    · rw [isKind_unique hmod (b := "Subscript") (by decide)] at hk; cases hk
    · rw [isKind_unique hmod (b := "Compare") (by decide)] at hk; cases hk
    · rw [isKind_unique hmod (b := "Attribute") (by decide)] at hk; cases hk
    · rw [isKind_unique hmod (b := "JoinedStr") (by decide)] at hk; cases hk
  · have hp : v.parent? = some w.node := by simp [Visit.parent?, h]
    have hwne := visit_anc_ne_nil hw
    have h1 : (v.anc[1]?).isSome = true := by
      rw [h]
      cases hwa : w.anc with
      | nil => exact absurd hwa hwne
      | cons g rest => rfl
    refine ⟨hstr, ⟨w.node, hp⟩, ?_, ?_, ?_, ?_⟩ <;> intro p hp' hk <;>
      (rw [hp] at hp'; cases hp')
    · exact h1
    · exact (shape_visit hwf hw).1.cmp hk
    · rcases visits_parent_cases hw with h' | ⟨w', hw', h'⟩
      · have hpm : w.parent? = some root := by simp [Visit.parent?, h']
        have := (shape_visit hwf hw).2 hk root hpm
        rw [hmod] at this; cases this
      · have hwne' := visit_anc_ne_nil hw'
        rw [h, h']
        cases hwa : w'.anc with
        | nil => exact absurd hwa hwne'
        | cons g rest => rfl
    · exact h1

theorem StrFacts.erase {v : Visit} (h : StrFacts v) : StrFacts v.erase := by
  obtain ⟨⟨s, hs⟩, ⟨p, hp⟩, hsub, hcmp, hattr, hjoin⟩ := h
  have hpe : v.erase.parent? = some p.erase := by
    simp only [Visit.parent?, Visit.erase, List.head?_map] at hp ⊢
    rw [hp]; rfl
  have hidx : ∀ i : Nat, (v.erase.anc[i]?).isSome = (v.anc[i]?).isSome := by
    intro i; simp [Visit.erase, List.getElem?_map]
  refine ⟨⟨s, by simp [Visit.erase, hs]⟩, ⟨_, hpe⟩, ?_, ?_, ?_, ?_⟩ <;> intro q hq hk <;>
    (rw [hpe] at hq; cases hq; rw [Node.erase_isKind] at hk)
  · have := hsub p hp hk
    simp only [Visit.grandparent?] at this ⊢
    rw [hidx]; exact this
  · have := hcmp p hp hk
    simp only [Node.kid?_erase, Node.kidList_erase, List.head?_map, Option.isSome_map]
    exact this
  · rw [hidx]; exact hattr p hp hk
  · rw [hidx]; exact hjoin p hp hk

/-! ### what B703 needs -/

theorem enclosing_of_root_mem {anc : List Node} {root : Node} (hr : root ∈ anc) (hm : root.isKind "Module" = true) :
    ∃ p, enclosing anc = some p ∧ p ∈ anc ∧ (p.isKind "FunctionDef" || p.isKind "Module") = true := by
  unfold enclosing
  cases hf : anc.find? (fun a => a.isKind "Module" || a.isKind "FunctionDef") with
  | none =>
    have := List.find?_eq_none.mp hf root hr
    simp [hm] at this
  | some p =>
    have h1 := List.find?_some hf
    refine ⟨p, rfl, List.mem_of_find?_eq_some hf, ?_⟩
    rw [Bool.or_comm]; exact h1

theorem deepAll_and {P Q : Node → Bool} : ∀ (N : Nat) (n : Node), n.size ≤ N → n.deepAll P = true → n.deepAll Q = true →
    n.deepAll (fun m => P m && Q m) = true := by
  intro N
  induction N with
  | zero => intro n hn; have := n.size_pos; omega
  | succ N ih =>
    intro n hn hp hq
    obtain ⟨p1, p2⟩ := Node.deepAll_iff.mp hp
    obtain ⟨q1, q2⟩ := Node.deepAll_iff.mp hq
    refine Node.deepAll_iff.mpr ⟨by simp [p1, q1], fun c hc hat => ?_⟩
    have := hc.size_lt
    exact ih c (by omega) (p2 c hc hat) (q2 c hc hat)

/-- `Call`/`BinOp` nodes are positioned -/
def exprPos (m : Node) : Bool := !(m.isKind "Call" || m.isKind "BinOp") || m.pos.isSome

theorem nodeFacts_exprPos {m : Node} (h : NodeFacts m) : exprPos m = true := by
  unfold exprPos
  by_cases hk : (m.isKind "Call" || m.isKind "BinOp") = true
  · have : positionedKinds.contains m.kind = true := by
      rcases (Bool.or_eq_true _ _).mp hk with h' | h' <;>
        (simp only [Node.isKind, beq_iff_eq] at h'; rw [h']; decide)
    simp [h.pos this]
  · simp [hk]

/-- the hypotheses of `b703With_total` hold at every visited call of a well-shaped tree, with the
budget `fuelFor` -/
theorem b703_facts {root : Node} (hwf : TreeShapeOK root) {v : Visit} (hv : v ∈ visits root) :
    ∃ p B, enclosing v.anc = some p ∧ (∀ s ∈ p.kidList "body", s.line?.isSome = true) ∧
      v.node.deepAll (exprP B) = true ∧ B < fuelFor v.anc := by
  obtain ⟨pre, hpre⟩ := visits_root_last hv
  have hroot : root ∈ v.anc := by rw [hpre]; simp
  obtain ⟨p, hp, hpm, hpk⟩ := enclosing_of_root_mem hroot (shape_root hwf).1
  refine ⟨p, p.hi, hp, (shape_anc hwf hv hpm).body hpk, ?_, ?_⟩
  · -- lines: `v` is visited below `p`, whose deep line bound is `p.hi`
    obtain ⟨anc', hunder⟩ := visits_under_anc hv hpm
    have h1 : v.node.deepAll (lineLe p.hi) = true :=
      deepAll_visits _ p (Nat.le_refl _) (Node.deepAll_lineLe _ p (Nat.le_refl _) p.hi (Nat.le_refl _)) anc' v hunder
    -- positions: everything visited below `v` is a visited node of the tree
    have h2 : v.node.deepAll exprPos = true :=
      deepAll_of_visits _ v.node (Nat.le_refl _) v.anc (nodeFacts_exprPos (shape_visit hwf hv).1)
        (fun w hw => nodeFacts_exprPos (shape_visit hwf (visits_sub hv w hw)).1)
    refine Node.deepAll_mono ?_ _ v.node (Nat.le_refl _) (deepAll_and _ v.node (Nat.le_refl _) h1 h2)
    intro m hm
    simp only [Bool.and_eq_true] at hm
    obtain ⟨hl, hpos⟩ := hm
    unfold exprP
    unfold exprPos at hpos
    unfold lineLe at hl
    cases hk : (m.isKind "Call" || m.isKind "BinOp")
    · rfl
    · simp only [hk, Bool.not_true, Bool.false_or] at hpos ⊢
      cases hmp : m.pos with
      | none => rw [hmp] at hpos; cases hpos
      | some q => simpa [hmp] using hl
  · simp only [fuelFor, hp, Node.hi, hiO]
    omega

end Bandit

namespace Bandit
open Plugins

/-! ## Well-formed plugin settings -/

def CfgVal.isMap : CfgVal → Bool
  | .map _ => true
  | _ => false

/-- `x in setting` does not raise: the setting is a list, a string or a mapping -/
def CfgVal.isContainer : CfgVal → Bool
  | .list _ | .str _ | .map _ => true
  | _ => false

/-- `x in config.get(key, [])` does not raise: the key is absent or holds a container -/
def memberOK : Option CfgVal → Bool
  | none => true
  | some v => v.isContainer

def CfgVal.hasIntAt (c : CfgVal) (k : String) : Bool :=
  match c.get? k with
  | some (.int _) => true
  | _ => false

def thresholdKeys : List String :=
  ["weak_key_size_dsa_high", "weak_key_size_dsa_medium", "weak_key_size_rsa_high", "weak_key_size_rsa_medium",
   "weak_key_size_ec_high", "weak_key_size_ec_medium"]

/-- the settings of the plugins that take settings have the keys (and value types) their
`gen_config` emits -/
def configOK (pc : PluginCfg) : Bool :=
  (pc.get "assert_used").isMap &&
  ((pc.get "try_except_pass").get? "check_typed_exception").isSome &&
  ((pc.get "try_except_continue").get? "check_typed_exception").isSome &&
  (((pc.get "shell_injection").get? "subprocess").isSome && ((pc.get "shell_injection").get? "shell").isSome &&
    ((pc.get "shell_injection").get? "no_shell").isSome) &&
  (match (pc.get "ssl_with_bad_version").get? "bad_protocol_versions" with
   | some v => v.isContainer
   | none => false) &&
  thresholdKeys.all (pc.get "weak_cryptographic_key").hasIntAt &&
  ((pc.get "markupsafe_xss").isMap && memberOK ((pc.get "markupsafe_xss").get? "extend_markup_names") &&
    memberOK ((pc.get "markupsafe_xss").get? "allowed_calls"))

/-- the in-module key tables of B505 are closed: a graded `cryptography` key type has a positional
index, and a non-empty pycrypto key type is one of the three graded ones -/
def keyTablesOK (T : CryptoTables) : Bool :=
  (T.cioFuncKeyType.all fun x =>
    !(x.2 == "DSA".toList || x.2 == "RSA".toList || x.2 == "EC".toList) || (assocGet T.cioArgPosition x.2).isSome) &&
  (T.pycFuncKeyType.all fun x => x.2.isEmpty || x.2 == "DSA".toList || x.2 == "RSA".toList || x.2 == "EC".toList)

theorem cfgIndex_of_get? {c v : CfgVal} {k : String} (h : c.get? k = some v) : cfgIndex c k = .ok v := by
  cases c with
  | map kvs => simp only [cfgIndex, h, pure, Except.pure]
  | _ => simp [CfgVal.get?] at h

theorem hasIntAt_index {c : CfgVal} {k : String} (h : c.hasIntAt k = true) : ∃ i, cfgIndex c k = .ok (.int i) := by
  unfold CfgVal.hasIntAt at h
  split at h
  · rename_i i hg; exact ⟨i, cfgIndex_of_get? hg⟩
  · cases h

theorem isMap_eq {c : CfgVal} (h : c.isMap = true) : ∃ kvs, c = .map kvs := by
  cases c <;> simp [CfgVal.isMap] at h
  exact ⟨_, rfl⟩

theorem get?_isSome_truthy {c : CfgVal} {k : String} (h : (c.get? k).isSome = true) : c.truthy = true := by
  cases c <;> simp [CfgVal.get?] at h
  rename_i kvs
  cases kvs with
  | nil => simp at h
  | cons x xs => rfl

structure ConfigFacts (pc : PluginCfg) : Prop where
  assertUsed : ∃ kvs, pc.get "assert_used" = .map kvs
  tryPass : ((pc.get "try_except_pass").get? "check_typed_exception").isSome = true
  tryContinue : ((pc.get "try_except_continue").get? "check_typed_exception").isSome = true
  shTruthy : (ShellCfg.ofCfg (pc.get "shell_injection")).truthy = true
  shSub : (ShellCfg.ofCfg (pc.get "shell_injection")).hasSubprocess = true
  shShell : (ShellCfg.ofCfg (pc.get "shell_injection")).hasShell = true
  shNoShell : (ShellCfg.ofCfg (pc.get "shell_injection")).hasNoShell = true
  ssl : ∃ bad, cfgIndex (pc.get "ssl_with_bad_version") "bad_protocol_versions" = .ok bad ∧ bad.isContainer = true
  weakKey : ∃ t, HasThresholds (pc.get "weak_cryptographic_key") t
  markup : ∃ kvs, pc.get "markupsafe_xss" = .map kvs ∧
    memberOK ((CfgVal.map kvs).get? "extend_markup_names") = true ∧ memberOK ((CfgVal.map kvs).get? "allowed_calls") = true

theorem configFacts_of_configOK {pc : PluginCfg} (h : configOK pc = true) : ConfigFacts pc := by
  simp only [configOK, Bool.and_eq_true] at h
  obtain ⟨⟨⟨⟨⟨⟨h1, h2⟩, h3⟩, ⟨⟨h4a, h4b⟩, h4c⟩⟩, h5⟩, h6⟩, ⟨⟨h7a, h7b⟩, h7c⟩⟩ := h
  refine ⟨isMap_eq h1, h2, h3, get?_isSome_truthy h4a, h4a, h4b, h4c, ?_, ?_, ?_⟩
  · split at h5
    · rename_i v hv; exact ⟨v, cfgIndex_of_get? hv, h5⟩
    · cases h5
  · simp only [thresholdKeys, List.all_cons, List.all_nil, Bool.and_true, Bool.and_eq_true] at h6
    obtain ⟨a, b, c, d, e, f⟩ := h6
    obtain ⟨i1, e1⟩ := hasIntAt_index a
    obtain ⟨i2, e2⟩ := hasIntAt_index b
    obtain ⟨i3, e3⟩ := hasIntAt_index c
    obtain ⟨i4, e4⟩ := hasIntAt_index d
    obtain ⟨i5, e5⟩ := hasIntAt_index e
    obtain ⟨i6, e6⟩ := hasIntAt_index f
    exact ⟨⟨i1, i2, i3, i4, i5, i6⟩, e1, e2, e3, e4, e5, e6⟩
  · obtain ⟨kvs, hk⟩ := isMap_eq h7a
    rw [hk] at h7b h7c
    exact ⟨kvs, hk, h7b, h7c⟩

end Bandit

namespace Bandit
open Plugins

/-! ## The tester around a check -/

/-- what `dispatch` hands to the tester: the node's own `lineno`/`col_offset`, and a check type that
is the node's class or one of the three synthetic ones -/
theorem dispatch_facts {v : Visit} {kind : Str} {ctx : Ctx} (hd : dispatch v = some (kind, ctx)) :
    ctx.lineno = v.node.line? ∧ ctx.col = v.node.col? ∧
    ((kind = "Str".toList ∧ v.node.isStrConst = true) ∨ kind = "Bytes".toList ∨
     (kind = "Import".toList ∧ v.node.isKind "ImportFrom" = true) ∨ kind = v.node.kind) := by
  obtain ⟨anc, node, sib⟩ := v
  unfold dispatch at hd
  simp only [] at hd
  by_cases h1 : node.isKind "ClassDef" = true
  · simp [h1] at hd
  simp only [h1, Bool.false_eq_true, if_false] at hd
  by_cases h2 : node.isKind "Constant" = true
  · simp only [h2, if_true] at hd
    have key : ∀ (b : Bool) (k : Str) (pctx : Ctx), pctx.lineno = node.line? → pctx.col = node.col? →
        (if b = true then none else some (k, pctx)) = some (kind, ctx) →
        ctx.lineno = node.line? ∧ ctx.col = node.col? ∧ kind = k := by
      intro b k pctx e1 e2 h
      cases b with
      | true => cases h
      | false =>
        simp only [Bool.false_eq_true, if_false, Option.some.injEq, Prod.mk.injEq] at h
        obtain ⟨rfl, rfl⟩ := h
        exact ⟨e1, e2, rfl⟩
    by_cases h3 : node.isStrConst = true
    · simp only [h3, if_true] at hd
      obtain ⟨e1, e2, e3⟩ := key _ _ _ (by cases anc <;> rfl) (by cases anc <;> rfl) hd
      exact ⟨e1, e2, Or.inl ⟨e3, h3⟩⟩
    · simp only [h3, Bool.false_eq_true, if_false] at hd
      by_cases h4 : node.isBytesConst = true
      · simp only [h4, if_true] at hd
        obtain ⟨e1, e2, e3⟩ := key _ _ _ (by cases anc <;> rfl) (by cases anc <;> rfl) hd
        exact ⟨e1, e2, Or.inr (Or.inl e3)⟩
      · simp [h4] at hd
  · simp only [h2, Bool.false_eq_true, if_false] at hd
    split at hd
    · rename_i h4
      simp only [Option.some.injEq, Prod.mk.injEq] at hd
      obtain ⟨rfl, rfl⟩ := hd
      simp only [Bool.and_eq_true] at h4
      exact ⟨rfl, rfl, Or.inr (Or.inr (Or.inl ⟨rfl, h4.1⟩))⟩
    · simp only [Option.some.injEq, Prod.mk.injEq] at hd
      obtain ⟨rfl, rfl⟩ := hd
      exact ⟨rfl, rfl, Or.inr (Or.inr (Or.inr rfl))⟩

/-- a check that returns, on a positioned context or without a finding, leaves no internal-error event -/
theorem runCheck_no_crash (nm : NosecMap) (env : Env) (c : Check)
    (hrun : ∃ r, c.run (env.forCheck c) = .ok r ∧
      (r = none ∨ (env.ctx.lineno.isSome = true ∧ env.ctx.col.isSome = true))) :
    ∀ ev ∈ runCheck nm env c, ∀ t, ev ≠ .crash t := by
  obtain ⟨r, hr, hpos⟩ := hrun
  intro ev hev t
  unfold runCheck at hev
  rw [hr] at hev
  cases r with
  | none => simp at hev
  | some pr =>
    rcases hpos with h | ⟨hl, hc⟩
    · cases h
    obtain ⟨l, hl⟩ := Option.isSome_iff_exists.mp hl
    obtain ⟨col, hc⟩ := Option.isSome_iff_exists.mp hc
    simp only [] at hev
    have hem : ∃ e, emit nm env.ctx (fillId c (pr.resolve env.v)) = .ok e ∧ ∀ t, e ≠ .crash t := by
      unfold emit
      simp only [hl, hc, bind, Except.bind, pure, Except.pure]
      cases (fillId c (pr.resolve env.v)).lineno <;> cases (fillId c (pr.resolve env.v)).col <;> simp only [] <;>
        (repeat' split) <;> exact ⟨_, rfl, fun t h => by cases h⟩
    obtain ⟨e, he, hne⟩ := hem
    rw [he] at hev
    simp only [List.mem_singleton] at hev
    subst hev
    exact hne t

theorem mem_scanVisits {checks : List Check} {nm : NosecMap} {lines : List Str} {ev : Event} :
    ∀ {s : VState} {vs : List Visit}, ev ∈ scanVisits checks nm lines s vs →
      ∃ v ∈ vs, ∃ s', ev ∈ runVisit checks nm lines s' v
  | _, [], h => by simp [scanVisits] at h
  | s, v :: vs, h => by
    simp only [scanVisits, List.mem_append] at h
    rcases h with h | h
    · exact ⟨v, by simp, _, h⟩
    · obtain ⟨w, hw, s', h'⟩ := mem_scanVisits h
      exact ⟨w, by simp [hw], s', h'⟩

theorem crashesOf_eq_nil {es : List Event} (h : ∀ ev ∈ es, ∀ t, ev ≠ .crash t) : crashesOf es = [] := by
  unfold crashesOf
  apply List.eq_nil_iff_forall_not_mem.mpr
  intro t ht
  obtain ⟨ev, hev, h'⟩ := List.mem_filterMap.mp ht
  cases ev <;> simp at h'
  subst h'
  exact h _ hev _ rfl

/-- the decision function of a plugin check returns ⇒ so does the registered check -/
theorem plugin_run_ok {id name : String} {kinds : List Str} {f : Env → M (Option PRaw)} {e : Env}
    (h : ∃ r, f e = .ok r) : ∃ r, (Check.plugin id name kinds f).run e = .ok r := by
  obtain ⟨r, hr⟩ := h
  exact ⟨_, by simp only [Check.plugin, hr]; rfl⟩

theorem pluginPos_run_ok {id name : String} {kinds : List Str} {f : Env → M (Option PRaw)} {e : Env}
    (h : ∃ r, f e = .ok r) : ∃ r, (Check.pluginPos id name kinds f).run e = .ok r := by
  obtain ⟨r, hr⟩ := h
  exact ⟨_, by simp only [Check.pluginPos, Check.plugin, hr]; rfl⟩

end Bandit

namespace Bandit.Plugins
open Bandit

/-! ## Pieces of the per-check totality theorems of `Props.C06` -/

/-- B110 / B112: the settings carry `check_typed_exception` (an `ExceptHandler` without `body` does not exist, and would be harmless) -/
theorem exceptHandler_total (id bodyKind : String) (cfg : CfgVal) (e : Env)
    (hcfg : (cfg.get? "check_typed_exception").isSome = true) :
    ∃ r, exceptHandler id bodyKind cfg e = .ok r := by
  obtain ⟨cte, hcte⟩ := Option.isSome_iff_exists.mp hcfg
  unfold exceptHandler
  simp only [hcte, bind, Except.bind, pure, Except.pure]
  split
  · split
    · exact ⟨_, rfl⟩
    · split <;> exact ⟨_, rfl⟩
  · exact ⟨_, rfl⟩

theorem b107_go_total : ∀ l : List (Node × Option Node), ∃ r, b107.go l = .ok r
  | [] => ⟨_, rfl⟩
  | (key, val) :: rest => by
    obtain ⟨r, hr⟩ := b107_go_total rest
    simp only [b107.go]
    split
    · exact ⟨r, hr⟩
    · split
      · exact ⟨r, hr⟩
      · split
        · exact ⟨_, rfl⟩
        · exact ⟨r, hr⟩

theorem checkArgCfg_total (c : CallView) (name : String) (v : CfgVal) : ∃ b, checkArgCfg c name v = .ok b := by
  unfold checkArgCfg
  split <;> exact checkArg_total c name _

theorem strInCfg_total (val : Str) (bad : CfgVal) (h : CfgVal.isContainer bad = true) : ∃ b, strInCfg val bad = .ok b := by
  cases bad <;> simp [CfgVal.isContainer] at h <;> exact ⟨_, rfl⟩

theorem b503_go_total (e : Env) (bad : CfgVal) (h : CfgVal.isContainer bad = true) :
    ∀ ds : List Node, ∃ r, b503.go e bad ds = .ok r
  | [] => ⟨_, rfl⟩
  | d :: rest => by
    obtain ⟨r, hr⟩ := b503_go_total e bad h rest
    obtain ⟨b, hb⟩ := strInCfg_total (Str.lastDot (qualAttr e.st.aliases d)) bad h
    simp only [b503.go, hb, bind, Except.bind, pure, Except.pure]
    split
    · exact ⟨_, rfl⟩
    · exact ⟨r, hr⟩

theorem assocGet_mem {α : Type} {d : List (Str × α)} {k : Str} {v : α} (h : assocGet d k = some v) :
    ∃ k', (k', v) ∈ d := by
  unfold assocGet at h
  cases hf : d.find? (·.1 == k) with
  | none => simp [hf] at h
  | some x =>
    simp only [hf, Option.map_some, Option.some.injEq] at h
    exact ⟨x.1, by rw [← h]; exact List.mem_of_find?_eq_some hf⟩

theorem keySizeArg_total (c : CallView) (kw : String) (p : Nat) : ∃ v, keySizeArg c kw (pure p) = .ok v := by
  obtain ⟨kv, hkv⟩ := argValue_total c kw
  obtain ⟨av, hav⟩ := argAt_total c p
  unfold keySizeArg
  simp only [hkv, hav, bind, Except.bind, pure, Except.pure]
  ok_split

theorem curveArg_total (c : CallView) (p : Nat) : ∃ v, curveArg c (pure p) = .ok v := by
  obtain ⟨kv, hkv⟩ := argValue_total c "curve"
  obtain ⟨as, ha⟩ := callArgs_total c
  unfold curveArg
  simp only [hkv, ha, bind, Except.bind, pure, Except.pure]
  ok_split

theorem keyType_of_name {kt : Str}
    (h : (kt == "DSA".toList || kt == "RSA".toList || kt == "EC".toList) = true) : ∃ K : Spec.Crypto.KeyType, kt = K.name := by
  simp only [Bool.or_eq_true, beq_iff_eq] at h
  rcases h with (h | h) | h
  · exact ⟨Spec.Crypto.KeyType.dsa, h⟩
  · exact ⟨Spec.Crypto.KeyType.rsa, h⟩
  · exact ⟨Spec.Crypto.KeyType.ec, h⟩

theorem b505Cio_total (T : CryptoTables) (cfg : CfgVal) (t : Spec.Crypto.Thresholds) (e : Env) (c : CallView)
    (hT : keyTablesOK T = true) (ht : HasThresholds cfg t) : ∃ r, b505Cio T cfg e c = .ok r := by
  unfold b505Cio
  cases hq : assocGet T.cioFuncKeyType e.qual with
  | none => exact ⟨_, rfl⟩
  | some kt =>
    simp only []
    by_cases hk : (kt == "DSA".toList || kt == "RSA".toList || kt == "EC".toList) = true
    · obtain ⟨k', hmem⟩ := assocGet_mem hq
      have hpos : (assocGet T.cioArgPosition kt).isSome = true := by
        have := hT
        simp only [keyTablesOK, Bool.and_eq_true, List.all_eq_true] at this
        have := this.1 _ hmem
        simp only [hk, Bool.not_true, Bool.false_or] at this
        exact this
      obtain ⟨p, hp⟩ := Option.isSome_iff_exists.mp hpos
      obtain ⟨K, rfl⟩ := keyType_of_name hk
      simp only [hp]
      by_cases h1 : (K.name == "DSA".toList || K.name == "RSA".toList) = true
      · obtain ⟨ks, hks⟩ := keySizeArg_total c "key_size" p
        obtain ⟨r, hr⟩ := classify_total ht K ks
        simp only [h1, if_true, hks, hr, bind, Except.bind]
        exact ⟨_, rfl⟩
      · simp only [h1, Bool.false_eq_true, if_false]
        split
        · obtain ⟨cv, hcv⟩ := curveArg_total c p
          obtain ⟨r, hr⟩ := classify_total ht K (.int (curveSizeOf T cv))
          simp only [hcv, hr, bind, Except.bind]
          exact ⟨_, rfl⟩
        · exact ⟨_, rfl⟩
    · have h1 : (kt == "DSA".toList || kt == "RSA".toList) = false := by
        cases h : (kt == "DSA".toList || kt == "RSA".toList)
        · rfl
        · exact absurd (by rw [h]; rfl) hk
      have h2 : (kt == "EC".toList) = false := by
        cases h : (kt == "EC".toList)
        · rfl
        · exact absurd (by rw [h]; exact Bool.or_true _) hk
      simp only [h1, h2, Bool.false_eq_true, if_false]
      exact ⟨_, rfl⟩

theorem b505Pyc_total (T : CryptoTables) (cfg : CfgVal) (t : Spec.Crypto.Thresholds) (e : Env) (c : CallView)
    (hT : keyTablesOK T = true) (ht : HasThresholds cfg t) : ∃ r, b505Pyc T cfg e c = .ok r := by
  unfold b505Pyc
  cases hq : assocGet T.pycFuncKeyType e.qual with
  | none => exact ⟨_, rfl⟩
  | some kt =>
    simp only []
    by_cases he : kt.isEmpty = true
    · simp only [he, if_true]; exact ⟨_, rfl⟩
    · obtain ⟨k', hmem⟩ := assocGet_mem hq
      have hk : (kt == "DSA".toList || kt == "RSA".toList || kt == "EC".toList) = true := by
        have := hT
        simp only [keyTablesOK, Bool.and_eq_true, List.all_eq_true] at this
        have := this.2 _ hmem
        simp only [he, Bool.false_or] at this
        exact this
      obtain ⟨K, rfl⟩ := keyType_of_name hk
      obtain ⟨ks, hks⟩ := keySizeArg_total c "bits" 0
      obtain ⟨r, hr⟩ := classify_total ht K ks
      simp only [he, Bool.false_eq_true, if_false, hks, hr, bind, Except.bind]
      exact ⟨_, rfl⟩

theorem cfgMember_total (v : Option CfgVal) (x : Str) (h : memberOK v = true) : ∃ b, cfgMember v x = .ok b := by
  cases v with
  | none => exact ⟨_, rfl⟩
  | some w => cases w <;> first | exact ⟨_, rfl⟩ | simp [memberOK, CfgVal.isContainer] at h

theorem evaluateAst_total (T : InjTables) (e : Env) (s : Str) (par : Node)
    (hs : e.node.strConst? = some s) (hp : e.v.parent? = some par)
    (hattr : par.isKind "Attribute" = true → (e.v.anc[2]?).isSome = true)
    (hjoin : par.isKind "JoinedStr" = true → (e.v.anc[1]?).isSome = true) :
    ∃ r, evaluateAst T e = .ok r := by
  unfold evaluateAst
  simp only [hs, hp, bind, Except.bind, pure, Except.pure]
  by_cases h1 : par.isKind "BinOp" = true
  · simp only [h1, if_true]; exact ⟨_, rfl⟩
  · simp only [h1, Bool.false_eq_true, if_false]
    by_cases h2 : (par.isKind "Attribute" && T.strMethods.contains ((par.strAttr "attr").getD [])) = true
    · have h2' : par.isKind "Attribute" = true := by
        simp only [Bool.and_eq_true] at h2; exact h2.1
      obtain ⟨w, hw⟩ := Option.isSome_iff_exists.mp (hattr h2')
      simp only [h2, if_true, hw]
      exact ⟨_, rfl⟩
    · simp only [h2, Bool.false_eq_true, if_false]
      by_cases h3 : par.isKind "JoinedStr" = true
      · obtain ⟨w, hw⟩ := Option.isSome_iff_exists.mp (hjoin h3)
        simp only [h3, if_true, hw]
        ok_split
      · simp only [h3, Bool.false_eq_true, if_false]
        exact ⟨_, rfl⟩

end Bandit.Plugins

namespace Bandit
open Plugins

/-! ## What a check may assume about the environment it is run in -/

theorem kinds_single {k kind : Str} (h : [k].contains kind = true) : kind = k := by simpa using h

/-- the result of a check as the tester needs it: a value, and a positioned context if it is a finding -/
def Returns (c : Check) (env : Env) : Prop :=
  ∃ r, c.run (env.forCheck c) = .ok r ∧ (r = none ∨ (env.ctx.lineno.isSome = true ∧ env.ctx.col.isSome = true))

theorem plugin_returns {id name : String} {kinds : List Str} {f : Env → M (Option PRaw)} {env : Env}
    (h : ∃ r, f env.blind = .ok r) (hpos : env.ctx.lineno.isSome = true ∧ env.ctx.col.isSome = true) :
    Returns (Check.plugin id name kinds f) env := by
  obtain ⟨r, hr⟩ := plugin_run_ok (id := id) (name := name) (kinds := kinds) h
  exact ⟨r, hr, Or.inr hpos⟩

theorem pluginPos_returns {id name : String} {kinds : List Str} {f : Env → M (Option PRaw)} {env : Env}
    (h : ∃ r, f env = .ok r) (hpos : env.ctx.lineno.isSome = true ∧ env.ctx.col.isSome = true) :
    Returns (Check.pluginPos id name kinds f) env := by
  obtain ⟨r, hr⟩ := pluginPos_run_ok (id := id) (name := name) (kinds := kinds) h
  exact ⟨r, hr, Or.inr hpos⟩

/-- what is known about a dispatched visit of a well-shaped tree, by check type -/
structure VisitFacts (v : Visit) (kind : Str) (ctx : Ctx) : Prop where
  posd : kind ∈ ["Call".toList, "Str".toList, "FunctionDef".toList, "ExceptHandler".toList, "Assert".toList] →
    ctx.lineno.isSome = true ∧ ctx.col.isSome = true
  line : ctx.lineno = v.node.line? ∧ ctx.col = v.node.col?
  nf : NodeFacts v.node
  call : kind = "Call".toList → ∃ c, v.node.asCall? = some c
  fn : kind = "FunctionDef".toList → ∃ a, v.node.kid? "args" = some a
  str : kind = "Str".toList → StrFacts v
  file : kind ≠ "File".toList
  xss : kind = "Call".toList → ∃ p B, DjangoXss.enclosing v.anc = some p ∧
    (∀ s ∈ p.kidList "body", s.line?.isSome = true) ∧ v.node.deepAll (DjangoXss.exprP B) = true ∧
    B < DjangoXss.fuelFor v.anc

theorem pos_of_kind {n : Node} (hf : NodeFacts n) (k : String) (hk : n.kind = k.toList)
    (hp : positionedKinds.contains k.toList = true) : n.line?.isSome = true ∧ n.col?.isSome = true := by
  have := hf.pos (by rw [hk]; exact hp)
  simp [Node.line?, Node.col?, this]

theorem visitFacts {root : Node} (hwf : TreeShapeOK root) {v : Visit} (hv : v ∈ visits root)
    {kind : Str} {ctx : Ctx} (hd : dispatch v = some (kind, ctx)) : VisitFacts v kind ctx := by
  obtain ⟨hl, hc, hk⟩ := dispatch_facts hd
  obtain ⟨hnf, _⟩ := shape_visit hwf hv
  have hnp := hnf.notPseudo
  -- the check type determines the node's class
  have real : ∀ k : String, kind = k.toList → ("Str".toList == k.toList) = false → ("Bytes".toList == k.toList) = false →
      ("Import".toList == k.toList) = false → v.node.kind = k.toList := by
    intro k hkk h1 h2 h3
    rcases hk with ⟨h, _⟩ | h | ⟨h, _⟩ | h
    · rw [h] at hkk; rw [hkk] at h1; simp at h1
    · rw [h] at hkk; rw [hkk] at h2; simp at h2
    · rw [h] at hkk; rw [hkk] at h3; simp at h3
    · rw [← h]; exact hkk
  have hstr : kind = "Str".toList → v.node.isStrConst = true := by
    intro hkk
    rcases hk with ⟨_, h⟩ | h | ⟨h, _⟩ | h
    · exact h
    · rw [h] at hkk; exact absurd hkk (by decide)
    · rw [h] at hkk; exact absurd hkk (by decide)
    · rw [hkk] at h; rw [← h] at hnp; exact absurd hnp (by decide)
  have hstrk : v.node.isStrConst = true → v.node.kind = "Constant".toList := by
    intro h
    unfold Node.isStrConst Node.constValue? at h
    by_cases hc : v.node.isKind "Constant" = true
    · simpa [Node.isKind] using hc
    · simp [hc] at h
  refine ⟨?_, ⟨hl, hc⟩, hnf, ?_, ?_, ?_, ?_, ?_⟩
  · intro hm
    rw [hl, hc]
    simp only [List.mem_cons, List.mem_nil_iff, or_false] at hm
    rcases hm with h | h | h | h | h
    · exact pos_of_kind hnf "Call" (real _ h (by decide) (by decide) (by decide)) (by decide)
    · exact pos_of_kind hnf "Constant" (hstrk (hstr h)) (by decide)
    · exact pos_of_kind hnf "FunctionDef" (real _ h (by decide) (by decide) (by decide)) (by decide)
    · exact pos_of_kind hnf "ExceptHandler" (real _ h (by decide) (by decide) (by decide)) (by decide)
    · exact pos_of_kind hnf "Assert" (real _ h (by decide) (by decide) (by decide)) (by decide)
  · intro h
    have hkc : v.node.isKind "Call" = true := by
      simp [Node.isKind, real _ h (by decide) (by decide) (by decide)]
    obtain ⟨f, hf⟩ := Option.isSome_iff_exists.mp (hnf.func hkc)
    exact ⟨⟨v.node, f, v.node.kidList "args", v.node.kidList "keywords"⟩, by simp only [Node.asCall?, hkc, if_true, hf]⟩
  · intro h
    have hkc : v.node.isKind "FunctionDef" = true := by
      simp [Node.isKind, real _ h (by decide) (by decide) (by decide)]
    exact Option.isSome_iff_exists.mp (hnf.args hkc)
  · intro h
    exact strFacts_of_shape hwf hv (hstr h)
  · intro h
    rcases hk with ⟨h', _⟩ | h' | ⟨h', _⟩ | h'
    · rw [h'] at h; exact absurd h (by decide)
    · rw [h'] at h; exact absurd h (by decide)
    · rw [h'] at h; exact absurd h (by decide)
    · rw [h] at h'; rw [← h'] at hnp; exact absurd hnp (by decide)
  · intro _
    exact b703_facts hwf hv

/-- what the checks of a given type may assume about the environment they are run in -/
structure EnvFacts (env : Env) (kind : Str) : Prop where
  posd : kind ∈ ["Call".toList, "Str".toList, "FunctionDef".toList, "ExceptHandler".toList, "Assert".toList,
      "File".toList] → env.ctx.lineno.isSome = true ∧ env.ctx.col.isSome = true
  call : kind = "Call".toList → ∃ c, env.v.node.asCall? = some c
  fn : kind = "FunctionDef".toList → ∃ a, env.v.node.kid? "args" = some a
  str : kind = "Str".toList → StrFacts env.v
  xss : kind = "Call".toList → ∃ p B, DjangoXss.enclosing env.v.anc = some p ∧
    (∀ s ∈ p.kidList "body", s.line?.isSome = true) ∧ env.v.node.deepAll (DjangoXss.exprP B) = true ∧
    B < DjangoXss.fuelFor env.v.anc

theorem envFacts_of_visit {v : Visit} {kind : Str} {ctx : Ctx} (vf : VisitFacts v kind ctx) (st : VState) :
    EnvFacts { v := v, st := st, ctx := ctx } kind := by
  refine ⟨fun hm => ?_, vf.call, vf.fn, vf.str, vf.xss⟩
  apply vf.posd
  simp only [List.mem_cons, List.mem_nil_iff, or_false] at hm ⊢
  rcases hm with h | h | h | h | h | h
  · exact Or.inl h
  · exact Or.inr (Or.inl h)
  · exact Or.inr (Or.inr (Or.inl h))
  · exact Or.inr (Or.inr (Or.inr (Or.inl h)))
  · exact Or.inr (Or.inr (Or.inr (Or.inr h)))
  · exact absurd h vf.file

/-- the `File` context of `scanFile` -/
theorem envFacts_file (st : VState) (lines : List Str) :
    EnvFacts { v := ⟨[], fileNode, none⟩, st := st, ctx := fileCtx, lines := lines } "File".toList := by
  refine ⟨fun _ => ⟨rfl, rfl⟩, ?_, ?_, ?_, ?_⟩ <;> intro h <;> exact absurd h (by decide)

theorem blind_call {env : Env} {c : CallView} (h : env.v.node.asCall? = some c) : env.blind.call? = some c.erase := by
  simp only [Env.blind, Env.call?, Visit.erase, Node.asCall?_erase, h, Option.map_some]

end Bandit
