import Bandit.Plugins.Trojan
/-!
# B613 under insertion of lines that contain no listed character (C10, file-level finding)
-/
namespace Bandit
open Plugins

theorem scanBidi_shift (table : List Char) (k d : Nat) (lines : List Str) :
    scanBidi table (k + d) lines = (scanBidi table k lines).map (fun r => (r.1 + d, r.2)) := by
  induction lines generalizing k with
  | nil => rfl
  | cons l ls ih =>
    simp only [scanBidi]
    cases firstTableChar table l with
    | some r => obtain ⟨ch, col⟩ := r; rfl
    | none =>
      have : k + d + 1 = (k + 1) + d := by omega
      simp only [this, ih]

theorem scanBidi_clean_prefix (table : List Char) (k : Nat) (ins rest : List Str)
    (hclean : ∀ l ∈ ins, firstTableChar table l = none) :
    scanBidi table k (ins ++ rest) = scanBidi table (k + ins.length) rest := by
  induction ins generalizing k with
  | nil => rfl
  | cons l ls ih =>
    simp only [List.cons_append, scanBidi, hclean l List.mem_cons_self, List.length_cons]
    rw [ih (k + 1) (fun x hx => hclean x (List.mem_cons_of_mem _ hx))]
    congr 1; omega

/-- **Inserting lines without bidirectional control characters** between `pre` and `post`: a finding
in `pre` stays where it is; a finding in `post` moves down by exactly the number of inserted lines;
column and character are unchanged; no finding appears or disappears. -/
theorem scanBidi_insert (table : List Char) (k : Nat) (pre ins post : List Str)
    (hclean : ∀ l ∈ ins, firstTableChar table l = none) :
    scanBidi table k (pre ++ ins ++ post) =
      match scanBidi table k pre with
      | some r => some r
      | none => (scanBidi table (k + pre.length) post).map (fun r => (r.1 + ins.length, r.2)) := by
  induction pre generalizing k with
  | nil =>
    simp only [List.nil_append, scanBidi, List.length_nil, Nat.add_zero]
    rw [scanBidi_clean_prefix table k ins post hclean, scanBidi_shift]
  | cons l ls ih =>
    simp only [List.cons_append, scanBidi, List.length_cons]
    cases firstTableChar table l with
    | some r => obtain ⟨ch, col⟩ := r; rfl
    | none =>
      simp only []
      rw [ih (k + 1)]
      have : k + 1 + ls.length = k + (ls.length + 1) := by omega
      rw [this]

end Bandit
