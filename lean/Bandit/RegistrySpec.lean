import Bandit.Nosec
import Bandit.Blacklist
/-!
# The rule registry (`core/extension_loader.py`, `core/docs_utils.py`, `core/test_set.py::_get_filter`,
# `core/config.py::convert_names_to_ids`) and what property C18 demands of it

`Bandit.*` mirrors the code (quirks included); `Bandit.Spec.*` states the property on a whole table
`RegTables` (the registry as loaded from `setup.cfg` + what the source tree and `doc/` contain).
Every `Spec` clause is a decidable `Prop`, so the same definition is (a) proved for the generated
tables by `decide +kernel` in `Props/C18.lean` and (b) evaluated by the driver on the registry the
harness reads from the running implementation.
-/
namespace Bandit

/-! ## Tables -/

/-- one loaded `bandit.plugins` entry point -/
structure PluginRow where
  id : Str
  name : Str      -- entry-point name
  func : Str      -- `plugin.__name__`
  module : Str    -- `plugin.__module__`
  url : Str       -- `docs_utils.get_url(id)`
deriving Repr, DecidableEq, Inhabited

/-- one distinct blacklist rule (rows shared between the Call/Import/ImportFrom tables appear once) -/
structure BlRow where
  id : Str
  name : Str
  level : Str     -- raw string, not yet known to be a rank
  cwe : Nat
  qualnames : List Str
  kinds : List Str
  url : Str
deriving Repr, DecidableEq, Inhabited

/-- one `Issue(...)` construction site in a plugin module.  A rank/CWE expression that is not a
literal (`bandit.HIGH`, `issue.Cwe.X`, or a local variable only ever assigned such literals) is
`none`: those are checked at run time by the trigger programs. -/
structure IssueSite where
  module : Str
  func : Str
  sevs : List (Option Str)        -- possible values of `severity=`; `[]` = argument absent
  confs : List (Option Str)       -- possible values of `confidence=` (default filled in)
  cwe : Option (Option Nat)       -- `none` = argument absent; `some none` = not a literal
deriving Repr, DecidableEq, Inhabited

structure RegTables where
  plugins : List PluginRow
  blacklist : List BlRow
  builtin : List Str
  ranking : List Str
  /-- `setup.cfg [entry_points]`: (group, name, target) -/
  declared : List (Str × Str × Str)
  loadedFormatters : List Str
  loadedBlacklists : List Str
  /-- functions carrying a `@test_id` decorator in `bandit/plugins/*.py`: (module, function, id) -/
  definedChecks : List (Str × Str × Str)
  pluginFiles : List Str
  formatterFiles : List Str
  blacklistFiles : List Str
  pluginDocPages : List Str
  blacklistDocPages : List Str
  /-- section anchors of the blacklist doc pages: (page, anchor) -/
  blacklistDocAnchors : List (Str × Str)
  issueSites : List IssueSite
  /-- `https://bandit.readthedocs.io/en/<version>/` -/
  docBase : Str
deriving Repr, Inhabited

/-- the row as the blacklist check sees it (`none` when the level is not a rank: `Issue.filter`
would then raise on `RANKING.index`) -/
def BlRow.toRule? (b : BlRow) : Option Rule :=
  (Rank.ofStr? b.level).map fun l => { id := b.id, name := b.name, level := l, cwe := b.cwe, qualnames := b.qualnames }

namespace RegTables
/-- `extman.blacklist[kind]` -/
def rules (t : RegTables) (kind : Str) : List Rule :=
  (t.blacklist.filter (·.kinds.contains kind)).filterMap BlRow.toRule?
def registry (t : RegTables) : Registry :=
  { plugins := t.plugins.map (fun p => (p.id, p.name)),
    blacklist := t.blacklist.map (fun b => (b.id, b.name)),
    builtin := t.builtin }
def allIds (t : RegTables) : List Str := t.registry.allIds
def names (t : RegTables) : List Str := t.plugins.map (·.name) ++ t.blacklist.map (·.name)
end RegTables

/-! ## Model of the lookups -/
namespace Registry

/-- the named entries: plugins then blacklist rules, as (id, name) -/
def entries (r : Registry) : List (Str × Str) := r.plugins ++ r.blacklist

/-- `plugins_by_id[i].name`, else `blacklist_by_id[i]["name"]` (dicts: the last entry wins) -/
def nameOf (r : Registry) (i : Str) : Option Str :=
  match r.plugins.reverse.find? (·.1 == i) with
  | some (_, n) => some n
  | none => (r.blacklist.reverse.find? (·.1 == i)).map (·.2)

/-- `config.convert_names_to_ids` on one include/exclude list: `get_test_id(i) or i` -/
def convertNames (r : Registry) (l : List Str) : List Str :=
  l.map fun t => match r.getTestId t with
    | some i => if i.isEmpty then t else i
    | none => t

def b001 : Str := "B001".toList

/-- the backwards-compatibility block of `_get_filter` for one of include/exclude -/
def expandB001 (r : Registry) (s : List Str) : List Str :=
  let allBl := r.blacklist.map (·.1)
  if s.contains b001 then
    (if s.any allBl.contains then s else s ++ allBl).filter (· != b001)
  else s

/-- `BanditTestSet._get_filter` (sets as lists): the test IDs that will run.  Tokens are used as
they are — nothing here (nor in `cli/main.py`, which feeds `-t and -s` and the config's `tests:`/`skips:`
straight into the profile) converts names to IDs. -/
def getFilter (r : Registry) (inc exc : List Str) : List Str :=
  let inc' := r.expandB001 inc
  let exc' := r.expandB001 exc
  let filtered := if inc'.isEmpty then r.plugins.map (·.1) ++ r.builtin ++ r.blacklist.map (·.1) else inc'
  filtered.filter (fun i => !exc'.contains i)

/-- the variant proposed in `proposed_fixes/C18-cli-select-by-name.diff`: `-t and -s` tokens are passed
through `get_test_id(t) or t` first, exactly like legacy profiles -/
def getFilterFixed (r : Registry) (inc exc : List Str) : List Str :=
  r.getFilter (r.convertNames inc) (r.convertNames exc)

end Registry

/-! ## Model of `docs_utils.get_url` -/

/-- `s.replace("_", "-")` -/
def underscoreToDash (s : Str) : Str := s.map fun c => if c = '_' then '-' else c

def xmlGroup : List Str :=
  ["B313", "B314", "B315", "B316", "B317", "B318", "B319", "B320"].map String.toList

/-- `docs_utils.get_url(bid)` given the base URL and the registry rows -/
def docUrl (base : Str) (plugins : List PluginRow) (bl : List BlRow) (bid : Str) : Str :=
  match plugins.reverse.find? (·.id == bid) with
  | some p => base ++ "plugins/".toList ++ Str.lower bid ++ '_' :: p.func ++ ".html".toList
  | none =>
    match bl.reverse.find? (·.id == bid) with
    | none => base
    | some b =>
      let name := underscoreToDash b.name
      let (kind, i, n) : Str × Str × Str :=
        if "B3".toList.isPrefixOf b.id then
          if b.id == "B304".toList || b.id == "B305".toList then
            ("calls".toList, "b304-b305".toList, "ciphers-and-modes".toList)
          else if xmlGroup.contains b.id then ("calls".toList, "b313-b320".toList, name)
          else ("calls".toList, b.id, name)
        else ("imports".toList, b.id, name)
      base ++ Str.lower ("blacklists/blacklist_".toList ++ kind ++ ".html#".toList ++ i ++ '-' :: n)

/-- **Side effect of `get_url` on the unchanged tree**: `info["name"] = info["name"].replace("_","-")`
is executed on the *shared* registry row before any copy is taken.  The registry after
`get_url(bid)`: the row's name is rewritten, the keys of `blacklist_by_name` are not. -/
structure BlState where
  /-- (id, current `info["name"]`) — what `blacklist_by_id[id]["name"]` shows -/
  rows : List (Str × Str)
  /-- (key of `blacklist_by_name` fixed at load time, id) -/
  keys : List (Str × Str)
deriving Repr, DecidableEq

namespace BlState
def load (bl : List (Str × Str)) : BlState := { rows := bl, keys := bl.map fun (i, n) => (n, i) }
/-- effect of `docs_utils.get_url(bid)` when `bid` is not a plugin id -/
def getUrlStep (s : BlState) (bid : Str) : BlState :=
  { s with rows := s.rows.map fun (i, n) => if i == bid then (i, underscoreToDash n) else (i, n) }
/-- the repaired code (`proposed_fixes/C18-get-url-mutates-names.diff`) copies first -/
def getUrlStepFixed (s : BlState) (_bid : Str) : BlState := s
def nameOf (s : BlState) (i : Str) : Option Str := (s.rows.reverse.find? (·.1 == i)).map (·.2)
def idOfName (s : BlState) (n : Str) : Option Str := (s.keys.reverse.find? (·.1 == n)).map (·.2)
/-- id → name → id comes back for every row -/
def RoundTrips (s : BlState) : Prop := ∀ r ∈ s.rows, (s.nameOf r.1).bind s.idOfName = some r.1
instance (s : BlState) : Decidable s.RoundTrips := by unfold RoundTrips; infer_instance
end BlState

/-! ## What the property demands -/
namespace Spec

def isAsciiDigit (c : Char) : Bool := '0' ≤ c && c ≤ '9'

/-- the documented form of a test ID: `B` followed by exactly three decimal digits -/
def wellformedId : Str → Bool
  | ['B', a, b, c] => isAsciiDigit a && isAsciiDigit b && isAsciiDigit c
  | _ => false

/-- the URL without its `#fragment` -/
def stripFragment (u : Str) : Str := (Str.splitOn '#' u).head?.getD []

/-- last path component of a URL, without fragment and without `.html` -/
def pageOfUrl (u : Str) : Str :=
  let last := ((Str.splitOn '/' (stripFragment u)).getLast?).getD []
  if Str.endsWith last ".html".toList then last.take (last.length - 5) else last

/-- fragment (`#…`) of a URL, `[]` if none -/
def anchorOfUrl (u : Str) : Str :=
  match Str.splitOn '#' u with
  | _ :: a :: _ => a
  | _ => []

/-- first path component below the documentation base (`[]` if the URL is not under the base) -/
def dirOfUrl (base u : Str) : Str :=
  if base.isPrefixOf u then (Str.splitOn '/' (u.drop base.length)).head?.getD [] else []

def IdsWellformed (t : RegTables) : Prop := ∀ i ∈ t.allIds, wellformedId i = true
def IdsUnique (t : RegTables) : Prop := t.allIds.Nodup
def NamesUnique (t : RegTables) : Prop := t.names.Nodup
/-- no name is at the same time somebody's ID (otherwise `resolve` would take it for that ID) -/
def NamesAreNotIds (t : RegTables) : Prop := ∀ n ∈ t.names, n ∉ t.allIds ∧ n ≠ []

/-- name and ID look each other up, through the three lookups bandit offers -/
def Bijection (r : Registry) : Prop :=
  ∀ e ∈ r.entries, r.getTestId e.2 = some e.1 ∧ r.checkId e.1 = true ∧ r.nameOf e.1 = some e.2

/-- what the nosec parser, legacy profiles and (if names were accepted there) `-t and -s` rely on:
naming an entry by its name or by its ID resolves to the same ID -/
def Interchangeable (r : Registry) : Prop :=
  ∀ e ∈ r.entries, r.resolve e.2 = some e.1 ∧ r.resolve e.1 = some e.1

def ProfileInterchangeable (r : Registry) : Prop :=
  ∀ e ∈ r.entries, r.convertNames [e.2] = [e.1] ∧ r.convertNames [e.1] = [e.1]

/-- a statically known rank expression names a member of `RANKING`; unknown ones are left to run time -/
def rankOk (ranking : List Str) : Option Str → Bool
  | some x => ranking.contains x
  | none => true

/-- the blacklist levels are ranks; every statically known severity/confidence of every `Issue(...)`
site is a rank, both arguments are supplied, and every plugin's module has such a site -/
def RanksValid (t : RegTables) : Prop :=
  (∀ b ∈ t.blacklist, b.level ∈ t.ranking) ∧
  (∀ s ∈ t.issueSites, s.sevs ≠ [] ∧ s.confs ≠ [] ∧ ∀ v ∈ s.sevs ++ s.confs, rankOk t.ranking v = true) ∧
  (∀ p ∈ t.plugins, ∃ s ∈ t.issueSites, s.module = p.module)

/-- every blacklist rule carries a non-zero CWE; every `Issue(...)` site passes `cwe=` and no
literal one is `0` (`Cwe.NOTSET`) -/
def CweSet (t : RegTables) : Prop :=
  (∀ b ∈ t.blacklist, b.cwe ≠ 0) ∧
  (∀ s ∈ t.issueSites, s.cwe.isSome = true ∧ s.cwe ≠ some (some 0))

/-- the URL is under `<base>plugins/` and its page is one of `doc/source/plugins/*.rst` -/
def PluginDocPageExists (t : RegTables) (p : PluginRow) : Prop :=
  dirOfUrl t.docBase p.url = "plugins".toList ∧ pageOfUrl p.url ∈ t.pluginDocPages

/-- the URL is under `<base>blacklists/` and its page is one of `doc/source/blacklists/*.rst` -/
def BlacklistDocPageExists (t : RegTables) (b : BlRow) : Prop :=
  dirOfUrl t.docBase b.url = "blacklists".toList ∧ pageOfUrl b.url ∈ t.blacklistDocPages

/-- (observation only) the fragment names an existing section of that page -/
def BlacklistDocAnchorExists (t : RegTables) (b : BlRow) : Prop :=
  (pageOfUrl b.url, anchorOfUrl b.url) ∈ t.blacklistDocAnchors

/-- module part of an entry-point target `pkg.mod:attr` -/
def modOfTarget (tgt : Str) : Str := (Str.splitOn ':' tgt).head?.getD []

def gPlugins : Str := "bandit.plugins".toList
def gFormatters : Str := "bandit.formatters".toList
def gBlacklists : Str := "bandit.blacklists".toList

/-- every entry point declared in `setup.cfg` loads (plugins: with a non-empty ID) -/
def DeclaredLoaded (t : RegTables) : Prop :=
  ∀ d ∈ t.declared,
    (d.1 = gPlugins → ∃ p ∈ t.plugins, p.name = d.2.1 ∧ p.id ≠ []) ∧
    (d.1 = gFormatters → d.2.1 ∈ t.loadedFormatters) ∧
    (d.1 = gBlacklists → d.2.1 ∈ t.loadedBlacklists)

def declaredIn (t : RegTables) (group : Str) (pred : Str → Bool) : Bool :=
  t.declared.any fun d => d.1 == group && pred d.2.2

/-- every check function (`@test_id`), every plugin / formatter / blacklist module file is declared -/
def PresentDeclared (t : RegTables) : Prop :=
  (∀ c ∈ t.definedChecks, declaredIn t gPlugins (· == c.1 ++ ':' :: c.2.1) = true) ∧
  (∀ f ∈ t.pluginFiles, declaredIn t gPlugins (fun tg => modOfTarget tg == "bandit.plugins.".toList ++ f) = true) ∧
  (∀ f ∈ t.formatterFiles, declaredIn t gFormatters (fun tg => modOfTarget tg == "bandit.formatters.".toList ++ f) = true) ∧
  (∀ f ∈ t.blacklistFiles, declaredIn t gBlacklists (fun tg => modOfTarget tg == "bandit.blacklists.".toList ++ f) = true)

/-- every published rule is still there with all its qualified names and at least its severity -/
def PublishedEnforced (pub cur : List Rule) : Prop :=
  ∀ p ∈ pub, ∃ r ∈ cur, r.id = p.id ∧ (∀ q ∈ p.qualnames, q ∈ r.qualnames) ∧ p.level ≤ r.level

instance (t : RegTables) : Decidable (IdsWellformed t) := by unfold IdsWellformed; infer_instance
instance (t : RegTables) : Decidable (IdsUnique t) := by unfold IdsUnique; infer_instance
instance (t : RegTables) : Decidable (NamesUnique t) := by unfold NamesUnique; infer_instance
instance (t : RegTables) : Decidable (NamesAreNotIds t) := by unfold NamesAreNotIds; infer_instance
instance (r : Registry) : Decidable (Bijection r) := by unfold Bijection; infer_instance
instance (r : Registry) : Decidable (Interchangeable r) := by unfold Interchangeable; infer_instance
instance (r : Registry) : Decidable (ProfileInterchangeable r) := by unfold ProfileInterchangeable; infer_instance
instance (t : RegTables) : Decidable (RanksValid t) := by unfold RanksValid; infer_instance
instance (t : RegTables) : Decidable (CweSet t) := by unfold CweSet; infer_instance
instance (t : RegTables) (p : PluginRow) : Decidable (PluginDocPageExists t p) := by unfold PluginDocPageExists; infer_instance
instance (t : RegTables) (b : BlRow) : Decidable (BlacklistDocPageExists t b) := by unfold BlacklistDocPageExists; infer_instance
instance (t : RegTables) (b : BlRow) : Decidable (BlacklistDocAnchorExists t b) := by unfold BlacklistDocAnchorExists; infer_instance
instance (t : RegTables) : Decidable (DeclaredLoaded t) := by unfold DeclaredLoaded; infer_instance
instance (t : RegTables) : Decidable (PresentDeclared t) := by unfold PresentDeclared; infer_instance
instance (pub cur : List Rule) : Decidable (PublishedEnforced pub cur) := by unfold PublishedEnforced; infer_instance

end Spec
end Bandit
