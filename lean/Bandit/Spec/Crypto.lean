import Bandit.Plugins.Crypto
/-!
# Specification of the weak-crypto / transport checks (property C15)

Written from the property text and the plugin documentation, as *decision tables* over what a call
looks like to a reader: its resolved qualified name, the values of its positional arguments and the
values of its keyword arguments.  Nothing here mentions ASTs, accessors, evaluation order or
exceptions — those belong to the model (`Bandit/Plugins/Crypto.lean`); the theorems of
`Props/C15.lean` relate the two.

Argument values are `PyVal`s: a literal is its value (`True`/`False`/`None` appear as the strings
`"True"`/`"False"`/`"None"`, which is how bandit's context presents them), a bare name or an
attribute is its (last) identifier, and anything else (a call, a subscript, an operator expression)
is `PyVal.none` — *statically unknown*.
-/
namespace Bandit.Spec.Crypto
open Bandit Bandit.Plugins

abbrev Kws := List (Option Str × PyVal)

/-- value of keyword `name` (absent = `none`) -/
def kw (kws : Kws) (name : String) : Option PyVal := CallView.lookupKw kws name

/-- keyword `name` is present with a statically known value equal to one of `vals` -/
def kwIn (kws : Kws) (name : String) (vals : List PyVal) : Bool :=
  match kw kws name with
  | some v => !v.isNone && vals.any (fun x => v.beq x)
  | none => false

/-- keyword `name` is missing, or its value is statically unknown -/
def kwUnknown (kws : Kws) (name : String) : Bool :=
  match kw kws name with
  | some v => v.isNone
  | none => true

/-- the value given for a parameter that may be passed positionally at index `i` or by keyword
`name` (positional wins; `PyVal.none` when neither is given) -/
def param (args : List PyVal) (kws : Kws) (i : Nat) (name : String) : PyVal :=
  match args[i]? with
  | some v => v
  | none => (kw kws name).getD .none

def root (qual : Str) : Str := Str.firstDot qual
def last (qual : Str) : Str := Str.lastDot qual
def components (qual : Str) : List Str := Str.splitOn '.' qual

/-! ## B324 — weak hashes -/

/-- `usedforsecurity=False` (anything but a literal `True`) switches the check off; the default
is "used for security" -/
def forSecurity (kws : Kws) : Bool :=
  match kw kws "usedforsecurity" with
  | some v => v.beq (.str "True".toList)
  | none => true

/-- severity of the B324 finding (confidence is always HIGH), if any -/
def b324 (T : CryptoTables) (qual : Str) (args : List PyVal) (kws : Kws) : Option Rank :=
  if (components qual).contains "hashlib".toList then
    if T.weakHashes.contains (last qual) then
      if forSecurity kws then some .high else none
    else if last qual == "new".toList then
      if isWeakHashName T (param args kws 0 "name") && forSecurity kws then some .high else none
    else none
  else if (components qual).contains "crypt".toList && last qual == "crypt".toList then
    if isWeakCryptName T (param args kws 1 "salt") then some .medium else none
  else if (components qual).contains "crypt".toList && last qual == "mksalt".toList then
    if isWeakCryptName T (param args kws 0 "method") then some .medium else none
  else none

/-! ## B505 — weak keys -/

/-- the grading of a key size against a HIGH and a MEDIUM threshold -/
def keySeverity (high medium k : Int) : Option Rank :=
  if k < high then some .high else if k < medium then some .medium else none

/-- severities ordered with "no finding" at the bottom -/
def sevLevel : Option Rank → Nat
  | none => 0
  | some r => r.toNat + 1

structure Thresholds where
  dsaHigh : Int
  dsaMedium : Int
  rsaHigh : Int
  rsaMedium : Int
  ecHigh : Int
  ecMedium : Int
deriving DecidableEq, Repr

inductive KeyType where
  | dsa | rsa | ec
deriving DecidableEq, Repr

def KeyType.name : KeyType → Str
  | .dsa => "DSA".toList | .rsa => "RSA".toList | .ec => "EC".toList

def Thresholds.high (t : Thresholds) : KeyType → Int
  | .dsa => t.dsaHigh | .rsa => t.rsaHigh | .ec => t.ecHigh
def Thresholds.medium (t : Thresholds) : KeyType → Int
  | .dsa => t.dsaMedium | .rsa => t.rsaMedium | .ec => t.ecMedium

/-- severity of the B505 finding for a key of `k` bits (confidence is always HIGH) -/
def b505 (t : Thresholds) (kt : KeyType) (k : Int) : Option Rank := keySeverity (t.high kt) (t.medium kt) k

/-- thresholds are coherent when the HIGH threshold does not exceed the MEDIUM one -/
def Thresholds.Coherent (t : Thresholds) : Prop :=
  t.dsaHigh ≤ t.dsaMedium ∧ t.rsaHigh ≤ t.rsaMedium ∧ t.ecHigh ≤ t.ecMedium
instance (t : Thresholds) : Decidable t.Coherent := by unfold Thresholds.Coherent; infer_instance

/-- the published defaults (plugin documentation: 1024 / 2048 for DSA and RSA, 160 / 224 for EC) -/
def publishedThresholds : Thresholds := ⟨1024, 2048, 1024, 2048, 160, 224⟩

/-- `t` is at least as strict as `u` -/
def Thresholds.AtLeast (t u : Thresholds) : Prop :=
  u.dsaHigh ≤ t.dsaHigh ∧ u.dsaMedium ≤ t.dsaMedium ∧ u.rsaHigh ≤ t.rsaHigh ∧ u.rsaMedium ≤ t.rsaMedium ∧
  u.ecHigh ≤ t.ecHigh ∧ u.ecMedium ≤ t.ecMedium
instance (t u : Thresholds) : Decidable (t.AtLeast u) := by unfold Thresholds.AtLeast; infer_instance

/-- size of a named curve; a curve the table does not know counts as 224 bits -/
def curveSize (T : CryptoTables) (name : Str) : Int := (assocGet T.curveKeySizes name).getD 224

/-! ## B502 / B503 / B504 — SSL/TLS protocol versions -/

/-- the published list of insecure protocol constants -/
def publishedBadProtocols : List Str :=
  ["PROTOCOL_SSLv2", "SSLv2_METHOD", "SSLv23_METHOD", "PROTOCOL_SSLv3", "PROTOCOL_TLSv1", "SSLv3_METHOD",
   "TLSv1_METHOD", "PROTOCOL_TLSv1_1", "TLSv1_1_METHOD"].map String.toList

/-- severity = confidence of the B502 finding, if any: HIGH for the two known constructors,
MEDIUM for any other call passing a bad constant as `method=` or `ssl_version=` -/
def b502 (bad : List PyVal) (qual : Str) (kws : Kws) : Option Rank :=
  if qual == "ssl.wrap_socket".toList then
    if kwIn kws "ssl_version" bad then some .high else none
  else if qual == "pyOpenSSL.SSL.Context".toList then
    if kwIn kws "method" bad then some .high else none
  else if kwIn kws "method" bad || kwIn kws "ssl_version" bad then some .medium
  else none

/-- which keyword's line the B502 finding is reported on -/
def b502Loc (qual : Str) : LocSel :=
  if qual == "ssl.wrap_socket".toList then .kw ["ssl_version"]
  else if qual == "pyOpenSSL.SSL.Context".toList then .kw ["method"]
  else .kw ["method", "ssl_version"]

/-- B503: some default value of the function is an attribute whose last component is a bad
protocol constant (`defaults` = the dotted names of the positional defaults, `""` for
non-attributes) -/
def b503 (bad : List PyVal) (defaults : List Str) : Bool :=
  defaults.any fun d => bad.any fun b => (PyVal.str (last d)).beq b

/-- B504: `ssl.wrap_socket` without a (statically known) `ssl_version` -/
def b504 (qual : Str) (kws : Kws) : Bool :=
  qual == "ssl.wrap_socket".toList && kwUnknown kws "ssl_version"

/-! ## B501 / B113 — requests and httpx -/

/-- the call is `requests.<verb>` or `httpx.<attr>` (first and last component of the name) -/
def httpTarget (verbs httpx : List Str) (qual : Str) : Bool :=
  (root qual == "requests".toList && verbs.contains (last qual)) ||
  (root qual == "httpx".toList && httpx.contains (last qual))

def b501 (T : CryptoTables) (qual : Str) (kws : Kws) : Bool :=
  httpTarget T.b501HttpVerbs T.b501HttpxAttrs qual && kwIn kws "verify" [.str "False".toList]

/-- B113: a `requests` verb without (known) timeout, or a `requests`/`httpx` call with `timeout=None` -/
def b113 (T : CryptoTables) (qual : Str) (kws : Kws) : Bool :=
  (root qual == "requests".toList && T.b113HttpVerbs.contains (last qual) && kwUnknown kws "timeout") ||
  (httpTarget T.b113HttpVerbs T.b113HttpxAttrs qual && kwIn kws "timeout" [.str "None".toList])

/-- the *documented* B113 table ("missing or None"): a statically unknown timeout expression is a timeout -/
def b113Documented (T : CryptoTables) (qual : Str) (kws : Kws) : Bool :=
  (root qual == "requests".toList && T.b113HttpVerbs.contains (last qual) && (kw kws "timeout").isNone) ||
  (httpTarget T.b113HttpVerbs T.b113HttpxAttrs qual && kwIn kws "timeout" [.str "None".toList])

/-! ## B507 — paramiko host-key policies -/

def autoAccepting : List Str := ["AutoAddPolicy".toList, "WarningPolicy".toList]

/-- `policy` = the class named by the first positional argument (`paramiko.AutoAddPolicy`,
`AutoAddPolicy`, `paramiko.AutoAddPolicy()`, `AutoAddPolicy()`), if it has one of these shapes -/
def b507 (paramikoImported : Bool) (qual : Str) (policy : Option Str) : Bool :=
  paramikoImported && last qual == "set_missing_host_key_policy".toList &&
  match policy with
  | some p => autoAccepting.contains p
  | none => false

/-! ## B508 / B509 — SNMP -/

def b508 (qual : Str) (kws : Kws) : Bool :=
  qual == "pysnmp.hlapi.CommunityData".toList && kwIn kws "mpModel" [.int 0, .int 1]

/-- a `UsmUserData` call is encrypted (authPriv) when it passes both an authentication key and a
privacy key — second and third positional parameter, or `authKey=` / `privKey=` -/
def usmEncrypted (nargs : Nat) (kws : Kws) : Bool :=
  (2 ≤ nargs || (kw kws "authKey").isSome) && (3 ≤ nargs || (kw kws "privKey").isSome)

def b509 (qual : Str) (nargs : Nat) (kws : Kws) : Bool :=
  qual == "pysnmp.hlapi.UsmUserData".toList && !usmEncrypted nargs kws

end Bandit.Spec.Crypto
