import Bandit.Format
/-!
# What C09 demands of the report formatters, stated independently of the code

* what a source line is (`IsLine`), and how an excerpt of numbered lines looks (`numbered`);
* what a user template of the custom formatter *means* (`TSeg`, `source`, `meaning`);
* which leaves of a report must never be written verbatim (`Origin.fromSource`, in the model file).
-/
namespace Bandit.Format.Spec
open Bandit Bandit.Format

/-- a source line as `linecache` delivers it: text without newline, then one newline -/
def IsLine (t : Str) : Prop := ∃ b, t = b ++ ['\n'] ∧ '\n' ∉ b

/-- an excerpt: the source lines `ts`, numbered from `l`, each rendered as `"<number><sep><line>"` -/
def numbered (sep : Char) : Nat → List Str → List Str
  | _, [] => []
  | l, t :: ts => (natStr l ++ sep :: t) :: numbered sep (l + 1) ts

/-- source lines `l .. l+k-1` (1-based) as far as the file has them -/
def window (file : List Str) (l k : Nat) : List Str := (file.drop (l - 1)).take k

/-- a record carries the six fields the property names, with the finding's own values -/
def Carries (r : Record) (i : Issue) : Prop :=
  ∀ o ∈ sixFields, ∃ l ∈ r, l.origin = o ∧ l.val = fieldVal i o

/-- a user template, as the user thinks of it: literal text, a literal brace (written doubled), or a tag -/
inductive TSeg where
  | text (s : Str)
  | lbrace
  | rbrace
  | tag (n : Str)
deriving DecidableEq, Repr

def TSeg.WF : TSeg → Prop
  | .text s => ∀ c ∈ s, c ≠ '{' ∧ c ≠ '}'
  | .tag n => n ≠ [] ∧ ∀ c ∈ n, c ≠ '{' ∧ c ≠ '}' ∧ fieldSpecial c = false
  | _ => True

/-- how the user writes the segment -/
def TSeg.source : TSeg → Str
  | .text s => s
  | .lbrace => ['{', '{']
  | .rbrace => ['}', '}']
  | .tag n => '{' :: n ++ ['}']

/-- what the segment prints for one finding: a known tag prints the finding's value (verbatim, whatever
characters it contains), literal text and braces print themselves; for a tag that is not one of the
eleven documented ones bandit warns "will be skipped" and prints the bare tag name -/
def TSeg.meaning (i : Issue) : TSeg → Str
  | .text s => s
  | .lbrace => ['{']
  | .rbrace => ['}']
  | .tag n => (tagValue i n).getD n

def templateSource (segs : List TSeg) : Str := segs.flatMap TSeg.source

/-- one line per finding -/
def reportMeaning (segs : List TSeg) (issues : List Issue) : Str :=
  issues.flatMap fun i => segs.flatMap (TSeg.meaning i) ++ ['\n']

def TSeg.isTag : TSeg → Bool
  | .tag _ => true
  | _ => false

/-! ### concrete witnesses used by the `NEG_…` theorems and the non-vacuity examples -/

/-- `k` source lines `"l1\n"`, `"l2\n"`, … -/
def srcLines (k : Nat) : List Str := (List.range k).map fun j => 'l' :: natStr (j + 1) ++ ['\n']

/-- a B602-like finding in an 8-line file -/
def witnessIssue (lineno : Nat) (range : List Nat) (text : String) : Issue :=
  { testId := "B602".toList, testName := "t".toList, fname := "/a.py".toList, sev := "LOW".toList, conf := "HIGH".toList,
    text := text.toList, lineno := lineno, range := range, col := 0, endCol := 13, cweId := 78, cweLink := [], url := [],
    abspath := "/a.py".toList, relpath := "a.py".toList, file := srcLines 8 }

end Bandit.Format.Spec
