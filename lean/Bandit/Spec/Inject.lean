import Bandit.Plugins.DjangoXss
/-!
# What C17 demands, written from the property text and the plugin documentation

Nothing here mentions how the checks compute their answer: the definitions are decision tables
over *shapes* (which keyword is present, what kind of value it has, …) and a denotational reading
of the SQL pattern.  `Props/C17.lean` relates the model of the code to them.
-/
namespace Bandit.Spec
open Bandit

/-! ## "SQL-looking": the documented verb patterns
`select\s.*from\s | delete\s+from\s | insert\s+into\s.*values\s | update\s.*set\s`, case-insensitive,
`.` matching any character, anywhere in the string. -/

def lit (w : String) : Str := w.toList

/-- `select\s.*from\s` matches a prefix of `t` -/
def SelectAt (sp : Char → Bool) (t : Str) : Prop :=
  ∃ c mid d rest, t = lit "select" ++ c :: mid ++ lit "from" ++ d :: rest ∧ sp c = true ∧ sp d = true
/-- `delete\s+from\s` -/
def DeleteAt (sp : Char → Bool) (t : Str) : Prop :=
  ∃ c ws d rest, t = lit "delete" ++ c :: ws ++ lit "from" ++ d :: rest ∧ sp c = true ∧ (∀ x ∈ ws, sp x = true) ∧ sp d = true
/-- `insert\s+into\s.*values\s` -/
def InsertAt (sp : Char → Bool) (t : Str) : Prop :=
  ∃ c ws c2 mid d rest, t = lit "insert" ++ c :: ws ++ lit "into" ++ c2 :: mid ++ lit "values" ++ d :: rest ∧
    sp c = true ∧ (∀ x ∈ ws, sp x = true) ∧ sp c2 = true ∧ sp d = true
/-- `update\s.*set\s` -/
def UpdateAt (sp : Char → Bool) (t : Str) : Prop :=
  ∃ c mid d rest, t = lit "update" ++ c :: mid ++ lit "set" ++ d :: rest ∧ sp c = true ∧ sp d = true

/-- `SIMPLE_SQL_RE.search` succeeds on the case-folded string `f` -/
def SqlLike (sp : Char → Bool) (f : Str) : Prop :=
  ∃ pre t, f = pre ++ t ∧ (SelectAt sp t ∨ DeleteAt sp t ∨ InsertAt sp t ∨ UpdateAt sp t)

/-! ## Decision tables -/

/-- B608: MEDIUM severity; MEDIUM confidence directly inside `execute()`/`executemany()` (and, as
the plugin documents, never for `str.replace`), else LOW -/
def b608 (sqlLike insideExecute viaReplace : Bool) : Option (Rank × Rank) :=
  if sqlLike then some (.medium, if insideExecute && !viaReplace then .medium else .low) else none

/-- how an argument of `extra()` is written -/
inductive ArgShape where
  | absent | literalList | literalDict | other
deriving DecidableEq, Repr

/-- how a (possibly absent) argument is written -/
def argShape : Option Node → ArgShape
  | none => .absent
  | some n =>
    if n.isKind "List" then (if (n.kidList "elts").all Node.isStrConst then .literalList else .other)
    else if n.isKind "Dict" then
      (if (n.kidList "keys").all Node.isStrConst && (n.kidList "values").all Node.isStrConst then .literalDict else .other)
    else .other

/-- B610: `where`/`tables` must be lists of string literals, `select` a dict of string literals -/
def b610 (select whr tables : ArgShape) : Option (Rank × Rank) :=
  if (whr != .absent && whr != .literalList) || (tables != .absent && tables != .literalList)
     || (select != .absent && select != .literalDict) then some (.medium, .medium) else none

/-- B611: the SQL argument of `RawSQL` must be a string literal -/
def b611 (sqlIsLiteral : Bool) : Option (Rank × Rank) := if sqlIsLiteral then none else some (.medium, .medium)

/-- B701 by what `autoescape=` says -/
def b701 : Plugins.Autoescape → Option (Rank × Rank)
  | .absent => some (.high, .high)
  | .off => some (.high, .high)
  | .on => none
  | .selected => none
  | .other => some (.high, .medium)

/-- B506: `yaml.load` unless the loader (keyword or second positional) is `SafeLoader`/`CSafeLoader` -/
def safeLoader (v : PyVal) : Bool := v.beq (.str (lit "SafeLoader")) || v.beq (.str (lit "CSafeLoader"))
def b506 (isYamlLoad : Bool) (loaderKw : Option PyVal) (loaderPos : PyVal) : Option (Rank × Rank) :=
  if isYamlLoad && !((loaderKw.map safeLoader).getD false) && !safeLoader loaderPos then some (.medium, .high) else none

/-- B614: `torch.load` unless `weights_only=True` -/
def b614 (isTorchLoad : Bool) (weightsOnly : Option PyVal) : Option (Rank × Rank) :=
  if isTorchLoad && !((weightsOnly.map fun v => v.beq (.str (lit "True"))).getD false) then some (.medium, .high) else none

/-- how `members=` of `extractall` is written -/
inductive Members where
  | absent | functionCall | other
deriving DecidableEq, Repr

def members (present isFunctionCall : Bool) : Members :=
  if present then (if isFunctionCall then .functionCall else .other) else .absent

/-- B202: `filter="data"` is safe; otherwise graded by `members` -/
def b202 (filterData : Bool) (m : Members) : Option (Rank × Rank) :=
  if filterData then none else
    match m with
    | .functionCall => some (.low, .low)
    | .other => some (.medium, .medium)
    | .absent => some (.high, .high)

/-- the exception class of a handler -/
inductive Handler where
  | bare | exception | typed
deriving DecidableEq, Repr

/-- B110/B112: a handler whose whole body is `pass`/`continue`, bare or catching `Exception`;
other exception types only with `check_typed_exception` -/
def handler (checkTyped : Bool) (h : Handler) (bodyIsTheStatement : Bool) : Option (Rank × Rank) :=
  if bodyIsTheStatement && (checkTyped || h != .typed) then some (.low, .high) else none

end Bandit.Spec
