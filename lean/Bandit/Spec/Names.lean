import Bandit.Basic
/-!
# What the password-name pattern `RE_CANDIDATES` denotes

Written from the regex source pinned by `Props.C16.re_candidates_source_known`,
`(^W$|_W_|^W_|_W$)` with `W = pas+wo?r?d|pass(phrase)?|pwd|token|secrete?` under `re.IGNORECASE`;
nothing here mentions how the matcher computes its answer.  `Props/C16.lean` relates the model of the
code to it (`candidate_is_pattern`).
-/
namespace Bandit.Spec
open Bandit

/-- `pas+wo?r?d`: `pa`, one or more `s`, `w`, an optional `o`, an optional `r`, `d` -/
def PasswordLike (w : Str) : Prop :=
  ∃ (k : Nat) (o r : Str), 1 ≤ k ∧ (o = [] ∨ o = ['o']) ∧ (r = [] ∨ r = ['r']) ∧
    w = "pa".toList ++ List.replicate k 's' ++ "w".toList ++ o ++ r ++ "d".toList

/-- the language of `W = pas+wo?r?d|pass(phrase)?|pwd|token|secrete?` (lower case) -/
def PwWord (w : Str) : Prop :=
  PasswordLike w ∨ w = "pass".toList ∨ w = "passphrase".toList ∨ w = "pwd".toList ∨
    w = "token".toList ∨ w = "secret".toList ∨ w = "secrete".toList

/-- what may precede the word: the start of the string (`^`) or an underscore -/
def LeftOk (pre : Str) : Prop := pre = [] ∨ pre.getLast? = some '_'

/-- what may follow the word: the end of the string, a final newline (`$` without `re.MULTILINE`
also matches just before a trailing `\n`), or an underscore -/
def RightOk (post : Str) : Prop := post = [] ∨ post = ['\n'] ∨ post.head? = some '_'

/-- `RE_CANDIDATES.search` succeeds on the case-folded string `s`: the four alternatives
`^W$`, `_W_`, `^W_`, `_W$` are the four combinations of `LeftOk` and `RightOk` -/
def CandidateSpec (s : Str) : Prop :=
  ∃ pre w post, s = pre ++ w ++ post ∧ PwWord w ∧
    (pre = [] ∨ pre.getLast? = some '_') ∧ (post = [] ∨ post = ['\n'] ∨ post.head? = some '_')

end Bandit.Spec
