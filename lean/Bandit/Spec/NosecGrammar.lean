import Bandit.Nosec
/-!
# The nosec comment grammar, read off the two regex sources

`NOSEC_COMMENT = #\s*nosec:?\s*(?P<tests>[^#]+)?#?` (searched, so: leftmost match) and
`NOSEC_COMMENT_TESTS = (?:(B\d+|[a-z\d_]+),?)` under `re.IGNORECASE` (`finditer` over the `tests` group),
both pinned by `Props.C02.regex_sources_known`.  The definitions below are *relations* between texts:
they say which decompositions of the comment the regexes accept (greedy quantifiers become "the next
character does not continue the run"), not how to find them.  Only the data types `CharClasses` and
`Registry` are shared with the model; `Props/C02.lean` (`parse_is_grammar`) relates `Nosec.parse` to this.
-/
namespace Bandit.Spec
open Bandit
variable (cc : CharClasses)

/-- every character is matched by `\s` -/
def AllSpace (ws : Str) : Prop := ∀ c ∈ ws, cc.isSpace c = true

/-- `#\s*nosec` matches at the beginning of `t` and leaves `rest` -/
def MarkerAt (t rest : Str) : Prop :=
  ∃ ws, AllSpace cc ws ∧ t = '#' :: ws ++ "nosec".toList ++ rest

/-- `search`: the marker matches at some position of the comment and at no earlier one -/
def FirstMarker (comment rest : Str) : Prop :=
  ∃ pre t, comment = pre ++ t ∧ MarkerAt cc t rest ∧
    ∀ pre' t' rest', comment = pre' ++ t' → MarkerAt cc t' rest' → pre.length ≤ pre'.length

/-- `:?\s*(?P<tests>[^#]+)?#?` applied to what follows the marker: an optional colon (taken when
present), all the whitespace there is, then `tests` = everything up to the next `#` or the end
(`tests = []` stands for the group not taking part in the match) -/
def TestsOf (rest tests : Str) : Prop :=
  ∃ colon ws tail, rest = colon ++ ws ++ tests ++ tail ∧
    (colon = [':'] ∨ (colon = [] ∧ rest.head? ≠ some ':')) ∧
    AllSpace cc ws ∧ (∀ c, (tests ++ tail).head? = some c → cc.isSpace c = false) ∧
    '#' ∉ tests ∧ (tail = [] ∨ tail.head? = some '#')

/-- `B\d+` (under IGNORECASE also `b\d+`) -/
def IsBId (t : Str) : Prop :=
  ∃ b ds, t = b :: ds ∧ (b = 'B' ∨ b = 'b') ∧ ds ≠ [] ∧ ∀ d ∈ ds, cc.isDecimal d = true

/-- `[a-z\d_]+` -/
def IsWord (t : Str) : Prop := t ≠ [] ∧ ∀ c ∈ t, cc.isTok c = true

/-- the first alternative `B\d+` can start here -/
def StartsBId (s : Str) : Prop :=
  ∃ b d r, s = b :: d :: r ∧ (b = 'B' ∨ b = 'b') ∧ cc.isDecimal d = true

/-- `(B\d+|[a-z\d_]+)` matches the prefix `t` of `s = t ++ rest`: the alternatives are tried in order
and each run is as long as it can be — `B101x` gives `B101`, `xB101` gives `xB101` -/
def FirstTok (s t rest : Str) : Prop :=
  s = t ++ rest ∧
  ((IsBId cc t ∧ ∀ d, rest.head? = some d → cc.isDecimal d = false) ∨
   (¬ StartsBId cc s ∧ IsWord cc t ∧ ∀ d, rest.head? = some d → cc.isTok d = false))

/-- `finditer`: the captured tokens of a text, left to right.  A character at which no token can start is
a separator (blank, comma, punctuation, any other text); after a token one comma is swallowed (`,?`). -/
inductive Tokens : Str → List Str → Prop
  | done : Tokens [] []
  | sep {c : Char} {s : Str} {ts : List Str} :
      cc.isTok c = false → ¬ StartsBId cc (c :: s) → Tokens s ts → Tokens (c :: s) ts
  | tok {s t rest rest' : Str} {ts : List Str} :
      FirstTok cc s t rest → (rest = ',' :: rest' ∨ (rest = rest' ∧ rest.head? ≠ some ',')) →
      Tokens rest' ts → Tokens s (t :: ts)

/-- `_parse_nosec_comment` returns the set of these ids (`[]` = blanket nosec): the tokens that are
a known test id, or the name of a known test (then its id); unknown tokens are dropped -/
def LookedUp (reg : Registry) (toks : List Str) : List Str := toks.filterMap reg.resolve

/-- the whole reading of a comment: marker, `tests` group, tokens, look-up -/
def NosecReads (reg : Registry) (comment : Str) (ids : List Str) : Prop :=
  ∃ rest tests toks, FirstMarker cc comment rest ∧ TestsOf cc rest tests ∧ Tokens cc tests toks ∧
    ids = LookedUp reg toks

/-- the comment contains `#\s*nosec` somewhere -/
def HasMarker (comment : Str) : Prop := ∃ pre t rest, comment = pre ++ t ∧ MarkerAt cc t rest

end Bandit.Spec
