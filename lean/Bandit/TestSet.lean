import Bandit.Checks
/-!
# Test selection (`BanditTestSet._get_filter`, `extension_loader.validate_profile`)
-/
namespace Bandit

structure Profile where
  incl : List Str := []
  excl : List Str := []
deriving Inhabited, Repr

/-- the ID universe as `_get_filter` sees it -/
structure IdUniverse where
  plugins : List Str
  builtin : List Str
  blacklist : List Str
deriving Inhabited

def b001 : Str := "B001".toList

/-- the backwards-compatibility rule: `B001` alone stands for all blacklist tests; together with a
specific blacklist ID it stands for nothing -/
def expandB001 (u : IdUniverse) (s : List Str) : List Str :=
  if s.contains b001 then
    (if s.any (u.blacklist.contains ·) then s else s ++ u.blacklist).filter (· != b001)
  else s

/-- `_get_filter`: the set of test IDs that will run (as a list; order irrelevant) -/
def getFilter (u : IdUniverse) (p : Profile) : List Str :=
  let inc := expandB001 u p.incl
  let exc := expandB001 u p.excl
  let filtered := if !inc.isEmpty then inc else u.plugins ++ u.builtin ++ u.blacklist
  filtered.filter (fun i => !exc.contains i)

/-- `validate_profile`: a test both included and excluded is rejected (`ValueError` ⇒ exit 2) -/
def profileRejected (p : Profile) : Bool := p.incl.any (p.excl.contains ·)

def keepOf (u : IdUniverse) (p : Profile) : Str → Bool := fun i => (getFilter u p).contains i

end Bandit
