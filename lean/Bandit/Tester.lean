import Bandit.Names
import Bandit.Nosec
/-!
# Checks, the tester (`tester.run_tests`) and the per-file traversal (`node_visitor.process`)
-/
namespace Bandit

inductive Rank where
  | undefined | low | medium | high
deriving DecidableEq, Repr, Inhabited

namespace Rank
def toNat : Rank → Nat | undefined => 0 | low => 1 | medium => 2 | high => 3
def name : Rank → String | undefined => "UNDEFINED" | low => "LOW" | medium => "MEDIUM" | high => "HIGH"
def ofStr? (s : Str) : Option Rank :=
  if s == "UNDEFINED".toList then some undefined else if s == "LOW".toList then some low
  else if s == "MEDIUM".toList then some medium else if s == "HIGH".toList then some high else none
instance : LE Rank := ⟨fun a b => a.toNat ≤ b.toNat⟩
instance (a b : Rank) : Decidable (a ≤ b) := inferInstanceAs (Decidable (a.toNat ≤ b.toNat))
end Rank

/-- A check's result with its location selector resolved (`lineno`/`col_offset` as passed to
`Issue(...)`, `none` = left to the tester's defaults). -/
structure Raw where
  id : Str := []          -- `test_id`; empty unless the check names it (only the blacklist does)
  sev : Rank
  conf : Rank
  lineno : Option Nat := none
  col : Option Nat := none
  /-- `issue.linerange` when the check sets it itself (only the file-level B613 does) -/
  range : Option (List Nat) := none
deriving DecidableEq, Repr, Inhabited

/-- How a check locates its finding.  Checks decide on the shape of the code; *where* the finding
is reported is one of a few selectors resolved by the tester against the visited node:
the context default, the node's own first line (`context.node.lineno`), the line of the first
present keyword among `names` (`get_lineno_for_call_arg`, `a or b` chains), or an absolute position
(file-level checks). -/
inductive LocSel where
  | ctx
  | node
  | kw (names : List String)
  | abs (line : Nat) (col : Nat)
deriving DecidableEq, Repr, Inhabited

/-- What a check returns (`issue.Issue(...)`): ranks, optional explicit test ID, location selector. -/
structure PRaw where
  id : Str := []
  sev : Rank
  conf : Rank
  loc : LocSel := .ctx
deriving DecidableEq, Repr, Inhabited

/-- The location part of the raw context built by `pre_visit` / `visit_Str` / `process`. -/
structure Ctx where
  lineno : Option Nat
  col : Option Nat
  linerange : List Nat
deriving DecidableEq, Repr, Inhabited

/-- Everything a check can look at. -/
structure Env where
  v : Visit
  st : VState
  ctx : Ctx
  lines : List Str := []      -- decoded physical lines of the file (for `File` checks)
  fileName : Str := []
deriving Inhabited

namespace Env
def node (e : Env) : Node := e.v.node
def call? (e : Env) : Option CallView := e.v.node.asCall?
/-- `context["qualname"]` for a Call -/
def qual (e : Env) : Str := match e.call? with | some c => callName e.st.aliases c | none => []
/-- `context["name"]` for a Call -/
def name (e : Env) : Str := Str.lastDot e.qual
end Env

/-- A registered check: `_test_id`, plugin name, `_checks`, and the decision function. -/
structure Check where
  id : Str
  name : Str
  kinds : List Str
  run : Env → M (Option PRaw)
  /-- does the decision compare source positions (only `django_mark_safe` does)?  All other checks
  are run on the position-erased visit: what they decide cannot depend on line numbers, and *where*
  they report is a `LocSel` the tester resolves. -/
  usesPos : Bool := false

/-- A plugin check: plugins never name their test ID (the tester fills it in), which the
constructor makes true by construction. -/
def Check.plugin (id name : String) (kinds : List Str) (f : Env → M (Option PRaw)) : Check :=
  { id := id.toList, name := name.toList, kinds := kinds,
    run := fun e => (f e).map (Option.map fun r => { r with id := [] }) }

/-- A reported finding, after the tester filled in the defaults. -/
structure Finding where
  id : Str
  sev : Rank
  conf : Rank
  line : Nat
  range : List Nat
  col : Nat
deriving DecidableEq, Repr, Inhabited

/-- `nosec_lines`: line ↦ result of `_parse_nosec_comment` for the comment on that line. -/
abbrev NosecMap := List (Nat × Option (List Str))

def NosecMap.get (nm : NosecMap) (l : Nat) : Option (List Str) := (nm.find? (·.1 == l)).bind (·.2)

/-- `utils.get_nosec`: first non-`None` entry over the context's line range -/
def getNosec (nm : NosecMap) (range : List Nat) : Option (List Str) := range.findSome? nm.get

/-- `_get_nosecs_from_contexts` with a test result: `none` = no nosec comment applies;
`some S` = union of the tests named on the reported line and on the first nosec'd context line. -/
def nosecsFor (nm : NosecMap) (raw : Raw) (ctx : Ctx) : Option (List Str) :=
  let base := raw.lineno.bind nm.get        -- uses the check-supplied line only (before defaults)
  let cx := getNosec nm ctx.linerange
  match base, cx with
  | none, none => none
  | some b, none => some b
  | none, some c => some c
  | some b, some c => some (b ++ c)

inductive Event where
  | finding (f : Finding)
  | nosec (f : Finding)       -- withheld by a bare nosec (`metrics.note_nosec`); `f` = what would have been reported
  | skipped (f : Finding)     -- withheld by a nosec naming the test (`note_skipped_test`)
  | crash (test : Str)        -- `report_error`: internal error in a check
deriving DecidableEq, Repr, Inhabited

/-- The tester's treatment of one raw result. -/
def emit (nm : NosecMap) (ctx : Ctx) (raw : Raw) : M Event := do
  let skip := nosecsFor nm raw ctx
  let line ← match raw.lineno with
    | some l => pure l
    | none => match ctx.lineno with | some l => pure l | none => throw Crash.keyError
  let col ← match raw.col with
    | some c => pure c
    | none => match ctx.col with | some c => pure c | none => throw Crash.keyError
  let f : Finding := ⟨raw.id, raw.sev, raw.conf, line, raw.range.getD ctx.linerange, col⟩
  match skip with
  | some [] => pure (.nosec f)
  | some s => if s.contains raw.id then pure (.skipped f) else pure (.finding f)
  | none => pure (.finding f)

/-- line of the first keyword named `name` (`get_lineno_for_call_arg`) -/
def kwLine (n : Node) (name : String) : Option Nat :=
  match n.asCall? with
  | some c => c.kwLineno name
  | none => none

/-- resolve a location selector against the visited node -/
def PRaw.resolve (v : Visit) (p : PRaw) : Raw :=
  match p.loc with
  | .ctx => { id := p.id, sev := p.sev, conf := p.conf }
  | .node => { id := p.id, sev := p.sev, conf := p.conf, lineno := v.node.line? }
  | .kw names => { id := p.id, sev := p.sev, conf := p.conf, lineno := names.findSome? (kwLine v.node) }
  | .abs l c => { id := p.id, sev := p.sev, conf := p.conf, lineno := some l, col := some c, range := some [l] }

/-- `if result.test_id == "": result.test_id = test._test_id` — plugins do not name their ID,
the tester fills it in; only the blacklist names the matching rule's ID itself. -/
def fillId (c : Check) (raw : Raw) : Raw := if raw.id.isEmpty then { raw with id := c.id } else raw

/-- the environment a check decides on -/
def Ctx.blank : Ctx := ⟨none, none, []⟩

/-- position-free view of an environment: positions erased from the visit, location context blanked -/
def Env.blind (env : Env) : Env := { env with v := env.v.erase, ctx := Ctx.blank }

def Env.forCheck (env : Env) (c : Check) : Env :=
  if c.usesPos then env else env.blind

/-- `run_tests` for one check on one context. -/
def runCheck (nm : NosecMap) (env : Env) (c : Check) : List Event :=
  match c.run (env.forCheck c) with
  | .error _ => [.crash c.name]
  | .ok none => []
  | .ok (some praw) =>
    match emit nm env.ctx (fillId c (praw.resolve env.v)) with
    | .ok e => [e]
    | .error _ => [.crash c.name]

def checksFor (checks : List Check) (kind : Str) : List Check := checks.filter (·.kinds.contains kind)

/-! ## Line ranges (`utils.linerange`) -/

def rangeList (lo hi : Nat) : List Nat := (List.range (hi + 1 - lo)).map (· + lo)

/-- `utils.calc_linerange`: (min, max) of first-lines over the subtree; `none` when no positioned node -/
def calcLinerange : Node → Option (Nat × Nat)
  | .mk _ p _ ks =>
    let own := p.map fun q => (q.line, q.line)
    merge own (slots ks)
where
  merge : Option (Nat × Nat) → Option (Nat × Nat) → Option (Nat × Nat)
    | none, b => b
    | a, none => a
    | some (a, b), some (c, d) => some (min a c, max b d)
  slots : List (Str × Bool × List Node) → Option (Nat × Nat)
    | [] => none
    | (_, _, ns) :: rest => merge (nodes ns) (slots rest)
  nodes : List Node → Option (Nat × Nat)
    | [] => none
    | n :: ns => merge (if n.isAtomNode then none else calcLinerange n) (nodes ns)

def strippedFields : List Str := ["body".toList, "orelse".toList, "handlers".toList, "finalbody".toList]

/-- `utils.linerange(node)`; `sib` is `node._bandit_sibling`. -/
def linerange (n : Node) (sib : Option Node) : List Nat :=
  match n.pos with
  | some p => rangeList p.line p.endLine
  | none =>
    let ks := n.kids.filter (fun s => !strippedFields.contains s.1)
    let (lo, hi) := (calcLinerange.slots ks).getD (0, 1)
    match sib.bind Node.line? with
    | some sl => if sl > lo + 1 then rangeList lo (sl - 1) else rangeList lo hi
    | none => rangeList lo hi

/-! ## Dispatch (`visit`, `visit_*`) -/

/-- Check type run for a visited node and the context it runs in; `none` = no tests run. -/
def dispatch (v : Visit) : Option (Str × Ctx) :=
  let n := v.node
  let ctx : Ctx := ⟨n.line?, n.col?, linerange n v.sib⟩
  if n.isKind "ClassDef" then none
  else if n.isKind "Constant" then
    let parentIsExpr := match v.parent? with | some p => p.isKind "Expr" | none => false
    let pctx : Ctx := match v.anc with
      -- the parent's own `_bandit_sibling` only matters for unpositioned parents, whose
      -- list-siblings are unpositioned too on CPython 3.12 (asserted by `astser.py`)
      | p :: _ => { ctx with linerange := linerange p none }
      | [] => ctx
    if n.isStrConst then (if parentIsExpr then none else some ("Str".toList, pctx))
    else if n.isBytesConst then (if parentIsExpr then none else some ("Bytes".toList, pctx))
    else none
  else if n.isKind "ImportFrom" && (importModule? n).isNone then some ("Import".toList, ctx)
  else some (n.kind, ctx)

def runVisit (checks : List Check) (nm : NosecMap) (lines : List Str) (s : VState) (v : Visit) : List Event :=
  match dispatch v with
  | none => []
  | some (kind, ctx) =>
    -- the file's text (`file_data`) is part of the `File` context only: node contexts do not carry it
    let _ := lines
    (checksFor checks kind).flatMap (runCheck nm { v := v, st := s, ctx := ctx })

/-- The traversal as a fold: the state is updated by a node *before* tests run on it. -/
def scanVisits (checks : List Check) (nm : NosecMap) (lines : List Str) : VState → List Visit → List Event
  | _, [] => []
  | s, v :: vs =>
    let s' := s.update v.node
    runVisit checks nm lines s' v ++ scanVisits checks nm lines s' vs

def stateAfter : VState → List Visit → VState
  | s, [] => s
  | s, v :: vs => stateAfter (s.update v.node) vs

/-- the `File` pseudo-context of `node_visitor.process` (after the /repo fix recorded as C02-first-line-nosec-reaches-file-findings: its range is the placeholder line 0 only, so a comment on line 1 does not apply to whole-file findings elsewhere) -/
def fileCtx : Ctx := ⟨some 0, some 0, [0]⟩
def fileNode : Node := .mk "File".toList none [] []

/-- Input of a per-file scan -/
structure FileInput where
  root : Node
  nosec : NosecMap          -- already empty when `--ignore-nosec`
  lines : List Str := []

def scanFile (checks : List Check) (inp : FileInput) : List Event :=
  let vs := visits inp.root
  scanVisits checks inp.nosec inp.lines {} vs ++
    (checksFor checks "File".toList).flatMap
      (runCheck inp.nosec { v := ⟨[], fileNode, none⟩, st := stateAfter {} vs, ctx := fileCtx,
                             lines := inp.lines })

def findingsOf (es : List Event) : List Finding := es.filterMap fun | .finding f => some f | _ => none
def nosecCount (es : List Event) : Nat := (es.filter fun | .nosec _ => true | _ => false).length
def skippedCount (es : List Event) : Nat := (es.filter fun | .skipped _ => true | _ => false).length
def crashesOf (es : List Event) : List Str := es.filterMap fun | .crash t => some t | _ => none
/-- the findings withheld by nosec comments -/
def withheldOf (es : List Event) : List Finding :=
  es.filterMap fun | .nosec f => some f | .skipped f => some f | _ => none

end Bandit
